#!/usr/bin/env python3
"""Generates MsqProofs/Lemmas/ParseSubst{Kw,Helpers,Defs,E1..E6,,Stmt,Stmt2}.lean: the parser half of C06 — replacing the INSIDE of a quoted
region never changes what the parser model does, only the payload texts it stores.  DERIVED from tools/gen_case.py (C09, parser half):
`CE`/`CEL` ↦ `QE`/`QEL` (tools/../ParseSubst1.lean), `up`-trees ↦ erased trees (`er`, ParseSubst0.lean); comparisons with string constants
need `plainB k` (one generated ground fact per constant of the model, ParseSubstKw.lean); all `String ==` are folded into `strEq` first.
What follows is the description of gen_case.py (read `QE` for `CE`, erasure for `upAll`).
The only function whose generated proof does not terminate is `pAnalyze` (four chained `search_and_move`s): its tail is named (`analyzeTail`) and related by hand.

Relational family: for every function `f` of MsqModel/Parse/{Prim,Expr,Stmt,Entry}.lean whose result is a run,

    f_qe : args ~ args' → f args ≈ f args'

where `~` is, per argument TYPE, `CE` (tokens), `CEL` (cursors), `QELL` (segment lists), equality of `upAll` (trees, stored strings;
`qeq erfun`) or plain equality (flags, numbers, strings the function TESTS: see ARG_EQ), and `≈` is `CER` / `CEX` (same error kind, or
values related by the `upAll` of the result type and related remaining cursors).  Definitions and the facts about tokens and look-aheads
are hand-written (MsqProofs/Lemmas/ParseSubst0..3.lean).  The mutual block goes by induction on the fuel (`structure SubF d n`, one
field per function).  Proof of one function: state it as `f args = res → f args' = res' → res ≈ res'`, split BOTH runs completely
(`split_run`, `split_run'`), close every pair of paths with `grind` (which therefore never sees a `match`): pairs of different paths are
contradictory because every test gives the same answer on both sides, pairs of the same path build related trees.
A function whose proof gets stuck has a test that is NOT case-invariant: that is a finding candidate (see the final report / C09P.lean)."""
import re, os, sys
LEAN = os.path.join(os.path.dirname(os.path.dirname(os.path.abspath(__file__))), "lean")
rd = lambda p: open(os.path.join(LEAN, p), encoding="utf-8").read()
UPS = "erE, erO, erTR, erFT, erJR, erLat, erW"
GRIND = "grind -funext (gen := 40) (instances := 20000) (ematch := 30) [" + UPS + "%s]"

# ------------------------------------------------------------------------------------------------ small source parser (as gen_nopy.py)
def balanced(s, i):
    op, cl = s[i], {"(": ")", "{": "}", "[": "]"}[s[i]]
    d = 0
    while True:
        if s[i] == op: d += 1
        elif s[i] == cl:
            d -= 1
            if d == 0: return i + 1
        i += 1


def top_split(s, sep):
    out, d, cur, i = [], 0, "", 0
    while i < len(s):
        ch = s[i]
        if ch in "([{": d += 1
        elif ch in ")]}": d -= 1
        if d == 0 and s.startswith(sep, i):
            out.append(cur); cur = ""; i += len(sep); continue
        cur += ch; i += 1
    out.append(cur)
    return out


class Def: pass


def parse_defs(src):
    src = re.sub(r"/--.*?-/", lambda m: " " * len(m.group(0)), src, flags=re.S)
    starts = [m.start() for m in re.finditer(r"^def ", src, re.M)]
    out = []
    for a, b in zip(starts, starts[1:] + [len(src)]):
        txt = src[a:b]
        stop = re.search(r"^(mutual|end|theorem|abbrev|namespace|open|/-!)", txt, re.M)
        if stop: txt = txt[:stop.start()]
        m = re.match(r"def ([\w.?']+)\s*", txt)
        d = Def(); d.name = m.group(1); d.text = txt
        i = m.end(); d.binders = []
        while txt[i] in "({[":
            j = balanced(txt, i)
            names, ty = txt[i + 1:j - 1].split(":", 1)
            d.binders.append((txt[i], names.split(), ty.strip()))
            i = j
            while txt[i].isspace(): i += 1
        if txt.startswith(":=", i):
            d.alias = txt[i + 2:].strip(); d.ret = None; d.arrows = []; d.body = d.alias
            out.append(d); continue
        assert txt[i] == ":", (d.name, txt[i:i + 20])
        i += 1
        depth, j = 0, i
        while True:
            if txt[j] in "([{": depth += 1
            elif txt[j] in ")]}": depth -= 1
            if depth == 0 and txt.startswith(":=", j): body_at = j + 2; break
            if depth == 0 and (re.match(r"\n\s*\|", txt[j:]) or txt[j] == "|"): body_at = j; break
            j += 1
        parts = [p.strip() for p in top_split(" ".join(txt[i:j].split()), "→")]
        d.alias = None; d.arrows = parts[:-1]; d.ret = parts[-1]; d.body = txt[body_at:]
        out.append(d)
    return out


def typed(d): return d.ret is not None and (d.ret.startswith("R ") or d.ret.startswith("Except Err"))
def uses(name, body): return re.search(r"(?<![\w.])%s\b" % re.escape(name), body) is not None

# ------------------------------------------------------------------------------------------------ types → relations
BASE_UP = {"Expr": "erE", "Select": "erS", "Query": "erQ", "OrderItem": "erO", "TableRef": "erTR", "FromTable": "erFT", "Join": "erJ", "JoinRule": "erJR",
           "GroupBy": "erG", "Lateral": "erLat", "WithTable": "erW", "String": "er",
           "TableName": "erTN", "ColType": "erCT", "GenCol": "erGC", "DefCol": "erDC", "IndexCol": "erIC", "Index": "erIx", "ForeignKey": "erFK",
           "ColOrIdx": "erCI", "AlterOp": "erAO", "ConfigStr": "erCS", "CreateTable": "erCR", "InsertHead": "erIH", "Stmt": "erSt0", "Withs": "(Option.map (List.map erW))"}
BASE_ID = {"Bool", "Nat", "Int", "Unit", "KwKind", "RowItem", "IndexKind"}


def strip_par(t):
    t = t.strip()
    while t.startswith("(") and balanced(t, 0) == len(t): t = t[1:-1].strip()
    return t


def upfun(t):
    """the `upAll` of a type as a Lean term, or None when it is the identity"""
    t = strip_par(t)
    parts = top_split(t, "×")
    if len(parts) > 1:
        a, b = upfun(parts[0]), upfun("×".join(parts[1:]))
        if a is None and b is None: return None
        return "(Prod.map %s %s)" % (a or "id", b or "id")
    if t.startswith("List "):
        f = upfun(t[5:]); return None if f is None else "(List.map %s)" % f
    if t.startswith("Option "):
        f = upfun(t[7:]); return None if f is None else "(Option.map %s)" % f
    if t in BASE_ID: return None
    if t in BASE_UP: return BASE_UP[t]
    raise SystemExit("no upAll for type " + t)


def rel_args(t, a, b):
    t = strip_par(t)
    if t == "Tok": return "QE %s %s" % (a, b)
    if t == "List Tok": return "QEL %s %s" % (a, b)
    if t == "List (List Tok)": return "QELL %s %s" % (a, b)
    if t == "List (Expr × String × Nat)": return "qeq erSt %s %s" % (a, b)
    f = upfun(t)
    return "%s = %s" % (a, b) if f is None else "qeq %s %s %s" % (f, a, b)


def rv(t):
    if strip_par(t) == "Tok": return "QE"
    f = upfun(t)
    return "Eq" if f is None else "(qeq %s)" % f


def rel_res(ret):
    ret = strip_par(ret)
    if ret.startswith("R "): return "QER %s" % rv(ret[2:])
    assert ret.startswith("Except Err"), ret
    t = strip_par(ret[len("Except Err"):])
    m = re.match(r"Option \((.*) × List Tok\)$", t)
    if m: return "QEX (qeOpt %s)" % rv(m.group(1))
    if t == "List Tok": return "QEX QEL"
    m = re.match(r"(.*) × List Tok$", t)
    if m: return "QER %s" % rv(m.group(1))
    return "QEX %s" % rv(t)


# bare `String` / `List String` ARGUMENTS are key words the function tests or passes to a test (plain equality), except the few that are
# texts on their way into the tree (related by `up`):
ARG_UP = {("pCall", 1), ("pWithBody", 0), ("multiAliasLoop", 1), ("pJoinRule", 0)}
ARG_KW = {("pKwBody", 0)}                 # `up src` of a token, on its way into a chain of comparisons with plain constants
ARG_ER2 = {("configStringLoop", 1)}       # a config string under construction (concatenation of popped sources)
RES_ER2 = {"configStringLoop", "pConfigString"}


class Fn: pass


def mk_fn(name, params, ret, body, block):
    """params: list of (name or None, type); block functions have (d, fuel) in front"""
    f = Fn(); f.name, f.ret, f.body, f.block = name, ret, body, block
    f.ptys = [t for _, t in params]
    f.skip = [(n, t) in (("d", "Gen.D"), ("f", "Nat")) for n, t in params]
    return f


def quant(f):
    """variables, primed variables, hypotheses, application strings"""
    xs, ys, hyps, app1, app2 = [], [], [], [], []
    k = 0
    for i, t in enumerate(f.ptys):
        if f.skip[i]:
            n = "d" if t == "Gen.D" else "f"
            app1.append(n); app2.append(n); continue
        a, b = "x%d" % k, "y%d" % k
        xs.append(a); ys.append(b); app1.append(a); app2.append(b)
        if (f.name, k) in ARG_KW: hyps.append("kwRel %s %s" % (a, b))
        elif (f.name, k) in ARG_ER2: hyps.append("qeq er2 %s %s" % (a, b))
        elif strip_par(t) == "String" and (f.name, k) not in ARG_UP: hyps += ["%s = %s" % (a, b), "plainB %s = true" % a]
        elif strip_par(t) == "List String" and (f.name, k) not in ARG_UP: hyps += ["%s = %s" % (a, b), "%s.all plainB = true" % a]
        else: hyps.append(rel_args(t, a, b))
        k += 1
    return xs, ys, hyps, app1, app2


def res_of(f):
    return "QER (qeq er2)" if f.name in RES_ER2 else rel_res(f.ret)


def statement(f, fuel=None):
    xs, ys, hyps, a1, a2 = quant(f)
    pre = (f.name + " d " + fuel) if f.block else f.name
    q = ("∀ %s, " % " ".join(xs + ys)) if xs else ""
    return "%s%s%s (%s) (%s)" % (q, "".join(h + " → " for h in hyps), res_of(f), " ".join([pre] + a1), " ".join([pre] + a2))


def step_statement(f, fuel):
    xs, ys, hyps, a1, a2 = quant(f)
    pre = (f.name + " d " + fuel) if f.block else f.name
    q = ("∀ %s, " % " ".join(xs + ys)) if xs else ""
    return "%s%s∀ res res', %s = res → %s = res' → %s res res'" % (q, "".join(h + " → " for h in hyps), " ".join([pre] + a1), " ".join([pre] + a2), res_of(f))


def intro_line(f):
    xs, ys, hyps, _, _ = quant(f)
    return "  intro %s res res' h h'" % " ".join(xs + ys + ["hr%d" % i for i in range(len(hyps))])


HEADER = "/-! GENERATED by tools/gen_subst.py — C06, parser half: %s -/"
OPTS = ["set_option linter.unusedVariables false", "set_option linter.unusedSectionVars false", "set_option linter.unusedSimpArgs false",
        "set_option maxHeartbeats 4000000", "open Lex PM Ast", "namespace PMQ", "variable [S : PaySet]", ""]
CLOSE = "(try dsimp only at h h') <;> split_run <;> qel_sync <;> split_runq <;> qe_norm <;> qel_sync <;> qe_norm <;> (try simp only [strEq_fold] at *) <;> "

# ------------------------------------------------------------------------------------------------ helpers outside the block
HAND = {"matchSeq", "matchKw", "closed", "eachClosed", "pyInt", "asInt", "splitName"}     # ParseSubst3/3b (hand) or used only through token facts
LOOPS = {"multiAliasLoop", "castParamsLoop", "configStringLoop"}
known = ["matchSeq"]


def helper_fn(d):
    params = [(n, ty) for b, ns, ty in d.binders if b == "(" for n in ns] + [(None, t) for t in d.arrows]
    return mk_fn(d.name, params, d.ret, d.body, False)


def helper_lemma(d, known, extra=""):
    f = helper_fn(d)
    lem = extra
    xs, ys, hyps, a1, a2 = quant(f)
    out = ["theorem %s_qe : %s := by" % (d.name, statement(f))]
    hs = ["hr%d" % i for i in range(len(hyps))]
    if uses(d.name, d.body):      # loop on a private counter: the first argument, equal on both sides
        assert hyps[0] == "x0 = y0", d.name
        out += ["  intro x0", "  induction x0 with",
                "  | zero => intro %s y0 %s %s; subst hr0; simp [%s]" % (" ".join(xs[1:]), " ".join(ys[1:]), " ".join(hs), d.name),
                "  | succ g ih =>",
                "    intro %s y0 %s %s" % (" ".join(xs[1:]), " ".join(ys[1:]), " ".join(hs)), "    subst hr0",
                "    generalize h : %s = res" % " ".join([d.name, "(g+1)"] + a1[1:]), "    generalize h' : %s = res'" % " ".join([d.name, "(g+1)"] + a2[1:]),
                "    unfold %s at h h'" % d.name, "    " + CLOSE + GRIND % lem]
    else:
        out += ["  intro %s" % " ".join(xs + ys + hs) if xs else "  skip",
                "  generalize h : %s = res" % " ".join([d.name] + a1), "  generalize h' : %s = res'" % " ".join([d.name] + a2),
                "  unfold %s at h h'" % d.name, "  " + CLOSE + GRIND % lem]
    out += ["grind_pattern %s_qe => %s, %s" % (d.name, " ".join([d.name] + a1), " ".join([d.name] + a2)), ""]
    return out


# ------------------------------------------------------------------------------------------------ the plain constants of the model
def is_plain(k):
    return k == "" or (ord(k[0]) < 128 and k[0] not in "'\"`(")


kw_src = "".join(rd("MsqModel/Parse/%s.lean" % m) for m in ("Prim", "Expr", "Stmt", "Entry", "Entry2"))
kw_src = re.sub(r"/--.*?-/", "", kw_src, flags=re.S)
kw_src = re.sub(r"/-!.*?-/", "", kw_src, flags=re.S)
kw_src = re.sub(r"--[^\n]*", "", kw_src)
lits, lists = [], []
for m in re.finditer(r'"((?:[^"\\]|\\.)*)"', kw_src):
    if m.group(1) not in lits: lits.append(m.group(1))
for m in re.finditer(r'\[\s*"(?:[^"\\]|\\.)*"(?:\s*,\s*"(?:[^"\\]|\\.)*")*\s*\]', kw_src):
    items = re.findall(r'"((?:[^"\\]|\\.)*)"', m.group(0))
    if items not in lists: lists.append(items)
out = ["import MsqProofs.Lemmas.ParseSubst3b", HEADER % "one ground fact `plainB k = true` per string constant (and per literal list of constants) of the parser model: what `grind` uses to discharge the side condition of the comparison lemmas",
       "set_option maxRecDepth 100000", "open Lex PM Ast", "namespace PMQ", ""]
nk = 0
for k in lits:
    if "\\" in k or not is_plain(k): continue
    out.append('@[grind =] theorem plain_k%d : plainB "%s" = true := by decide' % (nk, k)); nk += 1
for i, items in enumerate(lists):
    if any("\\" in k or not is_plain(k) for k in items): continue
    out.append('@[grind =] theorem plain_l%d : [%s].all plainB = true := by decide' % (i, ", ".join('"%s"' % k for k in items)))
out += ["", "end PMQ"]
open(os.path.join(LEAN, "MsqProofs/Lemmas/ParseSubstKw.lean"), "w", encoding="utf-8").write("\n".join(out) + "\n")
print("plain constants:", nk, "literal lists:", len(lists))

expr_src = rd("MsqModel/Parse/Expr.lean")
mpos = expr_src.index("\nmutual\n"); epos = expr_src.index("\nend\n", mpos)
prim = [d for d in parse_defs(rd("MsqModel/Parse/Prim.lean")) if typed(d) and d.name not in HAND]
pre = [d for d in parse_defs(expr_src[:mpos]) if typed(d) and d.name not in HAND]
out = ["import MsqProofs.Lemmas.ParseSubstKw", HEADER % "the cursor primitives and the helpers outside the mutual block on two related cursors"] + OPTS
for d in prim + pre:
    out += helper_lemma(d, known); known.append(d.name)
out += ["end PMQ"]
open(os.path.join(LEAN, "MsqProofs/Lemmas/ParseSubstHelpers.lean"), "w", encoding="utf-8").write("\n".join(out) + "\n")

# ------------------------------------------------------------------------------------------------ the mutual block
block = expr_src[mpos:epos]
bdefs = list(re.finditer(r"^def (\w+) \(d : Gen\.D\) : Nat → (.*)$", block, re.M))
fns, order = {}, []
for i, m in enumerate(bdefs):
    parts = [p.strip() for p in top_split(m.group(2), "→")]
    body = block[m.end():bdefs[i + 1].start() if i + 1 < len(bdefs) else len(block)]
    body = re.sub(r"/--.*?-/", "", body, flags=re.S)
    fns[m.group(1)] = mk_fn(m.group(1), [(None, t) for t in parts[:-1]], parts[-1], body, True); order.append(m.group(1))

out = ["import MsqProofs.Lemmas.ParseSubstHelpers", HEADER % "the induction hypothesis for the mutual block of MsqModel/Parse/Expr.lean"] + OPTS
out.append("/-- every function of the mutual block, with fuel `n`, on related arguments (tokens / cursors that differ only inside quoted regions, trees equal after erasure): the same outcome, trees equal after the erasure of payload texts -/")
out.append("structure SubF (d : Gen.D) (n : Nat) : Prop where")
for n in order: out.append("  %s : %s" % (n, statement(fns[n], "n")))
out.append("")
# the induction hypothesis is used through E-matching on the two calls (as C08's `ConsF`)
for n in order:
    xs_, ys_, _, a1, a2 = quant(fns[n])
    out.append("grind_pattern SubF.%s => SubF d n, %s, %s" % (n, " ".join([n, "d", "n"] + a1), " ".join([n, "d", "n"] + a2)))
out += ["", "end PMQ"]
open(os.path.join(LEAN, "MsqProofs/Lemmas/ParseSubstDefs.lean"), "w", encoding="utf-8").write("\n".join(out) + "\n")

NPARTS = 6
parts = [[] for _ in range(NPARTS)]
for i, n in enumerate(order): parts[i % NPARTS].append(n)
HANDSTEP = {"pSplit", "pSelectStmt", "pUnions"}                 # fuel steps proved by hand in ParseSubst7.lean (the two-sided split is too slow on them)
NEED5 = {"pFunc", "pSingleParen", "pWindowBody"}      # functions whose step needs ParseSubst5.lean (hand-written extras)
for k, names in enumerate(parts):
    out = ["import MsqProofs.Lemmas.ParseSubst5" if NEED5 & set(names) else "import MsqProofs.Lemmas.ParseSubstDefs", HEADER % ("fuel step for the mutual block, part %d of %d" % (k + 1, NPARTS))] + OPTS
    out += ["variable (d : Gen.D)", ""]
    for n in names:
        f = fns[n]
        if n in HANDSTEP: continue
        out.append("theorem subF_%s (n : Nat) (ih : SubF d n) :" % n)
        out.append("    %s := by" % step_statement(f, "(n+1)"))
        out.append(intro_line(f))
        out.append("  unfold %s at h h'" % n)
        out.append("  " + CLOSE + GRIND % "")
        out.append("")
    out += ["end PMQ"]
    open(os.path.join(LEAN, "MsqProofs/Lemmas/ParseSubstE%d.lean" % (k + 1)), "w", encoding="utf-8").write("\n".join(out) + "\n")

out = ["import MsqProofs.Lemmas.ParseSubstE%d" % (k + 1) for k in range(NPARTS)] + ["import MsqProofs.Lemmas.ParseSubst7"]
out += [HEADER % "the mutual block, induction on the fuel; plain forms"] + OPTS + ["variable (d : Gen.D)", ""]
out.append("/-- **Payload invariance of the expression / SELECT parser**: all 80 functions of the mutual block -/")
out.append("theorem subF_all : ∀ n, SubF d n := by")
out.append("  intro n")
out.append("  induction n with")
out.append("  | zero => constructor <;> (intros; simp [" + ", ".join(order) + "])")
out.append("  | succ n ih => exact ⟨" + ", ".join("fun %s => subF_%s d n ih %s _ _ rfl rfl" % (
    " ".join(sum(([a, b] for a, b in zip(*quant(fns[n])[:2])), []) and (quant(fns[n])[0] + quant(fns[n])[1] + ["h%d" % i for i in range(len(quant(fns[n])[2]))])),
    n, " ".join(quant(fns[n])[0] + quant(fns[n])[1] + ["h%d" % i for i in range(len(quant(fns[n])[2]))])) for n in order) + "⟩")
out.append("")
for n in order:
    out.append("theorem %s_qe (d : Gen.D) (f : Nat) : %s := (subF_all d f).%s" % (n, statement(fns[n], "f").replace(n + " d f", n + " d f"), n))
out += ["", "end PMQ"]
open(os.path.join(LEAN, "MsqProofs/Lemmas/ParseSubst.lean"), "w", encoding="utf-8").write("\n".join(out) + "\n")
print(len(order), "functions of the block; helpers:", len(prim) + len(pre))

# ------------------------------------------------------------------------------------------------ statement level
STRUCT_ARGS = {"DefCol", "CreateTable"}
UPS_STMT = ", erTN, erCT, erGC, erDC, erIC, erIx, erFK, erCI, erAO, erCS, erCR, erIH, erSt0"
SKIP_STMT = {"eachClosed", "pKwTable"}
stmt_all = [d for d in parse_defs(rd("MsqModel/Parse/Stmt.lean")) if (typed(d) or d.alias) and d.name not in SKIP_STMT]
entry_src = rd("MsqModel/Parse/Entry.lean")
entry_defs = [d for d in parse_defs(entry_src) if typed(d) and d.name in ("pStatements", "pSubValue")]
_rv = rv


def rv(t):       # results that ARE cursors / segment lists
    t0 = strip_par(t)
    if t0 == "List (List Tok)": return "QELL"
    if t0 == "List Tok": return "CEL"
    return _rv(t)


def stmt_fn(d):
    params = [(n, ty) for b, ns, ty in d.binders if b == "(" for n in ns] + [(None, t) for t in d.arrows]
    return mk_fn(d.name, params, d.ret, d.body, False)


def ec_name(arg):
    return "eachClosed_" + re.sub(r"\W+", "_", arg).strip("_")


def each_closed_lemmas(body, done):
    out = []
    for m in re.finditer(r"eachClosed\s+(\((?:[^()]|\([^()]*\))*\)|\w+)", body):
        arg = m.group(1)
        if arg in done: continue
        done.add(arg)
        inner = arg[1:-1].split() if arg.startswith("(") else [arg]
        p, has = inner[0], len(inner) > 1
        ret = fns[p].ret if p in fns else [d for d in prim + pre + stmt_all if d.name == p][0].ret
        f = upfun(strip_par(ret)[2:])
        bind = "(d : Gen.D) (f : Nat) " if has else ""
        lem = "%s_qe%s" % (p, " d f" if has else "")
        if f is None:
            out += ["theorem %s_qe %s: ∀ segs segs', QELL segs segs' → QEX Eq (eachClosed %s segs) (eachClosed %s segs') :=" % (ec_name(arg), bind, arg, arg),
                    "  eachClosed_qe_eq _ _ (fun sg sg' h => %s sg sg' h)" % lem]
        else:
            out += ["theorem %s_qe %s: ∀ segs segs', QELL segs segs' → QEX (qeq (List.map %s)) (eachClosed %s segs) (eachClosed %s segs') :=" % (ec_name(arg), bind, f, arg, arg),
                    "  eachClosed_qe %s _ _ (fun sg sg' h => %s sg sg' h)" % (f, lem)]
        out += ["grind_pattern %s_qe => eachClosed %s segs, eachClosed %s segs'" % (ec_name(arg), arg, arg), ""]
    return out


out = ["import MsqProofs.Lemmas.ParseSubst", "import MsqProofs.Lemmas.ParseSubst6",
       HEADER % "the statement level (MsqModel/Parse/Stmt.lean) and `parse_statements` on two token lists that differ only inside quoted regions"] + OPTS
for n in order:
    xs_, ys_, _, a1, a2 = quant(fns[n])
    out.append("grind_pattern %s_qe => %s, %s" % (n, " ".join([n, "d", "f"] + a1), " ".join([n, "d", "f"] + a2)))
out.append("")
GR = GRIND.replace("%s]", UPS_STMT + "]")
# long `if`-chains: both runs are taken apart together (qer_ite), one goal per path; each leaf by the usual two-sided split
LOCK = {"pStatement", "defColLoop", "createOpts", "createElems", "pAlterExpr"}
PRE = {"pGenerated": "simp only [genModes_find] at h h'"}


def lock_lines(ind, name, cex):
    ite, oe = ("qex_ite", "qex_of_eq") if cex else ("qer_ite", "qer_of_eq")
    return [ind + "unfold %s" % name,
            ind + "repeat' (refine %s ?_ (fun _ _ => ?_) (fun _ _ => ?_))" % ite,
            ind + "all_goals first | (refine %s (fun res res' h h' => ?_); %s%s) | %s" % (oe, CLOSE, GR, GR)]
ANALYZE = """/-- the four optional word pairs at the end of ANALYZE TABLE -/
def analyzeTail (r2 : List Tok) : Bool × Bool × Bool × List Tok :=
  let a := moveTwoUp r2 "COMPUTE" "STATISTICS"
  let b := moveTwoUp a.2 "FOR" "COLUMNS"
  let c := moveTwoUp b.2 "CACHE" "METADATA"
  let n := moveStrUp c.2 "NOSCAN"
  (b.1, c.1, n.1, n.2)
omit S in
theorem pAnalyze_eq (d : Gen.D) (f : Nat) (ts : List Tok) : pAnalyze d f ts =
    match matchSeq ts ["ANALYZE", "TABLE"] with
    | .error e => .error e
    | .ok (_, r) => match pTblName r with
      | .error e => .error e
      | .ok (t, r1) =>
        match pOptPartition d f r1 with
        | .error e => .error e
        | .ok (part, r2) => .ok (.analyze t part (analyzeTail r2).1 (analyzeTail r2).2.1 (analyzeTail r2).2.2.1, (analyzeTail r2).2.2.2) := rfl
theorem analyzeTail_qe {r r' : List Tok} (h : QEL r r') :
    (analyzeTail r).1 = (analyzeTail r').1 ∧ (analyzeTail r).2.1 = (analyzeTail r').2.1 ∧ (analyzeTail r).2.2.1 = (analyzeTail r').2.2.1 ∧
    QEL (analyzeTail r).2.2.2 (analyzeTail r').2.2.2 := by
  have a := qel_moveTwoUp h "COMPUTE" "STATISTICS" (by decide) (by decide)
  have b := qel_moveTwoUp a.2 "FOR" "COLUMNS" (by decide) (by decide)
  have c := qel_moveTwoUp b.2 "CACHE" "METADATA" (by decide) (by decide)
  have n := qel_moveStrUp c.2 "NOSCAN" (by decide)
  exact ⟨b.1, c.1, n.1, n.2⟩
grind_pattern analyzeTail_qe => QEL r r', analyzeTail r
theorem pAnalyze_qe (d : Gen.D) (f : Nat) : ∀ x0 y0, QEL x0 y0 → QER (qeq erSt0) (pAnalyze d f x0) (pAnalyze d f y0) := by
  intro x0 y0 hr0
  generalize h : pAnalyze d f x0 = res
  generalize h' : pAnalyze d f y0 = res'
  rw [pAnalyze_eq] at h h'
  %s
grind_pattern pAnalyze_qe => pAnalyze d f x0, pAnalyze d f y0
""" % (CLOSE + GR)
ec_done = set()
STMT_HEAD = list(out)
for d in stmt_all + entry_defs:
    if d.name == "createElems":          # second file (build time)
        open(os.path.join(LEAN, "MsqProofs/Lemmas/ParseSubstStmt.lean"), "w", encoding="utf-8").write("\n".join(out + ["end PMQ"]) + "\n")
        out = ["import MsqProofs.Lemmas.ParseSubstStmt", HEADER % "the statement level, part 2: CREATE TABLE … `parse_statements`"] + OPTS
    out += each_closed_lemmas(d.body, ec_done)
    if d.alias is not None:
        tgt = d.alias.split()[0]
        if tgt == "pKwTable":
            out += ["theorem %s_qe : ∀ x0 y0, QEL x0 y0 → QER (qeq erSt0) (%s x0) (%s y0) := by" % (d.name, d.name, d.name),
                    "  intro x0 y0 hr0", "  generalize h : %s x0 = res" % d.name, "  generalize h' : %s y0 = res'" % d.name,
                    "  unfold %s pKwTable at h h'" % d.name, "  " + CLOSE + GR]
        else:
            out += ["theorem %s_qe : ∀ x0 y0, QEL x0 y0 → QER (qeq erIx) (%s x0) (%s y0) := by" % (d.name, d.name, d.name),
                    "  intro x0 y0 hr0", "  unfold %s" % d.name, "  exact %s_qe _ _ x0 _ _ y0 rfl rfl (by decide) hr0" % tgt]
        out += ["grind_pattern %s_qe => %s x0, %s y0" % (d.name, d.name, d.name), ""]
        continue
    if d.name == "pAnalyze":      # four chained `search_and_move`s: the generated proof does not terminate (E-matching along the chain); the chain is named and related by hand
        out += ANALYZE.split("\n"); continue
    f = stmt_fn(d)
    xs_, ys_, hyps, a1, a2 = quant(f)
    hs = ["hr%d" % i for i in range(len(hyps))]
    k = 0; destruct = []
    for i, t in enumerate(f.ptys):
        if f.skip[i]: continue
        if strip_par(t) in STRUCT_ARGS: destruct += ["cases x%d" % k, "cases y%d" % k]
        k += 1
    des = ("; ".join(destruct) + "; ") if destruct else ""
    bind = "(d : Gen.D) (f : Nat) " if any(f.skip) else ""
    out.append("theorem %s_qe %s: %s := by" % (d.name, bind, statement(f)))
    app1, app2 = " ".join([d.name] + a1), " ".join([d.name] + a2)
    cex = rel_res(f.ret).startswith("CEX")
    pre = [PRE[d.name]] if d.name in PRE else []
    if d.name == "createElems":
        out += ["  intro x0", "  induction x0 with",
                "  | nil => intro x1 y0 y1 hr0 hr1; cases y0 <;> simp_all [createElems]",
                "  | cons sg rest ih =>", "    intro x1 y0 y1 hr0 hr1", "    cases y0 with", "    | nil => simp at hr0", "    | cons sg' rest' =>",
                "      simp only [qell_cons_cons] at hr0", "      cases x1; cases y1"] + lock_lines("      ", d.name, cex)
    elif d.name in LOCK and uses(d.name, d.body):
        assert hyps[0] == "x0 = y0", d.name
        out += ["  intro x0", "  induction x0 with",
                "  | zero => intro %s y0 %s %s; subst hr0; simp [%s]" % (" ".join(xs_[1:]), " ".join(ys_[1:]), " ".join(hs), d.name),
                "  | succ g ih =>", "    intro %s y0 %s %s" % (" ".join(xs_[1:]), " ".join(ys_[1:]), " ".join(hs)), "    subst hr0"]
        if destruct: out.append("    " + "; ".join(destruct))
        out += lock_lines("    ", d.name, cex)
    elif d.name in LOCK:
        out += ["  intro %s" % " ".join(xs_ + ys_ + hs)] + lock_lines("  ", d.name, cex)
    elif uses(d.name, d.body):
        assert hyps[0] == "x0 = y0", d.name
        out += ["  intro x0", "  induction x0 with",
                "  | zero => intro %s y0 %s %s; subst hr0; simp [%s]" % (" ".join(xs_[1:]), " ".join(ys_[1:]), " ".join(hs), d.name),
                "  | succ g ih =>", "    intro %s y0 %s %s" % (" ".join(xs_[1:]), " ".join(ys_[1:]), " ".join(hs)), "    subst hr0",
                "    generalize h : %s = res" % app1.replace(" x0", " (g+1)", 1), "    generalize h' : %s = res'" % app2.replace(" y0", " (g+1)", 1),
                "    " + des + "unfold %s at h h'" % d.name, "    " + CLOSE + GR]
    else:
        out += ["  intro %s" % " ".join(xs_ + ys_ + hs), "  generalize h : %s = res" % app1, "  generalize h' : %s = res'" % app2,
                "  " + des + "unfold %s at h h'" % d.name] + ["  " + l for l in pre] + ["  " + CLOSE + GR]
    pat1 = " ".join([d.name] + a1); pat2 = " ".join([d.name] + a2)
    out += ["grind_pattern %s_qe => %s, %s" % (d.name, pat1, pat2), ""]
out += ["end PMQ"]
open(os.path.join(LEAN, "MsqProofs/Lemmas/ParseSubstStmt2.lean"), "w", encoding="utf-8").write("\n".join(out) + "\n")
print("statement level:", len(stmt_all) + len(entry_defs))
