#!/venv/bin/python
"""Translator: regenerates /verif/lean/MsqModel/Gen/*.lean (and build/gen.json) from /repo's current source.

Run on every check.  Everything here reads either the live Python objects of the package (imported from
/repo in a sub-process, so that import-time options can be pre-seeded) or the Python AST of small
straight-line functions.  A construct outside the supported subset is a *refusal* (exit status 3, reasons in
build/translate_status.json); a refusal is a broken tie, never by itself a violation (DESIGN.md §6.3).
"""
import ast, json, os, re, subprocess, sys, textwrap, hashlib, concurrent.futures

REPO = os.environ.get("MSQ_REPO", "/repo")
VERIF = os.path.dirname(os.path.dirname(os.path.abspath(__file__)))
GEN = os.path.join(VERIF, "lean", "MsqModel", "Gen")
BUILD = os.path.join(VERIF, "build")
PY = "/venv/bin/python"


class Refuse(Exception):
    pass


def write_if_changed(path, content):
    os.makedirs(os.path.dirname(path), exist_ok=True)
    try:
        with open(path, encoding="utf-8") as f:
            if f.read() == content:
                return False
    except FileNotFoundError:
        pass
    tmp = path + ".tmp%d" % os.getpid()
    with open(tmp, "w", encoding="utf-8") as f:
        f.write(content)
    os.replace(tmp, path)
    return True


def src_of(relpath):
    with open(os.path.join(REPO, relpath), encoding="utf-8") as f:
        return f.read()


# ----------------------------------------------------------------------------------------------------------
# 1. operation semantics: FSMOperate*.execute  ->  micro-instruction lists
# ----------------------------------------------------------------------------------------------------------

def is_mem(node, field):
    return (isinstance(node, ast.Attribute) and isinstance(node.value, ast.Name)
            and node.value.id == "memory" and node.attr == field)


def tr_status(e):
    if isinstance(e, ast.Attribute) and isinstance(e.value, ast.Name) and e.value.id == "FSMStatus":
        return ["setStatus", e.attr]
    if isinstance(e, ast.Attribute) and isinstance(e.value, ast.Name) and e.value.id == "self" and e.attr == "status":
        return ["setStatusSelf"]
    raise Refuse("fsm_operate: status expression " + ast.unparse(e))


def tr_marks(e, consts):
    if isinstance(e, ast.Attribute) and isinstance(e.value, ast.Name) and e.value.id == "self" and e.attr == "marks":
        return ["self"]
    if isinstance(e, ast.Attribute) and isinstance(e.value, ast.Name) and e.value.id == "AMTMark":
        if e.attr not in consts["AMTMark"]:
            raise Refuse("fsm_operate: unknown mark " + e.attr)
        return ["const", consts["AMTMark"][e.attr]]
    if isinstance(e, ast.BinOp) and isinstance(e.op, ast.BitOr):
        a, b = tr_marks(e.left, consts), tr_marks(e.right, consts)
        if a[0] == "const" and b[0] == "const":
            return ["const", a[1] | b[1]]
    if (isinstance(e, ast.Call) and isinstance(e.func, ast.Attribute) and e.func.attr == "get"
            and isinstance(e.func.value, ast.Name) and e.func.value.id == "HANDLE_WORD_TO_MARK_HASH"
            and len(e.args) == 2 and ast.unparse(e.args[0]) == "source.upper()"):
        d = tr_marks(e.args[1], consts)
        if d[0] != "const":
            raise Refuse("fsm_operate: word default " + ast.unparse(e))
        return ["word", d[1]]
    raise Refuse("fsm_operate: marks expression " + ast.unparse(e))


def tr_stmt(s, env, consts):
    if (isinstance(s, ast.AugAssign) and is_mem(s.target, "pos_now") and isinstance(s.op, ast.Add)
            and isinstance(s.value, ast.Constant) and s.value.value == 1 and type(s.value.value) is int):
        return [["incNow"]]
    if isinstance(s, ast.Assign) and len(s.targets) == 1:
        t, v = s.targets[0], s.value
        if is_mem(t, "pos_start") and is_mem(v, "pos_now"):
            return [["setStartNow"]]
        if is_mem(t, "status"):
            return [tr_status(v)]
        if isinstance(t, ast.Name) and t.id == "source" and ast.unparse(v) == "memory.text[memory.pos_start:memory.pos_now]":
            env["source"] = True
            return [["sliceWindow"]]
        if isinstance(t, ast.Name) and t.id == "tokens" and ast.unparse(v) == "memory.stack.pop()":
            env["tokens"] = True
            return [["popStack"]]
    if isinstance(s, ast.Expr) and isinstance(s.value, ast.Call):
        c = s.value
        u = ast.unparse(c.func)
        if u == "memory.stack[-1].append" and len(c.args) == 1 and isinstance(c.args[0], ast.Call) and not c.keywords:
            ctor = c.args[0]
            name = ast.unparse(ctor.func)
            if ctor.keywords or len(ctor.args) != 2:
                raise Refuse("fsm_operate: constructor call " + ast.unparse(ctor))
            if name == "AMTSingle" and ast.unparse(ctor.args[0]) == "source" and env.get("source"):
                return [["emitSingle", tr_marks(ctor.args[1], consts)]]
            if name in ("AMTParenthesis", "AMTSlice") and ast.unparse(ctor.args[0]) == "tokens" and env.get("tokens"):
                return [["emitGroup", "paren" if name == "AMTParenthesis" else "slice", tr_marks(ctor.args[1], consts)]]
        if u == "memory.stack.append" and len(c.args) == 1 and ast.unparse(c.args[0]) == "[]":
            return [["pushStack"]]
    if isinstance(s, ast.Return) and isinstance(s.value, ast.Constant) and isinstance(s.value.value, bool):
        return [["ret", s.value.value]]
    if isinstance(s, ast.If) and not s.orelse and len(s.body) == 1 and isinstance(s.body[0], ast.Raise):
        if not raises_lexical(s.body[0]):
            raise Refuse("fsm_operate: raise of another exception: " + ast.unparse(s.body[0]))
        t = s.test
        if (isinstance(t, ast.Compare) and len(t.ops) == 1 and isinstance(t.ops[0], ast.LtE)
                and ast.unparse(t.left) == "len(memory.stack)" and isinstance(t.comparators[0], ast.Constant)
                and type(t.comparators[0].value) is int):
            return [["raiseIfDepthLE", t.comparators[0].value]]
        if ast.unparse(t) == "ch == END":
            if consts["END_operate"] != consts["END_map"]:
                raise Refuse("fsm_operate.END differs from fsm_operation_map.END")
            return [["raiseIfEnd"]]
    if isinstance(s, ast.Raise):
        if not raises_lexical(s):
            raise Refuse("fsm_operate: raise of another exception: " + ast.unparse(s))
        return [["raise"]]
    if isinstance(s, ast.Expr) and isinstance(s.value, ast.Constant) and isinstance(s.value.value, str):
        return []  # docstring
    raise Refuse("fsm_operate: statement outside the supported subset: " + ast.unparse(s))


def raises_lexical(r):
    return (isinstance(r, ast.Raise) and isinstance(r.exc, ast.Call) and isinstance(r.exc.func, ast.Name)
            and r.exc.func.id == "LexicalParseError")


def translate_ops(consts):
    tree = ast.parse(src_of("metasequoia_sql/lexical/fsm_operate.py"))
    out = {}
    for node in tree.body:
        if isinstance(node, ast.ClassDef) and node.name != "FSMOperate" and any(
                isinstance(b, ast.Name) and b.id == "FSMOperate" for b in node.bases):
            attrs = []
            for f in node.body:
                if isinstance(f, ast.FunctionDef) and f.name == "__init__":
                    for st in f.body:
                        if (isinstance(st, ast.Assign) and len(st.targets) == 1 and isinstance(st.targets[0], ast.Attribute)
                                and ast.unparse(st.targets[0].value) == "self" and isinstance(st.value, ast.Name)
                                and st.value.id == st.targets[0].attr and st.value.id in ("status", "marks")):
                            attrs.append(st.value.id)
                        elif isinstance(st, ast.Expr) and isinstance(st.value, ast.Constant):
                            pass
                        else:
                            raise Refuse(f"fsm_operate: {node.name}.__init__: " + ast.unparse(st))
                elif isinstance(f, ast.FunctionDef) and f.name == "execute":
                    if [a.arg for a in f.args.args] != ["self", "memory", "ch"]:
                        raise Refuse(f"fsm_operate: {node.name}.execute signature")
                    env, ins = {}, []
                    for st in f.body:
                        ins += tr_stmt(st, env, consts)
                    out[node.name] = {"code": ins}
                elif isinstance(f, ast.Expr) and isinstance(f.value, ast.Constant):
                    pass
                else:
                    raise Refuse(f"fsm_operate: {node.name}: unexpected member {getattr(f, 'name', ast.unparse(f))}")
            if node.name not in out:
                raise Refuse(f"fsm_operate: {node.name} has no execute")
            out[node.name]["attrs"] = attrs
    return out


# ----------------------------------------------------------------------------------------------------------
# 2. live tables, per option setting (sub-process with a pre-seeded config module)
# ----------------------------------------------------------------------------------------------------------

DUMP_SCRIPT = r'''
import sys, types, json
sys.path.insert(0, %(repo)r)
space, linebreak, comment = %(bits)r
if %(seed)r:
    cfg = types.ModuleType("metasequoia_sql.config")
    cfg.LEXICAL_IGNORE_SPACE = space; cfg.LEXICAL_IGNORE_LINEBREAK = linebreak; cfg.LEXICAL_IGNORE_COMMENT = comment
    sys.modules["metasequoia_sql.config"] = cfg
import metasequoia_sql, metasequoia_sql.config
from metasequoia_sql.lexical import fsm_operation_map as M, fsm_operate as O, fsm_machine as FM
from metasequoia_sql.lexical.fsm_status import FSMStatus
from metasequoia_sql.lexical.amt_node import AMTMark
def opref(o):
    d = dict((k, getattr(o, k)) for k in getattr(o, "__dict__", {}))
    extra = [k for k in d if k not in ("status", "marks")]
    return {"cls": type(o).__name__, "module": type(o).__module__,
            "status": (FSMStatus(d["status"]).name if isinstance(d.get("status"), int) and d["status"] in set(FSMStatus) else (None if "status" not in d else repr(d["status"]))),
            "marks": (int(d["marks"]) if isinstance(d.get("marks"), int) else (None if "marks" not in d else repr(d["marks"]))),
            "extra": extra}
rows = {}; at_end = {}; odd = []
for (s, ch), o in M.FSM_OPERATION_MAP.items():
    sn = FSMStatus(s).name
    if ch == M.END: at_end[sn] = opref(o)
    elif isinstance(ch, str) and len(ch) == 1: rows.setdefault(sn, []).append([ord(ch), opref(o)])
    else: odd.append([sn, repr(ch)])
out = {"rows": rows, "atEndExplicit": at_end, "odd": odd,
       "dflt": {FSMStatus(s).name: opref(o) for s, o in M.FSM_OPERATION_MAP_DEFAULT.items()},
       "status": [[s.name, int(s.value)] for s in FSMStatus],
       "AMTMark": {m.name: int(m.value) for m in AMTMark},
       "wordMarks": [[k, int(v)] for k, v in O.HANDLE_WORD_TO_MARK_HASH.items()],
       "END_map": M.END, "END_operate": O.END, "END_machine": FM.END,
       "machine_uses_global_map": True,
       "config": [getattr(sys.modules["metasequoia_sql.config"], k) for k in ("LEXICAL_IGNORE_SPACE", "LEXICAL_IGNORE_LINEBREAK", "LEXICAL_IGNORE_COMMENT")]}
if %(mybatis)r:
    # evaluate the operation objects the MyBatis intercepts construct
    import ast, inspect
    from metasequoia_sql.plugins import mybaitis as MB
    src = inspect.getsource(MB.FSMMachineMyBatis.handle)
    import textwrap
    fn = ast.parse(textwrap.dedent(src)).body[0]
    ops = {}
    for node in ast.walk(fn):
        if isinstance(node, ast.Call) and isinstance(node.func, ast.Attribute) and node.func.attr == "execute":
            expr = ast.unparse(node.func.value)
            ops[expr] = opref(eval(expr, vars(MB)))
    out["mybatis_ops"] = ops
    out["mybatis_mro"] = [c.__name__ for c in MB.FSMMachineMyBatis.__mro__]
    out["mybatis_overrides"] = sorted(k for k in vars(MB.FSMMachineMyBatis) if not k.startswith("__"))
print(json.dumps(out))
'''


def dump_tables(bits, seed=True, mybatis=False):
    script = DUMP_SCRIPT % {"repo": REPO, "bits": bits, "seed": seed, "mybatis": mybatis}
    r = subprocess.run([PY, "-c", script], capture_output=True, text=True, cwd="/", env=dict(os.environ, PYTHONHASHSEED="0"))
    if r.returncode != 0:
        raise Refuse("import of the package failed under options %r: %s" % (bits, r.stderr.strip().splitlines()[-1:] or r.stderr))
    return json.loads(r.stdout)



# ----------------------------------------------------------------------------------------------------------
# 2b. certificates for the table obligation (untrusted: Lean re-checks them in `TableOK`)
# ----------------------------------------------------------------------------------------------------------

def py_summarize(code):
    """mirror of Lex.summarize; returns dict or None"""
    code = [tuple(i) if not isinstance(i, tuple) else i for i in code]
    names = [i[0] for i in code]
    if names == ["raiseIfEnd", "raise"] or names == ["raise"]:
        return {"raises": True, "adv": False, "body": "keep", "st": ("same",), "ret": False}
    if names and names[0] == "raiseIfDepthLE":
        code, names = code[1:], names[1:]
    adv = False
    if names and names[0] == "incNow":
        adv, code, names = True, code[1:], names[1:]
    body = "keep"
    if names[:3] == ["sliceWindow", "setStartNow", "emitSingle"]:
        body, code, names = "emit", code[3:], names[3:]
    elif names[:2] == ["setStartNow", "pushStack"]:
        body, code, names = "drop", code[2:], names[2:]
    elif names[:3] == ["setStartNow", "popStack", "emitGroup"]:
        body, code, names = "drop", code[3:], names[3:]
    elif names[:1] == ["setStartNow"]:
        body, code, names = "drop", code[1:], names[1:]
    if names == ["ret"]:
        st = ("same",)
    elif names == ["setStatus", "ret"]:
        st = ("to", code[0][1])
    elif names == ["setStatusSelf", "ret"]:
        st = ("self",)
    else:
        return None
    return {"raises": False, "adv": adv, "body": body, "st": st, "ret": code[-1][1]}


def wk_min(ps):
    ps = sorted(set(ps))
    return [p for p in ps if not any(q != p and p.startswith(q) for q in ps)]


def wk_join(a, b):
    if a is None: return b
    if b is None: return a
    if a[0] == "any" or b[0] == "any": return ("any",)
    if a == b: return a
    pa = [a[1]] if a[0] == "exact" else list(a[1])
    pb = [b[1]] if b[0] == "exact" else list(b[1])
    ps = wk_min(pa + pb)
    if len(ps) > 64 or any(len(p) > 12 for p in ps): return ("any",)
    return ("pref", tuple(ps))


def wk_snoc(a, c):
    if a is None: return None
    if a[0] == "exact": return ("exact", a[1] + c) if c is not None else ("pref", (a[1],))
    return a


def certificates(t, ops, statuses):
    cells = []   # (status, char or None, opref)
    for s in statuses:
        for cp, o in t["rows"].get(s, []):
            cells.append((s, chr(cp), o, False))
        if s in t["dflt"]:
            cells.append((s, None, t["dflt"][s], False))
        o = t["atEndExplicit"].get(s) or t["dflt"].get(s)
        if o:
            cells.append((s, None, o, True))
    adv_st = []
    wk = {s: None for s in statuses}
    wk["WAIT"] = ("exact", "")
    changed = True
    rounds = 0
    while changed and rounds < 200:
        changed = False
        rounds += 1
        for s, c, o, eof in cells:
            sm = py_summarize(ops[o["cls"]]["code"]) if o["cls"] in ops else None
            if sm is None or sm["raises"]:
                continue
            nxt = s if sm["st"][0] == "same" else (sm["st"][1] if sm["st"][0] == "to" else o["status"])
            if nxt not in wk:
                continue
            if not eof and not sm["adv"] and nxt not in adv_st:
                adv_st.append(nxt)
            w1 = wk_snoc(wk[s], c) if (sm["adv"] and not eof) else wk[s]
            if wk[s] is None:
                continue
            contrib = w1 if sm["body"] == "keep" else ("exact", "")
            j = wk_join(wk[nxt], contrib)
            if j != wk[nxt]:
                wk[nxt] = j
                changed = True
    return adv_st, wk


def lean_wk(w):
    if w is None: return ".unreach"
    if w[0] == "any": return ".any"
    if w[0] == "exact": return "(.exact %s)" % lean_chars(w[1])
    return "(.pref [%s])" % ", ".join(lean_chars(p) for p in w[1])

# ----------------------------------------------------------------------------------------------------------
# 3. driver shape: FSMMachine.parse / handle, preproc_sql, FSMMachineMyBatis.handle
# ----------------------------------------------------------------------------------------------------------

def strip_doc(body):
    return [s for s in body if not (isinstance(s, ast.Expr) and isinstance(s.value, ast.Constant) and isinstance(s.value.value, str))]


def find_class_func(tree, cls, fn):
    for node in tree.body:
        if isinstance(node, ast.ClassDef) and node.name == cls:
            for f in node.body:
                if isinstance(f, ast.FunctionDef) and f.name == fn:
                    return f
    raise Refuse(f"{cls}.{fn} not found")


def translate_driver():
    tree = ast.parse(src_of("metasequoia_sql/lexical/fsm_machine.py"))
    parse = find_class_func(tree, "FSMMachine", "parse")
    body = [ast.unparse(s) for s in strip_doc(parse.body)]
    params = {}
    expect_prefix = ["text = preproc_sql(text)", "memory = FSMMemory(text)", "fsm_machine = cls()",
                     "for ch in text:\n    if not fsm_machine.handle(memory, ch):\n        fsm_machine.handle(memory, ch)",
                     "fsm_machine.handle(memory, END)"]
    if body[:5] != expect_prefix:
        raise Refuse("FSMMachine.parse: driver loop differs from the modelled shape: " + repr(body[:5]))
    rest = strip_doc(parse.body)[5:]
    if len(rest) != 3:
        raise Refuse("FSMMachine.parse: tail differs from the modelled shape")
    a, b, c = rest
    ok = (isinstance(a, ast.If) and not a.orelse and len(a.body) == 1 and raises_lexical(a.body[0])
          and isinstance(a.test, ast.Compare) and ast.unparse(a.test.left) == "memory.status" and isinstance(a.test.ops[0], ast.NotEq)
          and isinstance(a.test.comparators[0], ast.Attribute) and ast.unparse(a.test.comparators[0].value) == "FSMStatus")
    if not ok:
        raise Refuse("FSMMachine.parse: end-status test: " + ast.unparse(a))
    params["endStatus"] = a.test.comparators[0].attr
    ok = (isinstance(b, ast.If) and not b.orelse and len(b.body) == 1 and raises_lexical(b.body[0])
          and isinstance(b.test, ast.Compare) and ast.unparse(b.test.left) == "len(memory.stack)" and isinstance(b.test.ops[0], ast.Gt)
          and isinstance(b.test.comparators[0], ast.Constant) and type(b.test.comparators[0].value) is int)
    if not ok:
        raise Refuse("FSMMachine.parse: stack-depth test: " + ast.unparse(b))
    params["depthLimit"] = b.test.comparators[0].value
    if ast.unparse(c) != "return memory.stack[0]":
        raise Refuse("FSMMachine.parse: return: " + ast.unparse(c))
    handle = find_class_func(tree, "FSMMachine", "handle")
    hb = [ast.unparse(s) for s in strip_doc(handle.body)]
    if hb != ["operate: Optional[FSMOperate] = FSM_OPERATION_MAP.get((memory.status, ch))",
              "if operate is None:\n    operate = FSM_OPERATION_MAP_DEFAULT[memory.status]",
              "return operate.execute(memory, ch)"]:
        raise Refuse("FSMMachine.handle differs from the modelled shape: " + repr(hb))
    # FSMMemory defaults
    mt = ast.parse(src_of("metasequoia_sql/lexical/fsm_memory.py"))
    msrc = ast.unparse(mt)
    for needle in ["pos_start: int = dataclasses.field(init=False, default=0)", "pos_now: int = dataclasses.field(init=False, default=0)",
                   "default_factory=lambda: [[]]", "default=FSMStatus.WAIT"]:
        if needle not in msrc:
            raise Refuse("FSMMemory defaults differ: missing " + needle)
    # preproc_sql
    bt = ast.parse(src_of("metasequoia_sql/common/basic.py"))
    pre = [n for n in bt.body if isinstance(n, ast.FunctionDef) and n.name == "preproc_sql"]
    if not pre:
        raise Refuse("preproc_sql not found")
    pb = strip_doc(pre[0].body)
    if len(pb) != 1 or not isinstance(pb[0], ast.Return):
        raise Refuse("preproc_sql: body shape")
    chain, e = [], pb[0].value
    while isinstance(e, ast.Call):
        if not (isinstance(e.func, ast.Attribute) and e.func.attr == "replace" and len(e.args) == 2 and not e.keywords
                and all(isinstance(x, ast.Constant) and isinstance(x.value, str) for x in e.args)):
            raise Refuse("preproc_sql: " + ast.unparse(e))
        chain.append([e.args[0].value, e.args[1].value])
        e = e.func.value
    if not (isinstance(e, ast.Name) and e.id == pre[0].args.args[0].arg):
        raise Refuse("preproc_sql: chain base " + ast.unparse(e))
    chain.reverse()
    if any(p == "" for p, _ in chain):
        raise Refuse("preproc_sql: empty pattern")
    params["preChain"] = chain
    # amt_node group source
    at = ast.parse(src_of("metasequoia_sql/lexical/amt_node.py"))
    init = find_class_func(at, "AMTParenthesisBase", "__init__")
    want = "self.source = '(' + ''.join((token.source for token in children)) + ')'"
    if want not in [ast.unparse(s) for s in init.body]:
        raise Refuse("AMTParenthesisBase.__init__: source rendering differs from the modelled shape")
    params["groupOpen"], params["groupClose"] = "(", ")"
    return params


def translate_mybatis(ops):
    tree = ast.parse(src_of("metasequoia_sql/plugins/mybaitis.py"))
    handle = find_class_func(tree, "FSMMachineMyBatis", "handle")
    rules = []

    def test_status(t):
        if (isinstance(t, ast.Compare) and len(t.ops) == 1 and isinstance(t.ops[0], ast.Eq) and ast.unparse(t.left) == "memory.status"
                and isinstance(t.comparators[0], ast.Attribute) and ast.unparse(t.comparators[0].value) == "FSMStatus"):
            return t.comparators[0].attr
        return None

    def test_ch(t):
        if (isinstance(t, ast.Compare) and len(t.ops) == 1 and isinstance(t.ops[0], ast.Eq) and ast.unparse(t.left) == "ch"
                and isinstance(t.comparators[0], ast.Constant) and isinstance(t.comparators[0].value, str)):
            return t.comparators[0].value
        return None

    def ret_op(s):
        if (isinstance(s, ast.Return) and isinstance(s.value, ast.Call) and isinstance(s.value.func, ast.Attribute)
                and s.value.func.attr == "execute" and [ast.unparse(a) for a in s.value.args] == ["memory", "ch"]):
            return ops[ast.unparse(s.value.func.value)]
        return None

    body = strip_doc(handle.body)
    if ast.unparse(body[-1]) != "return super().handle(memory, ch)":
        raise Refuse("FSMMachineMyBatis.handle: fall-through: " + ast.unparse(body[-1]))
    for s in body[:-1]:
        if not (isinstance(s, ast.If) and not s.orelse):
            raise Refuse("FSMMachineMyBatis.handle: " + ast.unparse(s))
        t = s.test
        st = test_status(t)
        if st is not None:
            # nested: a list of `if ch == lit: return op` followed by `return op`
            inner = s.body
            # the block ends either with `return op.execute(memory, ch)` or with a re-labelling of the state followed by the base machine:
            # `memory.status = FSMStatus.X; return super().handle(memory, ch)`
            redirect = None
            if (len(inner) >= 2 and isinstance(inner[-2], ast.Assign) and len(inner[-2].targets) == 1 and ast.unparse(inner[-2].targets[0]) == "memory.status"
                    and isinstance(inner[-2].value, ast.Attribute) and ast.unparse(inner[-2].value.value) == "FSMStatus"
                    and ast.unparse(inner[-1]) == "return super().handle(memory, ch)"):
                redirect = inner[-2].value.attr
                inner = inner[:-1]
            for k in inner[:-1]:
                c = test_ch(k.test) if isinstance(k, ast.If) and not k.orelse and len(k.body) == 1 else None
                o = ret_op(k.body[0]) if c is not None else None
                if o is None:
                    raise Refuse("FSMMachineMyBatis.handle: " + ast.unparse(k))
                rules.append({"status": st, "ch": c, "op": o})
            if redirect is not None:
                rules.append({"status": st, "ch": None, "op": None, "redirect": redirect})
                continue
            o = ret_op(inner[-1])
            if o is None:
                raise Refuse("FSMMachineMyBatis.handle: " + ast.unparse(inner[-1]))
            rules.append({"status": st, "ch": None, "op": o})
        elif isinstance(t, ast.BoolOp) and isinstance(t.op, ast.And) and len(t.values) == 2:
            st, c = test_status(t.values[0]), test_ch(t.values[1])
            o = ret_op(s.body[0]) if len(s.body) == 1 else None
            if st is None or c is None or o is None:
                raise Refuse("FSMMachineMyBatis.handle: " + ast.unparse(s))
            rules.append({"status": st, "ch": c, "op": o})
        else:
            raise Refuse("FSMMachineMyBatis.handle: " + ast.unparse(s))
    return rules


# ----------------------------------------------------------------------------------------------------------
# 4. Python tables
# ----------------------------------------------------------------------------------------------------------

def upper_exceptions():
    out = []
    for cp in range(128, 0x110000):
        if 0xD800 <= cp <= 0xDFFF:
            continue
        c = chr(cp)
        u = c.upper()
        if u != c:
            out.append([cp, [ord(x) for x in u]])
    return out



STATIC_SCRIPT = r"""
import sys, json, dataclasses, inspect, enum
sys.path.insert(0, %(repo)r)
import metasequoia_sql
from metasequoia_sql.core import static as ST, node as N
from metasequoia_sql.core.sql_type import SQLType
from metasequoia_sql.common import name_set as NS, static as CS
def members(E):
    # iteration order = definition order without aliases; also report aliases
    return [[m.name, m.value] for m in E]
def aliases(E):
    return {k: v.name for k, v in E.__members__.items() if k != v.name}
out = {
  "SQLType": members(SQLType),
  "computeHash": [[k, v.name] for k, v in ST.COMPUTE_OPERATOR_HASH.items()],
  "computeEnum": [[m.name, m.value, m.level] for m in ST.EnumComputeOperator],
  "computeSet": sorted(ST.COMPUTE_OPERATOR_SET),
  "compareHash": [[k, v.name] for k, v in ST.COMPARE_OPERATOR_HASH.items()],
  "compareEnum": members(ST.EnumCompareOperator),
  "compareAliases": aliases(ST.EnumCompareOperator),
  "compareSet": sorted(ST.COMPARE_OPERATOR_SET),
  "unarySet": {t.name: sorted(ST.get_unary_operator_set(t)) for t in SQLType},
  "notSet": {t.name: sorted(ST.get_not_operator_set(t)) for t in SQLType},
  "joinTypes": members(ST.EnumJoinType), "unionTypes": members(ST.EnumUnionType), "insertTypes": members(ST.EnumInsertType),
  "orderTypes": members(ST.EnumOrderType), "castTypes": members(ST.EnumCastDataType), "windowRowTypes": members(ST.EnumWindowRowType),
  "logicalEnum": members(ST.EnumLogicalOperator),
  "genColSaveModes": [[k, v.name] for k, v in ST.GENERATE_COLUMN_SAVE_MODE_HASH.items()],
  "genColEnum": members(ST.EnumGenerateColumnSaveMode),
  "aggNames": sorted(NS.AGGREGATION_FUNCTION_NAME_SET), "windowFnNames": sorted(NS.WINDOW_FUNCTION_NAME_SET),
  "globalVarNames": sorted(NS.GLOBAL_VARIABLE_NAME_SET),
  "mysqlDataTypes": [[k, v[0], v[1]] for k, v in CS.MYSQL_DATA_TYPE.items()],
  "mysqlToHive": [[k, v] for k, v in CS.HASHMAP_MYSQL_TO_HIVE.items()],
}
# AST schema by reflection
schema = []
mods = [N]
try:
    from metasequoia_sql.plugins import mybaitis as MB
    mods.append(MB)
except Exception as e:
    out["mybatis_import_error"] = repr(e)
seen = set()
for M in mods:
    for name, c in vars(M).items():
        if inspect.isclass(c) and dataclasses.is_dataclass(c) and c.__module__ == M.__name__ and c not in seen:
            seen.add(c)
            p = c.__dataclass_params__
            fields = []
            for f in dataclasses.fields(c):
                has_default = not (f.default is dataclasses.MISSING and f.default_factory is dataclasses.MISSING)
                fields.append({"name": f.name, "init": f.init, "kw_only": f.kw_only, "has_default": has_default,
                               "default": (repr(f.default) if has_default and f.default_factory is dataclasses.MISSING and not dataclasses.is_dataclass(f.default) else
                                           ("<node>" if has_default and dataclasses.is_dataclass(f.default) else None)),
                               "type": str(f.type)})
            class_nodes = [k for k, v in vars(c).items() if dataclasses.is_dataclass(v) and not isinstance(v, type)]
            # special methods written by hand in the class body: the dataclass decorator compiles the ones it generates from "<string>"
            # and keeps a hand-written __eq__ (while still generating __hash__ from the raw fields)
            def _hand_written(fn):
                fname = getattr(getattr(fn, "__code__", None), "co_filename", None)
                return fname is not None and not fname.startswith("<") and not fname.endswith("dataclasses.py")
            own_special = sorted(k for k in ("__eq__", "__ne__", "__hash__", "__setattr__", "__delattr__", "__lt__", "__le__", "__gt__", "__ge__",
                                             "__getattribute__", "__getattr__") if k in vars(c) and _hand_written(vars(c)[k]))
            schema.append({"name": name, "module": M.__name__, "bases": [b.__name__ for b in c.__mro__[1:] if b not in (object,) and b.__name__ != "ABC"],
                           "abstract": inspect.isabstract(c), "frozen": p.frozen, "eq": p.eq, "slots": "__slots__" in vars(c),
                           "unsafe_hash": p.unsafe_hash, "order": p.order,
                           "own_setattr": "__setattr__" in vars(c) and not p.frozen, "own_hash": False, "own_eq": False,
                           "own_special": own_special, "hashable": getattr(c, "__hash__", None) is not None,
                           "fields": fields, "class_level_nodes": class_nodes})
out["schema"] = schema
print(json.dumps(out))
"""


def dump_static():
    r = subprocess.run([PY, "-c", STATIC_SCRIPT % {"repo": REPO}], capture_output=True, text=True, cwd="/", env=dict(os.environ, PYTHONHASHSEED="0"))
    if r.returncode != 0:
        raise Refuse("static dump failed: %s" % (r.stderr.strip().splitlines()[-1:] or r.stderr))
    return json.loads(r.stdout)


def lean_strs(xs):
    return "[" + ", ".join(lean_str(x) for x in xs) + "]"


def ident(s):
    if not re.fullmatch(r"[A-Za-z_][A-Za-z0-9_]*", s):
        raise Refuse("enum member name is not an identifier: %r" % s)
    return s


def emit_static(st):
    L = [HEADER, "namespace Gen", "", "/-- `SQLType` -/",
         "inductive D | " + " | ".join(ident(n) for n, _ in st["SQLType"]), "  deriving DecidableEq, Repr, Inhabited", "",
         "def allD : List D := [" + ", ".join("." + n for n, _ in st["SQLType"]) + "]",
         "def D.name : D → String"] + ['  | .%s => "%s"' % (n, n) for n, _ in st["SQLType"]]
    L += ["def D.value : D → String"] + ['  | .%s => %s' % (n, lean_str(v)) for n, v in st["SQLType"]]
    L += ["def D.ofName? (s : String) : Option D := allD.find? (fun d => d.name == s)", ""]
    L += ["/-- `COMPUTE_OPERATOR_HASH`: source ↦ enum member name, in dict order -/",
          "def computeHash : List (String × String) := [" + ", ".join("(%s, %s)" % (lean_str(k), lean_str(v)) for k, v in st["computeHash"]) + "]",
          "/-- `EnumComputeOperator`: member name, value, level -/",
          "def computeEnum : List (String × String × Nat) := [" + ", ".join("(%s, %s, %d)" % (lean_str(a), lean_str(b), c) for a, b, c in st["computeEnum"]) + "]",
          "/-- `COMPARE_OPERATOR_HASH`: source ↦ canonical member name -/",
          "def compareHash : List (String × String) := [" + ", ".join("(%s, %s)" % (lean_str(k), lean_str(v)) for k, v in st["compareHash"]) + "]",
          "/-- `EnumCompareOperator` (aliases removed, as Python does): member name, value -/",
          "def compareEnum : List (String × List String) := [" + ", ".join("(%s, %s)" % (lean_str(a), lean_strs(b)) for a, b in st["compareEnum"]) + "]",
          "def compareSet : List String := " + lean_strs(st["compareSet"]),
          "def computeSet : List String := " + lean_strs(st["computeSet"]), ""]
    for key, nm in (("unarySet", "unarySet"), ("notSet", "notSet")):
        L += ["/-- `static.get_%s` evaluated for every dialect -/" % ("unary_operator_set" if key == "unarySet" else "not_operator_set"),
              "def %s : D → List String" % nm] + ["  | .%s => %s" % (n, lean_strs(st[key][n])) for n, _ in st["SQLType"]]
    for key in ("joinTypes", "unionTypes", "insertTypes", "orderTypes"):
        for n, v in st[key]:
            if not (isinstance(v, list) and all(isinstance(x, str) for x in v)):
                raise Refuse("%s member %s has a non-word-list value" % (key, n))
        L += ["/-- enum members in iteration order: name, keyword sequence -/",
              "def %s : List (String × List String) := [" % key + ", ".join("(%s, %s)" % (lean_str(n), lean_strs(v)) for n, v in st[key]) + "]"]
    for key in ("castTypes", "windowRowTypes", "genColEnum"):
        for n, v in st[key]:
            if not isinstance(v, str):
                raise Refuse("%s member %s has a non-string value" % (key, n))
        L += ["def %s : List (String × String) := [" % key + ", ".join("(%s, %s)" % (lean_str(n), lean_str(v)) for n, v in st[key]) + "]"]
    L += ["/-- `GENERATE_COLUMN_SAVE_MODE_HASH`: source ↦ member name -/",
          "def genColSaveModes : List (String × String) := [" + ", ".join("(%s, %s)" % (lean_str(k), lean_str(v)) for k, v in st["genColSaveModes"]) + "]",
          "def aggNames : List String := " + lean_strs(st["aggNames"]),
          "def windowFnNames : List String := " + lean_strs(st["windowFnNames"]),
          "def globalVarNames : List String := " + lean_strs(st["globalVarNames"]),
          "/-- `MYSQL_DATA_TYPE`: name, min params, max params -/",
          "def mysqlDataTypes : List (String × Nat × Nat) := [" + ", ".join("(%s, %d, %d)" % (lean_str(a), b, c) for a, b, c in st["mysqlDataTypes"]) + "]",
          "/-- `HASHMAP_MYSQL_TO_HIVE` -/",
          "def mysqlToHive : List (String × String) := [" + ", ".join("(%s, %s)" % (lean_str(a), lean_str(b)) for a, b in st["mysqlToHive"]) + "]",
          "", "end Gen", ""]
    return "\n".join(L)


def emit_schema(st):
    L = [HEADER, "namespace Gen", "",
         "structure FieldInfo where", "  name : String", "  hasDefault : Bool", "  deriving Repr, DecidableEq", "",
         "structure ClassInfo where", "  name : String", "  bases : List String", "  abstract : Bool", "  frozen : Bool", "  eq : Bool", "  slots : Bool",
         "  ownSetattr : Bool", "  fields : List FieldInfo", "  classLevelNodes : List String",
         "  /-- special methods (__eq__, __hash__, __setattr__, ordering …) written by hand in the class body instead of generated by the dataclass decorator -/",
         "  ownSpecial : List String", "  /-- `cls.__hash__ is not None` -/", "  hashable : Bool", "  deriving Repr, DecidableEq", "",
         "/-- every dataclass of core/node.py and plugins/mybaitis.py, by reflection -/", "def schema : List ClassInfo := ["]
    rows = []
    for c in st["schema"]:
        rows.append("  ⟨%s, %s, %s, %s, %s, %s, %s, [%s], %s, %s, %s⟩" % (
            lean_str(c["name"]), lean_strs(c["bases"]), str(c["abstract"]).lower(), str(c["frozen"]).lower(), str(c["eq"]).lower(),
            str(c["slots"]).lower(), str(c["own_setattr"]).lower(),
            ", ".join("⟨%s, %s⟩" % (lean_str(f["name"]), str(f["has_default"]).lower()) for f in c["fields"]), lean_strs(c["class_level_nodes"]),
            lean_strs(c.get("own_special", [])), str(c.get("hashable", True)).lower()))
    L.append(",\n".join(rows) + "]")
    L += ["", "def fieldsOf (cls : String) : Option (List String) := (schema.find? (fun c => c.name == cls)).map fun c => c.fields.map (·.name)",
          "", "end Gen", ""]
    return "\n".join(L)



# ----------------------------------------------------------------------------------------------------------
# 7. write-set report (C12): syntactic scan for stores to state that outlives a call
# ----------------------------------------------------------------------------------------------------------

MUTATORS = {"append", "extend", "insert", "remove", "pop", "clear", "sort", "reverse", "update", "add", "discard", "setdefault", "popitem", "__setitem__", "__delitem__"}
SCANNED = ["lexical/fsm_machine.py", "lexical/fsm_operate.py", "lexical/fsm_operation_map.py", "lexical/fsm_memory.py", "lexical/fsm_status.py", "lexical/amt_node.py",
           "common/scanner.py", "common/basic.py", "common/char_set.py", "common/name_set.py", "common/static.py", "core/parser.py", "core/node.py", "core/static.py",
           "core/sql_type.py", "config.py", "errors.py", "plugins/mybaitis.py", "analyzer/base.py", "analyzer/node.py",
           "analyzer/toolkit/all_level_standard_table.py", "analyzer/toolkit/current_level_column_analyzer.py", "analyzer/toolkit/current_level_sub_query.py",
           "analyzer/toolkit/current_level_table_name_analyzer.py", "analyzer/toolkit/current_level_used_quote_columns.py",
           "analyzer/data_linage/table_lineage.py", "analyzer/data_linage/table_lineage_analyzer.py", "analyzer/data_linage/table_lineage_storage.py"]


def write_set_report():
    """[(module, function, kind, detail)]: every place where code that runs during a call could write to state shared between calls"""
    report = []
    for rel in SCANNED:
        path = os.path.join(REPO, "metasequoia_sql", rel)
        if not os.path.exists(path):
            report.append((rel, "-", "missing-module", ""))
            continue
        tree = ast.parse(open(path, encoding="utf-8").read())
        module_names = set()
        for n in tree.body:
            if isinstance(n, (ast.Assign, ast.AnnAssign)):
                for t in (n.targets if isinstance(n, ast.Assign) else [n.target]):
                    if isinstance(t, ast.Name):
                        module_names.add(t.id)
            elif isinstance(n, (ast.Import, ast.ImportFrom)):
                for a in n.names:
                    module_names.add((a.asname or a.name).split(".")[0])
            elif isinstance(n, ast.ClassDef):
                module_names.add(n.name)
        operate_classes = {n.name for n in tree.body if isinstance(n, ast.ClassDef) and any(isinstance(b, ast.Name) and b.id == "FSMOperate" for b in n.bases)}

        def root_name(e):
            while isinstance(e, (ast.Attribute, ast.Subscript)):
                e = e.value
            return e.id if isinstance(e, ast.Name) else None

        def scan_function(fn, cls):
            for dec in fn.decorator_list:
                # a memoising decorator keeps results (and the objects in them) alive between calls: shared state by construction
                dn = ast.unparse(dec.func if isinstance(dec, ast.Call) else dec).lower()
                if any(w in dn for w in ("cache", "memo", "singledispatch")):
                    report.append((rel, fn.name, "memoised-function", ast.unparse(dec)))
            local = {a.arg for a in fn.args.args + fn.args.kwonlyargs} | ({fn.args.vararg.arg} if fn.args.vararg else set()) | ({fn.args.kwarg.arg} if fn.args.kwarg else set())
            for d in fn.args.defaults + fn.args.kw_defaults:
                if isinstance(d, (ast.List, ast.Dict, ast.Set)) or (isinstance(d, ast.Call) and isinstance(d.func, ast.Name) and d.func.id in ("list", "dict", "set")):
                    report.append((rel, fn.name, "mutable-default", ast.unparse(d)))
            for n in ast.walk(fn):
                if isinstance(n, (ast.Assign, ast.AugAssign, ast.AnnAssign)):
                    for t in (n.targets if isinstance(n, ast.Assign) else [n.target]):
                        for tt in ast.walk(t):
                            if isinstance(tt, ast.Name) and isinstance(tt.ctx, ast.Store):
                                local.add(tt.id)
                elif isinstance(n, (ast.For, ast.comprehension)):
                    for tt in ast.walk(n.target):
                        if isinstance(tt, ast.Name):
                            local.add(tt.id)
                elif isinstance(n, ast.With):
                    for it in n.items:
                        if it.optional_vars is not None:
                            for tt in ast.walk(it.optional_vars):
                                if isinstance(tt, ast.Name):
                                    local.add(tt.id)
                elif isinstance(n, ast.NamedExpr):
                    local.add(n.target.id)
            for n in ast.walk(fn):
                if isinstance(n, (ast.Global, ast.Nonlocal)):
                    report.append((rel, fn.name, "global-statement", ",".join(n.names)))
                targets = []
                if isinstance(n, ast.Assign): targets = n.targets
                elif isinstance(n, (ast.AugAssign, ast.AnnAssign)): targets = [n.target]
                elif isinstance(n, ast.Delete): targets = n.targets
                for t in targets:
                    if isinstance(t, (ast.Attribute, ast.Subscript)):
                        r = root_name(t)
                        if r in ("cls",) or (r in module_names and r not in local):
                            report.append((rel, fn.name, "store-to-shared", ast.unparse(t)))
                        if r == "self" and cls in operate_classes and fn.name != "__init__":
                            report.append((rel, fn.name, "operation-object-store", ast.unparse(t)))
                if isinstance(n, ast.Call) and isinstance(n.func, ast.Attribute) and n.func.attr in MUTATORS:
                    r = root_name(n.func.value)
                    if r in ("cls",) or (r in module_names and r not in local):
                        report.append((rel, fn.name, "mutating-call-on-shared", ast.unparse(n.func)))
                    if r == "self" and cls in operate_classes and fn.name != "__init__":
                        report.append((rel, fn.name, "operation-object-store", ast.unparse(n.func)))
        def is_mutable_literal(v):
            return isinstance(v, (ast.List, ast.Dict, ast.Set, ast.ListComp, ast.DictComp, ast.SetComp)) or (
                isinstance(v, ast.Call) and ast.unparse(v.func).split(".")[-1] in ("list", "dict", "set", "defaultdict", "OrderedDict", "Counter", "deque"))

        def scan_class_attributes(c):
            """a mutable object bound in the class body is ONE object for all instances: a store or mutating call through `self.<name>` writes shared state,
            unless `__init__` rebinds the name per instance"""
            shared = set()
            for b in c.body:
                if isinstance(b, (ast.Assign, ast.AnnAssign)) and getattr(b, "value", None) is not None and is_mutable_literal(b.value):
                    for t in (b.targets if isinstance(b, ast.Assign) else [b.target]):
                        if isinstance(t, ast.Name):
                            shared.add(t.id)
            for f in c.body:
                if isinstance(f, ast.FunctionDef) and f.name == "__init__":
                    for n in ast.walk(f):
                        if isinstance(n, (ast.Assign, ast.AnnAssign)):
                            for t in (n.targets if isinstance(n, ast.Assign) else [n.target]):
                                if isinstance(t, ast.Attribute) and isinstance(t.value, ast.Name) and t.value.id == "self":
                                    shared.discard(t.attr)
            if not shared:
                return
            for f in c.body:
                if not isinstance(f, ast.FunctionDef):
                    continue
                for n in ast.walk(f):
                    tg = []
                    if isinstance(n, ast.Assign): tg = n.targets
                    elif isinstance(n, (ast.AugAssign, ast.AnnAssign)): tg = [n.target]
                    elif isinstance(n, ast.Delete): tg = n.targets
                    elif isinstance(n, ast.Call) and isinstance(n.func, ast.Attribute) and n.func.attr in MUTATORS: tg = [n.func.value]
                    for t in tg:
                        e = t
                        while isinstance(e, ast.Subscript) or (isinstance(e, ast.Attribute) and not (isinstance(e.value, ast.Name) and e.value.id in ("self", "cls"))):
                            e = e.value
                        if isinstance(e, ast.Attribute) and e.attr in shared and (e is not t or isinstance(n, ast.Call)):
                            report.append((rel, f.name, "store-to-class-attribute", ast.unparse(t)))
        for n in tree.body:
            if isinstance(n, ast.FunctionDef):
                scan_function(n, None)
            elif isinstance(n, ast.ClassDef):
                scan_class_attributes(n)
                for f in n.body:
                    if isinstance(f, ast.FunctionDef):
                        scan_function(f, n.name)
    return sorted(set(report))


def emit_writeset(report):
    L = [HEADER, "namespace Gen", "", "/-- syntactic write-set report of the modelled modules: (module, function, kind, target); see tools/translate.py §7 -/",
         "def writeSet : List (String × String × String × String) := ["]
    L.append(",\n".join("  (%s, %s, %s, %s)" % tuple(lean_str(x) for x in r) for r in report) + "]")
    L += ["", "def scannedModules : List String := " + lean_strs(SCANNED), "", "end Gen", ""]
    return "\n".join(L)


# ----------------------------------------------------------------------------------------------------------
# Lean emission
# ----------------------------------------------------------------------------------------------------------

def lean_str(s):
    out = ['"']
    for c in s:
        o = ord(c)
        if c == '"': out.append('\\"')
        elif c == "\\": out.append("\\\\")
        elif c == "\n": out.append("\\n")
        elif c == "\t": out.append("\\t")
        elif c == "\r": out.append("\\r")
        elif 32 <= o < 127: out.append(c)
        else: out.append("\\u{%x}" % o)
    out.append('"')
    return "".join(out)


def lean_chars(s):
    return "[" + ", ".join("Char.ofNat %d" % ord(c) for c in s) + "]"


def cls_name(n):
    return "c" + n[len("FSMOperate"):] if n.startswith("FSMOperate") else "c_" + n


def lean_marks(m):
    return {"self": "Marks.self"}.get(m[0]) or ("(Marks.const %d)" % m[1] if m[0] == "const" else "(Marks.word %d)" % m[1])


def lean_instr(i):
    k = i[0]
    if k == "setStatus": return ".setStatus .%s" % i[1]
    if k == "emitSingle": return ".emitSingle %s" % lean_marks(i[1])
    if k == "emitGroup": return ".emitGroup .%s %s" % (i[1], lean_marks(i[2]))
    if k == "raiseIfDepthLE": return ".raiseIfDepthLE %d" % i[1]
    if k == "ret": return ".ret %s" % ("true" if i[1] else "false")
    return "." + k


HEADER = "-- GENERATED by tools/translate.py from /repo — do not edit; regenerated on every check\n"


def check_opref(o, ops, statuses):
    if o["module"] != "metasequoia_sql.lexical.fsm_operate" or o["cls"] not in ops:
        raise Refuse("operation object of an untranslated class: %s.%s" % (o["module"], o["cls"]))
    if o["extra"]:
        raise Refuse("operation object with extra attributes: %r" % o)
    if sorted(k for k in ("status", "marks") if o[k] is not None) != sorted(ops[o["cls"]]["attrs"]):
        raise Refuse("operation object attributes differ from __init__: %r" % o)
    if o["status"] is not None and o["status"] not in statuses:
        raise Refuse("operation object with a non-FSMStatus status: %r" % o)
    if o["marks"] is not None and not isinstance(o["marks"], int):
        raise Refuse("operation object with non-int marks: %r" % o)


def lean_opref(o):
    return "⟨.%s, .%s, %d⟩" % (cls_name(o["cls"]), o["status"] or "WAIT", o["marks"] or 0)


def emit_cfg(name, t, ops, params, statuses):
    L = [HEADER, "import MsqModel.Gen.LexOps", "namespace Gen.%s" % name, "open Lex", ""]
    # distinct oprefs get names to keep elaboration cheap
    table = {}

    def ref(o):
        check_opref(o, ops, statuses)
        k = lean_opref(o)
        if k not in table:
            table[k] = "o%d" % len(table)
        return table[k]
    rows_txt = []
    for s in statuses:
        cells = sorted(t["rows"].get(s, []), key=lambda e: e[0])
        rows_txt.append("  | .%s => [%s]" % (s, ", ".join("(%d, %s)" % (cp, ref(o)) for cp, o in cells)))
    dflt_txt = ["  | .%s => %s" % (s, ("some " + ref(t["dflt"][s])) if s in t["dflt"] else "none") for s in statuses]
    end_txt = []
    for s in statuses:
        o = t["atEndExplicit"].get(s) or t["dflt"].get(s)
        end_txt.append("  | .%s => %s" % (s, ("some " + ref(o)) if o else "none"))
    for k, v in table.items():
        L.append("def %s : OpRef Cls := %s" % (v, k))
    L += ["", "def rows : S → List (Nat × OpRef Cls)"] + rows_txt
    L += ["", "def dflt : S → Option (OpRef Cls)"] + dflt_txt
    L += ["", "def atEnd : S → Option (OpRef Cls)"] + end_txt
    adv_st, wk = certificates(t, ops, statuses)
    L += ["", "/-- certificate: states entered by a non-advancing operation (checked by `TableOK`) -/",
          "def advSt : List S := [%s]" % ", ".join("." + x for x in adv_st), "",
          "/-- certificate: abstract window contents per state (checked by `TableOK`) -/", "def wk : S → WK"]
    L += ["  | .%s => %s" % (s, lean_wk(wk[s])) for s in statuses]
    L += ["", "def cfg : Cfg Cls := { code := Cls.code, rows := rows, dflt := dflt, atEnd := atEnd, wordMarks := wordMarks," +
          " upper := Gen.pyUpper, preChain := preChain, depthLimit := %d, endStatus := .%s }" % (params["depthLimit"], params["endStatus"]),
          "", "end Gen.%s" % name, ""]
    return "\n".join(L)


def main():
    os.makedirs(BUILD, exist_ok=True)
    status = {"refused": [], "changed": []}
    try:
        settings = [(bool(i & 4), bool(i & 2), bool(i & 1)) for i in range(8)]
        with concurrent.futures.ThreadPoolExecutor(9) as ex:
            futs = [ex.submit(dump_tables, b, True, False) for b in settings]
            live = ex.submit(dump_tables, (True, True, True), False, True)   # as shipped, config.py untouched
            tabs = [f.result() for f in futs]
            shipped = live.result()
        base = shipped
        for t in tabs:
            for k in ("status", "AMTMark", "wordMarks", "END_map", "END_operate", "END_machine"):
                if t[k] != base[k]:
                    raise Refuse("option setting changes %s" % k)
        if not (base["END_map"] == base["END_operate"] == base["END_machine"]):
            raise Refuse("the END markers of fsm_operation_map, fsm_operate and fsm_machine differ")
        if any(t["odd"] for t in tabs + [shipped]):
            raise Refuse("FSM_OPERATION_MAP has keys that are neither single characters nor END: %r" % shipped["odd"][:3])
        shipped_idx = 4 * int(bool(shipped["config"][0])) + 2 * int(bool(shipped["config"][1])) + int(bool(shipped["config"][2]))
        if {k: shipped[k] for k in ("rows", "atEndExplicit", "dflt")} != {k: tabs[shipped_idx][k] for k in ("rows", "atEndExplicit", "dflt")}:
            raise Refuse("the table imported with the shipped config differs from the pre-seeded import of the same options")
        statuses = [s for s, _ in base["status"]]
        for need in ("WAIT", "END"):
            if need not in statuses:
                raise Refuse("FSMStatus lacks " + need)
        consts = {"AMTMark": base["AMTMark"], "END_map": base["END_map"], "END_operate": base["END_operate"]}
        ops = translate_ops(consts)
        params = translate_driver()
        if params["endStatus"] not in statuses:
            raise Refuse("end status")
        mb_rules = translate_mybatis(shipped["mybatis_ops"])
        if shipped["mybatis_overrides"] != ["handle"] or shipped["mybatis_mro"][:2] != ["FSMMachineMyBatis", "FSMMachine"]:
            raise Refuse("FSMMachineMyBatis overrides more than handle: %r" % shipped["mybatis_overrides"])
        for r in mb_rules:
            if r.get("redirect"):
                if r["redirect"] not in statuses:
                    raise Refuse("FSMMachineMyBatis.handle: unknown status " + r["redirect"])
                continue
            check_opref(r["op"], ops, statuses)
        upper = upper_exceptions()
        st = dump_static()

        # ---- emit -------------------------------------------------------------------------------------
        files = {}
        files["Status.lean"] = (HEADER + "/-- `FSMStatus` -/\ninductive S | " + " | ".join(statuses)
                                + "\n  deriving DecidableEq, Repr, Inhabited\n\ndef allS : List S := ["
                                + ", ".join("." + s for s in statuses) + "]\n\ntheorem mem_allS (s : S) : s ∈ allS := by cases s <;> decide\n\n"
                                + "def S.name : S → String\n" + "\n".join('  | .%s => "%s"' % (s, s) for s in statuses) + "\n")
        classes = sorted(ops)
        L = [HEADER, "import MsqModel.Lex.TableOK", "import MsqModel.Gen.PyTables", "namespace Gen", "open Lex", "",
             "/-- the subclasses of `FSMOperate` -/", "inductive Cls | " + " | ".join(cls_name(c) for c in classes),
             "  deriving DecidableEq, Repr", "", "/-- `execute` bodies as micro-instruction lists (translated from the Python AST) -/",
             "def Cls.code : Cls → List Instr"]
        for c in classes:
            L.append("  | .%s => [%s]" % (cls_name(c), ", ".join(lean_instr(i) for i in ops[c]["code"])))
        L += ["", "def allCls : List Cls := [" + ", ".join("." + cls_name(c) for c in classes) + "]", "",
              "/-- `HANDLE_WORD_TO_MARK_HASH` -/",
              "def wordMarks : List (String × Nat) := [" + ", ".join("(%s, %d)" % (lean_str(k), v) for k, v in base["wordMarks"]) + "]", "",
              "/-- `preproc_sql` as a chain of `str.replace` calls -/",
              "def preChain : List (List Char × List Char) := [" + ", ".join("(%s, %s)" % (lean_chars(a), lean_chars(b)) for a, b in params["preChain"]) + "]", "",
              "def endMarker : List Char := " + lean_chars(base["END_map"]), "",
              "/-- `AMTMark` -/"]
        for k, v in base["AMTMark"].items():
            L.append("def mark_%s : Nat := %d" % (k, v))
        L += ["", "end Gen", ""]
        files["LexOps.lean"] = "\n".join(L)
        U = [HEADER, "import MsqModel.Py", "namespace Gen", ""]
        chunks = [upper[i:i + 100] for i in range(0, len(upper), 100)]
        for ci, ch in enumerate(chunks):
            U.append("def upperExcChunk%d : List (Nat × List Nat) := [" % ci)
            U.append(",\n".join("  (%d, [%s])" % (cp, ", ".join(map(str, u))) for cp, u in ch) + "]")
        U += ["", "/-- every code point ≥ 128 whose `str.upper()` is not itself, with the result (from the running interpreter) -/",
              "def upperExcTable : List (Nat × List Nat) := " + " ++ ".join("upperExcChunk%d" % i for i in range(len(chunks)))]
        U += ["", "def upperExc (cp : Nat) : Option (List Char) :=",
              "  (upperExcTable.find? (fun e => e.1 == cp)).map fun e => e.2.map Char.ofNat", "",
              "/-- Python's `str.upper()` -/", "def pyUpper : List Char → List Char := Py.upperWith upperExc", "",
              "def pyUpperS (s : String) : String := String.ofList (pyUpper s.toList)", "", "end Gen", ""]
        files["PyTables.lean"] = "\n".join(U)
        files["Static.lean"] = emit_static(st)
        files["Schema.lean"] = emit_schema(st)
        ws = write_set_report()
        files["WriteSet.lean"] = emit_writeset(ws)
        for i, t in enumerate(tabs):
            files["LexCfg%d.lean" % i] = emit_cfg("Cfg%d" % i, t, ops, params, statuses)
        M = [HEADER, "import MsqModel.Gen.LexCfg%d" % shipped_idx, "namespace Gen", "open Lex", "",
             "/-- index of the option setting shipped in config.py: 4·IGNORE_SPACE + 2·IGNORE_LINEBREAK + IGNORE_COMMENT -/",
             "def shippedIdx : Nat := %d" % shipped_idx, "", "/-- the shipped configuration -/",
             "abbrev cfgS : Cfg Cls := Cfg%d.cfg" % shipped_idx, "",
             "/-- `FSMMachineMyBatis.handle`: ordered intercepts with the literal strings compared -/",
             "def mbIntercepts : List (Intercept Cls) := ["]
        def lean_rule(r):
            test = ".any" if r["ch"] is None else "(.lit %s)" % lean_chars(r["ch"])
            if r.get("redirect"):
                return "  { status := .%s, ch := %s, op := ⟨.cRaise, .WAIT, 0⟩, redirect := some .%s }" % (r["status"], test, r["redirect"])
            return "  ⟨.%s, %s, %s, none⟩" % (r["status"], test, lean_opref(r["op"]))
        M.append(",\n".join(lean_rule(r) for r in mb_rules) + "]")
        M += ["", "def mybatis : Machine Cls := { cfg := cfgS, intercepts := mbIntercepts, endMarker := endMarker }",
              "def base : Machine Cls := { cfg := cfgS, intercepts := [], endMarker := endMarker }", "", "end Gen", ""]
        files["LexShipped.lean"] = "\n".join(M)
        for fn, content in files.items():
            if write_if_changed(os.path.join(GEN, fn), content):
                status["changed"].append(fn)
        gen = {"statuses": base["status"], "ops": ops, "params": params, "mybatis": mb_rules, "shippedIdx": shipped_idx,
               "AMTMark": base["AMTMark"], "wordMarks": base["wordMarks"], "END": base["END_map"],
               "tables": [{k: t[k] for k in ("rows", "atEndExplicit", "dflt")} for t in tabs],
               "upper_exceptions": len(upper), "static": st, "write_set": ws}
        write_if_changed(os.path.join(BUILD, "gen.json"), json.dumps(gen, sort_keys=True))
    except Refuse as e:
        status["refused"].append(str(e))
    with open(os.path.join(BUILD, "translate_status.json"), "w") as f:
        json.dump(status, f, indent=1)
    if status["refused"]:
        print("TRANSLATOR REFUSAL: " + "; ".join(status["refused"]))
        sys.exit(3)
    print("translate: ok; changed: %s" % (", ".join(status["changed"]) or "nothing"))


if __name__ == "__main__":
    main()
