"""Worker commands for C17 (implementation side).

CACHE <hex ops>            run an operation history against the real `CreateTableStatementGetter` in a fresh temporary
                           directory (ops joined by `;`:  new | nodisk | get:<hex name> | crash:<steps>:<flushed>:<hex name> |
                           put:<hex file name>:<hex text> = somebody else writes a file into the cache directory | anylength as first
                           op = names whose file name is too long for the file system are let through: implementation only);
                           same answer format as `lean/MsqModel/Driver/CmdCache.lean`.
QUOTE <hex name>           the name of the file `save_to_disk` creates for a table (observed in a fresh directory)
STEM <hex file name>       the table name `__init__` reads out of a directory entry of that name (`none` if it is ignored)
LINTHR <k> <n> <dialect> <hex sql>…   (implementation only) lineage requests from k threads on one shared analyzer, see `cmd_linthr`
LINH <dialect> <shared|fresh> <hex sql>…   (implementation only) a history of lineage requests in one process, see `cmd_linh`
LIN <dialect> <hex sql>    (implementation only) table lineage of every SELECT / INSERT…SELECT statement of the text with the
                           provider cold, warm in memory, warm on disk in a new instance, and without a directory: the
                           results, and the provider call log of each phase.
"""
import os, shutil, sys, tempfile, urllib.parse
import canon

ABS_SANDBOX = "/tmp/c17_abs"        # absolute table names are exercised only below this directory


def hx(s):
    return s.encode("utf-8").hex()


def unhx(h):
    return bytes.fromhex(h).decode("utf-8")


def fnv1a(s):
    """FNV-1a (64 bit) of the UTF-8 bytes, in hex (same function as `Drv.fnv1a`)"""
    h = 0xcbf29ce484222325
    for b in s.encode("utf-8"):
        h = ((h ^ b) * 0x100000001b3) & 0xFFFFFFFFFFFFFFFF
    return "%x" % h


def provider(name):
    """the schema provider of the correspondence runs (same function as `Drv.cacheProvider`)"""
    if name.endswith("#bad"):
        return "THIS IS NOT SQL"
    if name.endswith("#empty"):
        return ""
    c = "x\ry" if name.endswith("#cr") else ("x\r\ny" if name.endswith("#crlf") else "c")
    return "CREATE TABLE t_" + hx(name) + " (a INT, b VARCHAR(8) COMMENT '" + c + "')"


def path_class(name):
    """where the RAW name would lead if it were pasted into a path (the model's `Cache.resolveP` classification; the code before /repo 69f92c3);
    used by `LIN` to refuse names that would leave the sandbox directories should the encoding be lost"""
    p = name + ".sql"
    if "\0" in p:
        return "nul"
    if p.startswith("/"):
        return "outside"
    comps = [c for c in p.split("/") if c not in ("", ".")]
    if any(len(c.encode("utf-8")) > 200 for c in comps):
        return "long"
    if len(comps) == 1:
        return "inDir"
    if comps[0] == "..":
        return "parent" if len(comps) == 2 else "outside"
    return "via"


def sandbox_class(name):
    """guard of the `CACHE` histories.  `long`: the encoded file name exceeds what a file system takes (the model has no length limit).  `outside`:
    the name, pasted RAW into a path, would lead out of the scratch directories — such names are refused although the encoding keeps every name inside
    the cache directory: a changed implementation under test may have lost the encoding.  Absolute names are allowed below ABS_SANDBOX, `..` up to the
    scratch directory above the cache directory."""
    try:
        if len(urllib.parse.quote(name, safe="")) + len(".sql.tmp") > 255:
            return "long"
    except UnicodeEncodeError:
        return "outside"
    if "\0" in name:
        return "ok"
    comps = (name + ".sql").split("/")
    if name.startswith("/"):
        return "ok" if name.startswith(ABS_SANDBOX + "/") and ".." not in comps else "outside"
    depth = 1                                   # the cache directory is one level below the scratch directory
    for c in comps[:-1]:
        if c in ("", "."):
            continue
        depth += -1 if c == ".." else 1
        if depth < 0:
            return "outside"
    return "outside" if comps[-1] == ".." else "ok"


class AbsSandbox:
    """exclusive use of ABS_SANDBOX while a history with absolute table names runs (the workers run in parallel); `left()` = what lies in it, then emptied"""
    def __init__(self, names):
        self.used = any(n.startswith("/") for n in names)
        self.lock = None

    def __enter__(self):
        if self.used:
            import fcntl
            os.makedirs(ABS_SANDBOX, exist_ok=True)
            self.lock = open(ABS_SANDBOX + ".lock", "w")
            fcntl.flock(self.lock, fcntl.LOCK_EX)
            self.left()
        return self

    def left(self):
        if not self.used:
            return ""
        out = listing(ABS_SANDBOX, prefix="2f")          # `2f…` = below ABS_SANDBOX
        for fn in os.listdir(ABS_SANDBOX):
            p = os.path.join(ABS_SANDBOX, fn)
            shutil.rmtree(p, ignore_errors=True) if os.path.isdir(p) else os.remove(p)
        return out

    def __exit__(self, *a):
        if self.lock is not None:
            self.left()
            self.lock.close()
        return False


def fs_name_ok(b):
    """can these bytes be the name of a directory entry?"""
    return 0 < len(b) <= 255 and b"/" not in b and b"\0" not in b and b not in (b".", b"..")


class Crash(BaseException):
    """the simulated process death: nothing in the library may catch it"""


class CrashingFile:
    """the file object `open(<name>.sql.tmp, "w")` returns while a crash is armed"""
    def __init__(self, f, crash):
        self.f, self.crash = f, crash

    def __enter__(self):
        return self

    def write(self, s):
        if self.crash[0] == 3:               # the process dies during write: only a prefix reached the disk
            self.f.write(s[:self.crash[1]])
            self.f.close()
            raise Crash()
        return self.f.write(s)

    def __exit__(self, *a):
        self.f.close()
        if self.crash[0] == 4 and a[0] is None:     # … after close, before os.replace
            raise Crash()
        return False


def listing(d, skip=(), prefix=""):
    out = []
    for fn in os.listdir(d):
        if fn in skip:
            continue
        p = os.path.join(d, fn)
        h = prefix + os.fsencode(fn).hex()
        if os.path.isfile(p):
            with open(p, "r", encoding="UTF-8", newline="") as f:
                out.append(h + ":" + str(len(f.read())))
        else:
            out.append(h + ":dir")
    return ",".join(sorted(out))


def run_ops(ops):
    from metasequoia_sql.analyzer import tool
    names = [unhx(o.split(":")[-1]) for o in ops if o.startswith(("get:", "crash:"))]
    anylength = ops[:1] == ["anylength"]         # implementation only: names whose file name the file system refuses (the model has no length limit)
    for n in names:
        if sandbox_class(n) != "ok" and not (anylength and sandbox_class(n) == "long" and "/" not in n):
            return "UNMODELLED path"
    for o in ops:
        if o.startswith("put:") and not (len(o.split(":")) == 3 and fs_name_ok(bytes.fromhex(o.split(":")[1]))):
            return "UNMODELLED file name"
    with AbsSandbox(names) as sandbox:
        return run_ops_in(ops, sandbox)


def run_ops_in(ops, sandbox):
    from metasequoia_sql.analyzer import tool
    outer = tempfile.mkdtemp(prefix="c17_")
    cache = os.path.join(outer, "cache")
    os.mkdir(cache)
    calls, armed = [], [None]

    class G(tool.CreateTableStatementGetter):
        def get_sql(self, full_table_name):
            calls.append(full_table_name)
            if armed[0] is not None and armed[0][0] == 1:
                raise Crash()
            return provider(full_table_name)

    real_open = open

    def fake_open(path, mode="r", *a, **k):
        c = armed[0]
        if c is not None and "w" in mode:
            f = real_open(path, mode, *a, **k)
            if c[0] == 2:                    # the process dies right after the file was created / truncated
                f.close()
                raise Crash()
            return CrashingFile(f, c)
        return real_open(path, mode, *a, **k)

    real_replace = os.replace

    def fake_replace(src, dst, *a, **k):
        real_replace(src, dst, *a, **k)
        if armed[0] is not None and armed[0][0] == 5:   # … right after the rename
            raise Crash()

    inst, out = None, []
    try:
        for op in ops:
            parts = op.split(":")
            if parts[0] in ("new", "nodisk") and len(parts) == 1:
                try:
                    inst = G(cache if parts[0] == "new" else None)
                    out.append("I[" + ",".join(sorted(set(hx(n) for n in inst._disk_cache))) + "]")
                except Exception as e:
                    inst = None
                    out.append("E:" + canon.err_kind(e).replace(" ", "_"))
            elif parts[0] == "anylength":
                out.append("L")
            elif parts[0] == "put":
                with real_open(os.path.join(os.fsencode(cache), bytes.fromhex(parts[1])), "w", encoding="UTF-8", newline="") as f:
                    f.write(unhx(parts[2]))
                out.append("P")
            elif parts[0] in ("get", "crash"):
                if inst is None:
                    out.append("NOINSTANCE")
                    continue
                name = unhx(parts[-1])
                if parts[0] == "crash":
                    armed[0] = (int(parts[1]), int(parts[2]))
                    tool.open = fake_open
                    os.replace = fake_replace
                before = len(calls)
                asked = lambda: "+" if len(calls) != before else "-"
                try:
                    st = inst.get_statement(name)
                    out.append(asked() + "S#" + fnv1a(canon.dump(st)))
                except Crash:
                    out.append(asked() + "CRASHED")
                    inst = None
                except Exception as e:
                    k = canon.err_kind(e)
                    if k.startswith("UNMODELLED"):
                        return k
                    out.append(asked() + "E:" + k.replace(" ", "_"))
                finally:
                    armed[0] = None
                    os.replace = real_replace
                    if "open" in tool.__dict__:
                        del tool.open
            else:
                out.append("BADOP")
        above = [x for x in (listing(outer, skip=("cache",)), sandbox.left()) if x]
        return ("OK " + " ".join(out) + " calls=" + ",".join(hx(n) for n in calls) + " dir=" + listing(cache) + " parent=" + ",".join(above))
    finally:
        shutil.rmtree(outer, ignore_errors=True)


def cmd_cache(parts):
    ops = canon.unhex(parts[1]).split(";")
    return run_ops(ops)


def cmd_quote(parts):
    """QUOTE <hex name>: `save_to_disk(name, …)` on the real class in a fresh directory; the file it leaves"""
    from metasequoia_sql.analyzer import tool
    name = canon.unhex(parts[1])
    if sandbox_class(name) != "ok":
        return "UNMODELLED path"
    outer = tempfile.mkdtemp(prefix="c17q_")
    cache = os.path.join(outer, "cache")
    os.mkdir(cache)
    try:
        class G(tool.CreateTableStatementGetter):
            def get_sql(self, full_table_name):
                return ""
        with AbsSandbox([name]) as sandbox:
            try:
                G(cache).save_to_disk(name, "x")
            finally:
                above = ",".join(x for x in (listing(outer, skip=("cache",)), sandbox.left()) if x)
        got = os.listdir(cache)
        if len(got) != 1 or above:
            return "OK files=%s above=%s" % (",".join(sorted(os.fsencode(f).hex() for f in got)), above)
        return "OK " + os.fsencode(got[0]).hex()
    except Exception as e:
        return canon.err_kind(e)
    finally:
        shutil.rmtree(outer, ignore_errors=True)


def cmd_stem(parts):
    """STEM <hex file name>: a directory holding one entry of that name; what `__init__` lists"""
    from metasequoia_sql.analyzer import tool
    fn = bytes.fromhex(parts[1]) if parts[1] != "-" else b""
    if not fs_name_ok(fn):
        return "UNMODELLED file name"
    outer = tempfile.mkdtemp(prefix="c17s_")
    try:
        with open(os.path.join(os.fsencode(outer), fn), "w") as f:
            f.write("x")

        class G(tool.CreateTableStatementGetter):
            def get_sql(self, full_table_name):
                return ""
        got = sorted(G(outer)._disk_cache)
        return "OK none" if not got else ("OK some " + hx(got[0]) if len(got) == 1 else "OK many")
    except Exception as e:
        return canon.err_kind(e)
    finally:
        shutil.rmtree(outer, ignore_errors=True)


# ---------------------------------------------------------------------------------------------------------------------
# lineage requests
# ---------------------------------------------------------------------------------------------------------------------

def lin_provider(name):
    """a catalogue that knows every table: three columns a, b, c; the table is named after the key it was asked under"""
    return "CREATE TABLE t_" + hx(name) + " (a INT, b INT, c INT)"


def show_lineage(x):
    import dataclasses
    if dataclasses.is_dataclass(x):
        return canon.dump(x)
    if isinstance(x, (list, tuple)):
        return "[" + ",".join(show_lineage(y) for y in x) + "]"
    return canon.dump(x)


def analyse(getter, stmts, analyzer=None):
    from metasequoia_sql.analyzer.data_linage.table_lineage_analyzer import TableLineageAnalyzer
    from metasequoia_sql.core import node as N
    import contextlib, io
    a = analyzer if analyzer is not None else TableLineageAnalyzer(getter)
    out = []
    for st in stmts:
        try:
            with contextlib.redirect_stdout(io.StringIO()):       # the analyzer prints diagnostics before raising
                if isinstance(st, N.ASTInsertSelectStatement):
                    r = a.get_insert_table_lineage(st).all_columns()
                elif isinstance(st, N.ASTSelectStatement):
                    r = a.get_select_table_lineage(st).all_columns()
                else:
                    out.append("SKIP")
                    continue
            out.append("R" + show_lineage(r))
        except Exception as e:
            out.append("E:" + canon.err_kind(e).replace(" ", "_"))
    return out


def base_tables(stmts):
    """independent, scope-aware reading of the statements: the FROM / JOIN names that denote BASE tables (a schema-less name denotes a WITH
    table only where that WITH table is visible: in later WITH definitions of the same clause, in the body, and in everything nested in
    them — not in its own definition and not in earlier ones), the WITH names, the derived-table aliases and the INSERT targets without
    column list; names in the canonical spelling `schema.table` / `table`"""
    import dataclasses
    from metasequoia_sql.core import node as N
    named, withs, derived, targets = set(), set(), set(), set()

    def walk(v, visible):
        if isinstance(v, (tuple, list)):
            for x in v:
                walk(x, visible)
            return
        if not is_dataclass_instance(v):
            return
        if isinstance(v, N.ASTFromTable):
            if isinstance(v.name, N.ASTTableNameExpression):
                if v.name.schema_name is None and v.name.table_name in visible:
                    return                      # a reference to a WITH table
                named.add((v.name.schema_name + "." if v.name.schema_name else "") + v.name.table_name)
                return
            if v.alias is not None:
                derived.add(v.alias.name)
        wc = getattr(v, "with_clause", None) if any(f.name == "with_clause" for f in dataclasses.fields(v)) else None
        vis = visible
        if isinstance(wc, N.ASTWithClause):
            for wt in wc.tables:
                walk(wt.statement, vis)
                withs.add(wt.name)
                vis = vis | {wt.name}
        for f in dataclasses.fields(v):
            if f.name != "with_clause":
                walk(getattr(v, f.name), vis)

    for st in stmts:
        walk(st, frozenset())
        if isinstance(st, N.ASTInsertSelectStatement) and st.columns is None:
            t = st.table_name
            targets.add((t.schema_name + "." if t.schema_name else "") + t.table_name)
    return named, withs, derived, targets


def is_dataclass_instance(v):
    import dataclasses
    return dataclasses.is_dataclass(v) and not isinstance(v, type)


def cmd_lin(parts):
    from metasequoia_sql import SQLParser, SQLType
    from metasequoia_sql.analyzer import tool
    try:
        stmts = SQLParser.parse_statements(canon.unhex(parts[2]), sql_type=SQLType[parts[1]])
    except Exception as e:
        return canon.err_kind(e)
    outer = tempfile.mkdtemp(prefix="c17l_")
    try:
        logs = []

        class G(tool.CreateTableStatementGetter):
            def __init__(self, d):
                super().__init__(d)
                self.calls = []
                logs.append(self.calls)

            def get_sql(self, full_table_name):
                self.calls.append(full_table_name)
                if path_class(full_table_name) not in ("inDir", "via", "nul"):
                    raise RuntimeError("refused: name leaves the sandbox")
                return lin_provider(full_table_name)

        g1 = G(outer)
        cold = analyse(g1, stmts)
        n_cold = len(g1.calls)
        warm_mem = analyse(g1, stmts)
        g2 = G(outer)
        warm_disk = analyse(g2, stmts)
        g3 = G(None)
        nodisk = analyse(g3, stmts)
        named, withs, derived, targets = base_tables(stmts)
        f = lambda xs: ",".join(hx(x) for x in xs)
        return ("OK cold=%s mem=%s disk=%s nodisk=%s calls_cold=%s calls_mem=%s calls_disk=%s calls_nodisk=%s named=%s with=%s derived=%s target=%s"
                % ("|".join(cold), "|".join(warm_mem), "|".join(warm_disk), "|".join(nodisk), f(g1.calls[:n_cold]), f(g1.calls[n_cold:]),
                   f(g2.calls), f(g3.calls), f(sorted(named)), f(sorted(withs)), f(sorted(derived)), f(sorted(targets))))
    finally:
        shutil.rmtree(outer, ignore_errors=True)


def cmd_linh(parts):
    """LINH <dialect> <shared|fresh> <hex statement>…   a HISTORY of lineage requests in this process: `shared` = one provider and one
    analyzer for the whole history, `fresh` = a new provider, analyzer (and so storage) for every statement.  Per statement: the lineage
    and the names the provider was asked for while analysing it.  (The harness runs every history in a process of its own.)"""
    from metasequoia_sql import SQLParser, SQLType
    from metasequoia_sql.analyzer import tool
    st = SQLType[parts[1]]

    class G(tool.CreateTableStatementGetter):
        def __init__(self):
            super().__init__(None)
            self.calls = []

        def get_sql(self, full_table_name):
            self.calls.append(full_table_name)
            return lin_provider(full_table_name)

    from metasequoia_sql.analyzer.data_linage.table_lineage_analyzer import TableLineageAnalyzer
    shared = G() if parts[2] == "shared" else None
    shared_analyzer = TableLineageAnalyzer(shared) if shared is not None else None
    out = []
    for h in parts[3:]:
        try:
            stmts = SQLParser.parse_statements(canon.unhex(h), sql_type=st)
        except Exception as e:
            out.append("r=P:" + canon.err_kind(e).replace(" ", "_") + ";c=")
            continue
        g = shared if shared is not None else G()
        before = len(g.calls)
        res = analyse(g, stmts, shared_analyzer)
        out.append("r=" + "|".join(res) + ";c=" + ",".join(hx(n) for n in g.calls[before:]))
    return "OK " + " ".join(out)


def cmd_linthr(parts):
    """LINTHR <k threads> <n rounds> <dialect> <hex statement>…   (implementation only) lineage requests from k threads on ONE shared analyzer and
    provider.  Reference = every statement alone on a fresh analyzer and provider, computed before AND after the threaded run (they must agree:
    the analysis is deterministic).  Each thread analyses `n` statements of the pool (thread t starts at statement t and steps by a stride that
    depends on t); the provider yields the processor at every lookup and the interpreter's switch interval is made tiny, so that calls interleave.
    A mismatch = a call on the shared analyzer whose lineage differs from the statement's own lineage; the first one is reported with the
    statements that were in flight at that moment."""
    import sys, threading, time, io
    from metasequoia_sql import SQLParser, SQLType
    from metasequoia_sql.analyzer import tool
    from metasequoia_sql.analyzer.data_linage.table_lineage_analyzer import TableLineageAnalyzer
    from metasequoia_sql.core import node as N
    k, rounds, st = int(parts[1]), int(parts[2]), SQLType[parts[3]]
    texts = [canon.unhex(h) for h in parts[4:]]
    stmts = []
    for t in texts:
        try:
            ss = SQLParser.parse_statements(t, sql_type=st)
        except Exception as e:
            return "BADPOOL " + canon.err_kind(e)
        if len(ss) != 1 or not isinstance(ss[0], (N.ASTSelectStatement, N.ASTInsertSelectStatement)):
            return "BADPOOL statement"
        stmts.append(ss[0])

    class G(tool.CreateTableStatementGetter):
        def __init__(self):
            super().__init__(None)

        def get_statement(self, full_table_name):
            time.sleep(0)                       # give the other threads a chance at every schema lookup
            return super().get_statement(full_table_name)

        def get_sql(self, full_table_name):
            time.sleep(0)
            return lin_provider(full_table_name)

    def lineage(analyzer, stmt):
        try:
            if isinstance(stmt, N.ASTInsertSelectStatement):
                return "R" + show_lineage(analyzer.get_insert_table_lineage(stmt).all_columns())
            return "R" + show_lineage(analyzer.get_select_table_lineage(stmt).all_columns())
        except Exception as e:
            return "E:" + canon.err_kind(e).replace(" ", "_")

    real_stdout, old_interval = sys.stdout, sys.getswitchinterval()
    sys.stdout = io.StringIO()                  # the analyzer prints diagnostics before some errors; one swap for the whole run (not per call: threads)
    try:
        alone = [lineage(TableLineageAnalyzer(G()), s_) for s_ in stmts]
        shared = TableLineageAnalyzer(G())
        inflight, mism, calls = [None] * k, [], [0]

        def work(t):
            i = t
            for _ in range(rounds):
                idx = i % len(stmts)
                inflight[t] = idx
                got = lineage(shared, stmts[idx])
                if got != alone[idx] and len(mism) < 50:
                    mism.append((idx, got, [x for j, x in enumerate(inflight) if j != t and x is not None]))
                inflight[t] = None
                calls[0] += 1
                i += 1 + (t % 3)
        sys.setswitchinterval(1e-6)
        ths = [threading.Thread(target=work, args=(t,)) for t in range(k)]
        for th in ths: th.start()
        for th in ths: th.join()
        sys.setswitchinterval(old_interval)
        again = [lineage(TableLineageAnalyzer(G()), s_) for s_ in stmts]
    finally:
        sys.setswitchinterval(old_interval)
        sys.stdout = real_stdout
    if again != alone:
        return "OK calls=%d mismatches=0 nondeterministic-alone=%d" % (calls[0], sum(1 for x, y in zip(alone, again) if x != y))
    if not mism:
        return "OK calls=%d mismatches=0" % calls[0]
    idx, got, others = mism[0]
    return "OK calls=%d mismatches=%d first=%s got=%s alone=%s inflight=%s" % (calls[0], len(mism), hx(texts[idx]), got, alone[idx], ",".join(hx(texts[j]) for j in others))


COMMANDS = {"CACHE": cmd_cache, "QUOTE": cmd_quote, "STEM": cmd_stem, "LIN": cmd_lin, "LINH": cmd_linh, "LINTHR": cmd_linthr}
