"""History hazards: does the answer to a request depend on what the SAME process was asked before?

Every model in /verif/lean is a pure function of the request, and the correspondence compares it with the implementation request by request, in one fixed order.  That
says nothing about an implementation that REMEMBERS: a result cache with a key that forgets the dialect, the token boundaries, the letter case or the quoting of the
text; a memoised function whose (mutable) result a later call changes in place.  Such a change keeps every single answer of a fresh process right — and so every
request-by-request comparison — while the property fails on histories.  This module asks a sample of the requests of every correspondence stream again, each in ONE
process directly after a few *neighbours* a wrongly keyed memory could confuse it with:

  * the same text under the other dialects (key without the dialect; pre-passes of HIVE / DB2 first),
  * the text with two neighbouring words run together / one word split by a blank (key from concatenated token texts),
  * the text in upper / lower case (key that folds case), the text without back-quotes (key from unified names),
  * for analysis requests: the lineage analysis of `S UNION ALL S` and of S itself over a catalogue guessed from S (the only code of the library that changes
    analysis results in place),
  * for analysis requests: the same analyses run by a caller that then CHANGES the list / dict it was given (command ANMUT): a result is the caller's own object,
  * the request itself (asked twice: a result that is changed after it was handed out).

The answer after the neighbours must be the answer the fresh pass gave.  A difference is a failure of the property at hand on a concrete history (kind
"history-hazard"; the replay re-runs exactly that request sequence in a fresh process)."""
import re
import engine as E

DIALECTS = ["DEFAULT", "MYSQL", "HIVE", "ORACLE", "DB2", "POSTGRE_SQL", "SQL_SERVER"]
TEXT_COMMANDS = ("P", "PR", "RT", "ACC", "AN", "LM", "CONV")
PER_STREAM = 40
WORD = re.compile(r"[A-Za-z_][A-Za-z_0-9]*")


def eligible(req):
    p = req.split(" ")
    return p[0] in TEXT_COMMANDS and len(p) >= 2 and re.fullmatch(r"(?:[0-9a-f]{2})+", p[-1]) is not None and len(p[-1]) <= 1200


def text_variants(t, r):
    out = []
    # two neighbouring words run together; one word split
    gaps = [m.start() for m in re.finditer(r"(?<=[A-Za-z_0-9]) (?=[A-Za-z_0-9])", t)]
    for g in r.shuffle(gaps)[:2]:
        out.append(t[:g] + t[g + 1:])
    words = [m for m in WORD.finditer(t) if len(m.group()) >= 2]
    for m in r.shuffle(words)[:2]:
        k = m.start() + 1 + r.below(len(m.group()) - 1)
        out.append(t[:k] + " " + t[k:])
    out += [t.upper(), t.lower(), t.replace("`", ""), re.sub(r"(\d)(\d)", r"\1 \2", t, count=1)]
    return [v for v in dict.fromkeys(out) if v != t]


def neighbours(req, r):
    p = req.split(" ")
    t = E.unhex(p[-1])
    out = []
    dpos = [i for i, x in enumerate(p[:-1]) if x in DIALECTS]
    for i in dpos:
        for d in (["HIVE", "DB2"] + [r.choice(DIALECTS)]):
            if d != p[i]:
                q = list(p); q[i] = d; out.append(" ".join(q))
    for v in text_variants(t, r):
        q = list(p); q[-1] = E.enhex(v); out.append(" ".join(q))
    if p[0] == "AN" and p[1] in ("tables", "columns") and dpos:
        # a caller that changes the list it was handed (the result of an analysis is the caller's own object), for every kind of analysis of the statement
        kinds = {"tables": ["all", "from", "join"], "columns": ["all", "select", "join", "where", "group", "having", "order", "hash"]}[p[1]]
        out += ["ANMUT %s %s %s %s" % (p[1], k, p[dpos[0]], p[-1]) for k in dict.fromkeys([p[2]] + r.shuffle(kinds)[:3])]
        d = p[dpos[0]]
        cat = guessed_catalogue(t)
        if cat:
            body = t.rstrip().rstrip(";")
            out.append("AN lineage %s %s %s" % (d, E.enhex(cat), E.enhex(body + " UNION ALL " + body)))
            out.append("AN lineage %s %s %s" % (d, E.enhex(cat), E.enhex(body)))
    return list(dict.fromkeys(out))


def guessed_catalogue(t):
    """CREATE TABLEs that give every word after FROM / JOIN every other plain word of the statement as a column: enough for the lineage analyzer to walk a simple
    statement (when it cannot, the neighbour is an analysis error and simply has no effect)"""
    tabs = list(dict.fromkeys(m.group(1) for m in re.finditer(r"(?i)\b(?:FROM|JOIN)\s+([A-Za-z_][A-Za-z_0-9]*(?:\.[A-Za-z_][A-Za-z_0-9]*)?)", t)))
    cols = [w for w in dict.fromkeys(WORD.findall(t)) if w.upper() not in KEYWORDS and w not in tabs][:40]
    if not tabs or not cols or len(tabs) > 6:
        return None
    return "; ".join("CREATE TABLE %s (%s)" % (tb, ", ".join("%s int" % c for c in cols)) for tb in tabs)


KEYWORDS = set("SELECT FROM WHERE GROUP BY HAVING ORDER LIMIT JOIN LEFT RIGHT INNER OUTER FULL CROSS ON USING AS AND OR NOT IN IS NULL LIKE BETWEEN CASE WHEN THEN ELSE END UNION ALL "
               "EXCEPT INTERSECT MINUS DISTINCT ASC DESC WITH INSERT INTO VALUES OVER PARTITION ROWS EXISTS TRUE FALSE XOR DIV MOD RLIKE REGEXP OFFSET".split())


def remember(ctx, stream, res):
    """called by Ctx.corr: keep a sample of the stream's text-bearing requests with the answers the implementation gave in the fresh pass"""
    pool = [(q, a) for q, a, _ in res if eligible(q) and not a.startswith(("HANG", "UNMODELLED", "HARNESS", "BADREQ"))]
    if not pool:
        return
    r = ctx.rng.fork("hazards:" + stream)
    ok = [x for x in pool if x[1].startswith("OK")]
    err = [x for x in pool if not x[1].startswith("OK")]
    pick = r.shuffle(ok)[:PER_STREAM] + r.shuffle(err)[:PER_STREAM // 4]
    if not hasattr(ctx, "hazard_pool"):
        ctx.hazard_pool = []
    ctx.hazard_pool += [(stream, q, a) for q, a in pick]


def run_sequence(seq):
    """the answers of ONE fresh process to the requests, in order (None when the process did not answer)"""
    import os
    old = os.environ.get("MSQ_REQ_TIMEOUT")
    os.environ["MSQ_REQ_TIMEOUT"] = "90"          # one alarm for the whole sequence; every request of it was, or resembles one that was, answered within 5 s before
    try:
        a = E.run_impl(["THR 1 %s" % E.enhex("\n".join(seq))], jobs=1)[0]
    finally:
        if old is None: os.environ.pop("MSQ_REQ_TIMEOUT", None)
        else: os.environ["MSQ_REQ_TIMEOUT"] = old
    if not a.startswith("OK "):
        return None
    out = E.unhex(a[3:]).split("\n")
    return out if len(out) == len(seq) else None


def check(ctx):
    pool = getattr(ctx, "hazard_pool", [])
    if not pool or getattr(ctx, "hazards_done", False):
        return
    ctx.hazards_done = True
    r = ctx.rng.fork("hazards")
    seqs = []
    for stream, q, a in pool:
        nb = neighbours(q, r)
        seqs.append((stream, q, a, nb + [q, q]))
    # all sequences of the check in ONE process (each is itself part of the history of the later ones), then every suspicious one alone in a fresh process
    ctx.cov.setdefault("history_hazards", {"requests_asked_again": 0, "neighbour_requests": 0, "different": 0, "batches_without_answer": 0})
    B = 25
    for i in range(0, len(seqs), B):
        batch = seqs[i:i + B]
        flat = [x for s in batch for x in s[3]]
        ans = run_sequence(flat)
        if ans is None:
            ctx.cov["history_hazards"]["batches_without_answer"] += 1
            ctx.count("hazards:batch-without-answer")
            continue
        judge_batch(ctx, batch, flat, ans)


def judge_batch(ctx, seqs, flat, ans):
    import pfam
    k = 0
    for idx, (stream, q, a, seq) in enumerate(seqs):
        got = ans[k:k + len(seq)]; k += len(seq)
        ctx.cov["history_hazards"]["requests_asked_again"] += 1
        ctx.cov["history_hazards"]["neighbour_requests"] += len(seq) - 2
        ctx.cov["evaluations"] += len(seq)
        if got[-1] == a and got[-2] == a:
            ctx.count("hazards:%s:same" % stream)
            continue
        alone = run_sequence(seq)
        if alone is None:
            continue
        if alone[-1] == a and alone[-2] == a:
            # only the longer history shows it: keep the whole history up to this request
            upto = flat[:sum(len(s[3]) for s in seqs[:idx + 1])]
            again = run_sequence(upto)
            if again is None or (again[-1] == a and again[-2] == a):
                ctx.count("hazards:%s:not-reproduced" % stream)
                continue
            seq, alone = upto, again
        else:
            # smallest set of neighbours that still changes the answer
            base = seq[:-2]
            for x in list(base):
                trial = [y for y in base if y is not x]
                t_ans = run_sequence(trial + [q, q])
                if t_ans is not None and (t_ans[-1] != a or t_ans[-2] != a):
                    base = trial
            seq = base + [q, q]
            alone = run_sequence(seq) or alone
        ctx.cov["history_hazards"]["different"] += 1
        ctx.count("hazards:%s:DIFFERENT" % stream)
        pfam.report(ctx, "depends-on-history:" + q.split(" ")[0],
                    {"kind": "history-hazard", "entry": q.split(" ")[0], "input": E.unhex(q.split(" ")[-1])[:600], "request": q, "requests": seq,
                     "texts": [E.unhex(x.split(" ")[-1])[:200] for x in seq][-8:], "fresh_answer": a[:600], "observed": [alone[-2][:600], alone[-1][:600]],
                     "oracle": "%s is stated for every input, whatever was processed before: the answer to a request directly after its neighbours (other dialect, words run together / "
                               "split, other letter case, lineage analysis of the same statement, the request itself) must be the answer a fresh process gives" % ctx.prop,
                     "how_found": "history hazards of stream " + stream})


def replay(payload):
    seq = payload["requests"]
    got = run_sequence(seq) or ["no answer", "no answer"]
    fresh = E.run_impl([payload["request"]], jobs=1)[0]
    print("request          :", payload["request"][:160])
    print("text             :", repr(payload.get("input", ""))[:300])
    print("asked after      :", [t[:80] for t in payload.get("texts", [])[:-2]])
    print("fresh process    :", fresh[:300])
    print("after the history:", got[-2][:300])
    print("asked once more  :", got[-1][:300])
    return 0 if got[-1] == fresh and got[-2] == fresh else 1
