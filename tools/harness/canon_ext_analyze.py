"""Implementation side of the analyzer commands (C14-C16); the model side is lean/MsqModel/Driver/CmdAnalyze.lean.

AN tables <all|from|join> <dialect> <hex text>
AN columns <all|select|join|where|group|having|order|hash> <dialect> <hex text>
AN lineage <dialect> <hex catalogue> <hex text>
"""
import canon


def _first_statement(dialect, text):
    from metasequoia_sql import SQLParser, SQLType
    return SQLParser.parse_statements(text, SQLType[dialect])[0]


def an_tables(kind, dialect, text):
    from metasequoia_sql import analyzer as A
    cls = {"all": A.AllUsedQuoteTables, "from": A.AllFromClauseUsedQuoteColumn, "join": A.AllJoinClauseUsedQuoteColumn}.get(kind)
    if cls is None:
        return "BADREQ kind"
    try:
        stmt = _first_statement(dialect, text)
        return "OK " + canon.dump(cls.handle(stmt))
    except Exception as e:
        return canon.err_kind(e)


def an_columns(kind, dialect, text):
    from metasequoia_sql import analyzer as A
    table = {"all": A.CurrentUsedQuoteColumn, "select": A.CurrentSelectClauseUsedQuoteColumn, "join": A.CurrentJoinClauseUsedQuoteColumn,
             "where": A.CurrentWhereClauseUsedQuoteColumn, "group": A.CurrentGroupByClauseUsedQuoteColumn, "having": A.CurrentHavingClauseUsedQuoteColumn,
             "order": A.CurrentOrderByClauseUsedQuoteColumn, "hash": A.CurrentColumnSelectToDirectQuoteHash}
    cls = table.get(kind)
    if cls is None:
        return "BADREQ kind"
    try:
        stmt = _first_statement(dialect, text)
        res = cls.handle(stmt)
        if kind == "hash":
            res = [(k, v) for k, v in res.items()]      # the dict in insertion order
        return "OK " + canon.dump(res)
    except Exception as e:
        return canon.err_kind(e)


_GETTER = None


def getter_class():
    """a CreateTableStatementGetter that serves the catalogue from a dict and records the names it is asked for"""
    global _GETTER
    if _GETTER is None:
        from metasequoia_sql.analyzer import CreateTableStatementGetter

        class DictGetter(CreateTableStatementGetter):
            def __init__(self, catalogue):
                super().__init__(None)
                self.catalogue, self.asked = catalogue, []

            def get_sql(self, full_table_name):
                self.asked.append(full_table_name)
                return self.catalogue[full_table_name.strip("`")]
        _GETTER = DictGetter
    return _GETTER


def parse_catalogue(text):
    """`CREATE TABLE …; CREATE TABLE …` -> {"schema.table" | "table": statement text}"""
    from metasequoia_sql import SQLParser
    cat = {}
    for piece in text.split(";"):
        if not piece.strip(" \t\n\r\x0b\x0c"):
            continue
        ast = SQLParser.parse_create_table_statement(piece)
        if type(ast).__name__ != "ASTCreateTableStatement":
            raise ValueError("not a plain CREATE TABLE")
        t = ast.table_name
        key = "%s.%s" % (t.schema_name, t.table_name) if t.schema_name else t.table_name
        if key not in cat:
            cat[key] = piece
    return cat


def an_lineage(dialect, cat_text, text):
    import contextlib, io
    from metasequoia_sql.analyzer.data_linage.table_lineage_analyzer import TableLineageAnalyzer
    try:
        cat = parse_catalogue(cat_text)
    except Exception:
        return "BADREQ catalogue"
    g = getter_class()(cat)
    try:
        stmt = _first_statement(dialect, text)
        kind = type(stmt).__name__
        if kind not in ("ASTSingleSelectStatement", "ASTUnionSelectStatement", "ASTInsertSelectStatement"):
            return "BADREQ statement"
        with contextlib.redirect_stdout(io.StringIO()):      # the analyzer prints its upstream tables before raising "no match"
            an = TableLineageAnalyzer(g)
            res = an.get_insert_table_lineage(stmt).all_columns() if kind == "ASTInsertSelectStatement" else an.get_select_table_lineage(stmt).all_columns()
        return "OK " + canon.dump(res) + " ASKED " + canon.dump(g.asked)
    except Exception as e:
        return canon.err_kind(e)


def an_lineage_seq(dialect, cat_text, texts):
    """several statements on ONE TableLineageAnalyzer, as a program that keeps the analyzer around uses it"""
    import contextlib, io
    from metasequoia_sql.analyzer.data_linage.table_lineage_analyzer import TableLineageAnalyzer
    try:
        cat = parse_catalogue(cat_text)
    except Exception:
        return "BADREQ catalogue"
    an = TableLineageAnalyzer(getter_class()(cat))
    out = []
    for text in texts:
        try:
            stmt = _first_statement(dialect, text)
            kind = type(stmt).__name__
            if kind not in ("ASTSingleSelectStatement", "ASTUnionSelectStatement", "ASTInsertSelectStatement"):
                out.append("BADREQ statement"); continue
            with contextlib.redirect_stdout(io.StringIO()):
                res = an.get_insert_table_lineage(stmt).all_columns() if kind == "ASTInsertSelectStatement" else an.get_select_table_lineage(stmt).all_columns()
            out.append("OK " + canon.dump(res))
        except Exception as e:
            out.append(canon.err_kind(e))
    return " ;; ".join(out)


def _mutate(res, depth=0):
    """what a caller that owns its result may do with it: change the containers it was handed, in place"""
    if depth > 4:
        return
    if isinstance(res, list):
        for x in list(res):
            _mutate(x, depth + 1)
        res.append("<changed-by-the-caller>"); res.reverse()
    elif isinstance(res, dict):
        for v in list(res.values()):
            _mutate(v, depth + 1)
        res["<changed-by-the-caller>"] = []
    elif isinstance(res, set):
        res.add("<changed-by-the-caller>")
    elif isinstance(res, tuple):
        for x in res:
            _mutate(x, depth + 1)


def an_mut(parts):
    """ANMUT <same arguments as AN tables / AN columns>: run the analysis as a caller that then CHANGES the list / dict it was given (appends, reverses) and drops
    it.  An analysis result is the caller's own object; if the library keeps it (a memoised result), the next answer shows the caller's change."""
    from metasequoia_sql import analyzer as A
    try:
        if parts[1] == "tables":
            cls = {"all": A.AllUsedQuoteTables, "from": A.AllFromClauseUsedQuoteColumn, "join": A.AllJoinClauseUsedQuoteColumn}[parts[2]]
        elif parts[1] == "columns":
            cls = {"all": A.CurrentUsedQuoteColumn, "select": A.CurrentSelectClauseUsedQuoteColumn, "join": A.CurrentJoinClauseUsedQuoteColumn,
                   "where": A.CurrentWhereClauseUsedQuoteColumn, "group": A.CurrentGroupByClauseUsedQuoteColumn, "having": A.CurrentHavingClauseUsedQuoteColumn,
                   "order": A.CurrentOrderByClauseUsedQuoteColumn, "hash": A.CurrentColumnSelectToDirectQuoteHash}[parts[2]]
        else:
            return "BADREQ"
        _mutate(cls.handle(_first_statement(parts[3], canon.unhex(parts[4]))))
        return "OK changed"
    except Exception as e:
        return "OK nothing-to-change " + type(e).__name__


def an(parts):
    if len(parts) >= 5 and parts[1] == "lineage-seq":
        return an_lineage_seq(parts[2], canon.unhex(parts[3]), [canon.unhex(h) for h in parts[4:]])
    if len(parts) == 5 and parts[1] == "lineage":
        return an_lineage(parts[2], canon.unhex(parts[3]), canon.unhex(parts[4]))
    if len(parts) == 5 and parts[1] == "columns":
        return an_columns(parts[2], parts[3], canon.unhex(parts[4]))
    if len(parts) == 5 and parts[1] == "tables":
        return an_tables(parts[2], parts[3], canon.unhex(parts[4]))
    return "BADREQ"


COMMANDS = {"AN": an, "ANMUT": an_mut}
