"""Implementation side of the analyzer commands (C14-C16); the model side is lean/MsqModel/Driver/CmdAnalyze.lean.

AN tables <all|from|join> <dialect> <hex text>
AN columns <all|select|join|where|group|having|order|hash> <dialect> <hex text>
"""
import canon


def _first_statement(dialect, text):
    from metasequoia_sql import SQLParser, SQLType
    return SQLParser.parse_statements(text, SQLType[dialect])[0]


def an_tables(kind, dialect, text):
    from metasequoia_sql import analyzer as A
    cls = {"all": A.AllUsedQuoteTables, "from": A.AllFromClauseUsedQuoteColumn, "join": A.AllJoinClauseUsedQuoteColumn}.get(kind)
    if cls is None:
        return "BADREQ kind"
    try:
        stmt = _first_statement(dialect, text)
        return "OK " + canon.dump(cls.handle(stmt))
    except Exception as e:
        return canon.err_kind(e)


def an_columns(kind, dialect, text):
    from metasequoia_sql import analyzer as A
    table = {"all": A.CurrentUsedQuoteColumn, "select": A.CurrentSelectClauseUsedQuoteColumn, "join": A.CurrentJoinClauseUsedQuoteColumn,
             "where": A.CurrentWhereClauseUsedQuoteColumn, "group": A.CurrentGroupByClauseUsedQuoteColumn, "having": A.CurrentHavingClauseUsedQuoteColumn,
             "order": A.CurrentOrderByClauseUsedQuoteColumn, "hash": A.CurrentColumnSelectToDirectQuoteHash}
    cls = table.get(kind)
    if cls is None:
        return "BADREQ kind"
    try:
        stmt = _first_statement(dialect, text)
        res = cls.handle(stmt)
        if kind == "hash":
            res = [(k, v) for k, v in res.items()]      # the dict in insertion order
        return "OK " + canon.dump(res)
    except Exception as e:
        return canon.err_kind(e)


def an(parts):
    if len(parts) == 5 and parts[1] == "columns":
        return an_columns(parts[2], parts[3], canon.unhex(parts[4]))
    if len(parts) == 5 and parts[1] == "tables":
        return an_tables(parts[2], parts[3], canon.unhex(parts[4]))
    return "BADREQ"


COMMANDS = {"AN": an}
