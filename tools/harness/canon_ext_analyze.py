"""Implementation side of the analyzer commands (C14-C16); the model side is lean/MsqModel/Driver/CmdAnalyze.lean.

AN tables <all|from|join> <dialect> <hex text>
"""
import canon


def _first_statement(dialect, text):
    from metasequoia_sql import SQLParser, SQLType
    return SQLParser.parse_statements(text, SQLType[dialect])[0]


def an_tables(kind, dialect, text):
    from metasequoia_sql import analyzer as A
    cls = {"all": A.AllUsedQuoteTables, "from": A.AllFromClauseUsedQuoteColumn, "join": A.AllJoinClauseUsedQuoteColumn}.get(kind)
    if cls is None:
        return "BADREQ kind"
    try:
        stmt = _first_statement(dialect, text)
        return "OK " + canon.dump(cls.handle(stmt))
    except Exception as e:
        return canon.err_kind(e)


def an(parts):
    if len(parts) == 5 and parts[1] == "tables":
        return an_tables(parts[2], parts[3], canon.unhex(parts[4]))
    return "BADREQ"


COMMANDS = {"AN": an}
