#!/venv/bin/python
"""Implementation side of the line protocol: answers the same requests as the Lean driver `msqdrv`
by calling the real code of /repo in-process, and prints the same canonical forms.

usage: impl_worker.py [--cfg i]      (i = 4*IGNORE_SPACE + 2*IGNORE_LINEBREAK + IGNORE_COMMENT; default: config.py as shipped)
"""
import os, sys, types
REPO = os.environ.get("MSQ_REPO", "/repo")
sys.path.insert(0, REPO)
# the interpreter's default recursion limit is kept: C07 observes RecursionError at the stated nesting depth
cfg_idx = None
if "--cfg" in sys.argv:
    cfg_idx = int(sys.argv[sys.argv.index("--cfg") + 1])
    m = types.ModuleType("metasequoia_sql.config")
    m.LEXICAL_IGNORE_SPACE = bool(cfg_idx & 4)
    m.LEXICAL_IGNORE_LINEBREAK = bool(cfg_idx & 2)
    m.LEXICAL_IGNORE_COMMENT = bool(cfg_idx & 1)
    sys.modules["metasequoia_sql.config"] = m
sys.path.insert(0, os.path.dirname(os.path.abspath(__file__)))
if os.environ.get("MSQ_COVER_DIR"):
    import cover  # noqa: E402  (line coverage of the implementation under this worker's requests: evidence only)
    cover.start()
import canon  # noqa: E402
if os.environ.get("MSQ_COVER_DIR"):
    cover.watch_wrap_sites()


class Hang(BaseException):
    pass


def _on_alarm(signum, frame):
    raise Hang()


def main():
    import signal
    signal.signal(signal.SIGALRM, _on_alarm)
    limit = float(os.environ.get("MSQ_REQ_TIMEOUT", "5"))
    out = sys.stdout
    flush_each = "--interactive" in sys.argv
    for line in sys.stdin:
        line = line.rstrip("\n")
        if not line:
            continue
        try:
            signal.setitimer(signal.ITIMER_REAL, limit)
            try:
                ans = canon.respond(line, cfg_idx)
            finally:
                signal.setitimer(signal.ITIMER_REAL, 0)
            out.write(ans + "\n")
        except Hang:
            out.write("HANG\n")
        except Exception as e:  # harness bug, never silently swallowed
            out.write("HARNESS-ERROR %s: %s\n" % (type(e).__name__, str(e).replace("\n", " ")[:200]))
        if flush_each:
            out.flush()
    out.flush()


if __name__ == "__main__":
    main()
