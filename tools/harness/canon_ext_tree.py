"""worker command TREE <dialect> <seed> <n>: tree-first oracle of C03 (and T-parse evidence).

Random statement TREES are built directly from the library's node classes (every clause and element is put into the slot the
grammar names), printed with `source(dialect)` — an independent piece of code from the parser — and parsed again: the parser must
return exactly the generated tree, so an element that lands in a neighbouring slot, is swapped, defaulted or dropped shows up
as a difference at a named path.  The answer lists the failures of the batch."""
import canon


class Rng:
    M = (1 << 64) - 1

    def __init__(self, seed):
        self.s = (seed * 0x9E3779B97F4A7C15 + 0x1234567) & self.M

    def next(self):
        self.s = (self.s + 0x9E3779B97F4A7C15) & self.M
        z = self.s
        z = ((z ^ (z >> 30)) * 0xBF58476D1CE4E5B9) & self.M
        z = ((z ^ (z >> 27)) * 0x94D049BB133111EB) & self.M
        return z ^ (z >> 31)

    def below(self, n): return self.next() % n
    def choice(self, xs): return xs[self.below(len(xs))]
    def chance(self, p): return self.next() / float(1 << 64) < p


NAMES = ["a", "b", "c", "col_1", "k y", "select", "x1", "é", "CURRENT_DATE", "from", "A1", "user_id",
         "x", "B", "X", "cross", "Sort", "using", "distribute", "cluster", "left", "on", "as", "limit", "union", "null", "True", "1a", "a-b", "a#b", "x'1'", "0x1F", "b'0'", "--", "/*", ";", "(", "a,b", "=",
         # letters whose upper() / lower() leaves the alphabet or changes the length: ſ→S, ı→I, ﬁ→FI, ß→SS, İ→i̇, K (Kelvin)→k — a name test written with \w,
         # isalpha(), upper() or lower() takes these for plain names or for keywords
         "caſe", "exıſtſ", "ıſ", "ﬁrst", "straße", "İd", "\u212aey", "naïve_1", "ſum"]
TNAMES = ["t", "u", "orders", "k y", "w", "tbl_2", "b", "x", "cross", "using", "Sort", "select", "1t", "t-1", "caſe", "ıſ", "İd", "uſıng"]
LITS = ["1", "0", "42", "2.5", "'s'", "''", "'a''b'", "NULL", "TRUE", "false", "x'1F'", "b'01'", "\"d\"", "'x y'", "'--'", "';'"]
FUNCS = ["f", "concat", "COALESCE", "my fn", "trim", "IF", "substring", "caſe", "exıſtſ", "ſtraße", "fﬁ"]
AGGS = ["COUNT", "sum", "Max", "AVG", "min"]


class G:
    def __init__(self, rng, dialect):
        from metasequoia_sql.core import node as N, static as S
        from metasequoia_sql import SQLType
        self.r, self.N, self.S = rng, N, S
        self.st = SQLType[dialect]
        self.hive = dialect == "HIVE"
        self.wide = True

    def ch(self, xs): return self.r.choice(xs)
    def p(self, x): return self.r.chance(x)
    def n(self, a, b): return a + self.r.below(b - a + 1)
    def opt(self, f, p=0.5): return f() if self.p(p) else None

    # ---- expressions ------------------------------------------------------------------------------------
    def col(self):
        return self.N.ASTColumnNameExpression(table_name=self.opt(lambda: self.ch(TNAMES), 0.3), column_name=self.ch(NAMES))

    def lit(self):
        return self.N.ASTLiteralExpression(value=self.ch(LITS))

    def func(self, d, allow_schema=True):
        N = self.N
        if self.p(0.4):
            name = self.ch(AGGS)
            return N.ASTAggregationFunction(name=N.ASTFunctionNameExpression(function_name=name), params=tuple(self.expr(d + 1) for _ in range(self.n(0, 2))),
                                            is_distinct=self.p(0.3))
        name = self.ch(FUNCS)
        schema = self.ch(TNAMES) if (allow_schema and self.p(0.2) and name.upper() not in ("IF", "CAST", "EXTRACT")) else None
        return N.ASTNormalFunctionExpression(name=N.ASTFunctionNameExpression(schema_name=schema, function_name=name),
                                             params=tuple(self.expr(d + 1) for _ in range(self.n(0, 3))))

    def elem(self, d):
        N, S = self.N, self.S
        k = self.r.below(100)
        if d > 3 or k < 30: return self.col()
        if k < 48: return self.lit()
        if k < 58: return self.func(d)
        if k < 62:
            ty = self.ch(list(S.EnumCastDataType))
            return N.ASTCastFunctionExpression(column_expression=self.cexpr(d + 1), cast_type=N.ASTCastDataType(
                signed=self.p(0.2), type=ty, params=self.opt(lambda: tuple(self.n(0, 20) for _ in range(self.n(0, 2))), 0.3)))
        if k < 64: return N.ASTExtractFunctionExpression(extract_name=self.col(), column_expression=self.cexpr(d + 1))
        if k < 69:
            return N.ASTCaseConditionExpression(cases=tuple(N.ASTCaseConditionItem(when=self.expr(d + 1), then=self.expr(d + 1)) for _ in range(self.n(1, 3))),
                                                else_value=self.opt(lambda: self.expr(d + 1)))
        if k < 73:
            return N.ASTCaseValueExpression(case_value=self.expr(d + 1), cases=tuple(N.ASTCaseValueItem(when=self.expr(d + 1), then=self.expr(d + 1)) for _ in range(self.n(1, 2))),
                                            else_value=self.opt(lambda: self.expr(d + 1)))
        if k < 75: return N.ASTSubQueryExpression(statement=self.select(d + 2))
        if k < 82:
            rows = None
            if self.p(0.6):
                def item():
                    t = self.ch(list(S.EnumWindowRowType))
                    if t == S.EnumWindowRowType.CURRENT_ROW: return N.ASTWindowRowItem(row_type=t)
                    return N.ASTWindowRowItem(row_type=t, is_unbounded=True) if self.p(0.4) else N.ASTWindowRowItem(row_type=t, row_num=self.ch([0, 0, 1, 2, 9]))
                rows = N.ASTWindowRow(from_row=item(), to_row=item())
            return N.ASTWindowExpression(window_function=self.func(d, allow_schema=False), partition_by_columns=tuple(self.cexpr(d + 1) for _ in range(self.n(0, 2))),
                                         order_by_columns=tuple(self.order_col(d + 1) for _ in range(self.n(0, 2))), row_expression=rows)
        if k < 85: return N.ASTWildcardExpression(table_name=self.opt(lambda: self.ch(TNAMES), 0.5))
        if k < 89 and self.hive: return N.ASTIndexExpression(array=self.ch([self.col(), self.func(d)]), idx=self.cexpr(d + 1))
        return self.col()

    def expr(self, d=0):
        N, S = self.N, self.S
        k = self.r.below(100)
        if d > 3 or k < 45: return self.elem(d)
        if k < 50:
            ops = [o for o in (S.EnumComputeOperator.SUBTRACT, S.EnumComputeOperator.PLUS, S.EnumComputeOperator.BITWISE_INVERSION, S.EnumComputeOperator.LOGICAL_INVERSION)
                   if not (self.hive and o == S.EnumComputeOperator.LOGICAL_INVERSION)]
            return N.ASTUnaryExpression(operator=N.ASTComputeOperator(enum=self.ch(ops)), expression=self.expr(d + 1))
        if k < 65:
            return N.ASTComputeExpression(before_value=self.expr(d + 1), operator=N.ASTComputeOperator(enum=self.ch(list(S.EnumComputeOperator)[2:])), after_value=self.expr(d + 1))
        if k < 70:
            cls = self.ch([N.ASTIsExpression, N.ASTLikeExpression, N.ASTRlikeExpression, N.ASTRegexpExpression])
            after = self.lit() if cls is N.ASTIsExpression else self.expr(d + 1)
            return cls(is_not=self.p(0.3), before_value=self.expr(d + 1), after_value=after)
        if k < 74:
            after = (N.ASTSubValueExpression(values=tuple(self.cexpr(d + 1) for _ in range(self.n(1, 3)))) if self.p(0.6) else N.ASTSubQueryExpression(statement=self.select(d + 2)))
            return N.ASTInExpression(is_not=self.p(0.3), before_value=self.expr(d + 1), after_value=after)
        if k < 77: return N.ASTBetweenExpression(is_not=self.p(0.3), before_value=self.expr(d + 1), from_value=self.expr(d + 1), to_value=self.expr(d + 1))
        if k < 79: return N.ASTExistsExpression(value=N.ASTSubQueryExpression(statement=self.select(d + 2)))
        if k < 87:
            return N.ASTOperatorConditionExpression(before_value=self.expr(d + 1), operator=N.ASTCompareOperator(enum=self.ch(list(S.EnumCompareOperator))), after_value=self.expr(d + 1))
        if k < 90: return N.ASTLogicalNotExpression(expression=self.expr(d + 1))
        cls = self.ch([N.ASTLogicalAndExpression, N.ASTLogicalAndExpression, N.ASTLogicalOrExpression, N.ASTLogicalOrExpression, N.ASTLogicalXorExpression])
        return cls(before_value=self.expr(d + 1), after_value=self.expr(d + 1))

    def cexpr(self, d=0):
        """an expression for the slots the grammar fills with its compute-level rule (GROUP BY, ORDER BY, IN lists, CAST argument, DEFAULT, ...):
        the outermost node is an element, a unary or a binary computation; anything may sit below it (the printer parenthesises it)"""
        N = self.N
        if self.wide and self.p(0.4):
            # the printer brackets a child above the compute level in these slots (`source_with_parenthesis(…, 8)`), so any expression is in the
            # grammar's range there: the bracket decision of every such site is exercised
            return self.expr(d)
        for _ in range(4):
            e = self.expr(d)
            if not isinstance(e, (N.ASTOperatorExpressionBase, N.ASTBetweenExpression, N.ASTExistsExpression, N.ASTOperatorConditionExpression, N.ASTLogicalNotExpression,
                                  N.ASTLogicalAndExpression, N.ASTLogicalOrExpression, N.ASTLogicalXorExpression)):
                return e
        return self.elem(d)

    def order_col(self, d):
        N, S = self.N, self.S
        nf = self.p(0.15)
        return N.ASTOrderByColumn(column=self.cexpr(d), order=N.ASTOrderType(enum=self.ch(list(S.EnumOrderType))), nulls_first=nf, nulls_last=(not nf and self.p(0.15)))

    # ---- queries ------------------------------------------------------------------------------------------
    def table_name(self):
        return self.N.ASTTableNameExpression(schema_name=self.opt(lambda: self.ch(["s", "db1", "k y"]), 0.3), table_name=self.ch(TNAMES))

    def alias(self, p=0.5):
        return self.opt(lambda: self.N.ASTAlisaExpression(name=self.ch(["x", "al", "k y", "select", "T1", "é1", "b", "X", "cross", "USING", "sort", "Distribute", "cluster", "left", "on", "limit", "union", "where", "as", "null", "1", "a-b"])), p)

    def from_table(self, d, need_alias=False):
        N = self.N
        if d < 3 and self.p(0.2):
            return N.ASTFromTable(name=N.ASTSubQueryExpression(statement=self.select(d + 1)), alias=self.alias(0.8))
        return N.ASTFromTable(name=self.table_name(), alias=self.alias(0.5))

    def select(self, d=0, withs=None):
        N, S = self.N, self.S
        has_from = self.p(0.9)
        joins = []
        if has_from:
            for _ in range(self.ch([0, 0, 1, 2])):
                k = self.r.below(3)
                rule = None
                if k == 0: rule = N.ASTJoinOnExpression(condition=self.expr(d + 1))
                elif k == 1:
                    rule = N.ASTJoinUsingExpression(using_function=N.ASTNormalFunctionExpression(
                        name=N.ASTFunctionNameExpression(function_name="USING"), params=tuple(N.ASTColumnNameExpression(column_name=self.ch(NAMES)) for _ in range(self.n(1, 2)))))
                joins.append(N.ASTJoinClause(type=N.ASTJoinType(enum=self.ch(list(S.EnumJoinType))), table=self.from_table(d), rule=rule))
        lat = ()
        if self.hive and has_from and self.p(0.2):
            lat = tuple(N.ASTLateralViewClause(outer=self.p(0.3), function=N.ASTNormalFunctionExpression(name=N.ASTFunctionNameExpression(function_name="explode"), params=(self.col(),)),
                                               view_name=self.ch(["v", "lv", "`k y`", "`tmp-v`", "`v.1`", "`select`"]), alias=N.ASTMultiAlisaExpression(names=tuple(self.ch(["x1", "x2", "k y"]) for _ in range(self.n(1, 2)))))
                        for _ in range(self.n(1, 2)))
        gb = None
        if self.p(0.3):
            def gitem():
                # a one-element group is printed bare, and a bare item that starts with "(" is read back as a group: outside the grammar's range
                it = tuple(self.cexpr(d + 2) for _ in range(self.n(1, 2)))
                try:
                    if len(it) == 1 and it[0].source(self.st).startswith("("): it = (self.col(),)
                except Exception:
                    it = (self.col(),)
                return it
            gs = self.opt(lambda: N.ASTGroupingSets(grouping_list=tuple(gitem() for _ in range(self.n(1, 3)))), 0.3)
            gb = N.ASTGroupByClause(columns=tuple(self.cexpr(d + 2) for _ in range(self.n(0 if gs is not None else 1, 2))), grouping_sets=gs, with_cube=self.p(0.15), with_rollup=self.p(0.15))
        hive_kw = {}
        if self.hive:
            hive_kw = dict(sort_by_clause=self.opt(lambda: N.ASTSortByClause(columns=tuple(self.order_col(d + 2) for _ in range(self.n(1, 2)))), 0.15),
                           distribute_by_clause=self.opt(lambda: N.ASTDistributeByClause(columns=tuple(self.cexpr(d + 2) for _ in range(self.n(1, 2)))), 0.15),
                           cluster_by_clause=self.opt(lambda: N.ASTClusterByClause(columns=tuple(self.cexpr(d + 2) for _ in range(self.n(1, 2)))), 0.15))
        return N.ASTSingleSelectStatement(
            with_clause=withs if withs is not None else N.ASTWithClause.empty(),
            select_clause=N.ASTSelectClause(distinct=self.p(0.2), columns=tuple(N.ASTSelectColumn(value=self.expr(d + 1), alias=self.alias(0.4)) for _ in range(self.n(1, 3)))),
            from_clause=N.ASTFromClause(tables=tuple(self.from_table(d) for _ in range(self.n(1, 2)))) if has_from else None,
            lateral_view_clauses=lat, join_clauses=tuple(joins), where_clause=self.opt(lambda: N.ASTWhereClause(condition=self.expr(d + 1)), 0.5), group_by_clause=gb,
            having_clause=self.opt(lambda: N.ASTHavingClause(condition=self.expr(d + 1)), 0.2),
            order_by_clause=self.opt(lambda: N.ASTOrderByClause(columns=tuple(self.order_col(d + 2) for _ in range(self.n(1, 2)))), 0.3),
            limit_clause=self.opt(lambda: N.ASTLimitClause(limit=self.ch([0, 1, 7, 50]), offset=self.opt(lambda: self.ch([0, 0, 1, 30]))), 0.3), **hive_kw)

    def with_clause(self, d):
        N = self.N
        if self.p(0.2):
            return N.ASTWithClause(tables=tuple(N.ASTWithTable(name=self.ch(["w", "w2", "k y"]), statement=self.query(d + 1, allow_with=False)) for _ in range(self.n(1, 2))))
        return N.ASTWithClause.empty()

    def query(self, d=0, allow_with=True):
        N, S = self.N, self.S
        w = self.with_clause(d) if allow_with else N.ASTWithClause.empty()
        if self.p(0.25):
            els = [self.select(d)]
            for _ in range(self.n(1, 2)):
                els += [N.ASTUnionType(enum=self.ch(list(S.EnumUnionType))), self.select(d)]
            return N.ASTUnionSelectStatement(with_clause=w, elements=tuple(els))
        return self.select(d, withs=w)

    # ---- DML / DDL -------------------------------------------------------------------------------------------
    def partition(self):
        N, S = self.N, self.S
        if self.p(0.5):
            return N.ASTPartitionExpression(partitions=tuple(N.ASTColumnNameExpression(column_name=c) for c in self.ch([["dt"], ["dt", "hr"]])))
        return N.ASTPartitionExpression(partitions=tuple(N.ASTOperatorConditionExpression(before_value=N.ASTColumnNameExpression(column_name=c),
                                                                                          operator=N.ASTCompareOperator(enum=S.EnumCompareOperator.EQUAL_TO), after_value=self.lit())
                                                         for c in self.ch([["dt"], ["dt", "hr"]])))

    def coldef(self, mysql):
        N, S = self.N, self.S
        ty = self.ch(["int", "varchar", "decimal", "text", "bigint", "STRING", "datetime", "char"])
        params = None
        if ty in ("varchar", "decimal", "char") and self.p(0.7) or (mysql and self.p(0.3)):
            params = tuple((self.cexpr(3) if mysql and self.p(0.06) else N.ASTLiteralExpression(value=str(self.n(1, 30)))) for _ in range(2 if ty == "decimal" else 1))
        kw = {}
        if mysql:
            kw = dict(is_unsigned=self.p(0.1), is_zerofill=self.p(0.05), character_set=self.opt(lambda: "utf8", 0.1), collate=self.opt(lambda: "utf8_bin", 0.1),
                      generated_always_as=self.opt(lambda: N.ASTGeneratedColumn(expression=self.cexpr(2), save_mode=self.ch(list(S.EnumGenerateColumnSaveMode))), 0.08),
                      is_allow_null=self.p(0.1), is_not_null=self.p(0.3), is_auto_increment=self.p(0.1), default=self.opt(lambda: self.ch([self.lit(), self.cexpr(3)]), 0.25),
                      on_update=self.opt(lambda: N.ASTColumnNameExpression(column_name="CURRENT_TIMESTAMP"), 0.08))
        return N.ASTDefineColumnExpression(column_name=self.ch(NAMES), column_type=N.ASTColumnTypeExpression(name=ty, params=params), comment=self.opt(lambda: self.ch(["'c'", "'x y'", "\"q\""]), 0.3), **kw)

    def index(self, cls, named=True):
        N = self.N
        return cls(name=self.ch(["`uk`", "idx1", "`k y`"]) if named else None,
                   columns=tuple(N.ASTIndexColumn(name=self.ch(["a", "b", "k y"]), max_length=self.opt(lambda: self.ch([0, 1, 20]), 0.3)) for _ in range(self.n(1, 2))),
                   using=self.opt(lambda: "BTREE", 0.3), comment=self.opt(lambda: "'ic'", 0.2), key_block_size=self.opt(lambda: self.ch([0, 1, 16]), 0.2))

    def foreign_key(self):
        N = self.N
        acts = ["NO ACTION", "SET NULL", "CASCADE", "RESTRICT"]
        return N.ASTForeignKeyExpression(constraint_name=self.ch(["`fk1`", "fk2"]), slave_columns=tuple(self.ch(["`a`", "b"]) for _ in range(self.n(1, 2))), master_table_name=self.ch(["`p`", "parent"]),
                                         master_columns=tuple(self.ch(["`id`", "x"]) for _ in range(self.n(1, 2))), on_delete=self.opt(lambda: self.ch(acts), 0.4), on_update=self.opt(lambda: self.ch(acts), 0.4))

    def create_table(self):
        N = self.N
        mysql = not self.hive
        common = dict(table_name=self.table_name(), if_not_exists=self.p(0.3), columns=tuple(self.coldef(mysql) for _ in range(self.n(1, 4))), comment=self.opt(lambda: "'tc'", 0.3))
        if mysql:
            return N.ASTCreateTableStatement(primary_key=self.opt(lambda: self.index(N.ASTPrimaryIndexExpression, named=False), 0.4),
                                             unique_key=tuple(self.index(N.ASTUniqueIndexExpression) for _ in range(self.ch([0, 0, 1]))), key=tuple(self.index(N.ASTNormalIndexExpression) for _ in range(self.ch([0, 0, 1, 2]))),
                                             fulltext_key=tuple(self.index(N.ASTFulltextIndexExpression) for _ in range(self.ch([0, 0, 0, 1]))), foreign_key=tuple(self.foreign_key() for _ in range(self.ch([0, 0, 1]))),
                                             partitioned_by=(), engine=self.opt(lambda: "InnoDB", 0.4), auto_increment=self.opt(lambda: self.ch([0, 1, 99]), 0.2), default_charset=self.opt(lambda: "utf8mb4", 0.3),
                                             collate=self.opt(lambda: "utf8_bin", 0.2), row_format=self.opt(lambda: "DYNAMIC", 0.2), states_persistent=self.opt(lambda: "1", 0.1), tblproperties=(), **common)
        return N.ASTCreateTableStatement(primary_key=None, unique_key=(), key=(), fulltext_key=(), foreign_key=(), partitioned_by=tuple(self.coldef(False) for _ in range(self.ch([0, 0, 1, 2]))),
                                         engine=None, auto_increment=None, default_charset=None, collate=None, row_format=None, states_persistent=None,
                                         row_format_serde=self.opt(lambda: "'org.x.Serde'", 0.2), row_format_delimited_fields_terminated_by=self.opt(lambda: "','", 0.2),
                                         stored_as_inputformat=self.opt(lambda: "'in.fmt'", 0.2), stored_as_textfile=self.p(0.2), outputformat=self.opt(lambda: "'out.fmt'", 0.2),
                                         location=self.opt(lambda: "'hdfs://x'", 0.2), tblproperties=tuple(N.ASTConfigStringExpression(name=k, value=v) for k, v in self.ch([[], [("'a'", "'1'")], [("'a.b'", "'1'"), ("k", "v")]])),
                                         **common)

    def alter(self):
        N = self.N
        mysql = not self.hive
        ops = []
        for _ in range(self.n(1, 3)):
            k = self.r.below(9)
            col = lambda: self.coldef(mysql and self.st.name == "MYSQL")
            if k == 0: ops.append(N.ASTAlterAddPartitionExpression(if_not_exists=self.p(0.4), partition=self.partition()))
            elif k == 1: ops.append(N.ASTAlterDropPartitionExpression(if_exists=self.p(0.4), partition=self.partition()))
            elif k == 2: ops.append(N.ASTAlterAddExpression(expression=col()))
            elif k == 3: ops.append(N.ASTAlterModifyExpression(expression=col()))
            elif k == 4: ops.append(N.ASTAlterChangeExpression(from_column_name=self.ch(["old", "k y"]), to_expression=col()))
            elif k == 5: ops.append(N.ASTAlterRenameColumnExpression(from_column_name=self.ch(NAMES), to_column_name=self.ch(NAMES)))
            elif k == 6: ops.append(N.ASTAlterDropColumnExpression(column_name=self.ch(NAMES)))
            elif k == 7: ops.append(N.ASTAlterAddExpression(expression=self.ch([self.index(N.ASTUniqueIndexExpression), self.index(N.ASTNormalIndexExpression), self.index(N.ASTPrimaryIndexExpression, named=False)])))
            else: ops.append(N.ASTAlterAddExpression(expression=self.foreign_key()))
        return N.ASTAlterTableStatement(table_name=self.table_name(), expressions=tuple(ops))

    def stmt(self):
        N, S = self.N, self.S
        k = self.r.below(100)
        if k < 40: return self.query()
        if k < 52:
            it = self.ch([S.EnumInsertType.INSERT_INTO, S.EnumInsertType.INSERT_IGNORE_INTO] + ([S.EnumInsertType.INSERT_OVERWRITE] if self.st.name in ("HIVE", "DEFAULT") else []))
            head = dict(with_clause=self.with_clause(1), insert_type=N.ASTInsertType(enum=it), table_name=self.table_name(), partition=self.opt(self.partition, 0.3),
                        columns=self.opt(lambda: tuple(N.ASTColumnNameExpression(table_name=self.opt(lambda: "t", 0.2), column_name=self.ch(NAMES)) for _ in range(self.n(0, 3))), 0.5))          # an explicit EMPTY column list `()` is not "no column list" (seeded C03-13)
            if self.p(0.5):
                return N.ASTInsertValuesStatement(values=tuple(N.ASTSubValueExpression(values=tuple(self.cexpr(2) for _ in range(self.n(1, 3)))) for _ in range(self.n(1, 3))), **head)
            return N.ASTInsertSelectStatement(select_statement=self.query(1, allow_with=False), **head)
        if k < 60:
            return N.ASTUpdateStatement(with_clause=self.with_clause(1), table_name=self.table_name(),
                                        set_clause=N.ASTUpdateSetClause(columns=tuple(N.ASTUpdateSetColumn(column_name=self.ch(NAMES), column_value=self.expr(1)) for _ in range(self.n(1, 3)))),
                                        where_clause=self.opt(lambda: N.ASTWhereClause(condition=self.expr(1))), order_by_clause=self.opt(lambda: N.ASTOrderByClause(columns=(self.order_col(2),)), 0.3),
                                        limit_clause=self.opt(lambda: N.ASTLimitClause(limit=self.ch([0, 1, 9]), offset=self.opt(lambda: self.ch([0, 1, 9]))), 0.3))
        if k < 66:
            return N.ASTDeleteStatement(table_name=self.table_name(), where_clause=self.opt(lambda: N.ASTWhereClause(condition=self.expr(1))),
                                        order_by_clause=self.opt(lambda: N.ASTOrderByClause(columns=(self.order_col(2),)), 0.3), limit_clause=self.opt(lambda: N.ASTLimitClause(limit=self.n(0, 9), offset=None), 0.3))
        if self.st.name in ("MYSQL", "HIVE"):
            if k < 78: return self.create_table()
            if k < 80: return N.ASTAnalyzeTableStatement(table_name=self.table_name(), **({} if self.st.name == "MYSQL" else dict(partition=self.opt(self.partition, 0.4), for_columns=self.p(0.3), cache_metadata=self.p(0.3), noscan=self.p(0.3))))
        if k < 84: return N.ASTCreateTableAsStatement(table_name=self.table_name(), if_not_exists=self.p(0.4), select_statement=self.query(1))
        if k < 90: return self.alter()
        if k < 92: return N.ASTDropTableStatement(if_exists=self.p(0.5), table_name=self.table_name())
        if k < 94: return N.ASTTruncateTable(table_name=self.table_name())
        if k < 95: return N.ASTMsckRepairTableStatement(table_name=self.table_name())
        if k < 96: return N.ASTUseStatement(schema_name=self.ch(["db", "`k y`"]))
        if k < 98: return N.ASTSetStatement(config=N.ASTConfigStringExpression(name=self.ch(["a", "hive.exec.parallel", "mapred.job-name"]), value=self.ch(["1", "true", "x.y", "'v'"])))
        return self.ch([N.ASTShowDatabasesStatement(), N.ASTShowTablesStatement(),
                        N.ASTShowColumnsStatement(from_clause=N.ASTFromClause(tables=(N.ASTFromTable(name=self.table_name()),)), where_clause=self.opt(lambda: N.ASTWhereClause(condition=self.expr(2)), 0.4))])


# ---- shrinking a failing tree (type- and slot-preserving) ---------------------------------------------------------------
FIXED = {("ASTExistsExpression", "value"), ("ASTInExpression", "after_value"), ("ASTWindowExpression", "window_function"), ("ASTIndexExpression", "array"),
         ("ASTFromTable", "name"), ("ASTExtractFunctionExpression", "extract_name"), ("ASTJoinUsingExpression", "using_function"), ("ASTLateralViewClause", "function"),
         ("ASTIsExpression", "after_value"), ("ASTPartitionExpression", "partitions"), ("ASTJoinUsingExpression", "params")}
COMPUTE = {("ASTOrderByColumn", "column"), ("ASTCastFunctionExpression", "column_expression"), ("ASTExtractFunctionExpression", "column_expression"),
           ("ASTWindowExpression", "partition_by_columns"), ("ASTIndexExpression", "idx"), ("ASTSubValueExpression", "values"), ("ASTGroupingSets", "grouping_list"),
           ("ASTGroupByClause", "columns"), ("ASTDistributeByClause", "columns"), ("ASTClusterByClause", "columns"), ("ASTGeneratedColumn", "expression"),
           ("ASTDefineColumnExpression", "default")}
MIN1 = {("ASTSelectClause", "columns"), ("ASTFromClause", "tables"), ("ASTCaseConditionExpression", "cases"), ("ASTCaseValueExpression", "cases"), ("ASTSubValueExpression", "values"),
        ("ASTOrderByClause", "columns"), ("ASTSortByClause", "columns"), ("ASTDistributeByClause", "columns"), ("ASTClusterByClause", "columns"), ("ASTWithClause", "tables"),
        ("ASTUpdateSetClause", "columns"), ("ASTInsertValuesStatement", "values"), ("ASTCreateTableStatement", "columns"), ("ASTAlterTableStatement", "expressions"),
        ("ASTMultiAlisaExpression", "names"), ("ASTGroupingSets", "grouping_list"), ("ASTGroupByClause", "columns"), ("ASTPartitionExpression", "partitions"), ("ASTNormalIndexExpression", "columns"),
        ("ASTUniqueIndexExpression", "columns"), ("ASTPrimaryIndexExpression", "columns"), ("ASTFulltextIndexExpression", "columns"), ("ASTForeignKeyExpression", "slave_columns"),
        ("ASTForeignKeyExpression", "master_columns"), ("ASTUnionSelectStatement", "elements")}


def _paren_start(e):
    """does the printed expression start with a bracket (any dialect that prints it)?"""
    from metasequoia_sql import SQLType
    for st in (SQLType.HIVE, SQLType.MYSQL):
        try:
            return e.source(st).startswith("(")
        except Exception:
            continue
    return True


def _is_expr(N, v):
    return isinstance(v, N.ASTExpressionBase) and not isinstance(v, (N.ASTSubValueExpression,))


def _compute_ok(N, e):
    return not isinstance(e, (N.ASTOperatorExpressionBase, N.ASTBetweenExpression, N.ASTExistsExpression, N.ASTOperatorConditionExpression, N.ASTLogicalNotExpression,
                              N.ASTLogicalAndExpression, N.ASTLogicalOrExpression, N.ASTLogicalXorExpression))


def _children_exprs(N, e):
    import dataclasses
    out = []
    for f in dataclasses.fields(e):
        v = getattr(e, f.name)
        if _is_expr(N, v) and (type(e).__name__, f.name) not in FIXED: out.append(v)
        elif isinstance(v, tuple): out += [x for x in v if _is_expr(N, x)]
    return out


def variants(N, t):
    """smaller trees of the same class obtained by one local simplification (lazily, outermost first)"""
    import dataclasses
    if not dataclasses.is_dataclass(t): return
    cn = type(t).__name__
    for f in dataclasses.fields(t):
        v = getattr(t, f.name)
        key = (cn, f.name)
        def put(nv, f=f): return dataclasses.replace(t, **{f.name: nv})
        if key in FIXED:
            if dataclasses.is_dataclass(v):
                for nv in variants(N, v): yield put(nv)
            continue
        if isinstance(v, bool) and v and f.name not in ("nulls_first", "nulls_last"): yield put(False)
        if v is not None and f.default is None and not isinstance(v, bool): 
            try: yield put(None)
            except Exception: pass
        if isinstance(v, tuple):
            if cn == "ASTUnionSelectStatement" and f.name == "elements":
                if len(v) > 3: yield put(v[:-2]); yield put(v[2:])
            else:
                if len(v) > (1 if key in MIN1 else 0):
                    for i in range(len(v)): yield put(v[:i] + v[i + 1:])
            for i, x in enumerate(v):
                if isinstance(x, tuple):
                    if len(x) > 2 or (len(x) == 2 and not any(_paren_start(y) for y in x)):
                        for j in range(len(x)): yield put(v[:i] + (x[:j] + x[j + 1:],) + v[i + 1:])
                    for j, y in enumerate(x):
                        for ny in _expr_variants(N, y, True):
                            if len(x) > 1 or not _paren_start(ny): yield put(v[:i] + (x[:j] + (ny,) + x[j + 1:],) + v[i + 1:])
                elif _is_expr(N, x):
                    for nx in _expr_variants(N, x, key in COMPUTE): yield put(v[:i] + (nx,) + v[i + 1:])
                elif dataclasses.is_dataclass(x):
                    for nx in variants(N, x): yield put(v[:i] + (nx,) + v[i + 1:])
        elif _is_expr(N, v):
            for nv in _expr_variants(N, v, key in COMPUTE): yield put(nv)
        elif dataclasses.is_dataclass(v):
            for nv in variants(N, v): yield put(nv)


def _expr_variants(N, e, compute):
    z = N.ASTColumnNameExpression(column_name="z")
    if not isinstance(e, (N.ASTColumnNameExpression, N.ASTLiteralExpression)): yield z
    for c in _children_exprs(N, e):
        if not compute or _compute_ok(N, c): yield c
    for nv in variants(N, e):
        if not compute or _compute_ok(N, nv): yield nv


def judge(t, st):
    from metasequoia_sql import SQLParser
    try:
        text = t.source(st)
    except Exception as e:
        k = canon.err_kind(e).replace(" ", "_")
        return ("" if k == "NOTSUP" else "print:" + k), ""      # a construct the dialect's printer refuses (C13): nothing to parse
    try:
        back = SQLParser.parse_statements(text, sql_type=st)
    except Exception as e:
        return "parse:" + canon.err_kind(e).replace(" ", "_"), text
    if len(back) != 1: return "count", text
    if back[0] != t: return "slot:" + (canon.first_diff(t, back[0]) or "eq"), text
    return "", text


def shrink(N, t, st, kind, budget=1500):
    k0 = kind.split(":")[0]
    changed = True
    while changed and budget > 0:
        changed = False
        for v in variants(N, t):
            budget -= 1
            if budget <= 0: break
            try:
                k, _ = judge(v, st)
            except Exception:
                continue
            if k.split(":")[0] == k0 and (k0 != "parse" or k == kind):
                t, changed = v, True
                break
    return t


def tree(parts):
    from metasequoia_sql import SQLParser, SQLType
    d, seed, n = parts[1], int(parts[2]), int(parts[3])
    st = SQLType[d]
    rng = Rng(seed)
    fails, ok, kinds = [], 0, {}
    lim = int(parts[4]) if len(parts) > 4 else 600
    for i in range(n):
        g = G(rng, d)
        t = g.stmt()
        kinds[type(t).__name__] = kinds.get(type(t).__name__, 0) + 1
        k, text = judge(t, st)
        if not k:
            ok += 1; continue
        if len(fails) < 8:
            t2 = shrink(g.N, t, st, k)
            k, text = judge(t2, st)
        fails.append("%s|%s|%s" % (canon.q(k), type(t).__name__, canon.q((text or canon.dump(t))[:lim])))
    return "OK %d %d %s %s" % (ok, len(fails), ",".join("%s=%d" % kv for kv in sorted(kinds.items())), " ".join(fails[:20]))


def treetext(parts):
    """TREETEXT <dialect> <seed> <n>: the printed texts of the same trees (hex, blank-separated) for the parser/printer correspondence"""
    from metasequoia_sql import SQLType
    d, seed, n = parts[1], int(parts[2]), int(parts[3])
    st = SQLType[d]
    rng = Rng(seed)
    out = []
    for i in range(n):
        t = G(rng, d).stmt()
        try:
            out.append(canon.enhex(t.source(st)))
        except Exception:
            out.append("-")
    return "OK " + " ".join(out)


COMMANDS = {"TREE": tree, "TREETEXT": treetext}
