"""The anatomy of a check (DESIGN §6): translate → build proofs → audit → correspondence → known findings →
(on any break) failing-input search → evidence."""
import json, os, sys, time, traceback, importlib
import engine as E

TRUSTED_BASE = [
    "Lean 4.33 kernel (leanchecker re-check in the thorough tier)",
    "axioms allowed in property theorems: propext, Classical.choice, Quot.sound only (audited by #print axioms each run)",
    "tools/translate.py: its reading of the live Python objects and its AST→micro-instruction rules",
    "MsqModel/Lex/Core.lean (meaning of the micro-instructions and of the driver shape), MsqModel/Py.lean (Python fragment)",
    "hand-written models (parser, printer, cursor, analyzers, cache) are tied to the code only by the sampled correspondence",
]


class Ctx:
    def __init__(self, prop, tier, seed):
        self.prop, self.tier, self.seed = prop, tier, seed
        self.rng = E.Rng(seed).fork(prop)
        self.t0 = time.time()
        self.broken = []          # [{kind, name, detail}]  kinds: translator | obligation | correspondence | audit
        self.violations = []      # [{replay path, line}]
        self.known_seen = []      # known findings reproduced this run
        self.lines = []           # stdout lines (KNOWN-FINDING / VIOLATION)
        self.cov = {"evaluations": 0, "distinct_nontrivial": 0, "traces_validated_against_impl": 0, "samples": [],
                    "distribution": {}, "obligations": 0, "discharged": 0, "checker_cmd": "", "trusted_base": list(TRUSTED_BASE),
                    "rule": "", "proved": [], "validated_only": [], "broken": [], "known_findings_seen": [], "axioms": {},
                    "unmodelled_skipped": 0}
        self.assumptions = []
        self.cmds = []
        self.distinct = set()
        self.findings = E.known_findings(prop)
        self.quick = tier == "quick"

    # -- bookkeeping ------------------------------------------------------------------------------------
    def note_broken(self, kind, name, detail=""):
        self.broken.append({"kind": kind, "name": name, "detail": str(detail)[:600]})

    def count(self, key, n=1):
        d = self.cov["distribution"]
        d[key] = d.get(key, 0) + n

    def sample(self, x, limit=6):
        if len(self.cov["samples"]) < limit:
            self.cov["samples"].append(x)

    # -- correspondence ---------------------------------------------------------------------------------
    def corr(self, requests, cfg=None, stream="", nontrivial=None):
        """run both sides; returns [(req, impl, model)] of disagreements (unmodelled answers are skipped and counted)"""
        res = E.run_pairs(requests, cfg)
        bad = []
        for req, a, b in res:
            self.cov["evaluations"] += 1
            if a.startswith("HARNESS-ERROR"):
                raise E.Infra("%s on %s" % (a, req))
            if b.startswith("UNMODELLED") or a.startswith("UNMODELLED"):
                self.cov["unmodelled_skipped"] += 1
                self.count(stream + ":unmodelled")
                continue
            self.cov["traces_validated_against_impl"] += 1
            kind = a.split(" ", 1)[0] + ((" " + a.split(" ")[1]) if a.startswith("PY ") else "")
            self.count(stream + ":" + kind)
            if (nontrivial(req, a) if nontrivial else a.startswith("OK")):
                self.distinct.add(hash(a))
            if a != b:
                bad.append((req, a, b))
        if bad:
            req, a, b = bad[0]
            if not hasattr(self, "disagreements"):
                self.disagreements = []
            if len(self.disagreements) < 5:
                self.disagreements.append({"stream": stream, "cfg": cfg, "request": req, "impl": a[:2000], "model": b[:2000]})
            self.note_broken("correspondence", stream or "stream",
                             "%d disagreement(s); first: request=%s impl=%s model=%s" % (len(bad), req[:200], a[:200], b[:200]))
        if cfg is None:
            import hazards
            hazards.remember(self, stream, res)
        return res, bad

    # -- results -----------------------------------------------------------------------------------------
    def match_finding(self, signature):
        for f in self.findings:
            if f.get("status") == "finding" and f.get("signature", {}).get("failure") == signature:
                return f
        return None

    def report_known(self, f, what=None):
        if f["id"] not in self.known_seen:
            self.known_seen.append(f["id"])
            self.cov["known_findings_seen"].append(f["id"])
            self.lines.append("KNOWN-FINDING: property=%s %s" % (self.prop, what or f.get("what", f["id"])))

    def violation(self, payload, found=True):
        payload = dict(payload, property=self.prop, seed=self.seed, tier=self.tier,
                       broken=[b["kind"] + ":" + b["name"] for b in self.broken], disagreements=getattr(self, "disagreements", []))
        path = E.write_replay(self.prop, payload)
        line = "VIOLATION property=%s replay=%s" % (self.prop, path) + ("" if found else " no-failing-input-found")
        self.violations.append({"replay": path, "line": line})
        self.lines.append(line)

    # -- evidence ----------------------------------------------------------------------------------------
    def write_evidence(self):
        self.cov["distinct_nontrivial"] = len(self.distinct)
        self.cov["broken"] = self.broken
        self.cov["checker_cmd"] = " ; ".join(self.cmds)
        # a property whose evidence includes kernel-checked theorems is reported at level "proof"; one that is (so far) decided by the
        # model/implementation correspondence and the oracle alone is reported as translation validation
        proof = self.cov["obligations"] >= 1 and self.cov["discharged"] == self.cov["obligations"]
        self.cov["programs"] = max(1, self.cov["traces_validated_against_impl"])
        self.cov["disagreements_checked"] = sum(1 for b in self.broken if b["kind"] == "correspondence")
        if not self.cov["samples"]:
            self.cov["samples"] = [{"note": "no sample recorded"}]
        ev = {"property_id": self.prop, "tier": self.tier, "seed": self.seed, "level": "proof" if proof else "translation_validation", "coverage": self.cov,
              "assumptions": self.assumptions, "wall_s": round(time.time() - self.t0, 2), "violations": len(self.violations)}
        E.write_json(os.path.join(E.VERIF, "evidence", "%s.json" % self.prop), ev)


def props_json():
    return json.load(open(os.path.join(E.LEAN, "props.json")))


def prepare(ctx, spec):
    """translate, build model+driver, build the property's proof modules, audit.  Records breaks in ctx."""
    with E.Lock():
        ok, refusals, changed, cmd = E.translate()
        ctx.cmds.append(cmd)
        ctx.cov["regenerated"] = changed
        if not ok:
            for r in refusals:
                ctx.note_broken("translator", "refusal", r)
        ok, mods, msgs, log = E.lake_build(["msqdrv"])
        ctx.cmds.append("lake build msqdrv")
        if not ok:
            if not os.path.exists(E.DRV):
                raise E.Infra("model driver does not build: " + "; ".join(msgs[:3]))
            ctx.note_broken("translator", "generated model does not compile", "; ".join(msgs[:3]))
        targets = spec.get("modules", [])
        if targets:
            ok, mods, msgs, log = E.lake_build(targets)
            ctx.cmds.append("lake build " + " ".join(targets))
            if not ok:
                for m in (mods or ["?"]):
                    ctx.note_broken("obligation", m, "; ".join(msgs[:4]))
        # audit
        hits = E.audit_sources(targets)
        ctx.cmds.append("grep sorry|admit|axiom|native_decide|bv_decide|implemented_by|unsafe|maxHeartbeats 0 (outside comments)")
        for h in hits:
            ctx.note_broken("audit", "forbidden construct", h)
        thms = [(t["module"], t["name"]) for t in spec.get("theorems", [])]
        built = [(m, n) for (m, n) in thms if not any(b["kind"] == "obligation" and b["name"] == m for b in ctx.broken)]
        okA, axioms, cmdA = E.audit_axioms(built) if built else (True, {}, "")
        if cmdA:
            ctx.cmds.append(cmdA)
        ctx.cov["axioms"] = axioms
        ctx.cov["obligations"] = len(thms)
        ctx.cov["discharged"] = sum(1 for (_, n) in built if n in axioms and set(axioms[n]) <= E.ALLOWED_AXIOMS)
        ctx.cov["proved"] = [t.get("what", t["name"]) for t in spec.get("theorems", []) if t["name"] in axioms]
        ctx.cov["validated_only"] = list(spec.get("validated_only", []))
        for (_, n) in built:
            if n not in axioms:
                ctx.note_broken("obligation", n, "theorem not found / did not check")
            elif not set(axioms[n]) <= E.ALLOWED_AXIOMS:
                ctx.note_broken("audit", n, "depends on axioms %r" % axioms[n])
        if ctx.tier == "thorough" and targets and not any(b["kind"] == "obligation" for b in ctx.broken):
            rc, out, err, dt = E.run(["lake", "env", "leanchecker"] + targets, cwd=E.LEAN, timeout=3000)
            ctx.cmds.append("lake env leanchecker " + " ".join(targets))
            ctx.cov["leanchecker"] = {"exit": rc, "wall_s": round(dt, 1)}
            if rc != 0:
                ctx.note_broken("audit", "leanchecker", (out + err)[-400:])


def main(argv):
    import argparse
    ap = argparse.ArgumentParser()
    ap.add_argument("prop", nargs="?")
    ap.add_argument("--tier", default=os.environ.get("VERIF_TIER", "quick"), choices=["quick", "thorough"])
    ap.add_argument("--replay")
    ap.add_argument("--setup", action="store_true")
    a = ap.parse_args(argv)
    sys.path.insert(0, os.path.join(E.VERIF, "tools", "harness"))
    if a.setup:
        with E.Lock():
            ok, refusals, changed, cmd = E.translate()
            if not ok:
                print("setup: translator refused: %s" % refusals)
                return 2
            ok, mods, msgs, log = E.lake_build(["MsqModel", "MsqProofs", "msqdrv"])
            if not ok:
                print(log[-3000:])
                return 2
        print("setup ok")
        return 0
    if a.replay:
        payload = json.load(open(a.replay))
        prop = payload["property"]
        if payload.get("kind") == "obligation" or payload.get("input") is None and "ops" not in payload and "history" not in payload and "requests" not in payload:
            # a violation without a failing input names the theorem / correspondence that no longer checks: re-check exactly those
            ctx = Ctx(prop, "quick", payload.get("seed", 0))
            try:
                prepare(ctx, props_json().get(prop, {}))
            except E.Infra as e:
                print("INFRASTRUCTURE FAILURE: %s" % e)
                return 2
            print("recorded as broken:", payload.get("broken"))
            for b in payload.get("broken_detail", [])[:6]:
                print("  %s %s: %s" % (b.get("kind"), b.get("name"), str(b.get("detail"))[:300]))
            now = [b for b in ctx.broken if b["kind"] in ("translator", "obligation", "audit")]
            print("broken now (translator / obligations / audit):", [b["kind"] + ":" + b["name"] for b in now] or "none")
            still = 0
            for dd in payload.get("disagreements", []):
                r = E.run_pairs([dd["request"]], dd.get("cfg"))[0]
                same = r[1] == r[2]
                still += not same
                print("correspondence %s: request %s… → implementation %s | model %s → %s" % (dd.get("stream"), dd["request"][:80], r[1][:120], r[2][:120], "agree now" if same else "STILL DISAGREE"))
            return 1 if (now or still) else 0
        if payload.get("kind") == "history-hazard":
            import hazards
            return hazards.replay(payload)
        mod = importlib.import_module("props." + prop.lower())
        return mod.replay(payload)
    prop = a.prop
    ctx = Ctx(prop, a.tier, E.seed_from_env())
    cover_dir = None
    if os.environ.get("MSQ_COVER", "1") != "0":
        cover_dir = os.path.join(E.BUILD, "cover", "%s-%d" % (prop, os.getpid()))
        os.environ["MSQ_COVER_DIR"] = cover_dir
    try:
        spec = props_json().get(prop, {})
        mod = importlib.import_module("props." + prop.lower())
        prepare(ctx, spec)
        mod.run(ctx)
        if not getattr(ctx, "hazards_done", False) and getattr(ctx, "hazard_pool", None):
            import hazards
            hazards.check(ctx)          # modules that do not end in pfam.conclude
    except E.Infra as e:
        print("INFRASTRUCTURE FAILURE: %s" % e)
        return 2
    except subprocess_timeout() as e:
        print("TIMEOUT: %s" % e)
        return 2
    except Exception:
        traceback.print_exc()
        return 2
    if cover_dir:
        try:
            import cover
            hits = cover.collect(cover_dir)
            ctx.cov["impl_line_coverage"] = cover.summarise(hits)
            E.write_json(os.path.join(E.BUILD, "cover", "%s.json" % prop),
                         {m: (sorted(v) if isinstance(v, set) else [[*k, sorted(x)] for k, x in v.items()] if m == "#branches" else {str(k): x for k, x in v.items()})
                          for m, v in hits.items()})
        except Exception as e:      # coverage is evidence about reach, never a verdict
            ctx.cov["impl_line_coverage"] = {"error": "%s: %s" % (type(e).__name__, e)}
    ctx.write_evidence()
    for l in ctx.lines:
        print(l)
    if ctx.violations:
        return 1
    print("%s %s: held on everything explored (%d obligations discharged, %d traces validated, %d known finding(s) reproduced, %.1fs)"
          % (prop, a.tier, ctx.cov["discharged"], ctx.cov["traces_validated_against_impl"], len(ctx.known_seen), time.time() - ctx.t0))
    return 0


def subprocess_timeout():
    import subprocess
    return subprocess.TimeoutExpired
