"""Shared machinery of the checks: locking, translate+build, running the model driver and the
implementation worker on the same request stream, PRNG, evidence writing."""
import fcntl, hashlib, json, os, subprocess, sys, time, concurrent.futures, itertools, re

VERIF = os.path.dirname(os.path.dirname(os.path.dirname(os.path.abspath(__file__))))
LEAN = os.path.join(VERIF, "lean")
BUILD = os.path.join(VERIF, "build")
PY = "/venv/bin/python"
DRV = os.path.join(LEAN, ".lake", "build", "bin", "msqdrv")
WORKER = os.path.join(VERIF, "tools", "harness", "impl_worker.py")
REPO = os.environ.get("MSQ_REPO", "/repo")
JOBS = int(os.environ.get("VERIF_JOBS", "16"))
ALLOWED_AXIOMS = {"propext", "Classical.choice", "Quot.sound"}


class Infra(Exception):
    """infrastructure failure: exit status 2, never a property result"""


# ---------------------------------------------------------------------------------------------------------
# PRNG: one splitmix64 state per run; every random choice derives from VERIF_SEED
# ---------------------------------------------------------------------------------------------------------

class Rng:
    M = (1 << 64) - 1

    def __init__(self, seed):
        self.s = (seed * 0x9E3779B97F4A7C15 + 0x1234567) & self.M

    def next(self):
        self.s = (self.s + 0x9E3779B97F4A7C15) & self.M
        z = self.s
        z = ((z ^ (z >> 30)) * 0xBF58476D1CE4E5B9) & self.M
        z = ((z ^ (z >> 27)) * 0x94D049BB133111EB) & self.M
        return z ^ (z >> 31)

    def below(self, n):
        return self.next() % n

    def choice(self, xs):
        return xs[self.below(len(xs))]

    def chance(self, p):
        return self.next() / float(1 << 64) < p

    def fork(self, tag):
        h = int.from_bytes(hashlib.sha256(("%d/%s" % (self.s, tag)).encode()).digest()[:8], "big")
        return Rng(h)

    def shuffle(self, xs):
        xs = list(xs)
        for i in range(len(xs) - 1, 0, -1):
            j = self.below(i + 1)
            xs[i], xs[j] = xs[j], xs[i]
        return xs


def seed_from_env():
    try:
        return int(os.environ.get("VERIF_SEED", "0"))
    except ValueError:
        return 0


# ---------------------------------------------------------------------------------------------------------
# build
# ---------------------------------------------------------------------------------------------------------

class Lock:
    def __init__(self, name="build"):
        os.makedirs(BUILD, exist_ok=True)
        self.path = os.path.join(BUILD, name + ".lock")

    def __enter__(self):
        self.f = open(self.path, "w")
        fcntl.flock(self.f, fcntl.LOCK_EX)
        return self

    def __exit__(self, *a):
        fcntl.flock(self.f, fcntl.LOCK_UN)
        self.f.close()


def run(cmd, cwd=None, timeout=3600, env=None):
    t = time.time()
    r = subprocess.run(cmd, cwd=cwd, capture_output=True, text=True, timeout=timeout, env=env)
    return r.returncode, r.stdout, r.stderr, time.time() - t


def translate():
    """returns (ok, refusals, changed, cmd)"""
    cmd = [PY, os.path.join(VERIF, "tools", "translate.py")]
    rc, out, err, _ = run(cmd, cwd=VERIF)
    try:
        st = json.load(open(os.path.join(BUILD, "translate_status.json")))
    except Exception:
        st = {"refused": ["translator crashed: " + (err.strip().splitlines() or ["?"])[-1]], "changed": []}
    if rc not in (0, 3):
        st["refused"].append("translator crashed (exit %d): %s" % (rc, (err.strip().splitlines() or ["?"])[-1]))
    return (rc == 0 and not st["refused"]), st["refused"], st.get("changed", []), " ".join(cmd)


def lake_build(targets):
    """returns (ok, failing module names, failing declaration/messages, log)"""
    cmd = ["lake", "build"] + list(targets)
    rc, out, err, dt = run(cmd, cwd=LEAN, timeout=3000)
    log = out + err
    failed_mods = re.findall(r"^- (\S+)$", log, re.M)
    msgs = re.findall(r"^error: (.*)$", log, re.M)
    return rc == 0, failed_mods, msgs, log


def gen_json():
    return json.load(open(os.path.join(BUILD, "gen.json")))


# ---------------------------------------------------------------------------------------------------------
# audit
# ---------------------------------------------------------------------------------------------------------

FORBIDDEN = re.compile(r"\b(sorry|admit|native_decide|bv_decide|implemented_by|unsafe)\b|^\s*axiom\s|maxHeartbeats\s+0\b", re.M)


def strip_comments(src):
    # block comments (nested) and line comments
    out, i, depth = [], 0, 0
    while i < len(src):
        if src.startswith("/-", i):
            depth += 1; i += 2; continue
        if src.startswith("-/", i) and depth:
            depth -= 1; i += 2; continue
        if depth == 0:
            if src.startswith("--", i):
                j = src.find("\n", i)
                i = len(src) if j < 0 else j
                continue
            out.append(src[i])
        elif src[i] == "\n":
            out.append("\n")
        i += 1
    return "".join(out)


def import_closure(modules):
    """the project files reachable through `import` from the given modules (plus the driver)"""
    seen, todo = set(), list(modules) + ["Main", "MsqModel"]
    while todo:
        m = todo.pop()
        if m in seen:
            continue
        path = os.path.join(LEAN, *m.split(".")) + ".lean"
        if not os.path.exists(path):
            continue
        seen.add(m)
        for line in open(path, encoding="utf-8"):
            mm = re.match(r"\s*import\s+(\S+)", line)
            if mm and mm.group(1).split(".")[0] in ("MsqModel", "MsqProofs"):
                todo.append(mm.group(1))
    return sorted(os.path.join(LEAN, *m.split(".")) + ".lean" for m in seen)


def audit_sources(modules=()):
    """grep for forbidden constructs outside comments in everything the property's modules import; returns list of hits"""
    hits = []
    for p in import_closure(modules):
        for _ in (0,):
            for __ in (0,):
                if True:
                    src = strip_comments(open(p, encoding="utf-8").read())
                    # string literals may legitimately contain words like "unsafe"; drop them
                    src = re.sub(r'"(\\.|[^"\\])*"', '""', src)
                    for m in FORBIDDEN.finditer(src):
                        hits.append("%s: %s" % (os.path.relpath(p, LEAN), m.group(0).strip()))
    return hits


def audit_axioms(theorems):
    """`#print axioms` for every theorem; returns (ok, {theorem: [axioms]}, cmd)"""
    if not theorems:
        return True, {}, ""
    mods = sorted({m for m, _ in theorems})
    path = os.path.join(BUILD, "Audit_%d.lean" % os.getpid())
    with open(path, "w") as f:
        for m in mods:
            f.write("import %s\n" % m)
        for _, t in theorems:
            f.write("#print axioms %s\n" % t)
    cmd = ["lake", "env", "lean", path]
    rc, out, err, _ = run(cmd, cwd=LEAN, timeout=1200)
    os.unlink(path)
    res, cur = {}, None
    text = out + err
    for m in re.finditer(r"'([^']+)' (depends on axioms: \[([^\]]*)\]|does not depend on any axioms)", text.replace("\n ", " ").replace("\n", " ")):
        res[m.group(1)] = [a.strip() for a in (m.group(3) or "").split(",") if a.strip()]
    ok = rc == 0 and all(t in res and set(res[t]) <= ALLOWED_AXIOMS for _, t in theorems)
    return ok, res, "lake env lean <Audit.lean with #print axioms of %d theorems>" % len(theorems)


# ---------------------------------------------------------------------------------------------------------
# running both sides on one request stream
# ---------------------------------------------------------------------------------------------------------

def _run_side(cmd, data, env=None):
    p = subprocess.run(cmd, input=data, capture_output=True, text=True, env=env, cwd=REPO)
    return p.stdout.split("\n"), p.stderr


def run_pair_chunk(requests, cfg=None):
    data = "\n".join(requests) + "\n"
    wcmd = [PY, WORKER] + (["--cfg", str(cfg)] if cfg is not None else [])
    env = dict(os.environ, MSQ_REPO=REPO, PYTHONHASHSEED=os.environ.get("PYTHONHASHSEED", "0"))
    with concurrent.futures.ThreadPoolExecutor(2) as ex:
        fi = ex.submit(_run_side, wcmd, data, env)
        fm = ex.submit(_run_side, [DRV], data)
        (io, ie), (mo, me) = fi.result(), fm.result()
    if len(io) < len(requests) or len(mo) < len(requests):
        raise Infra("worker/driver produced %d/%d lines for %d requests: %s %s" % (len(io), len(mo), len(requests), ie[-300:], me[-300:]))
    return list(zip(requests, io[:len(requests)], mo[:len(requests)]))


def run_pairs(requests, cfg=None, jobs=None):
    """returns [(request, impl answer, model answer)] in order"""
    jobs = jobs or JOBS
    requests = list(requests)
    if not requests:
        return []
    n = max(1, min(jobs, (len(requests) + 1999) // 2000))
    size = (len(requests) + n - 1) // n
    chunks = [requests[i:i + size] for i in range(0, len(requests), size)]
    with concurrent.futures.ThreadPoolExecutor(len(chunks)) as ex:
        res = list(ex.map(lambda c: run_pair_chunk(c, cfg), chunks))
    out = [x for r in res for x in r]
    # the worker abandons a request after 5 s; on a loaded machine that can hit a harmless request: ask again, alone, before it counts
    hung = [i for i, (_, a, _) in enumerate(out) if a == "HANG"][:50]
    if hung:
        again = _reask([out[i][0] for i in hung], cfg)
        for i, a in zip(hung, again):
            out[i] = (out[i][0], a, out[i][2])
    return out


def _reask(requests, cfg):
    wcmd = [PY, WORKER] + (["--cfg", str(cfg)] if cfg is not None else [])
    env = dict(os.environ, MSQ_REPO=REPO, PYTHONHASHSEED=os.environ.get("PYTHONHASHSEED", "0"))
    return [(_run_side(wcmd, r + "\n", env)[0] + ["HANG"])[0] or "HANG" for r in requests]


def run_impl(requests, cfg=None, jobs=None):
    """implementation side only"""
    jobs = jobs or JOBS
    requests = list(requests)
    if not requests:
        return []
    n = max(1, min(jobs, (len(requests) + 1999) // 2000))
    size = (len(requests) + n - 1) // n
    chunks = [requests[i:i + size] for i in range(0, len(requests), size)]
    wcmd = [PY, WORKER] + (["--cfg", str(cfg)] if cfg is not None else [])
    env = dict(os.environ, MSQ_REPO=REPO, PYTHONHASHSEED=os.environ.get("PYTHONHASHSEED", "0"))
    with concurrent.futures.ThreadPoolExecutor(len(chunks)) as ex:
        res = list(ex.map(lambda c: _run_side(wcmd, "\n".join(c) + "\n", env)[0][:len(c)], chunks))
    out = [x for r in res for x in r]
    hung = [i for i, a in enumerate(out) if a == "HANG"][:50]
    if hung and len(out) == len(requests) and not any(r.startswith(("TIME ", "THR ")) for r in requests):
        for i, a in zip(hung, _reask([requests[i] for i in hung], cfg)):
            out[i] = a
    return out


def run_model(requests):
    requests = list(requests)
    if not requests:
        return []
    out, err = _run_side([DRV], "\n".join(requests) + "\n")
    if len(out) < len(requests):
        raise Infra("driver produced %d lines for %d requests: %s" % (len(out), len(requests), err[-300:]))
    return out[:len(requests)]


def enhex(s):
    return s.encode("utf-8").hex() or "-"


def unhex(h):
    return "" if h == "-" else bytes.fromhex(h).decode("utf-8")


# ---------------------------------------------------------------------------------------------------------
# evidence / replays / findings
# ---------------------------------------------------------------------------------------------------------

def write_json(path, obj):
    os.makedirs(os.path.dirname(path), exist_ok=True)
    tmp = path + ".tmp%d" % os.getpid()
    with open(tmp, "w", encoding="utf-8") as f:
        json.dump(obj, f, indent=1, ensure_ascii=False, sort_keys=False)
        f.write("\n")
    os.replace(tmp, path)


def write_replay(prop, payload):
    h = hashlib.sha256(json.dumps(payload, sort_keys=True, ensure_ascii=False).encode()).hexdigest()[:12]
    path = os.path.join(VERIF, "replays", "%s-%s.json" % (prop, h))
    write_json(path, payload)
    return os.path.relpath(path, VERIF)


def known_findings(prop):
    try:
        allf = json.load(open(os.path.join(VERIF, "known_findings.json")))
    except FileNotFoundError:
        return []
    return [f for f in allf if f.get("property") == prop]


# ---------------------------------------------------------------------------------------------------------
# theorem coverage: which of the explored inputs fall under the hypotheses of the registered round-trip theorems
# ---------------------------------------------------------------------------------------------------------

def theorem_coverage(cases, limit=600):
    """cases: [(dialect, text)].  Parses each text with the parser model and evaluates the (decidable) hypotheses of C03.tstatement_any (token level: T) and
    C03.tstatement_any_text / C01.statement_round_trip_text_any (text level: X) on every parsed statement (lean/MsqProofs/Tools/FragCov.lean, interpreted).
    Returns an evidence block; a measurement, never a verdict."""
    cases = list(cases)[:limit]
    data = "".join("%s %s\n" % (d, enhex(t)) for d, t in cases)
    try:
        p = subprocess.run(["lake", "env", "lean", "--run", "MsqProofs/Tools/FragCov.lean"], input=data, capture_output=True, text=True, cwd=LEAN, timeout=600)
    except Exception as e:
        return {"error": "%s: %s" % (type(e).__name__, e)}
    lines = [l for l in p.stdout.split("\n") if l.startswith(("OK", "REJ", "BADREQ"))]
    if len(lines) != len(cases):
        return {"error": "tool answered %d lines for %d texts: %s" % (len(lines), len(cases), (p.stdout + p.stderr)[-300:])}
    tot = {"X": 0, "Y": 0, "T": 0, "U": 0, "-": 0, "M": 0}
    kinds = {}
    rejected = 0
    for a in lines:
        if not a.startswith("OK"):
            rejected += 1
            continue
        for j in a.split(" ")[1:]:
            k, v = j.split(":")
            tot[v] += 1
            kk = kinds.setdefault(k, {"X": 0, "T": 0, "U": 0, "-": 0})
            kk.setdefault(v, 0)
            kk[v] += 1
    n = sum(tot.values())
    return {"texts": len(cases), "rejected_by_the_model": rejected, "statements": n,
            "round_trip_is_a_theorem_at_text_level": tot["X"], "at_token_level_only": tot["T"] + tot["Y"], "outside_the_fragments": tot["-"] + tot["U"],
            "at_token_level_by_the_third_fragment_only": tot["U"], "outside_every_fragment_including_the_third": tot["-"],
            "in_FragAny_but_outside_the_third_fragment": tot["M"],
            "at_text_level_by_the_weaker_payload_condition_leafAnyB2_only": tot["Y"], "at_text_level_with_leafAnyB2": tot["X"] + tot["Y"],
            "by_statement_class": kinds,
            "meaning": "X: the parsed tree satisfies FragAny, printableAny, leafAnyB and the pre-pass condition, so C01.statement_round_trip_text_any applies to it; "
                       "Y: as X with the weaker decidable payload condition leafAnyB2 in place of leafAnyB (C01.statement_round_trip_text_any_B2; counted under at_token_level_only, which keeps its meaning); T: FragAny only (C01.statement_round_trip_tokens_any); U: not FragAny but TR3.FragAny (back-quoted aliases, decimal / hex / bit literals: "
                       "C01.statement_round_trip_tokens_any3, token level); -: decided by correspondence and oracle alone. outside_the_fragments keeps its meaning (outside FragAny = U + -)"}
