"""Worker commands for C11 (implementation side); answer formats as in `lean/MsqModel/Driver/CmdImm.lean`.

IMM <dialect> <hex text>                         every node of every parsed statement: attribute assignment raises, field values are
                                                 None/bool/int/str/Enum/tuple/AST node, hash() succeeds, an independently re-parsed copy is
                                                 == and hashes equal, a copy with one field changed is !=
HELP <dialect> <hex statement> <hex calls>       apply copy-and-modify helpers; per call: class kept, receiver's dump unchanged, hashability
"""
import dataclasses, enum
import canon


def is_node(v):
    return dataclasses.is_dataclass(v) and not isinstance(v, type)


def value_problem(v):
    """None, or the name of the offending type, for one field value (tuples are checked element-wise)"""
    if v is None or isinstance(v, (bool, int, str, enum.Enum)) or is_node(v):
        return None
    if isinstance(v, tuple):
        for x in v:
            p = value_problem(x)
            if p:
                return p
        return None
    return type(v).__name__


def variant_of(node):
    """a copy of `node` with its first changeable field changed, and the field's name (None if the node has no such field)"""
    for f in dataclasses.fields(node):
        v = getattr(node, f.name)
        if v is None: new = "x"
        elif isinstance(v, bool): new = not v
        elif isinstance(v, int): new = v + 1
        elif isinstance(v, str): new = v + "_x"
        elif isinstance(v, enum.Enum):
            others = [m for m in type(v) if m is not v]
            if not others:
                continue
            new = others[0]
        elif isinstance(v, tuple): new = v + (None,)
        else:
            continue
        return dataclasses.replace(node, **{f.name: new}), f.name
    return None, None


def check_node(n, copy):
    cls = type(n).__name__
    for f in dataclasses.fields(n):
        try:
            setattr(n, f.name, getattr(n, f.name))
            return "setattr:%s.%s" % (cls, f.name)
        except Exception:
            pass
        p = value_problem(getattr(n, f.name))
        if p:
            return "type:%s.%s:%s" % (cls, f.name, p)
    try:
        setattr(n, "brand_new_attribute", 1)
        return "setattr:%s.<new>" % cls
    except Exception:
        pass
    try:
        object.__getattribute__(n, "__dict__")
        return "dict:%s" % cls
    except AttributeError:
        pass
    try:
        h = hash(n)
    except Exception as e:
        return "hash:%s:%s" % (cls, type(e).__name__)
    if copy is not None:
        if type(copy) is not type(n) or not (copy == n) or (copy != n):
            return "copy-ne:%s" % cls
        if hash(copy) != h:
            return "copy-hash:%s" % cls
    var, fname = variant_of(n)
    if var is not None and (var == n or not (var != n)):
        return "variant-eq:%s.%s" % (cls, fname)
    return None


def cmd_imm(parts):
    from metasequoia_sql import SQLParser, SQLType
    st, text = SQLType[parts[1]], canon.unhex(parts[2])
    try:
        stmts = SQLParser.parse_statements(text, sql_type=st)
    except Exception as e:
        return canon.err_kind(e)
    again = SQLParser.parse_statements(text, sql_type=st)
    problem = None
    if not isinstance(stmts, list) or len(again) != len(stmts):
        problem = "copy-count"
    nodes, copies = list(canon.walk_nodes(stmts)), list(canon.walk_nodes(again))
    if problem is None and len(nodes) != len(copies):
        problem = "copy-nodes"
    classes = set()
    for n in nodes:                      # the most specific diagnosis first: a mutable value stored in a field
        classes.add(type(n).__name__)
        for f in dataclasses.fields(n):
            p = value_problem(getattr(n, f.name))
            if p and problem is None and not isinstance(getattr(n, f.name), tuple):
                problem = "type:%s.%s:%s" % (type(n).__name__, f.name, p)
    for i, n in enumerate(nodes):
        if problem is None:
            problem = check_node(n, copies[i] if len(copies) == len(nodes) else None)
    if problem is None:
        for a, b in zip(stmts, again):
            if a is b:
                problem = "copy-same-object"
        for i in range(len(stmts)):
            for j in range(i + 1, len(stmts)):
                if (canon.dump(stmts[i]) == canon.dump(stmts[j])) != (stmts[i] == stmts[j]):
                    problem = "eq-vs-structure"
    return "OK n=%d imm=%s checks=%s classes=%s" % (len(nodes), "true" if not any(value_problem(getattr(n, f.name)) for n in nodes for f in dataclasses.fields(n)) else "false",
                                                      problem or "ok", ",".join(sorted(classes)))


def first_list(v):
    """field path to the first list, depth first in field order (`Help.firstList`)"""
    if isinstance(v, list):
        return ""
    if isinstance(v, tuple):
        for x in v:
            p = first_list(x)
            if p is not None:
                return p
        return None
    if is_node(v):
        for f in dataclasses.fields(v):
            p = first_list(getattr(v, f.name))
            if p is not None:
                return f.name if p == "" else f.name + "." + p
    return None


def hash_status(v):
    try:
        hash(v)
        return "hashable"
    except TypeError:
        p = first_list(v)
        return "unhashable:list_at_" + p if p is not None else "unhashable:?"


def cmd_help(parts):
    from metasequoia_sql import SQLParser, SQLType
    from metasequoia_sql.core import node as N
    from metasequoia_sql.common.static import HASHMAP_MYSQL_TO_HIVE
    dn = parts[1]
    st = SQLType[dn]
    try:
        stmts = SQLParser.parse_statements(canon.unhex(parts[2]), sql_type=st)
    except Exception as e:
        return canon.err_kind(e)
    if not stmts:
        return "NOSTMT"
    cur, out = stmts[0], []
    calls = [] if parts[3] == "-" else canon.unhex(parts[3]).split(";")
    for call in calls:
        c = call.split(":")
        try:
            if c[0] == "swc" and len(c) == 2:
                arg = None if c[1] == "-" else canon.parse_impl("with_clause", dn, canon.unhex(c[1]))[0]
                fn = lambda: cur.set_with_clauses(arg)
            elif c[0] == "stn" and len(c) == 3:
                arg = N.ASTTableNameExpression(schema_name=None if c[1] == "-" else canon.unhex(c[1]), table_name=canon.unhex(c[2]))
                fn = lambda: cur.set_table_name(arg)
            elif c[0] == "ct" and len(c) == 2:
                fn = lambda: cur.change_type(HASHMAP_MYSQL_TO_HIVE, remove_param=(c[1] == "1"))
            elif c[0] in ("ac", "apc") and len(c) == 2:
                arg = canon.parse_impl("define_column_expression", dn, canon.unhex(c[1]))[0]
                fn = (lambda: cur.append_column(arg)) if c[0] == "ac" else (lambda: cur.append_partition_by_column(arg))
            else:
                out.append("BADCALL")
                continue
        except Exception:
            out.append("BADARG")
            continue
        before = canon.dump(cur)
        try:
            res = fn()
        except Exception as e:
            out.append("E:" + canon.err_kind(e).replace(" ", "_"))
            continue
        cls = "same" if type(res) is type(cur) else "other:" + type(res).__name__
        out.append("ok,%s,%s,%s" % (cls, "kept" if canon.dump(cur) == before else "changed", hash_status(res)))
        cur = res
    return "OK " + " ".join(out) + (" " if out else "") + "final=" + canon.dump(cur)


COMMANDS = {"IMM": cmd_imm, "HELP": cmd_help}
