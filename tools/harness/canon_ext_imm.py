"""Worker commands for C11 (implementation side); answer formats as in `lean/MsqModel/Driver/CmdImm.lean`.

IMM <dialect> <hex text>                         every node of every parsed statement: attribute assignment raises, field values are
                                                 None/bool/int/str/Enum/tuple/AST node, hash() succeeds, an independently re-parsed copy is
                                                 == and hashes equal, a copy with one field changed is !=
HELP <dialect> <hex statement> <hex calls>       apply copy-and-modify helpers; per call: class kept, receiver's dump unchanged, hashability
"""
import dataclasses, enum
import canon


def is_node(v):
    return dataclasses.is_dataclass(v) and not isinstance(v, type)


def value_problem(v, path=""):
    """None, or `<type name>@<where>` of the first offending value of one field value; tuples are checked element-wise at EVERY depth
    (a list inside a tuple inside a tuple is found), nodes are left to the walk over all nodes"""
    if v is None or isinstance(v, (bool, int, str, enum.Enum)) or is_node(v):
        return None
    if isinstance(v, tuple):
        for i, x in enumerate(v):
            p = value_problem(x, path + "[%d]" % i)
            if p:
                return p
        return None
    return type(v).__name__ + ("@" + path if path else "")


def variant_of(node):
    """a copy of `node` with its first changeable field changed, and the field's name (None if the node has no such field)"""
    for f in dataclasses.fields(node):
        v = getattr(node, f.name)
        if v is None: new = "x"
        elif isinstance(v, bool): new = not v
        elif isinstance(v, int): new = v + 1
        elif isinstance(v, str): new = v + "_x"
        elif isinstance(v, enum.Enum):
            others = [m for m in type(v) if m is not v]
            if not others:
                continue
            new = others[0]
        elif isinstance(v, tuple): new = v + (None,)
        else:
            continue
        return dataclasses.replace(node, **{f.name: new}), f.name
    return None, None


_SPECIAL = ("__eq__", "__ne__", "__hash__", "__setattr__", "__delattr__", "__lt__", "__le__", "__gt__", "__ge__", "__getattribute__", "__getattr__")
_CLASS_OK = {}


def class_problem(cls):
    """a special method written by hand in the class body (the dataclass decorator compiles the ones it generates from "<string>"), or no hash"""
    if cls not in _CLASS_OK:
        bad = None
        for k in _SPECIAL:
            fn = vars(cls).get(k)
            fname = getattr(getattr(fn, "__code__", None), "co_filename", None)
            if fname is not None and not fname.startswith("<") and not fname.endswith("dataclasses.py"):
                bad = "own-special:%s.%s" % (cls.__name__, k)
                break
        if bad is None and getattr(cls, "__hash__", None) is None:
            bad = "own-special:%s.__hash__=None" % cls.__name__
        _CLASS_OK[cls] = bad
    return _CLASS_OK[cls]


def check_node(n, copy):
    cls = type(n).__name__
    p = class_problem(type(n))
    if p:
        return p
    for f in dataclasses.fields(n):
        try:
            setattr(n, f.name, getattr(n, f.name))
            return "setattr:%s.%s" % (cls, f.name)
        except Exception:
            pass
        p = value_problem(getattr(n, f.name))
        if p:
            return "type:%s.%s:%s" % (cls, f.name, p)
    try:
        setattr(n, "brand_new_attribute", 1)
        return "setattr:%s.<new>" % cls
    except Exception:
        pass
    try:
        object.__getattribute__(n, "__dict__")
        return "dict:%s" % cls
    except AttributeError:
        pass
    try:
        h = hash(n)
    except Exception as e:
        return "hash:%s:%s" % (cls, type(e).__name__)
    if copy is not None:
        if type(copy) is not type(n) or not (copy == n) or (copy != n):
            return "copy-ne:%s" % cls
        if hash(copy) != h:
            return "copy-hash:%s" % cls
    var, fname = variant_of(n)
    if var is not None and (var == n or not (var != n)):
        return "variant-eq:%s.%s" % (cls, fname)
    return None


def cmd_imm(parts):
    from metasequoia_sql import SQLParser, SQLType
    st, text = SQLType[parts[1]], canon.unhex(parts[2])
    try:
        stmts = SQLParser.parse_statements(text, sql_type=st)
    except Exception as e:
        return canon.err_kind(e)
    again = SQLParser.parse_statements(text, sql_type=st)
    problem = None
    if not isinstance(stmts, list) or len(again) != len(stmts):
        problem = "copy-count"
    nodes, copies = list(canon.walk_nodes(stmts)), list(canon.walk_nodes(again))
    if problem is None and len(nodes) != len(copies):
        problem = "copy-nodes"
    classes = set()
    for n in nodes:                      # the most specific diagnosis first: a mutable value stored in a field
        classes.add(type(n).__name__)
        for f in dataclasses.fields(n):
            p = value_problem(getattr(n, f.name))
            if p and problem is None:
                problem = "type:%s.%s:%s" % (type(n).__name__, f.name, p)
    try:
        for i, n in enumerate(nodes):
            if problem is None:
                problem = check_node(n, copies[i] if len(copies) == len(nodes) else None)
        if problem is None:
            for a, b in zip(stmts, again):
                if a is b:
                    problem = "copy-same-object"
            for i in range(len(stmts)):
                for j in range(i + 1, len(stmts)):
                    if (canon.dump(stmts[i]) == canon.dump(stmts[j])) != (stmts[i] == stmts[j]):
                        problem = "eq-vs-structure"
    except Exception as e:              # a check that raises is a failed check, not a harness failure
        problem = "raised:" + type(e).__name__
    return "OK n=%d imm=%s checks=%s classes=%s" % (len(nodes), "true" if not any(value_problem(getattr(n, f.name)) for n in nodes for f in dataclasses.fields(n)) else "false",
                                                      problem or "ok", ",".join(sorted(classes)))


def first_list(v):
    """field path to the first list, depth first in field order (`Help.firstList`)"""
    if isinstance(v, list):
        return ""
    if isinstance(v, tuple):
        for x in v:
            p = first_list(x)
            if p is not None:
                return p
        return None
    if is_node(v):
        for f in dataclasses.fields(v):
            p = first_list(getattr(v, f.name))
            if p is not None:
                return f.name if p == "" else f.name + "." + p
    return None


def hash_status(v):
    try:
        hash(v)
        return "hashable"
    except TypeError:
        p = first_list(v)
        return "unhashable:list_at_" + p if p is not None else "unhashable:?"


def cmd_help(parts):
    from metasequoia_sql import SQLParser, SQLType
    from metasequoia_sql.core import node as N
    from metasequoia_sql.common.static import HASHMAP_MYSQL_TO_HIVE
    dn = parts[1]
    st = SQLType[dn]
    try:
        stmts = SQLParser.parse_statements(canon.unhex(parts[2]), sql_type=st)
    except Exception as e:
        return canon.err_kind(e)
    if not stmts:
        return "NOSTMT"
    cur, out = stmts[0], []
    calls = [] if parts[3] == "-" else canon.unhex(parts[3]).split(";")
    for call in calls:
        c = call.split(":")
        try:
            if c[0] == "swc" and len(c) == 2:
                arg = None if c[1] == "-" else canon.parse_impl("with_clause", dn, canon.unhex(c[1]))[0]
                fn = lambda: cur.set_with_clauses(arg)
            elif c[0] == "stn" and len(c) == 3:
                arg = N.ASTTableNameExpression(schema_name=None if c[1] == "-" else canon.unhex(c[1]), table_name=canon.unhex(c[2]))
                fn = lambda: cur.set_table_name(arg)
            elif c[0] == "ct" and len(c) == 2:
                fn = lambda: cur.change_type(HASHMAP_MYSQL_TO_HIVE, remove_param=(c[1] == "1"))
            elif c[0] in ("ac", "apc") and len(c) == 2:
                arg = canon.parse_impl("define_column_expression", dn, canon.unhex(c[1]))[0]
                fn = (lambda: cur.append_column(arg)) if c[0] == "ac" else (lambda: cur.append_partition_by_column(arg))
            else:
                out.append("BADCALL")
                continue
        except Exception:
            out.append("BADARG")
            continue
        before = canon.dump(cur)
        try:
            res = fn()
        except Exception as e:
            out.append("E:" + canon.err_kind(e).replace(" ", "_"))
            continue
        cls = "same" if type(res) is type(cur) else "other:" + type(res).__name__
        out.append("ok,%s,%s,%s" % (cls, "kept" if canon.dump(cur) == before else "changed", hash_status(res)))
        cur = res
    return "OK " + " ".join(out) + (" " if out else "") + "final=" + canon.dump(cur)


# ---------------------------------------------------------------------------------------------------------------------
# cross-tree checks on a pool of near-identical trees
# ---------------------------------------------------------------------------------------------------------------------

def positions(v, path=()):
    """(path, node) of every node, paths = field names and tuple indexes"""
    if is_node(v):
        yield path, v
        for f in dataclasses.fields(v):
            yield from positions(getattr(v, f.name), path + (f.name,))
    elif isinstance(v, (tuple, list)):
        for i, x in enumerate(v):
            yield from positions(x, path + (i,))


def leaf_diffs(a, b, out, limit=3):
    """'Class.field' of the leaves in which two values differ (stops after `limit`)"""
    if len(out) >= limit:
        return
    if is_node(a) and is_node(b) and type(a) is type(b):
        for f in dataclasses.fields(a):
            x, y = getattr(a, f.name), getattr(b, f.name)
            if is_node(x) and is_node(y) and type(x) is type(y):
                leaf_diffs(x, y, out, limit)
            elif isinstance(x, tuple) and isinstance(y, tuple) and len(x) == len(y):
                for p_, q_ in zip(x, y):
                    if is_node(p_) or isinstance(p_, tuple):
                        leaf_diffs(p_, q_, out, limit) if (is_node(p_) and is_node(q_) and type(p_) is type(q_)) else (out.append(type(a).__name__ + "." + f.name) if canon.dump(p_) != canon.dump(q_) else None)
                    elif canon.dump(p_) != canon.dump(q_):
                        out.append(type(a).__name__ + "." + f.name)
            elif canon.dump(x) != canon.dump(y):
                out.append(type(a).__name__ + "." + f.name)
    elif canon.dump(a) != canon.dump(b):
        out.append("?")


def pair_problem(a, da, b, db):
    """structural equality on one pair: == ⇔ same class and same dump; != is its negation; == ⇒ same hash"""
    same = type(a) is type(b) and da == db
    try:
        eq = (a == b)
        ha, hb = hash(a), hash(b)
    except Exception as e:
        return "hash:%s:%s" % (type(a).__name__, type(e).__name__)
    if eq is not True and eq is not False:
        return "eq-not-bool:%s" % type(a).__name__
    if eq != same:
        d = []
        leaf_diffs(a, b, d, 1)
        return "eq-vs-structure:%s:%s:%s" % (type(a).__name__, "equal-but-differ-in" if eq else "differ-but-same-dump", d[0] if d else "-")
    if (a != b) == eq:
        return "ne-vs-eq:%s" % type(a).__name__
    if eq and ha != hb:
        return "hash-vs-eq:%s" % type(a).__name__
    return None


def cross_checks(trees, want_cov=False):
    """(number of nodes, number of distinct dumps, first problem or None, leaf fields in which exactly-one-leaf pairs differ)"""
    pos = [dict(positions(t)) for t in trees]
    nodes, dumps = [], []
    for pmap in pos:
        for n in pmap.values():
            nodes.append(n)
            dumps.append(canon.dump(n))
    dump_of = {id(n): d for n, d in zip(nodes, dumps)}
    problem, cov = None, set()
    for i in range(len(pos)):                       # nodes at corresponding positions of every two trees
        for j in range(i + 1, len(pos)):
            for path, a in pos[i].items():
                b = pos[j].get(path)
                if b is None:
                    continue
                if problem is None:
                    problem = pair_problem(a, dump_of[id(a)], b, dump_of[id(b)])
                if want_cov and type(a) is type(b) and dump_of[id(a)] != dump_of[id(b)]:
                    d = []
                    leaf_diffs(a, b, d, 2)
                    if len(d) == 1:
                        cov.add(d[0])
    by_class = {}
    for n in nodes:                                 # all pairs within a class (first 40 nodes of each class)
        by_class.setdefault(type(n), []).append(n)
    for cls, ns in by_class.items():
        ns = ns[:40]
        for i in range(len(ns)):
            for j in range(i + 1, len(ns)):
                if problem is None:
                    problem = pair_problem(ns[i], dump_of[id(ns[i])], ns[j], dump_of[id(ns[j])])
    if problem is None:
        try:
            if len(set(nodes)) != len(set(dumps)):
                problem = "set-size:%d-vs-%d" % (len(set(nodes)), len(set(dumps)))
            elif len({n: 1 for n in nodes}) != len(set(dumps)):
                problem = "dict-size"
        except TypeError as e:
            problem = "hash:" + type(e).__name__
    return len(nodes), len(set(dumps)), problem, cov


def parse_pool(parts):
    from metasequoia_sql import SQLParser, SQLType
    st = SQLType[parts[1]]
    status, trees = [], []
    for h in parts[2:]:
        try:
            trees.append(SQLParser.parse_statements(canon.unhex(h), sql_type=st))
            status.append("P")
        except Exception as e:
            k = canon.err_kind(e)
            if k.startswith("UNMODELLED"):
                return None, None
            status.append(k.replace(" ", "_"))
    return status, trees


def cmd_pool(parts):
    status, trees = parse_pool(parts)
    if status is None:
        return "UNMODELLED pool"
    try:
        n, distinct, problem, _ = cross_checks(trees)
    except Exception as e:          # a check that raises is a failed check, not a harness failure
        nodes = list(canon.walk_nodes(trees))
        n, distinct, problem = len(nodes), len({canon.dump(x) for x in nodes}), "raised:" + type(e).__name__
    return "OK t=%s n=%d distinct=%d checks=%s" % (",".join(status), n, distinct, problem or "ok")


def cmd_pairs(parts):
    """(implementation only) the cross-tree checks plus the leaf fields witnessed by pairs that differ in exactly one leaf"""
    status, trees = parse_pool(parts)
    if status is None:
        return "UNMODELLED pool"
    try:
        n, distinct, problem, cov = cross_checks(trees, want_cov=True)
    except Exception as e:
        problem, cov = "raised:" + type(e).__name__, set()
    return "OK checks=%s leaves=%s" % (problem or "ok", ",".join(sorted(cov)))


COMMANDS = {"IMM": cmd_imm, "HELP": cmd_help, "POOL": cmd_pool, "PAIRS": cmd_pairs}
