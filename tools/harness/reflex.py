"""Reference tokenizer for C05: the SQL token grammar written down independently of the library's transition table.

A direct maximal-munch scanner (no states, no table): at each position it decides from the next characters which token
of the grammar starts there and how far it extends.  It prints the canonical token dump of canon.show_tok, so that its
answer can be compared with the implementation's (`L <cfg> <hex>`) character by character.

The grammar (C05): blanks; comments `#…`, `--…` to the end of the line and `/*…*/`; strings in single or double quotes
with doubled-quote and backslash escapes; back-quoted names; integers, decimals (`12.5`, `12.`), hex (`0x1F`, `x'1F'`)
and bit (`0b01`, `b'01'`) literals; words; the operators `<=> <= >= <> != << >> && ||` and single-character punctuation;
brackets `()` and `[]` nest; TRUE / FALSE / NULL are literals in any letter case; the library's clause keywords carry no
NAME mark.  Unterminated strings / names / block comments and unbalanced brackets are rejected."""

NAME, PAREN, LIT, HEX, BIT, INT, FLOAT, COMMENT, ARRAY, SPACE = 2, 4, 8, 16, 32, 64, 128, 256, 512, 1
OPS = ["<=>", "<=", ">=", "<>", "!=", "<<", ">>", "&&", "||"]
SINGLE = set("=<>!+-*/%^&|~,;.")
DELIM = set(" \n'\"`()[]") | SINGLE
CLAUSE_KEYWORDS = {"SELECT", "FROM", "LATERAL", "VIEW", "LEFT", "RIGHT", "INNER", "OUTER", "FULL", "JOIN", "ON", "WHERE", "GROUP", "BY", "HAVING", "ORDER", "LIMIT",
                   "UNION", "EXCEPT", "MINUS", "INTERSECT", "AND", "NOT", "OR"}
LITERAL_WORDS = {"TRUE", "FALSE", "NULL"}
HEXD = set("0123456789abcdefABCDEF")


class Reject(Exception):
    pass


def normalise(text):
    return text.replace("\r\n", "\n").replace("\t", " ").replace("　", " ")


def word_marks(w):
    u = w.upper()
    if u in LITERAL_WORDS: return LIT
    if u in CLAUSE_KEYWORDS: return 0
    return NAME


def tokens(text, cfg=7):
    """→ nested list of ("leaf", src, marks) / ("group", kind, open, close, marks, children)"""
    T = normalise(text)
    n = len(T)
    keep_space, keep_lb, keep_comment = not (cfg & 4), not (cfg & 2), not (cfg & 1)
    stack = [[]]
    opened = []
    pos = 0
    while pos < n:
        c = T[pos]
        out = stack[-1]
        if c == " ":
            if keep_space: out.append(("leaf", " ", SPACE))
            pos += 1
        elif c == "\n":
            if keep_lb: out.append(("leaf", "\n", SPACE))
            pos += 1
        elif c == "#" or T.startswith("--", pos):
            j = T.find("\n", pos)
            end = n if j < 0 else j
            if keep_comment: out.append(("leaf", T[pos:end], COMMENT))
            pos = end
        elif T.startswith("/*", pos):
            j = T.find("*/", pos + 2)
            if j < 0: raise Reject("unterminated block comment")
            if keep_comment: out.append(("leaf", T[pos:j + 2], COMMENT))
            pos = j + 2
        elif c in "'\"":
            end = scan_string(T, pos, c)
            out.append(("leaf", T[pos:end], LIT | NAME))
            pos = end
        elif c == "`":
            j = T.find("`", pos + 1)
            if j < 0: raise Reject("unterminated back-quoted name")
            out.append(("leaf", T[pos:j + 1], NAME))
            pos = j + 1
        elif c in "([":
            opened.append(c)
            stack.append([])
            pos += 1
        elif c in ")]":
            if not opened: raise Reject("closing bracket without an opening one")
            o = opened.pop()
            if (o, c) not in (("(", ")"), ("[", "]")): raise Reject("bracket kinds do not match")
            ch = stack.pop()
            stack[-1].append(("group", "P" if c == ")" else "S", o, c, PAREN if c == ")" else ARRAY, ch))
            pos += 1
        elif c in SINGLE:
            op = next((o for o in OPS if T.startswith(o, pos)), c)
            out.append(("leaf", op, 0))
            pos += len(op)
        else:
            end = pos
            while end < n and T[end] not in DELIM and not T.startswith("#", end):
                end += 1
            w = T[pos:end]
            nxt = T[end:end + 1]
            if w in ("x", "X", "b", "B") and nxt in ("'", '"'):
                close = T.find(nxt, end + 1)
                if close < 0: raise Reject("unterminated hex / bit literal")
                body = T[end + 1:close]
                allowed = HEXD if w in "xX" else set("01")
                if any(ch not in allowed for ch in body): raise Reject("bad digit in a hex / bit literal")
                out.append(("leaf", T[pos:close + 1], LIT | (HEX if w in "xX" else BIT)))
                pos = close + 1
            elif w.isascii() and w.isdigit():
                if nxt == ".":
                    end2 = end + 1
                    while end2 < n and T[end2].isascii() and T[end2].isdigit():
                        end2 += 1
                    if end2 < n and T[end2] not in DELIM - {"."} and not T.startswith("#", end2):
                        raise Reject("a decimal literal runs into a word or a second point")
                    out.append(("leaf", T[pos:end2], LIT | FLOAT))
                    pos = end2
                else:
                    out.append(("leaf", w, LIT | INT))
                    pos = end
            elif w[:2] == "0x":
                # MySQL: the prefix is lower case (`0X1F` is a word); a digit that is not a hex digit makes the literal malformed
                if any(ch not in HEXD for ch in w[2:]) or nxt == ".": raise Reject("bad digit in a hex literal / a point after it")
                out.append(("leaf", w, LIT | HEX)); pos = end
            elif w[:2] == "0b":
                if any(ch not in "01" for ch in w[2:]) or nxt == ".": raise Reject("bad digit in a bit literal / a point after it")
                out.append(("leaf", w, LIT | BIT)); pos = end
            else:
                out.append(("leaf", w, word_marks(w)))
                pos = end
    if opened: raise Reject("bracket not closed")
    return stack[0]


def scan_string(T, pos, qc):
    i, n = pos + 1, len(T)
    while True:
        if i >= n: raise Reject("unterminated string")
        ch = T[i]
        if ch == "\\":
            if i + 1 >= n: raise Reject("unterminated string")
            i += 2
        elif ch == qc:
            if T[i + 1:i + 2] == qc: i += 2
            else: return i + 1
        else:
            i += 1


def source(t):
    if t[0] == "leaf": return t[1]
    return t[2] + "".join(source(c) for c in t[5]) + t[3]


def show(t):
    import canon
    if t[0] == "leaf":
        return "(%s %d)" % (canon.q(t[1]), t[2])
    # the library renders a group with its own brackets; a `[…]` group is rendered with round brackets (known finding F-C04-2): the
    # reference prints the brackets that were written, the comparison in c05.py normalises that one field
    return "[%s%s%s %d %d %s]" % (t[1], canon.q(t[2]), canon.q(t[3]), t[4], len(source(t)), "".join(show(c) for c in t[5]))


def lex(text, cfg=7):
    try:
        return "OK " + "".join(show(t) for t in tokens(text, cfg))
    except Reject:
        return "LEX"
