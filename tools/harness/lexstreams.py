"""Lexer input streams (DESIGN §5.2) and a parser for canonical token dumps."""
import itertools, re
from engine import gen_json, enhex


# ---------------------------------------------------------------------------------------------------------
# canonical token dump  ->  tree  (so that oracles can judge either side's answer)
# ---------------------------------------------------------------------------------------------------------

def unq(s):
    return re.sub(r"%([0-9a-f]+);", lambda m: chr(int(m.group(1), 16)), s)


class Leaf:
    __slots__ = ("src", "marks")

    def __init__(self, src, marks):
        self.src, self.marks = src, marks


class Group:
    __slots__ = ("kind", "open", "close", "marks", "srclen", "children")

    def __init__(self, kind, o, c, marks, srclen, children):
        self.kind, self.open, self.close, self.marks, self.srclen, self.children = kind, o, c, marks, srclen, children


def parse_toks(s):
    """parse the text after 'OK '"""
    pos = 0

    def items(end):
        nonlocal pos
        out = []
        while pos < len(s) and s[pos] != end:
            if s[pos] == "(":
                j = s.index(")", pos)
                body = s[pos + 1:j]
                src, marks = body.rsplit(" ", 1)
                out.append(Leaf(unq(src), int(marks)))
                pos = j + 1
            elif s[pos] == "[":
                j = s.index(" ", pos)
                head = s[pos + 1:j]
                kind = head[0]
                oc = re.findall(r"%[0-9a-f]+;|.", head[1:])
                o = unq(oc[0]) if oc else ""
                c = unq(oc[1]) if len(oc) > 1 else ""
                pos = j + 1
                j = s.index(" ", pos); marks = int(s[pos:j]); pos = j + 1
                j = s.index(" ", pos); srclen = int(s[pos:j]); pos = j + 1
                ch = items("]")
                pos += 1
                out.append(Group(kind, o, c, marks, srclen, ch))
            else:
                raise ValueError("bad canonical token dump at %d: %r" % (pos, s[pos:pos + 20]))
        return out
    return items("\0")


def tok_source(t):
    if isinstance(t, Leaf):
        return t.src
    return t.open + "".join(tok_source(c) for c in t.children) + t.close


def leaves(ts):
    for t in ts:
        if isinstance(t, Leaf):
            yield t
        else:
            yield from leaves(t.children)


# ---------------------------------------------------------------------------------------------------------
# class-representative alphabet from the generated tables
# ---------------------------------------------------------------------------------------------------------

def alphabet(gen=None):
    gen = gen or gen_json()
    sig = {}
    for ti, t in enumerate(gen["tables"]):
        for s, cells in t["rows"].items():
            for cp, o in cells:
                sig.setdefault(cp, {})[(ti, s)] = (o["cls"], o["status"], o["marks"])
    classes = {}
    for cp, d in sig.items():
        classes.setdefault(tuple(sorted(d.items())), []).append(cp)
    reps = sorted(min(v) for v in classes.values())
    # every character the table mentions explicitly outside the bulk ASCII fill, the pre-pass characters,
    # one non-ASCII letter, one astral character, one character whose upper() is ASCII, a form feed
    extra = [9, 13, 0x3000, 0xE9, 0x1F600, 0x17F, 12, ord("{"), ord("}"), ord("e"), ord("E"), ord("1"), ord("2"), ord("A"), ord("f")]
    return [chr(c) for c in sorted(set(reps) | set(extra))], len(classes)


def exhaustive(alpha, k):
    for n in range(0, k + 1):
        for p in itertools.product(alpha, repeat=n):
            yield "".join(p)


# ---------------------------------------------------------------------------------------------------------
# well-formed token pools for the concatenation stream
# ---------------------------------------------------------------------------------------------------------

WORDS = ["SELECT", "select", "FROM", "a", "b", "x", "t1", "_c", "col_1", "NULL", "null", "True", "FALSE", "é", "ſelect", "b1", "x1",
         "B", "X", "and", "OR", "DIV", "mod", "a1b", "tbl", "日本"]
INTS = ["0", "1", "42", "007", "1234567890"]
FLOATS = ["1.5", "0.0", "3.14", "10.", "2.50"]
STRS = ["'a'", "''", "'a''b'", "'a\\'b'", "'--x'", "'/*'", "'a;b'", "\"q\"", "\"a\"\"b\"", "\"a\\\"b\"", "'(]'", "'#{x}'", "'é'", "\"\""]
NAMES = ["`a`", "`a b`", "`a.b`", "`select`", "`--`", "`x;y`", "``"]
HEXBIT = ["x'1F'", "X'0a'", "x\"ff\"", "b'01'", "B'1'", "b\"10\"", "0x1F", "0b01", "x''", "b''"]
OPS = ["<=>", "<=", ">=", "<>", "!=", "<<", ">>", "&&", "||", "=", "<", ">", "+", "-", "*", "/", "%", "^", "~", "!", "&", "|", ",", ";", "."]
COMMENTS = ["# c\n", "-- c\n", "/* c */", "/**/", "/* * */", "/*a*b*/", "#\n", "--\n", "-- x", "# y",
            "/***/", "/****/", "/*****/", "/** d **/", "/* x **/", "/*** c ***/", "/* a * / b */", "/*/*/", "/* -- */", "/* # */", "--/* x\n", "#*/\n"]
BLANKS = [" ", "\n", "  ", " \n ", "\t", "\r\n", "　", ""]
PLACEHOLDERS = ["#{x}", "#{a.b}", "#{ p }", "#{}"]


def random_concat(rng, n_tokens, with_placeholders=False, depth=0):
    pools = [WORDS, WORDS, INTS, FLOATS, STRS, NAMES, HEXBIT, OPS, OPS, COMMENTS]
    if with_placeholders:
        pools = pools + [PLACEHOLDERS, PLACEHOLDERS]
    out = []
    for _ in range(n_tokens):
        r = rng.below(20)
        if r == 0 and depth < 4:
            o, c = rng.choice([("(", ")"), ("[", "]"), ("(", ")"), ("(", "]"), ("[", ")")] if rng.chance(0.15) else [("(", ")"), ("[", "]")])
            out.append(o + random_concat(rng, rng.below(4), with_placeholders, depth + 1) + c)
        else:
            out.append(rng.choice(rng.choice(pools)))
        out.append(rng.choice(BLANKS) if rng.chance(0.75) else "")
    return "".join(out)


def random_soup(rng, alpha, n):
    return "".join(rng.choice(alpha) for _ in range(n))
