"""Worker commands for C07 (implementation side): the argument kinds of `SQLParser._unify_input_scanner` (parser.py:85-102).
Answer format as in `lean/MsqModel/Driver/CmdEntry2.lean`.

PS <entry> <dialect> <hex text>    parse_<entry>(TokenScanner(FSMMachine.parse(text)), sql_type): a scanner argument (parser.py:88-89)
PX <entry> <dialect> <kind>        parse_<entry>(x, sql_type), x neither a scanner nor a string (parser.py:102); kind: none | bytes | int | list
"""
import canon

_OTHER = {"none": lambda: None, "bytes": lambda: b"SELECT 1", "int": lambda: 7, "list": lambda: ["SELECT", "1"]}


def _call(entry, dialect, arg):
    from metasequoia_sql import SQLType, SQLParser
    st = SQLType[dialect]
    fn = getattr(SQLParser, "parse_" + entry)
    if canon._WITH_ARG.get(entry) == "positional":
        return fn(arg, None, st)
    return fn(arg, sql_type=st)


def cmd_ps(parts):
    from metasequoia_sql.common import TokenScanner
    from metasequoia_sql.lexical import FSMMachine
    try:
        sc = TokenScanner(FSMMachine.parse(canon.unhex(parts[3])))
        res = _call(parts[1], parts[2], sc)
        return "OK %d %s" % (max(0, len(sc.elements) - sc.pos), canon.dump(res))
    except Exception as e:
        return canon.err_kind(e)


def cmd_px(parts):
    try:
        res = _call(parts[1], parts[2], _OTHER[parts[3]]())
        return "OK 0 " + canon.dump(res)
    except Exception as e:
        return canon.err_kind(e)


COMMANDS = {"PS": cmd_ps, "PX": cmd_px}
