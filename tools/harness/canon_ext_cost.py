"""worker commands of C19: LC <hex> = number of FSMMachine.handle calls; COST <dialect> <hex> = deterministic step counters of a whole-text parse;
TIME <dialect> <hex> <repeats> = best wall-clock time of a whole-text parse (seconds × 1e6)."""
import time
import canon


def lc(parts):
    from metasequoia_sql.lexical import FSMMachine
    n = [0]
    orig = FSMMachine.handle

    def counting(self, memory, ch):
        n[0] += 1
        return orig(self, memory, ch)
    FSMMachine.handle = counting
    try:
        try:
            FSMMachine.parse(canon.unhex(parts[1]))
        except Exception as e:
            return canon.err_kind(e)
        return "OK %d" % n[0]
    finally:
        FSMMachine.handle = orig


def cost(parts):
    from metasequoia_sql import SQLParser, SQLType
    from metasequoia_sql.common import TokenScanner
    from metasequoia_sql.lexical import FSMMachine
    counts = {"handle": 0, "cursor": 0, "maxback": 0, "reads": 0, "calls": 0}
    import sys as _sys, os as _os
    pkg = _os.sep + "metasequoia_sql" + _os.sep

    def prof(frame, event, arg):
        # every Python-level call made inside the library: total work, whatever it is spent on (copies, rebuilt nodes, re-parsing …)
        if event == "call" and pkg in frame.f_code.co_filename:
            counts["calls"] += 1

    class CountingList(list):
        """the token list of a cursor: one step per element read, k steps for a slice or an iteration of k elements (a copied tail is work too)"""
        __slots__ = ()

        def __getitem__(self, i):
            r = list.__getitem__(self, i)
            counts["reads"] += len(r) if isinstance(i, slice) else 1
            return r

        def __iter__(self):
            counts["reads"] += len(self)
            return list.__iter__(self)
    oinit = TokenScanner.__init__

    def init(self, elements, *a, **k):
        oinit(self, elements, *a, **k)
        counts["reads"] += 1
        try:
            self._elements = CountingList(self._elements)
        except Exception:
            pass
    oh = FSMMachine.handle

    def ch(self, memory, c):
        counts["handle"] += 1
        return oh(self, memory, c)
    wrapped = {}
    names = [n for n, v in vars(TokenScanner).items() if callable(v) and not n.startswith("__") and n not in ("elements", "pos")]
    TokenScanner.__init__ = init

    def mk(name, fn):
        def w(self, *a, **k):
            counts["cursor"] += 1
            before = self._pos
            r = fn(self, *a, **k)
            if self._pos < before:
                counts["maxback"] = max(counts["maxback"], before - self._pos)
            return r
        return w
    for n in names:
        wrapped[n] = getattr(TokenScanner, n)
        setattr(TokenScanner, n, mk(n, wrapped[n]))
    FSMMachine.handle = ch
    try:
        try:
            _sys.setprofile(prof)
            try:
                SQLParser.parse_statements(canon.unhex(parts[2]), sql_type=SQLType[parts[1]])
            finally:
                _sys.setprofile(None)
            out = "OK"
        except Exception as e:
            out = "REJ:" + canon.err_kind(e).replace(" ", "_")
    finally:
        FSMMachine.handle = oh
        TokenScanner.__init__ = oinit
        for n, f in wrapped.items():
            setattr(TokenScanner, n, f)
    return "%s handle=%d cursor=%d reads=%d calls=%d backwards=%d" % (out, counts["handle"], counts["cursor"], counts["reads"], counts["calls"], counts["maxback"])


def timing(parts):
    from metasequoia_sql import SQLParser, SQLType
    text, st = canon.unhex(parts[2]), SQLType[parts[1]]
    best = None
    for _ in range(int(parts[3])):
        t = time.perf_counter()
        try:
            SQLParser.parse_statements(text, sql_type=st)
        except Exception:
            pass
        dt = time.perf_counter() - t
        best = dt if best is None else min(best, dt)
    return "OK %d" % int(best * 1e6)


COMMANDS = {"LC": lc, "COST": cost, "TIME": timing}
