"""Canonical forms of implementation results (must print exactly what MsqModel/Driver prints)."""
import sys


def unhex(h):
    return "" if h == "-" else bytes.fromhex(h).decode("utf-8")


def enhex(s):
    return s.encode("utf-8").hex() or "-"


_PLAIN = set(chr(n) for n in range(33, 127)) - set("()%[]{},=")


def q(s):
    return "".join(c if c in _PLAIN else "%" + format(ord(c), "x") + ";" for c in s)


def show_tok(t):
    from metasequoia_sql.lexical.amt_node import AMTSingle, AMTParenthesis, AMTSlice
    if type(t) is AMTSingle:
        return "(%s %d)" % (q(t.source), int(t.marks))
    k = "P" if type(t) is AMTParenthesis else ("S" if type(t) is AMTSlice else "?" + type(t).__name__)
    return "[%s%s%s %d %d %s]" % (k, q(t.source[:1]), q(t.source[-1:]), int(t.marks), len(t.source), "".join(show_tok(c) for c in t.children))


def err_kind(e):
    """map an exception to the model's outcome kinds (never messages)"""
    from metasequoia_sql import errors as E
    if isinstance(e, E.LexicalParseError): return "LEX"
    if isinstance(e, E.NotSupportError): return "NOTSUP"
    if isinstance(e, E.SqlParseError): return "PARSE"
    if hasattr(E, "AnalyzerError") and isinstance(e, E.AnalyzerError): return "ANALYZER"
    if isinstance(e, RecursionError): return "UNMODELLED recursion"
    return "PY " + type(e).__name__


def lex_impl(text, mybatis=False):
    if mybatis:
        from metasequoia_sql.plugins.mybaitis import FSMMachineMyBatis as M
    else:
        from metasequoia_sql.lexical import FSMMachine as M
    return M.parse(text)


def dump(v):
    """reflective canonical dump of any value the library returns (must agree with Drv.showVal)"""
    import dataclasses, enum
    if v is None: return "None"
    if v is True: return "True"
    if v is False: return "False"
    if isinstance(v, enum.Enum): return type(v).__name__ + "." + v.name
    if isinstance(v, int): return str(v)
    if isinstance(v, str): return '"' + q(v) + '"'
    if isinstance(v, tuple): return "T[" + ",".join(dump(x) for x in v) + "]"
    if isinstance(v, list): return "L[" + ",".join(dump(x) for x in v) + "]"
    if isinstance(v, (set, frozenset)): return "S[" + ",".join(sorted(dump(x) for x in v)) + "]"
    if dataclasses.is_dataclass(v):
        return type(v).__name__ + "{" + ",".join(f.name + "=" + dump(getattr(v, f.name)) for f in dataclasses.fields(v)) + "}"
    return "?" + type(v).__name__


_PARSER = None


def capturing_parser():
    """SQLParser subclass that remembers the TokenScanner built for a string input"""
    global _PARSER
    if _PARSER is None:
        from metasequoia_sql import SQLParser
        from metasequoia_sql.common import TokenScanner
        from metasequoia_sql.lexical import FSMMachine

        import threading

        class P(SQLParser):
            tl = threading.local()      # per thread: the harness itself must not introduce shared state (C12 runs requests from threads)

            @classmethod
            def _build_token_scanner(cls, string):
                sc = TokenScanner(FSMMachine.parse(string))
                P.tl.last = sc
                return sc
        _PARSER = P
    return _PARSER


# entry points whose public signature takes a with_clause between the text and the dialect
_WITH_ARG = {"insert_statement": "positional", "update_statement": "positional", "select_statement": "keyword", "single_select_statement": "keyword"}


def parse_impl(entry, dialect, text):
    from metasequoia_sql import SQLType
    P = capturing_parser()
    P.tl.last = None
    st = SQLType[dialect]
    fn = getattr(P, "parse_" + entry)
    if _WITH_ARG.get(entry) == "positional":
        res = fn(text, None, st)
    else:
        res = fn(text, sql_type=st)
    sc = P.tl.last
    rest = max(0, len(sc.elements) - sc.pos)
    return res, rest


def first_diff(a, b, path="$"):
    """path of the first structural difference between two library values (None if equal)"""
    import dataclasses
    if type(a) is not type(b):
        return path + ":type(%s/%s)" % (type(a).__name__, type(b).__name__)
    if dataclasses.is_dataclass(a):
        for f in dataclasses.fields(a):
            d = first_diff(getattr(a, f.name), getattr(b, f.name), path + "." + type(a).__name__ + "." + f.name)
            if d: return d
        return None
    if isinstance(a, (tuple, list)):
        if len(a) != len(b):
            return path + ":len(%d/%d)" % (len(a), len(b))
        for i, (x, y) in enumerate(zip(a, b)):
            d = first_diff(x, y, path + "[%d]" % i)
            if d: return d
        return None
    return None if a == b else path + ":value"


def walk_nodes(v):
    import dataclasses
    if dataclasses.is_dataclass(v) and not isinstance(v, type):
        yield v
        for f in dataclasses.fields(v):
            yield from walk_nodes(getattr(v, f.name))
    elif isinstance(v, (tuple, list)):
        for x in v:
            yield from walk_nodes(x)


def supports(stmt, st):
    """the round-trip predicate `Supports d t` of DESIGN §8 C01/C13: the dialect's printer prints every feature the tree uses
    (the Hive DDL printer drops MySQL-only attributes by design and vice versa; Hive-only query clauses are printed for Hive only)"""
    from metasequoia_sql import SQLType
    from metasequoia_sql.core import node as N
    for n in walk_nodes(stmt):
        if isinstance(n, N.ASTDefineColumnExpression):
            if st != SQLType.MYSQL and (n.is_unsigned or n.is_zerofill or n.character_set is not None or n.collate is not None
                                        or n.generated_always_as is not None or n.is_allow_null or n.is_not_null or n.is_auto_increment
                                        or n.default is not None or n.on_update is not None):
                return False
            if st == SQLType.HIVE and n.column_type.params is not None and n.column_type.name.upper() not in ("DECIMAL", "VARCHAR", "CHAR"):
                return False
        elif isinstance(n, N.ASTCreateTableStatement):
            hive_only = (len(n.partitioned_by) > 0 or n.row_format_serde is not None or n.row_format_delimited_fields_terminated_by is not None
                         or n.stored_as_inputformat is not None or n.stored_as_textfile or n.outputformat is not None or n.location is not None
                         or len(n.tblproperties or ()) > 0)
            mysql_only = (n.primary_key is not None or len(n.unique_key) > 0 or len(n.key) > 0 or len(n.fulltext_key) > 0 or len(n.foreign_key) > 0
                          or n.engine is not None or n.auto_increment is not None or n.default_charset is not None or n.collate is not None
                          or n.row_format is not None or n.states_persistent is not None)
            if st == SQLType.MYSQL and hive_only: return False
            if st == SQLType.HIVE and mysql_only: return False
        elif isinstance(n, N.ASTAnalyzeTableStatement):
            if st == SQLType.MYSQL and (n.partition is not None or n.for_columns or n.cache_metadata or n.noscan): return False
        elif isinstance(n, N.ASTSingleSelectStatement):
            if st != SQLType.HIVE and (n.sort_by_clause is not None or n.distribute_by_clause is not None or n.cluster_by_clause is not None):
                return False
    return True


def round_trip(stmt, st):
    """C01 on one statement; returns (verdict, printed text or None)"""
    from metasequoia_sql import SQLParser
    try:
        y = stmt.source(st)
    except Exception as e:
        return "print:" + err_kind(e).replace(" ", "_"), None
    try:
        again = SQLParser.parse_statements(y, sql_type=st)
    except Exception as e:
        return "reparse:" + err_kind(e).replace(" ", "_"), y
    if len(again) != 1:
        return "count:%d" % len(again), y
    d = first_diff(stmt, again[0])
    if d:
        return "tree:" + d, y
    if again[0] != stmt or hash(again[0]) != hash(stmt):
        return "tree:eq", y
    try:
        y2 = again[0].source(st)
    except Exception as e:
        return "print2:" + err_kind(e).replace(" ", "_"), y
    return ("ok" if y2 == y else "print2:differs"), y


def respond(line, cfg_idx=None):
    parts = line.split(" ")
    op = parts[0]
    if op == "L":
        if cfg_idx is not None and int(parts[1]) != cfg_idx:
            return "HARNESS-ERROR wrong worker for cfg " + parts[1]
        try:
            return "OK " + "".join(show_tok(t) for t in lex_impl(unhex(parts[2])))
        except Exception as e:
            return err_kind(e)
    if op == "LM":
        try:
            return "OK " + "".join(show_tok(t) for t in lex_impl(unhex(parts[1]), mybatis=True))
        except Exception as e:
            return err_kind(e)
    if op == "P":
        try:
            res, rest = parse_impl(parts[1], parts[2], unhex(parts[3]))
            return "OK %d %s" % (rest, dump(res))
        except Exception as e:
            return err_kind(e)
    if op == "RT":
        from metasequoia_sql import SQLType, SQLParser
        st = SQLType[parts[1]]
        try:
            stmts = SQLParser.parse_statements(unhex(parts[2]), sql_type=st)
        except Exception as e:
            return err_kind(e)
        out = []
        for s_ in stmts:
            v, y = round_trip(s_, st)
            if v != "ok" and not supports(s_, st):
                v = "unsupported"
            out.append(v + ("" if y is None or v in ("ok", "unsupported") else "|" + q(y)))
        return "OK " + " ".join(out)
    if op == "PR":
        from metasequoia_sql import SQLType, SQLParser
        try:
            stmts = SQLParser.parse_statements(unhex(parts[3]), sql_type=SQLType[parts[1]])
        except Exception as e:
            return err_kind(e)
        out = []
        for st in stmts:
            try:
                out.append("S:" + q(st.source(SQLType[parts[2]])))
            except Exception as e:
                out.append("E:" + err_kind(e).replace(" ", "_"))
        return "OK " + " ".join(out)
    ext = _extensions()
    if op in ext:
        return ext[op](parts)
    return "BADREQ"


_EXT = None


def _extensions():
    """worker commands contributed by tools/harness/canon_ext_*.py: each module defines COMMANDS = {op: fn(parts) -> answer line}"""
    global _EXT
    if _EXT is None:
        import glob, importlib, os
        _EXT = {}
        here = os.path.dirname(os.path.abspath(__file__))
        for path in sorted(glob.glob(os.path.join(here, "canon_ext_*.py"))):
            mod = importlib.import_module(os.path.basename(path)[:-3])
            _EXT.update(mod.COMMANDS)
    return _EXT
