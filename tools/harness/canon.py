"""Canonical forms of implementation results (must print exactly what MsqModel/Driver prints)."""
import sys


def unhex(h):
    return "" if h == "-" else bytes.fromhex(h).decode("utf-8")


def enhex(s):
    return s.encode("utf-8").hex() or "-"


_PLAIN = set(chr(n) for n in range(33, 127)) - set("()%[]{},=")


def q(s):
    return "".join(c if c in _PLAIN else "%" + format(ord(c), "x") + ";" for c in s)


def show_tok(t):
    from metasequoia_sql.lexical.amt_node import AMTSingle, AMTParenthesis, AMTSlice
    if type(t) is AMTSingle:
        return "(%s %d)" % (q(t.source), int(t.marks))
    k = "P" if type(t) is AMTParenthesis else ("S" if type(t) is AMTSlice else "?" + type(t).__name__)
    return "[%s%s%s %d %d %s]" % (k, q(t.source[:1]), q(t.source[-1:]), int(t.marks), len(t.source), "".join(show_tok(c) for c in t.children))


def err_kind(e):
    """map an exception to the model's outcome kinds (never messages)"""
    from metasequoia_sql import errors as E
    if isinstance(e, E.LexicalParseError): return "LEX"
    if isinstance(e, E.NotSupportError): return "NOTSUP"
    if isinstance(e, E.SqlParseError): return "PARSE"
    if hasattr(E, "AnalyzerError") and isinstance(e, E.AnalyzerError): return "ANALYZER"
    if isinstance(e, RecursionError): return "UNMODELLED recursion"
    return "PY " + type(e).__name__


def lex_impl(text, mybatis=False):
    if mybatis:
        from metasequoia_sql.plugins.mybaitis import FSMMachineMyBatis as M
    else:
        from metasequoia_sql.lexical import FSMMachine as M
    return M.parse(text)


def respond(line, cfg_idx=None):
    parts = line.split(" ")
    op = parts[0]
    if op == "L":
        if cfg_idx is not None and int(parts[1]) != cfg_idx:
            return "HARNESS-ERROR wrong worker for cfg " + parts[1]
        try:
            return "OK " + "".join(show_tok(t) for t in lex_impl(unhex(parts[2])))
        except Exception as e:
            return err_kind(e)
    if op == "LM":
        try:
            return "OK " + "".join(show_tok(t) for t in lex_impl(unhex(parts[1]), mybatis=True))
        except Exception as e:
            return err_kind(e)
    return "BADREQ"
