"""Small-scope correspondence: EVERY token sequence up to a length over a small alphabet of token texts, per entry point, asked of the model and of the
implementation.  Random generators reach deep but thin; a disagreement on an input nobody would write (`a NOT IS NOT b`) lives in the shallow, wide part —
this stream enumerates it.  The alphabets are grouped by what they exercise; brackets come as balanced atoms so that the lexer does not reject most sequences."""
import itertools
import engine as E
import pfam

ALPHABETS = {
    # keyword predicates and their NOT forms
    "predicates": ("logical_or_level_expression", ["a", "1", "NOT", "IS", "IN", "LIKE", "BETWEEN", "AND", "(1)", "NULL"], 5, 4),
    # operator layers, unary stacking, logical words
    "operators": ("logical_or_level_expression", ["a", "1", "+", "-", "*", "!", "~", "=", "<", "OR", "AND", "XOR", "NOT", "(a)"], 5, 3),
    # calls, CASE in both forms, commas
    "calls-case": ("logical_or_level_expression", ["f", "(a)", "(1, a)", "()", "a", ",", "CASE", "WHEN", "THEN", "ELSE", "END", "1", "."], 5, 4),
    # sub-queries, EXISTS, IN lists
    "subqueries": ("logical_or_level_expression", ["a", "(SELECT 1)", "((SELECT 1))", "(SELECT a FROM t)", "EXISTS", "IN", "NOT", "=", "(1)", ","], 4, 3),
    # windows, CAST, EXTRACT, index
    "special-calls": ("element_level_expression", ["SUM", "s", ".", "(a)", "OVER", "()", "(PARTITION BY a)", "(ORDER BY a)", "CAST", "(a AS INT)", "EXTRACT", "(YEAR FROM a)", "[1]"], 4, 3),
    # SELECT clause words in every order
    "select-clauses": ("statements", ["SELECT", "a", ",", "FROM", "t", "WHERE", "GROUP BY", "HAVING", "ORDER BY", "LIMIT", "1", "DISTINCT", "AS", "*"], 5, 4),
    # joins and table references
    "joins": ("statements", ["SELECT a FROM", "t", "u", ",", "JOIN", "LEFT JOIN", "CROSS JOIN", "ON", "USING", "(a)", "a = 1", "x", "AS", "(SELECT 1)"], 5, 4),
    # set operations, WITH, statement separators
    "set-ops": ("statements", ["SELECT 1", "UNION", "ALL", "EXCEPT", "(SELECT 2)", ";", "WITH w AS (SELECT 1)", ",", "v AS (SELECT 2)", "LIMIT 1", "ORDER BY a"], 5, 4),
    # data change statements
    "dml": ("statements", ["INSERT", "INTO", "OVERWRITE", "TABLE", "t", "(a)", "VALUES", "(1)", ",", "SELECT 1", "PARTITION", "(dt)", "IGNORE", "WITH w AS (SELECT 1)"], 5, 4),
    "update-delete": ("statements", ["UPDATE", "DELETE", "FROM", "t", "SET", "a = 1", ",", "WHERE", "a", "ORDER BY a", "LIMIT 1", "b = 2"], 6, 4),
    # column definitions
    "ddl-column": ("define_column_expression", ["c", "int", "(3)", "NOT", "NULL", "DEFAULT", "1", "COMMENT", "'x'", "AUTO_INCREMENT", "UNSIGNED", "ON UPDATE", "PRIMARY KEY", "GENERATED ALWAYS AS", "(a)", "VIRTUAL"], 5, 3),
    # the remaining column attributes in every order (an attribute branch that also looks at what follows resets what came before), and the index forms with their
    # options in every order (an option accepted in a second position must not lose what was read in the first)
    "ddl-column-2": ("define_column_expression", ["c", "int", "ZEROFILL", "UNSIGNED", "NOT NULL", "NULL", "CHARACTER SET", "utf8", "COLLATE", "utf8_bin", "COMMENT 'x'", "DEFAULT 1", "KEY", "UNIQUE", "AUTO_INCREMENT"], 5, 4),
    "ddl-index": ("column_or_index", ["PRIMARY KEY", "UNIQUE KEY", "KEY", "FULLTEXT KEY", "k", "(a)", "(a(3), b)", "USING", "BTREE", "COMMENT", "'x'", "KEY_BLOCK_SIZE", "=", "4"], 5, 4),
    "ddl-fk": ("column_or_index", ["CONSTRAINT", "fk", "FOREIGN KEY", "(a)", "REFERENCES", "p", "(id)", "ON", "DELETE", "UPDATE", "CASCADE", "SET NULL", "NO ACTION", "RESTRICT"], 5, 4),
    "ddl-create": ("statements", ["CREATE TABLE", "IF NOT EXISTS", "t", "(a int)", "(a int, PRIMARY KEY (a))", "COMMENT", "=", "'x'", "ENGINE", "InnoDB", "PARTITIONED BY", "(dt string)", ";", "STORED AS", "ORC"], 5, 3),
    "ddl-alter": ("statements", ["ALTER TABLE", "t", "ADD", "DROP", "COLUMN", "c", "int", ",", "PARTITION", "(dt = '1')", "IF EXISTS", "IF NOT EXISTS", "RENAME", "TO", "CHANGE"], 5, 3),
}


def sequences(alpha, n):
    for k in range(1, n + 1):
        for seq in itertools.product(alpha, repeat=k):
            yield " ".join(seq)


def run(ctx, names, dialects=("MYSQL", "HIVE"), thorough_dialects=None, judge=None):
    """asks every sequence; returns the number of requests.  Disagreements are recorded by ctx.corr (broken correspondence → directed search / violation)"""
    total = 0
    for nm in names:
        entry, alpha, n_thorough, n_quick = ALPHABETS[nm]
        n = n_quick if ctx.quick else n_thorough
        ds = dialects if ctx.quick else (thorough_dialects or dialects)
        texts = list(sequences(alpha, n))
        for d in ds:
            res, bad = ctx.corr([pfam.req_parse(d, t, entry) for t in texts], stream="small-scope:" + nm)
            total += len(texts)
            if judge is not None:
                for t, (_, a, _) in zip(texts, res):
                    judge(nm, entry, d, t, a)
            ctx.count("small-scope:%s:%s:accepted" % (nm, d), sum(1 for _, a, _ in res if a.startswith("OK")))
            ctx.count("small-scope:%s:%s:sequences" % (nm, d), len(texts))
    return total


# every complete expression over a small alphabet (length ≤ n) in every HOST position that prints its operand with a bracket rule of its own: the printer's decision
# "does this child need brackets here" for every (host, expression shape) pair, not for the pairs a random tree happens to contain
EXPR_ALPHA = ["a", "1", "(a OR b)", "(a = 1)", "(a + 1)", "NOT", "-", "*", "=", "OR", "AND", "IS", "IN", "(1)", "BETWEEN", "LIKE", "!", "~", "XOR", "<"]
HOSTS = ["SELECT {X} FROM t", "INSERT INTO t VALUES ({X})", "SELECT CAST({X} AS INT), f({X}) OVER (PARTITION BY {X} ORDER BY {X}) FROM t", "SELECT a FROM t GROUP BY {X} ORDER BY {X}",
         "UPDATE t SET a = {X} WHERE {X}", "INSERT OVERWRITE TABLE t PARTITION (dt = {X}) SELECT 1", "CREATE TABLE t (a int DEFAULT {X}, b DECIMAL({X}) GENERATED ALWAYS AS ({X}) VIRTUAL)",
         "SELECT a[{X}] FROM t SORT BY {X} DISTRIBUTE BY {X}", "SELECT CASE {X} WHEN {X} THEN {X} ELSE {X} END, EXTRACT(YEAR FROM {X}) FROM t",
         "SELECT a IN ({X}, 1), a BETWEEN {X} AND {X}, - {X}, NOT {X} FROM t", "SELECT a FROM t GROUP BY GROUPING SETS (({X}), ({X}, a))", "SELECT IF({X}, {X}, 1), a LIKE {X}, {X} IS NULL FROM t",
         "SELECT a FROM t JOIN u ON {X} LEFT JOIN v USING ({X})", "SELECT a FROM t WHERE {X} HAVING {X} LIMIT 1", "SELECT f({X}, {X}), COUNT(DISTINCT {X}), s.g({X}) FROM t",
         "DELETE FROM t WHERE {X} ORDER BY {X}", "SELECT a FROM t LATERAL VIEW explode({X}) v AS x", "ALTER TABLE t ADD PARTITION (dt = {X})", "SELECT ({X}), (({X})), EXISTS (SELECT {X}) FROM t",
         "SELECT a FROM (SELECT {X} AS b FROM t) q WHERE a IN (SELECT {X} FROM u)"]


def host_texts(ctx, n):
    exprs = list(sequences(EXPR_ALPHA, n))
    res = E.run_impl([pfam.req_parse("HIVE", t, "logical_or_level_expression") for t in exprs])
    acc = [t for t, a in zip(exprs, res) if a.startswith("OK 0 ")]
    ctx.count("hosts-x-expressions:complete-expressions", len(acc))
    return [h.replace("{X}", x) for h in HOSTS for x in acc]


# how a complete sequence of an element-level alphabet becomes a statement (for oracles that judge statements: accounting, round trip)
WRAP = {"predicates": ["SELECT {S} FROM t"], "operators": ["SELECT {S} FROM t"], "calls-case": ["SELECT {S} FROM t"], "subqueries": ["SELECT a FROM t WHERE {S}"],
        "special-calls": ["SELECT {S} FROM t"], "ddl-column": ["CREATE TABLE t ({S})", "ALTER TABLE t ADD {S}"], "ddl-column-2": ["CREATE TABLE t ({S})", "ALTER TABLE t MODIFY {S}"],
        "ddl-index": ["CREATE TABLE t (a int, {S})", "ALTER TABLE t ADD {S}"], "ddl-fk": ["CREATE TABLE t (a int, {S})", "ALTER TABLE t ADD {S}"]}


def accepted_statements(ctx, names, dialect="MYSQL"):
    """the statements the implementation accepts among all sequences of the alphabets (element-level ones wrapped by WRAP): [(dialect, text, alphabet)]"""
    out = []
    for nm in names:
        entry, alpha, n_thorough, n_quick = ALPHABETS[nm]
        texts = list(sequences(alpha, n_quick if ctx.quick else n_thorough))
        res = E.run_impl([pfam.req_parse(dialect, t, entry) for t in texts])
        acc = [t for t, a in zip(texts, res) if a.startswith("OK 0 ") or (entry == "statements" and a.startswith("OK"))]
        ctx.count("small-scope-accepted:" + nm, len(acc))
        for t in acc:
            for w in WRAP.get(nm, ["{S}"]):
                out.append((dialect, w.replace("{S}", t), "small-scope:" + nm))
    return out
