"""worker command ACC <dialect> <hex text>: token accounting of C08 on the implementation."""
import ast, collections, os, re
import canon

_KW = None


def keywords():
    """every upper-case word the grammar code compares tokens with (string constants of core/parser.py and the enum spellings of core/static.py)"""
    global _KW
    if _KW is None:
        from metasequoia_sql.core import static as ST
        import metasequoia_sql.core.parser as P
        kw = set()
        tree = ast.parse(open(P.__file__, encoding="utf-8").read())
        for n in ast.walk(tree):
            if isinstance(n, ast.Constant) and isinstance(n.value, str) and re.fullmatch(r"[A-Z_]+", n.value):
                kw.add(n.value)
        for E_ in (ST.EnumInsertType, ST.EnumJoinType, ST.EnumOrderType, ST.EnumUnionType, ST.EnumLogicalOperator):
            for m in E_:
                kw.update(m.value)
        for m in ST.EnumCastDataType:
            kw.add(m.value)
        for m in ST.EnumWindowRowType:
            kw.update(m.value.split(" "))
        kw.update(k for k in ST.COMPUTE_OPERATOR_HASH if k.isalpha())
        kw.update(ST.GENERATE_COLUMN_SAVE_MODE_HASH)
        kw.update(["STATISTICS", "COMPUTE"])
        _KW = kw
    return _KW


def payloads(text):
    """multiset of identifiers and literals of a text: NAME / LITERAL leaves of the lexer output that are not grammar keywords"""
    from metasequoia_sql.lexical import FSMMachine, AMTMark
    from metasequoia_sql.lexical.amt_node import AMTSingle
    out = collections.Counter()
    kw = keywords()

    def walk(ts):
        for t in ts:
            if isinstance(t, AMTSingle):
                if t.marks & AMTMark.LITERAL:
                    # integers are compared by value (LIMIT 007 prints as 7); a quoted string used as an alias comes back back-quoted
                    src = "NULL" if t.source.upper() == "NULL" else t.source       # NULL also serves as a keyword (NOT NULL), printed in upper case
                    out[str(int(src)) if re.fullmatch(r"[0-9]+", src) else src] += 1
                elif t.marks & AMTMark.NAME:
                    # the same rule on both sides: quotes are stripped first (the printer quotes names the input may have left bare)
                    if t.source.strip("`").upper() in kw:
                        continue
                    for part in t.source.strip("`").split("."):
                        out[part.strip("`")] += 1
            else:
                walk(t.children)
    walk(FSMMachine.parse(text))
    return out


def payloads_by_reference(text):
    """the same multiset, with the text cut into tokens by the independent reference tokenizer (reflex.py) instead of the library's lexer: what the INPUT says,
    whatever the library's lexer makes of it (a lexer that swallows tokens — e.g. into a comment that does not end where it should — is invisible to an
    accounting that lets the same lexer read the input).  None when the reference rejects the text."""
    import reflex
    out = collections.Counter()
    kw = keywords()

    def walk(ts):
        for t in ts:
            if t[0] == "leaf":
                src, marks = t[1], t[2]
                if marks & reflex.LIT:
                    src = "NULL" if src.upper() == "NULL" else src
                    out[str(int(src)) if re.fullmatch(r"[0-9]+", src) else src] += 1
                elif marks & reflex.NAME:
                    if src.strip("`").upper() in kw:
                        continue
                    for part in src.strip("`").split("."):
                        out[part.strip("`")] += 1
            else:
                walk(t[5])
    try:
        walk(reflex.tokens(text, 7))
    except reflex.Reject:
        return None
    return out


def acc(parts):
    from metasequoia_sql import SQLType, SQLParser
    st = SQLType[parts[1]]
    text = canon.unhex(parts[2])
    try:
        stmts = SQLParser.parse_statements(text, sql_type=st)
    except Exception as e:
        return canon.err_kind(e)
    printed = []
    for s_ in stmts:
        if not canon.supports(s_, st):
            return "OK unsupported"
        try:
            printed.append(s_.source(st))
        except Exception as e:
            return "OK refused:" + canon.err_kind(e).replace(" ", "_")
    try:
        a, b = payloads(text), payloads(";\n".join(printed))
    except Exception as e:
        return "OK printed-text-does-not-lex:" + canon.err_kind(e)
    if a == b:
        ref = payloads_by_reference(text)
        if ref is not None and ref != a:
            lost = sorted((ref - b).elements())
            gained = sorted((b - ref).elements())
            return "OK differs-from-the-written-text lost=[%s] gained=[%s]" % (",".join(canon.q(x) for x in lost[:6]), ",".join(canon.q(x) for x in gained[:6]))
        return "OK equal %d" % sum(a.values())
    lost = sorted((a - b).elements())
    gained = sorted((b - a).elements())
    return "OK differs lost=[%s] gained=[%s]" % (",".join(canon.q(x) for x in lost[:6]), ",".join(canon.q(x) for x in gained[:6]))


COMMANDS = {"ACC": acc}
