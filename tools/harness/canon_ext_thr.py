"""worker command THR <k> <hex of newline-separated requests>: answer the requests concurrently from k threads in this one process (C12)."""
import threading
import canon


def thr(parts):
    k = int(parts[1])
    reqs = [r for r in canon.unhex(parts[2]).split("\n") if r]
    out = [None] * len(reqs)
    nxt = [0]
    lock = threading.Lock()

    def work():
        while True:
            with lock:
                i = nxt[0]; nxt[0] += 1
            if i >= len(reqs):
                return
            try:
                out[i] = canon.respond(reqs[i])
            except Exception as e:
                out[i] = "HARNESS-ERROR " + type(e).__name__
    ts = [threading.Thread(target=work) for _ in range(k)]
    for t in ts: t.start()
    for t in ts: t.join()
    return "OK " + canon.enhex("\n".join(out))


COMMANDS = {"THR": thr}
