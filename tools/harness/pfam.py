"""Shared pieces of the parser-family checks (C01–C03, C06–C10, C13): statement streams, correspondence on
the parse / print commands, the conclusion rule of DESIGN §6.3."""
import json, os
import engine as E
import sqlgen

DIALECTS = ["MYSQL", "HIVE", "ORACLE", "DB2", "POSTGRE_SQL", "SQL_SERVER", "DEFAULT"]
MAIN_DIALECTS = ["MYSQL", "HIVE", "DEFAULT", "DB2", "HIVE", "MYSQL", "ORACLE", "SQL_SERVER", "POSTGRE_SQL"]


def corpus_statements():
    """the repository's own SQL (demo scripts and test fragments), as (dialect, text)"""
    out = []
    try:
        import re
        p = os.path.join(E.REPO, "scripts", "demo_sql", "dolphinscheduler_mysql.sql")
        text = open(p, encoding="utf-8").read()
        for st in text.split(";\n"):
            st = st.strip()
            if st and len(st) < 6000:
                out.append(("MYSQL", st))
        for fn in ("sql_basic_tutorial.py", "with_demo.py"):
            src = open(os.path.join(E.REPO, "scripts", "demo_sql", fn), encoding="utf-8").read()
            for m in re.finditer(r'"""(.*?)"""', src, re.S):
                s = m.group(1).strip()
                if s.upper().startswith(("SELECT", "WITH", "INSERT", "CREATE", "UPDATE", "DELETE", "ALTER", "DROP")):
                    out.append(("MYSQL", s))
    except Exception:
        pass
    return out + BRANCH_CORPUS


# statements written against the branch coverage report (tools/dev/cov_report.py): every list-parsing loop of the parser with zero / one / several elements, the
# bracketed-SELECT stack, both exits of the two CASE loops, multi-parameter CAST types — places where the generators produced only one of the two directions
BRANCH_CORPUS = [
    ("MYSQL", "SELECT CAST(a AS DECIMAL(10, 2)), CAST(b AS CHAR(3)), CAST(c AS SIGNED INTEGER), CAST(d AS DECIMAL(10,2,3)) FROM t"),
    ("MYSQL", "SELECT SUM(a) OVER (PARTITION BY b, c, d ORDER BY e, f DESC, g) FROM t"),
    ("MYSQL", "SELECT SUM(a) OVER (PARTITION BY b ORDER BY e) , MAX(a) OVER () FROM t"),
    ("MYSQL", "SELECT CASE a WHEN 1 THEN 2 WHEN 3 THEN 4 WHEN 5 THEN 6 ELSE 7 END, CASE WHEN a THEN 1 WHEN b THEN 2 END, CASE a WHEN 1 THEN 2 END FROM t"),
    ("HIVE", "SELECT a FROM t SORT BY a, b DESC, c"),
    ("HIVE", "SELECT a FROM t SORT BY a, b DISTRIBUTE BY a, b, c CLUSTER BY c, d"),
    ("HIVE", "SELECT a FROM t CLUSTER BY a, b"),
    ("HIVE", "SELECT a FROM t DISTRIBUTE BY a"),
    ("MYSQL", "SELECT a FROM ((SELECT a FROM t)) q"),
    ("MYSQL", "SELECT a FROM t UNION ALL (SELECT a FROM u) UNION (SELECT a FROM v LIMIT 1)"),
    ("MYSQL", "SELECT a FROM t UNION ALL ((SELECT a FROM u))"),
    ("MYSQL", "SELECT a FROM t WHERE b IN ((SELECT c FROM u))"),
    ("MYSQL", "SELECT f(), g(1), h(1, 2, 3), COUNT(DISTINCT a, b) FROM t"),
    ("MYSQL", "SELECT a FROM t GROUP BY a, b, c WITH ROLLUP HAVING COUNT(1) > 1 ORDER BY a, b DESC, c LIMIT 1, 2"),
    ("HIVE", "SELECT a FROM t GROUP BY a GROUPING SETS ((a, b), (a), (), c)"),
    ("HIVE", "SELECT x, y FROM t LATERAL VIEW explode(a) v AS x LATERAL VIEW OUTER explode(b) w AS y, z"),
    ("MYSQL", "SELECT a FROM t1, t2, t3 JOIN t4 ON 1 = 1 LEFT JOIN t5 USING (a, b) CROSS JOIN t6"),
    ("MYSQL", "WITH w1 AS (SELECT 1), w2 AS (SELECT 2), w3 AS (SELECT 3) SELECT * FROM w1, w2, w3"),
    ("MYSQL", "INSERT INTO t (a, b, c) VALUES (1, 2, 3), (4, 5, 6), ()"),
    ("HIVE", "INSERT OVERWRITE TABLE t PARTITION (dt = '1', hr = '2') SELECT a FROM u"),
    ("HIVE", "INSERT OVERWRITE TABLE t PARTITION (dt, hr, mi) SELECT a FROM u"),
    ("MYSQL", "UPDATE t SET a = 1, b = 2, c = 3 WHERE d = 4 ORDER BY e, f LIMIT 5"),
    ("MYSQL", "CREATE TABLE t (a int, b int, c int, PRIMARY KEY (a, b, c), UNIQUE KEY u1 (a(3), b), KEY k1 (c) USING BTREE COMMENT 'x' KEY_BLOCK_SIZE = 0)"),
    ("MYSQL", "ALTER TABLE t DROP COLUMN c, RENAME COLUMN d TO e, DROP COLUMN f"),
    ("HIVE", "ALTER TABLE t DROP IF EXISTS PARTITION (dt = '1', hr = '2')"),
    # `is_not = is_not or search…("NOT")` short-circuits (parser.py:922): after a NOT in front of IS a second NOT is not consumed (the model had it wrong; found
    # by the derivation proof of C02)
    ("MYSQL", "SELECT a NOT IS NOT b FROM t"), ("MYSQL", "SELECT a FROM t WHERE a NOT IS NULL AND b IS NOT NULL AND c NOT IS NOT NULL"),
    ("HIVE", "CREATE TABLE IF NOT EXISTS t AS SELECT 1"), ("MYSQL", "CREATE TABLE s.t AS WITH w AS (SELECT 1) SELECT * FROM w"),
    ("HIVE", "ANALYZE TABLE t PARTITION (dt, hr) COMPUTE STATISTICS"),
    ("HIVE", "ANALYZE TABLE t PARTITION (dt='1') COMPUTE STATISTICS NOSCAN"),
]


def regression_cases(prop=None):
    """witnesses of fixed findings and minimised past failures: they run first"""
    out = []
    try:
        for f in json.load(open(os.path.join(E.VERIF, "known_findings.json"))):
            w = f.get("witness", {})
            if f.get("status") == "fixed" and "input" in w and "dialect" in w and (prop is None or prop in f.get("properties", [f.get("property")])):
                out.append((w["dialect"], w["input"]))
    except Exception:
        pass
    d = os.path.join(E.VERIF, "corpus", "regressions")
    if os.path.isdir(d):
        for fn in sorted(os.listdir(d)):
            try:
                r = json.load(open(os.path.join(d, fn)))
                if "input" in r and r.get("dialect") and (prop is None or r.get("property") == prop):
                    out.append((r["dialect"], r["input"]))
            except Exception:
                pass
    return out


def scripts(rng, n, wild=0.15, mutate=0.0, relayout=0.1, lower=0.03, single=False):
    """[(dialect, text, kind)]"""
    out = []
    for i in range(n):
        d = rng.choice(MAIN_DIALECTS)
        g = sqlgen.Gen(rng, d, wild=rng.chance(wild))
        t = g.stmt() if single else g.script()
        kind = "wild" if g.wild else "valid"
        if rng.chance(mutate):
            t = sqlgen.mutate(rng, t); kind = "mutated"
            if rng.chance(0.3):
                t = sqlgen.mutate(rng, t)
        if rng.chance(relayout):
            t = sqlgen.relayout(rng, t)
        if rng.chance(lower):
            t = t.lower(); kind = "lower"
        out.append((d, t, kind))
    return out


COMPUTE_OPS = ["^", "*", "/", "%", "DIV", "MOD", "+", "-", "<<", ">>", "&", "|", "||"]
COMPARE_OPS = ["=", "!=", "<>", "<", "<=", ">", ">=", "<=>"]
LOGIC_OPS = ["AND", "OR", "XOR"]
KEYWORD_OPS = ["IS", "IS NOT", "LIKE", "NOT LIKE", "RLIKE", "NOT RLIKE", "REGEXP", "NOT REGEXP", "IN", "NOT IN", "BETWEEN", "NOT BETWEEN"]
UNARY_OPS = ["-", "+", "~", "!", "NOT"]


def _bin(op, l, r):
    if op.endswith("IN"): return "%s %s (%s, 1)" % (l, op, r)
    if op.endswith("BETWEEN"): return "%s %s %s AND k" % (l, op, r)
    return "%s %s %s" % (l, op, r)


def operator_pairs(d):
    """every nesting of two operators (binary × binary on either side, unary over binary, binary over unary), written with and without the
    grouping brackets, as one-item SELECT statements: the systematic part of the printer/grammar precedence coverage"""
    a, b, c = ("x[0]", "b", "c") if d == "HIVE" else ("CURRENT DATE", "b", "c") if d == "DB2" else ("a", "b", "c")
    ops = COMPUTE_OPS + COMPARE_OPS + LOGIC_OPS + KEYWORD_OPS
    out = []
    for o in ops:
        for i in ops:
            out.append("(" + _bin(i, a, b) + ") " + _bin(o, "", c).lstrip())
            out.append(_bin(o, a, "(" + _bin(i, b, c) + ")"))
            out.append(_bin(o, _bin(i, a, b), c))
        for u in UNARY_OPS:
            out += [u + " (" + _bin(o, a, b) + ")", u + " " + _bin(o, a, b), _bin(o, "(" + u + " " + a + ")", b), _bin(o, a, "(" + u + " " + b + ")"), _bin(o, a, u + " " + b)]
    for u in UNARY_OPS:
        for v in UNARY_OPS:
            out += [u + " " + v + " " + a, u + " (" + v + " " + a + ")"]
    return ["SELECT " + e + " FROM t" for e in out]


def tree_texts(rng, n_per_dialect, dialects=None):
    """[(dialect, text)]: printed texts of tree-first generated statements (canon_ext_tree.py), every statement class and clause combination"""
    tb = [(d, 1 + rng.below(10 ** 6), n_per_dialect) for d in (dialects or DIALECTS)]
    out = []
    for (d, seed, n), a in zip(tb, E.run_impl(["TREETEXT %s %d %d" % b for b in tb])):
        out += [(d, E.unhex(h)) for h in a.split(" ")[1:] if h and h != "-"]
    return out


def req_parse(d, t, entry="statements"):
    return "P %s %s %s" % (entry, d, E.enhex(t))


def req_print(pd, sd, t):
    return "PR %s %s %s" % (pd, sd, E.enhex(t))


def conclude(ctx, search=None):
    """DESIGN §6.3: anything broken and no failing input yet ⇒ search harder; still none ⇒ no-failing-input-found"""
    import hazards
    hazards.check(ctx)          # the requests of the correspondence streams once more, each after the neighbours a wrongly keyed memory would confuse it with
    if ctx.broken and not ctx.violations and search is not None:
        search(ctx)
    if ctx.broken and not ctx.violations:
        ctx.violation({"kind": "obligation", "input": None, "how_found": "search exhausted its budget",
                       "broken_detail": ctx.broken}, found=False)


def report(ctx, signature, payload):
    """a property failure on a concrete input: suppressed if it matches a listed finding, else a VIOLATION (once per signature)"""
    f = ctx.match_finding(signature)
    if f:
        ctx.count("known:" + f["id"])
        return False
    if not hasattr(ctx, "reported"):
        ctx.reported = set()
    if signature in ctx.reported:
        ctx.count("violation-repeat:" + signature)
        return False
    ctx.reported.add(signature)
    ctx.violation(dict(payload, expected="%s: %s" % (ctx.prop, signature), minimal=False))
    return True
