"""Shared pieces of the parser-family checks (C01–C03, C06–C10, C13): statement streams, correspondence on
the parse / print commands, the conclusion rule of DESIGN §6.3."""
import json, os
import engine as E
import sqlgen

DIALECTS = ["MYSQL", "HIVE", "ORACLE", "DB2", "POSTGRE_SQL", "SQL_SERVER", "DEFAULT"]
MAIN_DIALECTS = ["MYSQL", "HIVE", "DEFAULT", "DB2", "HIVE", "MYSQL", "ORACLE", "SQL_SERVER", "POSTGRE_SQL"]


def corpus_statements():
    """the repository's own SQL (demo scripts and test fragments), as (dialect, text)"""
    out = []
    try:
        import re
        p = os.path.join(E.REPO, "scripts", "demo_sql", "dolphinscheduler_mysql.sql")
        text = open(p, encoding="utf-8").read()
        for st in text.split(";\n"):
            st = st.strip()
            if st and len(st) < 6000:
                out.append(("MYSQL", st))
        for fn in ("sql_basic_tutorial.py", "with_demo.py"):
            src = open(os.path.join(E.REPO, "scripts", "demo_sql", fn), encoding="utf-8").read()
            for m in re.finditer(r'"""(.*?)"""', src, re.S):
                s = m.group(1).strip()
                if s.upper().startswith(("SELECT", "WITH", "INSERT", "CREATE", "UPDATE", "DELETE", "ALTER", "DROP")):
                    out.append(("MYSQL", s))
    except Exception:
        pass
    return out


def regression_cases(prop=None):
    """witnesses of fixed findings and minimised past failures: they run first"""
    out = []
    try:
        for f in json.load(open(os.path.join(E.VERIF, "known_findings.json"))):
            w = f.get("witness", {})
            if f.get("status") == "fixed" and "input" in w and "dialect" in w and (prop is None or prop in f.get("properties", [f.get("property")])):
                out.append((w["dialect"], w["input"]))
    except Exception:
        pass
    d = os.path.join(E.VERIF, "corpus", "regressions")
    if os.path.isdir(d):
        for fn in sorted(os.listdir(d)):
            try:
                r = json.load(open(os.path.join(d, fn)))
                if "input" in r and r.get("dialect") and (prop is None or r.get("property") == prop):
                    out.append((r["dialect"], r["input"]))
            except Exception:
                pass
    return out


def scripts(rng, n, wild=0.15, mutate=0.0, relayout=0.1, lower=0.03, single=False):
    """[(dialect, text, kind)]"""
    out = []
    for i in range(n):
        d = rng.choice(MAIN_DIALECTS)
        g = sqlgen.Gen(rng, d, wild=rng.chance(wild))
        t = g.stmt() if single else g.script()
        kind = "wild" if g.wild else "valid"
        if rng.chance(mutate):
            t = sqlgen.mutate(rng, t); kind = "mutated"
            if rng.chance(0.3):
                t = sqlgen.mutate(rng, t)
        if rng.chance(relayout):
            t = sqlgen.relayout(rng, t)
        if rng.chance(lower):
            t = t.lower(); kind = "lower"
        out.append((d, t, kind))
    return out


COMPUTE_OPS = ["^", "*", "/", "%", "DIV", "MOD", "+", "-", "<<", ">>", "&", "|", "||"]
COMPARE_OPS = ["=", "!=", "<>", "<", "<=", ">", ">=", "<=>"]
LOGIC_OPS = ["AND", "OR", "XOR"]
KEYWORD_OPS = ["IS", "IS NOT", "LIKE", "NOT LIKE", "RLIKE", "NOT RLIKE", "REGEXP", "NOT REGEXP", "IN", "NOT IN", "BETWEEN", "NOT BETWEEN"]
UNARY_OPS = ["-", "+", "~", "!", "NOT"]


def _bin(op, l, r):
    if op.endswith("IN"): return "%s %s (%s, 1)" % (l, op, r)
    if op.endswith("BETWEEN"): return "%s %s %s AND k" % (l, op, r)
    return "%s %s %s" % (l, op, r)


def operator_pairs(d):
    """every nesting of two operators (binary × binary on either side, unary over binary, binary over unary), written with and without the
    grouping brackets, as one-item SELECT statements: the systematic part of the printer/grammar precedence coverage"""
    a, b, c = ("x[0]", "b", "c") if d == "HIVE" else ("CURRENT DATE", "b", "c") if d == "DB2" else ("a", "b", "c")
    ops = COMPUTE_OPS + COMPARE_OPS + LOGIC_OPS + KEYWORD_OPS
    out = []
    for o in ops:
        for i in ops:
            out.append("(" + _bin(i, a, b) + ") " + _bin(o, "", c).lstrip())
            out.append(_bin(o, a, "(" + _bin(i, b, c) + ")"))
            out.append(_bin(o, _bin(i, a, b), c))
        for u in UNARY_OPS:
            out += [u + " (" + _bin(o, a, b) + ")", u + " " + _bin(o, a, b), _bin(o, "(" + u + " " + a + ")", b), _bin(o, a, "(" + u + " " + b + ")"), _bin(o, a, u + " " + b)]
    for u in UNARY_OPS:
        for v in UNARY_OPS:
            out += [u + " " + v + " " + a, u + " (" + v + " " + a + ")"]
    return ["SELECT " + e + " FROM t" for e in out]


def tree_texts(rng, n_per_dialect, dialects=None):
    """[(dialect, text)]: printed texts of tree-first generated statements (canon_ext_tree.py), every statement class and clause combination"""
    tb = [(d, 1 + rng.below(10 ** 6), n_per_dialect) for d in (dialects or DIALECTS)]
    out = []
    for (d, seed, n), a in zip(tb, E.run_impl(["TREETEXT %s %d %d" % b for b in tb])):
        out += [(d, E.unhex(h)) for h in a.split(" ")[1:] if h and h != "-"]
    return out


def req_parse(d, t, entry="statements"):
    return "P %s %s %s" % (entry, d, E.enhex(t))


def req_print(pd, sd, t):
    return "PR %s %s %s" % (pd, sd, E.enhex(t))


def conclude(ctx, search=None):
    """DESIGN §6.3: anything broken and no failing input yet ⇒ search harder; still none ⇒ no-failing-input-found"""
    import hazards
    hazards.check(ctx)          # the requests of the correspondence streams once more, each after the neighbours a wrongly keyed memory would confuse it with
    if ctx.broken and not ctx.violations and search is not None:
        search(ctx)
    if ctx.broken and not ctx.violations:
        ctx.violation({"kind": "obligation", "input": None, "how_found": "search exhausted its budget",
                       "broken_detail": ctx.broken}, found=False)


def report(ctx, signature, payload):
    """a property failure on a concrete input: suppressed if it matches a listed finding, else a VIOLATION (once per signature)"""
    f = ctx.match_finding(signature)
    if f:
        ctx.count("known:" + f["id"])
        return False
    if not hasattr(ctx, "reported"):
        ctx.reported = set()
    if signature in ctx.reported:
        ctx.count("violation-repeat:" + signature)
        return False
    ctx.reported.add(signature)
    ctx.violation(dict(payload, expected="%s: %s" % (ctx.prop, signature), minimal=False))
    return True
