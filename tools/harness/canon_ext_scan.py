"""worker command SC <hex text> <ops>: a sequence of TokenScanner operations on the tokens of a text (C20a)."""
import canon


def pat(w):
    from metasequoia_sql.lexical import AMTMark
    return AMTMark[w[1:]] if w.startswith("@") else w


def show_opt(t):
    return "N" if t is None else canon.show_tok(t)


def B(b):
    return "T" if b else "F"


def scan(parts):
    from metasequoia_sql.common import TokenScanner
    from metasequoia_sql.lexical import FSMMachine
    try:
        toks = FSMMachine.parse(canon.unhex(parts[1]))
    except Exception as e:
        return canon.err_kind(e)
    s = TokenScanner(toks)
    out = []
    for o in parts[2].split(";"):
        op, _, rest = o.partition(":")
        a = ["," if x == "COMMA" else x for x in rest.split(",") if x != ""]
        try:
            if op == "go": r = canon.show_tok(s.get_offset(int(a[0])))
            elif op == "gn": r = show_opt(s.get_offset_or_null(int(a[0])))
            elif op == "get": r = show_opt(s.get_or_null())
            elif op == "pop": r = canon.show_tok(s.pop())
            elif op == "mv": s.move(int(a[0])); r = "-"
            elif op == "close": s.close(); r = "-"
            elif op == "fin": r = B(s.is_finish)
            elif op == "s": r = B(s.search(*[pat(x) for x in a]))
            elif op == "sm": r = B(s.search_and_move(*[pat(x) for x in a]))
            elif op == "m": s.match(*[pat(x) for x in a]); r = "-"
            elif op == "mk": r = B(s.search_one_type_mark(pat(a[0])))
            elif op == "ss": r = B(s.search_one_type_str(a[0]))
            elif op == "sms": r = B(s.search_and_move_one_type_str(a[0]))
            elif op == "s1": r = B(s.search_one_type_str_use_upper(a[0]))
            elif op == "sm1": r = B(s.search_and_move_one_type_str_use_upper(a[0]))
            elif op == "s2": r = B(s.search_two_type_str_use_upper(a[0], a[1]))
            elif op == "sm2": r = B(s.search_and_move_two_type_str_use_upper(a[0], a[1]))
            elif op == "s3": r = B(s.search_three_type_str_use_upper(*a))
            elif op == "sm3": r = B(s.search_and_move_three_type_str_use_upper(*a))
            elif op == "set": r = B(s.search_one_type_set(set(a)))
            elif op == "setu": r = B(s.search_one_type_set_use_upper(set(a)))
            elif op == "smsetu": r = B(s.search_and_move_one_type_set_use_upper(set(a)))
            elif op == "src":
                x = s.get_as_source_or_null(); r = "N" if x is None else canon.q(x)
            elif op == "psrc": r = canon.q(s.pop_as_source())
            elif op == "gkid":
                c = s.get_as_children_scanner(); r = "kids%d/%d" % (len(c.elements), c.pos)
            elif op == "pkid":
                c = s.pop_as_children_scanner(); r = "kids%d/%d" % (len(c.elements), c.pos)
            elif op == "gkadv":
                # look ahead INSIDE the group: take the child cursor, advance it by one token (if it has one), throw it away
                c = s.get_as_children_scanner()
                if not c.is_finish: c.pop()
                r = "kids%d/%d" % (len(c.elements), c.pos)
            elif op == "split": r = "split" + ",".join(str(len(c.elements)) for c in s.pop_as_children_scanner_list_split_by(a[0]))
            else: r = "BADOP"
        except Exception as e:
            r = canon.err_kind(e)
        out.append("%s@%d" % (r, s.pos))
    return "OK " + "\t".join(out)


COMMANDS = {"SC": scan}
