"""Random SQL text generator for the correspondence streams: grammar-shaped statements of every kind the
parser knows, with dialect constructs, letter-case / layout / quoting variation, and a separate
malformed stream (prefixes, token deletion / duplication / swap / replacement, soups, nesting)."""

NAMES = ["a", "b", "c", "t1", "x_1", "`k y`", "`select`", "col", "id", "dt", "`a.b`", "é1", "`from`", "_u", "A1"]
NAMES_WILD = ["`ke``y`", "select", "from", "1a", "a-b"]
TABLES = ["t", "s.t", "`t`", "`s`.`t`", "u", "`s.t`", "db1.tbl_2", "w"]
LITS = ["1", "2.5", "'s'", "NULL", "TRUE", "false", "x'1F'", "b'01'", "\"d\"", "0", "007", "'a''b'", "'it\\'s'", "12345678901234567890",
        "'--c'", "'/*x*/'", "'a;b'", "'(x'", "''", "'a==b'", "'CURRENT DATE'", "'a\tb'", "'é'", "3", "10", "'x y'", "null", "True"]
LITS_WILD = ["0x1F", "1e5", "0b01", ".5", "1.", "'unterminated", "1_0"]
BIN_OPS = ["+", "-", "*", "/", "%", "DIV", "MOD", "&", "|", "^", "<<", ">>"]
BIN_OPS_WILD = ["div", "mod", "Div", "**", "||"]
CMP_OPS = ["=", "!=", "<>", "<", "<=", ">", ">=", "<=>"]
FUNCS = ["f", "COUNT", "sum", "IF", "SUBSTRING", "s.g", "concat", "COALESCE", "Max", "`fn`", "avg", "min", "if", "substring", "explode"]
CAST_T = ["INT", "SIGNED INT", "DECIMAL(10,2)", "CHAR(3)", "DATE", "signed integer", "VARCHAR(10)", "DECIMAL()", "DOUBLE", "STRING", "UNSIGNED"]
COLTYPES = ["int(11)", "varchar(20)", "decimal(10,2)", "datetime", "text", "bigint(20)", "tinyint(1)", "json", "double", "timestamp",
            "INT", "CHAR", "enum('a','b')", "STRING", "float", "date", "mediumtext", "smallint(6)", "blob", "year", "bit(1)", "longblob",
            "set('x','y')", "time", "bool", "real", "mediumint", "dec(5,2)", "integer", "tinytext", "varbinary(8)"]


class Gen:
    def __init__(self, rng, dialect="DEFAULT", maxdepth=None, wild=None):
        self.r, self.d = rng, dialect
        self.maxdepth = maxdepth if maxdepth is not None else rng.choice([1, 1, 2, 2, 3])
        # a "wild" generator also draws constructs known to be rejected / mishandled; the main stream is mostly valid
        self.wild = rng.chance(0.2) if wild is None else wild

    def w(self, valid, wild):
        """choose from `valid`; a wild generator sometimes chooses from `wild` instead"""
        if self.wild and wild and self.r.chance(0.25):
            return self.r.choice(wild)
        return self.r.choice(valid)

    # -- small helpers ---------------------------------------------------------------------------------
    def ch(self, xs): return self.r.choice(xs)
    def p(self, x): return self.r.chance(x)
    def n(self, lo, hi): return lo + self.r.below(hi - lo + 1)
    def nm(self): return self.w(NAMES, NAMES_WILD)
    def lit(self): return self.w(LITS, LITS_WILD)

    def kw(self, s):
        k = self.r.below(12)
        return s.lower() if k == 0 else (s.capitalize() if k == 1 else s)

    # -- expressions -----------------------------------------------------------------------------------
    def elem(self, d):
        x = self.r.below(100)
        if d > self.maxdepth or x < 34:
            return self.ch([self.nm(), self.lit(), self.nm() + "." + self.nm(), self.nm()])
        if x < 42: return "(" + self.expr(d + 1) + ")"
        if x < 52:
            f = self.ch(FUNCS)
            args = ", ".join(self.cond(d + 1) if self.p(0.2) else self.expr(d + 1) for _ in range(self.n(0 if self.wild else 1, 3)))
            if f.upper() == "SUBSTRING" and self.p(0.5):
                args = self.expr(d + 1) + " FROM " + self.expr(d + 1) + self.ch(["", " FOR " + self.expr(d + 1)])
            isagg = f.upper() in ("COUNT", "SUM", "MAX", "AVG", "MIN")
            dist = self.ch(["", "", "DISTINCT ", "distinct "]) if (isagg or (self.wild and self.p(0.2))) else ""
            return f + "(" + dist + args + ")" + (self.ch(["", "", "[0]"]) if self.d == "HIVE" else self.w([""], ["[0]"]))
        if x < 56: return self.kw("CAST") + "(" + self.expr(d + 1) + " " + self.kw("AS") + " " + self.w(CAST_T[:-1], CAST_T[-1:] + ["FOO", "INT(x)"]) + ")"
        if x < 58: return self.kw("EXTRACT") + "(" + self.ch(["YEAR", "month", "DAY"]) + " " + self.kw("FROM") + " " + self.expr(d + 1) + ")"
        if x < 64:
            return (self.kw("CASE") + " " + self.ch(["", self.expr(d + 1) + " "])
                    + " ".join(self.kw("WHEN") + " " + self.cond(d + 1) + " " + self.kw("THEN") + " " + self.expr(d + 1) for _ in range(self.n(1, 2)))
                    + self.ch(["", " " + self.kw("ELSE") + " " + self.expr(d + 1)]) + " " + self.kw("END"))
        if x < 68: return "(" + self.query(d + 2) + ")"
        if x < 73:
            return (self.w(["ROW_NUMBER()", "SUM(a)", "RANK()", "lag(a, 1)", "max(b)"], ["s.f(a)"]) + " " + self.kw("OVER") + " ("
                    + self.ch(["", self.kw("PARTITION") + " BY " + self.expr(d + 1) + self.ch(["", ", " + self.expr(d + 1)]) + " "])
                    + self.ch(["", self.kw("ORDER") + " BY " + self.expr(d + 1) + self.ch(["", " DESC", " asc"])])
                    + self.w(["", "", " ROWS BETWEEN UNBOUNDED PRECEDING AND CURRENT ROW", " ROWS BETWEEN 1 PRECEDING AND 2 FOLLOWING", " ROWS BETWEEN 0 PRECEDING AND 0 FOLLOWING", " ROWS BETWEEN 2 PRECEDING AND 0 FOLLOWING", " ROWS BETWEEN 0 PRECEDING AND CURRENT ROW",
                              " rows between current row and unbounded following"], [" ROWS BETWEEN x PRECEDING AND 1 FOLLOWING", " ROWS 1", " RANGE BETWEEN 1 PRECEDING AND CURRENT ROW"]) + ")")
        if x < 76: return self.ch(["*", "t.*", "`t`.*"])
        if x < 79 and (self.d == "HIVE" or self.wild): return self.nm() + "[" + self.expr(d + 1) + "]"
        if x < 82:
            if self.d == "DB2": return self.ch(["CURRENT_DATE", "CURRENT_TIMESTAMP", "CURRENT DATE", "CURRENT TIMESTAMP", "current_time", "CURRENT TIME"])
            return self.w(["CURRENT_DATE", "CURRENT_TIMESTAMP", "current_time"], ["CURRENT DATE", "CURRENT TIMESTAMP"])
        return self.ch([self.nm(), self.lit()])

    def unary(self, d):
        if self.p(0.12):
            ops = ["-", "+", "~", "- ", "+ "] + ([] if self.d == "HIVE" else ["!"])
            return self.w(ops, ["-", "--", "!!", "!"]) + self.elem(d + 1) if not self.p(0.2) else self.ch(["- ", "~", "+"]) + self.unary(d + 1)
        return self.elem(d)

    def expr(self, d=0):
        s = self.unary(d)
        k = 0
        while d <= self.maxdepth and self.p(0.33) and k < 4:
            s += " " + self.w(BIN_OPS, BIN_OPS_WILD) + " " + self.unary(d + 1)
            k += 1
        return s

    def pred(self, d):
        x = self.r.below(100)
        if d > self.maxdepth or x < 35: return self.expr(d + 1) + " " + self.ch(CMP_OPS + (["=="] if self.d == "HIVE" else [])) + " " + self.expr(d + 1)
        if x < 45: return self.expr(d + 1) + " " + self.w(["IS NULL", "IS NOT NULL", "IS TRUE", "is null", "IS NULL IS NULL", "Is Not Null"], ["NOT IS NULL", "is null is null", "IS", "NOT"])
        if x < 56:
            return (self.expr(d + 1) + " " + self.ch(["IN", "NOT IN", "in", "not in"]) + " ("
                    + self.w([", ".join(self.lit() for _ in range(self.n(1, 3))), self.query(d + 2), self.expr(d + 1) + ", " + self.expr(d + 1)], [self.lit() + ",," + self.lit(), "", "1 2"]) + ")")
        if x < 64: return self.expr(d + 1) + " " + self.ch(["LIKE", "NOT LIKE", "RLIKE", "REGEXP", "like", "not rlike"]) + " " + self.ch(["'p%'", self.expr(d + 1)])
        if x < 72: return self.expr(d + 1) + " " + self.ch(["BETWEEN", "NOT BETWEEN", "between"]) + " " + self.expr(d + 1) + " " + self.kw("AND") + " " + self.expr(d + 1)
        if x < 77: return self.kw("EXISTS") + " (" + self.query(d + 2) + ")"
        if x < 82: return "(" + self.cond(d + 1) + ")"
        if x < 86: return self.expr(d + 1) + " " + self.ch(CMP_OPS) + " " + self.expr(d + 1) + " " + self.ch(CMP_OPS) + " " + self.expr(d + 1)
        return self.expr(d + 1)

    def cond(self, d=0):
        s = (self.w(["NOT ", "not ", "! " if self.d == "HIVE" else "NOT ", "NOT NOT "], ["! ", "NOT"]) if self.p(0.12) else "") + self.pred(d)
        k = 0
        while d <= self.maxdepth and self.p(0.3) and k < 3:
            s += " " + self.ch(["AND", "OR", "XOR", "&&", "||", "and", "or", "xor"]) + " " + (self.ch(["NOT ", ""]) if self.p(0.2) else "") + self.pred(d + 1)
            k += 1
        return s

    # -- queries ---------------------------------------------------------------------------------------
    def tref(self, d, need_alias=False):
        x = self.r.below(100)
        al = [" x", " AS y", " as `z z`"] if need_alias else ["", "", " x", " AS y", " as `z z`"]
        if x < 62 or d > 2: return self.ch(TABLES) + self.ch(al)
        if x < 90: return "(" + self.query(d + 1) + ")" + self.ch([" q", " AS q", " as q2"] if need_alias else [" q", " AS q", "", " as q2"])
        return "(" + self.ch(TABLES) + self.w([""], [" junk", " a b"]) + ")" + self.ch([" x"] if need_alias else ["", " x"])

    def select(self, d=0):
        s = self.kw("SELECT") + " " + self.ch(["", "", "DISTINCT ", "distinct "]) + ", ".join(
            (self.cond(d + 1) if self.p(0.15) else self.expr(d + 1)) + self.ch(["", "", " AS al", " al2", " as `q r`"]) for _ in range(self.n(1, 3)))
        if self.p(0.88):
            s += " " + self.kw("FROM") + " " + ", ".join(self.tref(d) for _ in range(self.n(1, 2)))
            if (self.d == "HIVE" or self.wild) and self.p(0.15):
                s += " LATERAL VIEW " + self.ch(["", "OUTER "]) + "explode(" + self.nm() + ") " + self.ch(["v", "v", "lv", "`k y`", "`tmp-v`", "`v.1`"]) + " AS " + self.ch(["x1", "x1, x2"])
            for _ in range(self.ch([0, 0, 1, 2])):
                rule = self.ch(["", " ON " + self.cond(d + 1), " USING(a, b)", " on " + self.cond(d + 1), " using(a)"])
                # without an alias the parser takes USING as the alias (C03 finding), so the valid stream always gives one
                tr = self.tref(d, need_alias=rule.lower().startswith(" using") and not self.wild)
                s += (" " + self.ch(["JOIN", "INNER JOIN", "LEFT JOIN", "LEFT OUTER JOIN", "RIGHT JOIN", "FULL OUTER JOIN", "CROSS JOIN", "LEFT SEMI JOIN",
                                      "RIGHT OUTER JOIN", "FULL JOIN", "join", "left join", "RIGHT SEMI JOIN"]) + " " + tr + rule)
            if self.p(0.5): s += " " + self.kw("WHERE") + " " + self.cond(d + 1)
            if self.p(0.3):
                s += " " + self.kw("GROUP") + " BY " + self.ch([", ".join(self.expr(d + 2) for _ in range(self.n(1, 2))) + self.ch(["", "", " WITH ROLLUP", " WITH CUBE", " GROUPING SETS ((a, b), a)", " with rollup"]),
                                                             "GROUPING SETS ((a, b), (a), b)"])
            if self.p(0.2): s += " " + self.kw("HAVING") + " " + self.cond(d + 1)
            if self.p(0.3):
                s += " " + self.kw("ORDER") + " BY " + ", ".join(self.expr(d + 2) + self.ch(["", " ASC", " DESC", " desc"]) + self.w(["", "", " NULLS FIRST", " NULLS LAST", " nulls last"], [" NULLS FIRST NULLS LAST", " NULLS"]) for _ in range(self.n(1, 2)))
            if self.d == "HIVE" or (self.wild and self.p(0.3)):
                if not self.wild and not any(k in s.upper().rsplit(" FROM ", 1)[-1] for k in (" WHERE ", " GROUP BY ", " HAVING ", " ORDER BY ")):
                    s += " WHERE 1 = 1"     # a bare table reference would take SORT / DISTRIBUTE / CLUSTER as its alias
                if self.p(0.1): s += " SORT BY " + self.expr(d + 2) + self.ch(["", " DESC"])
                if self.p(0.1): s += " DISTRIBUTE BY " + self.expr(d + 2)
                if self.p(0.1): s += " CLUSTER BY " + self.expr(d + 2) + self.ch(["", ", b"])
            if self.p(0.3): s += " " + self.kw("LIMIT") + " " + self.w(["5, 10", "10 OFFSET 5", "10", "1", "0,1", "10 offset 0", "3", "007"], ["x", "1.5", "'3'", "", "-1", "1,", "1 OFFSET", "+3"])
        if d > 0 and self.p(0.05): s = "(" + s + ")"
        if self.wild and self.p(0.03): s = "(" + s + ")"
        if self.wild and self.p(0.02): s = "((" + s + "))"
        return s

    def query(self, d=0):
        s = self.select(d)
        for _ in range(self.ch([0, 0, 0, 0, 1, 2])):
            s += " " + self.ch(["UNION", "UNION ALL", "EXCEPT", "INTERSECT", "MINUS", "union all", "union"]) + " " + self.select(d)
        if self.p(0.12):
            s = (self.kw("WITH") + " w AS (" + self.query(d + 1) + ")" + self.ch(["", "", " , w2 AS (" + self.select(d + 1) + ")", ", `w 3` as (" + self.select(d + 1) + ")"]) + " " + s)
        return s

    # -- DDL -------------------------------------------------------------------------------------------
    def coldef(self, i=None):
        name = "`c%d`" % i if i is not None else self.ch(["`c`", "c", "`a b`", "id"])
        attrs = []
        pool = ["NOT NULL", "NULL", "DEFAULT NULL", "DEFAULT '0'", "DEFAULT CURRENT_TIMESTAMP", "AUTO_INCREMENT", "CHARACTER SET utf8", "COLLATE utf8_bin",
                "COMMENT 'c'", "ON UPDATE CURRENT_TIMESTAMP", "UNSIGNED", "ZEROFILL", "DEFAULT 1 + 2", "GENERATED ALWAYS AS (a + 1) VIRTUAL",
                "GENERATED ALWAYS AS (a * 2) STORED", "comment 'x y'", "not null", "DEFAULT -1", "DEFAULT b'0'", "GENERATED ALWAYS AS (a) OTHER"]
        wildpool = ["GENERATED x", "FOO", "DEFAULT", "COMMENT", "CHARACTER utf8", "PRIMARY KEY"]
        for _ in range(self.ch([0, 1, 1, 2, 3])):
            attrs.append(self.w(pool, wildpool))
        return name + " " + self.ch(COLTYPES) + ("" if not attrs else " " + " ".join(attrs))

    def index(self):
        cols = ", ".join(self.ch(["`a`", "b", "`c`(10)", "d(5)"]) for _ in range(self.n(1, 2)))
        tail = self.ch(["", "", " USING BTREE", " COMMENT 'i'", " USING BTREE COMMENT 'i'", " KEY_BLOCK_SIZE = 8", " USING HASH KEY_BLOCK_SIZE = 4", " KEY_BLOCK_SIZE=0", " USING BTREE COMMENT 'i' KEY_BLOCK_SIZE = 0"])
        k = self.r.below(5)
        if k == 0: return "PRIMARY KEY (" + cols + ")" + tail
        if k == 1: return "UNIQUE KEY `uk` (" + cols + ")" + tail
        if k == 2: return "KEY `k1` (" + cols + ")" + tail
        if k == 3: return "FULLTEXT KEY ft (" + cols + ")" + tail
        return ("CONSTRAINT `fk1` FOREIGN KEY (`a`" + self.ch(["", ", b"]) + ") REFERENCES `p` (`id`" + self.ch(["", ", x"]) + ")"
                + self.w(["", " ON DELETE CASCADE", " ON DELETE NO ACTION ON UPDATE SET NULL", " ON UPDATE RESTRICT", " ON DELETE SET NULL", " ON DELETE RESTRICT ON UPDATE CASCADE"], [" ON DELETE SOMETHING", " ON UPDATE CASCADE ON DELETE CASCADE"]))

    def create_table(self):
        if self.p(0.15):
            return "CREATE TABLE " + self.ch(["", "IF NOT EXISTS "]) + self.ch(TABLES) + " AS " + self.query(1)
        elems = [self.coldef(i) for i in range(self.n(1, 4))] + [self.index() for _ in range(self.ch([0, 0, 1, 2]))]
        if self.p(0.3): elems = self.r.shuffle(elems)
        s = "CREATE TABLE " + self.ch(["", "", "IF NOT EXISTS ", "if not exists "]) + self.ch(TABLES) + " (" + ", ".join(elems) + ")"
        opts = ["ENGINE=InnoDB", "ENGINE = MyISAM", "AUTO_INCREMENT=10", "AUTO_INCREMENT=0", "STATS_PERSISTENT=0", "DEFAULT CHARSET=utf8mb4", "COLLATE=utf8_bin", "COMMENT='tc'", "COMMENT 'tc2'",
                "ROW_FORMAT=DYNAMIC", "STATS_PERSISTENT=1", "PARTITIONED BY (`dt` string COMMENT 'p', hr int)", "ROW FORMAT SERDE 'org.x.Serde'",
                "ROW FORMAT DELIMITED FIELDS TERMINATED BY ','", "STORED AS INPUTFORMAT 'in.fmt'", "OUTPUTFORMAT 'out.fmt'", "STORED AS TEXTFILE",
                "LOCATION 'hdfs://x/y'", "TBLPROPERTIES ('a.b'='1', 'c'='d')", "TBLPROPERTIES (k = v, x-y = z.w)", "engine innodb"]
        for _ in range(self.ch([0, 1, 2, 3, 4])):
            s += " " + self.w(opts, ["AUTO_INCREMENT=x", "UNKNOWN_OPT=1", "ENGINE", "TBLPROPERTIES (a)"])
        return s

    def partition(self):
        return self.w(["PARTITION (dt='1')", "PARTITION (dt)", "PARTITION (dt='1', hr=2)", "PARTITION (dt, hr)", "partition (dt >= '1')", "PARTITION ()", "PARTITION (dt = a + 1)"], ["PARTITION (dt='1', hr)", "PARTITION", "PARTITION (dt='1' x)"])

    def alter(self):
        ops = ["ADD " + self.coldef(), "ADD " + self.index(), "MODIFY " + self.coldef(), "CHANGE `old` " + self.coldef(),
               "RENAME COLUMN a TO b", "DROP COLUMN `a`", "DROP " + self.partition(), "DROP IF EXISTS " + self.partition(), "ADD " + self.partition(),
               "ADD IF NOT EXISTS " + self.partition(), "drop column a", "rename column `x` to `y`"]
        # a column definition consumes the rest of the cursor, so it can only come last
        n = self.ch([1, 1, 2])
        parts = []
        for i in range(n):
            o = self.w(ops, ["ADD COLUMN c int", "RENAME a TO b", "MODIFY", "DROP a"])
            if i < n - 1 and not self.wild:
                while o.startswith(("ADD `", "ADD c", "ADD i", "MODIFY", "CHANGE")) and "KEY" not in o and "CONSTRAINT" not in o:
                    o = self.ch(ops)
            parts.append(o)
        return "ALTER TABLE " + self.ch(TABLES) + " " + ", ".join(parts)

    def stmt(self):
        x = self.r.below(100)
        if x < 45: return self.query()
        if x < 56:
            return (self.ch(["", "", "", "WITH w AS (SELECT 1) ", "WITH w AS (SELECT a, b FROM t WHERE b > 1), `w 3` AS (SELECT 2 AS a) ", "with w as (" + self.select(1) + ") "])
                    + "INSERT " + self.ch(["INTO", "IGNORE INTO", "OVERWRITE", "OVERWRITE TABLE", "INTO TABLE", "into", "overwrite table"]) + " " + self.ch(TABLES)
                    + self.ch(["", "", " " + self.partition()]) + self.w(["", " (a, b)", " (`a`, t.b)"], [" (a b)", " ()"]) + " "
                    + self.w(["VALUES (1, 'x'), (2, NULL)", "VALUES (1, 2)", "values (1 + 2, f(3)), (a, b)", self.query(), "VALUES (1, 2) (3, 4)", "VALUES (" + self.expr(1) + ")"], ["VALUES", "(SELECT 1)", "VALUES (1,,2)", "VALUES (1 2)"]))
        if x < 62:
            return ((self.ch(["", "", "", "WITH w AS (SELECT 1) "])) + "UPDATE " + self.ch(TABLES) + " SET a = " + self.expr() + self.ch(["", ", b = " + self.cond(), ", `c` = 1"])
                    + self.ch(["", " WHERE " + self.cond()]) + self.ch(["", " ORDER BY a"]) + self.ch(["", " LIMIT 1, 3", " LIMIT 5", " LIMIT 0", " LIMIT 0, 0"]))
        if x < 67: return "DELETE FROM " + self.ch(TABLES) + self.ch(["", " WHERE " + self.cond()]) + self.ch(["", " ORDER BY a DESC"]) + self.ch(["", " LIMIT 1, 3", " limit 2"])
        if x < 78: return self.create_table()
        if x < 84: return self.alter()
        if x < 86: return "DROP TABLE " + self.ch(["", "IF EXISTS ", "if exists "]) + self.ch(TABLES)
        if x < 88: return "TRUNCATE TABLE " + self.ch(TABLES)
        if x < 90:
            return ("ANALYZE TABLE " + self.ch(TABLES) + self.ch(["", " " + self.partition()]) + self.ch(["", " COMPUTE STATISTICS"]) + self.ch(["", " FOR COLUMNS"])
                    + self.ch(["", " CACHE METADATA"]) + self.ch(["", " NOSCAN"]))
        if x < 92: return "MSCK REPAIR TABLE " + self.ch(TABLES)
        if x < 94: return "USE " + self.w(["db", "`db`", "x1"], ["a.b", ""])
        if x < 97: return "SET " + self.w(["hive.exec.parallel = true", "a=1", "mapred.job-name = x.y", "a.b-c.d = e", "x = 'v'"], ["a", "a = ", "a.=1"])
        return self.w(["SHOW DATABASES", "SHOW TABLES", "show tables", "Show Databases"], ["SHOW COLUMNS FROM t", "SHOW COLUMNS FROM t WHERE a = 1", "SHOW COLUMNS", "SHOW"])

    def script(self):
        n = self.ch([1, 1, 1, 2, 3])
        parts = [self.stmt() for _ in range(n)]
        sep = self.ch([";", "; ", " ;\n", ";\n\n", " ; -- c\n"])
        return sep.join(parts) + (self.w(["", ";", " ;"], [";;", "; ;"]) if n > 1 or self.p(0.3) else "")


# ---------------------------------------------------------------------------------------------------------
# surface rewrites and malformed inputs
# ---------------------------------------------------------------------------------------------------------

SOUP = ["(", ")", "SELECT", "FROM", ",", "x", "1", "JOIN", "BY", "((", "))", "AS", "UNION", "WITH", "LIMIT", "ROWS", "OVER", "[", "]", "'s", "`q", "/*", "*/",
        "--", ";", "NOT", "IN", "IS", "BETWEEN", "AND", "CASE", "WHEN", "END", ".", "*", "-", "=", "CAST", "VALUES", "SET", "KEY", "PARTITION", "#", "\n"]


def mutate(rng, s):
    toks = s.split(" ")
    if len(toks) < 2:
        return s
    k = rng.below(100)
    i = rng.below(len(toks))
    if k < 22: del toks[i]
    elif k < 40: toks.insert(i, toks[i])
    elif k < 60: toks = toks[:i]
    elif k < 72:
        j = rng.below(len(toks)); toks[i], toks[j] = toks[j], toks[i]
    elif k < 90: toks[i] = rng.choice(SOUP)
    else: toks.insert(i, rng.choice(SOUP))
    return " ".join(toks)


def char_prefix(rng, s):
    return s[:rng.below(len(s) + 1)]


def soup(rng, n):
    return " ".join(rng.choice(SOUP + NAMES + LITS) for _ in range(n))


def relayout(rng, s):
    """change blanks between tokens (never inside: only at existing single blanks outside quotes)"""
    out, inq = [], None
    for c in s:
        if inq:
            out.append(c)
            if c == inq: inq = None
            continue
        if c in "'\"`":
            inq = c; out.append(c); continue
        if c == " " and rng.chance(0.3):
            out.append(rng.choice(["  ", "\n", "\t", " /* c */ ", "\r\n", " -- x\n", "　", " # y\n"]))
        else:
            out.append(c)
    return "".join(out)


def nest(rng, depth):
    return "(" * depth + rng.choice(["1", "a", "SELECT 1", "a + 1"]) + ")" * depth
