"""C11 — trees are immutable, hashable values with structural equality; the copy-and-modify helpers.

Stream `nodes`: generated statements of every kind (all dialects) and the repository's own SQL through the `IMM` command: the model
predicts node count, node classes and "immutable, all run-time checks pass"; the implementation performs the run-time checks on EVERY
node at any depth (attribute assignment raises, only immutable field values, hash() succeeds, an independently re-parsed copy is ==
and hashes equal, a copy with one field changed is !=).
Stream `helpers`: generated CREATE TABLE / SELECT statements with random sequences of the five helpers through the `HELP` command:
model and implementation must agree on every result; oracle: a helper returns a node of the same class, leaves the receiver's dump
unchanged, and a hashable receiver gives a hashable result.
"""
import engine as E
import pfam, sqlgen

HELPER = {"swc": "set_with_clauses", "stn": "set_table_name", "ct": "change_type", "ac": "append_column", "apc": "append_partition_by_column"}
COLDEFS = ["z BIGINT", "`y` varchar(20) NOT NULL COMMENT 'n'", "dt STRING", "`p q` int(11) DEFAULT 0", "k decimal(10,2) unsigned", "j json", "g GEOMETRY",
           "`t1` timestamp NULL DEFAULT CURRENT_TIMESTAMP ON UPDATE CURRENT_TIMESTAMP", "e enum('a','b') CHARACTER SET utf8", "hr int COMMENT 'hour'"]
WITHS = ["WITH w AS (SELECT 1)", "WITH w AS (SELECT a FROM t), v AS (SELECT b FROM w)", "WITH `w 1` AS (SELECT a FROM t WHERE b > 1)"]


def hx(s):
    return s.encode("utf-8").hex()


def helper_calls(r, for_table):
    calls = []
    for _ in range(1 + r.below(5)):
        k = r.below(100)
        if k < 22: calls.append("ct:%d" % r.below(2))
        elif k < 44: calls.append("ac:" + hx(r.choice(COLDEFS)))
        elif k < 60: calls.append("apc:" + hx(r.choice(COLDEFS)))
        elif k < 80: calls.append("stn:%s:%s" % (r.choice(["-", hx("db"), hx("s 1")]), hx(r.choice(["u", "t_new", "a.b", "select"]))))
        else: calls.append("swc:" + r.choice(["-"] + [hx(w) for w in WITHS]))
        if not for_table and r.chance(0.7):
            calls[-1] = "swc:" + r.choice(["-"] + [hx(w) for w in WITHS])
    return calls


def judge_help(a, calls):
    """[(signature, detail)] for one HELP answer"""
    if not a.startswith("OK "):
        return []
    toks = a.split(" ")[1:]
    out, hashable = [], True        # the parsed statement is hashable (checked by the `nodes` stream)
    for call, st in zip(calls, toks[:-1]):
        name = HELPER[call.split(":")[0]]
        if st.startswith("E:") or st in ("BADARG", "BADCALL"):
            continue
        _, cls, kept, h = st.split(",", 3)
        if cls != "same":
            out.append(("class:" + name, "%s returned a node of class %s" % (name, cls)))
        if kept != "kept":
            out.append(("receiver-changed:" + name, "%s changed its receiver" % name))
        if hashable and h != "hashable":
            out.append(("unhashable:" + name, "%s on a hashable receiver returned a node that is %s" % (name, h)))
        hashable = h == "hashable"
    return out


def run(ctx):
    r = ctx.rng.fork("c11")
    n_nodes = 2000 if ctx.quick else 60000
    n_help = 1200 if ctx.quick else 25000
    ctx.cov["rule"] = ("nodes: %d generated statements of every kind (sqlgen.Gen.stmt over 7 dialects, 15%% from the wild generator) + the repository's SQL corpus; model and "
                       "implementation agree on node count and node classes; the implementation checks on every node at every depth: setattr raises, field values are "
                       "None/bool/int/str/Enum/tuple/node, no __dict__, hash() succeeds, re-parsed copy == and same hash, one-field variant !=.  helpers: %d generated CREATE "
                       "TABLE / SELECT statements × random sequences (1–5 calls) of set_with_clauses, set_table_name, change_type(HASHMAP_MYSQL_TO_HIVE), append_column, "
                       "append_partition_by_column; model and implementation agree on every call's outcome and on the final tree; oracle per call: same class, receiver's dump "
                       "unchanged, hashable receiver ⇒ hashable result.  distinct_nontrivial = distinct accepted answers" % (n_nodes, n_help))
    ctx.cov["validated_only"] = ["CPython's frozen-dataclass / tuple / enum semantics (setattr raises, structural == and hash): checked on every node of every generated tree, not modelled",
                                 "agreement of the helper models (MsqModel/Helpers.lean) with node.py (sampled)"]
    # ---- nodes
    cases = [(d, t) for d, t in pfam.corpus_statements()] + pfam.regression_cases()
    while len(cases) < n_nodes:
        d = r.choice(pfam.MAIN_DIALECTS)
        g = sqlgen.Gen(r, d, wild=r.chance(0.15))
        cases.append((d, g.stmt() if r.chance(0.8) else g.script()))
    res, _ = ctx.corr(["IMM %s %s" % (d, E.enhex(t)) for d, t in cases], stream="nodes")
    classes = set()
    for (d, t), (_, a, _) in zip(cases, res):
        if not a.startswith("OK "):
            continue
        f = dict(x.split("=", 1) for x in a.split(" ")[1:])
        classes |= set(f["classes"].split(",")) - {""}
        if f["checks"] != "ok" or f["imm"] != "true":
            what = f["checks"] if f["checks"] != "ok" else "type"
            pfam.report(ctx, "node:" + what.split(":")[0], {"kind": "input", "command": "IMM", "dialect": d, "input": t, "observed": a[:400], "detail": what,
                                                          "oracle": "c11: every node rejects assignment, holds immutable values only, hashes, equals its re-parsed copy and differs from a changed copy",
                                                          "how_found": "stream nodes"})
    ctx.cov["distribution"]["node-classes-seen"] = len(classes)
    ctx.cov["node_classes_seen"] = sorted(classes)
    # ---- helpers
    hcases = []
    for f in ctx.findings:
        w = f.get("witness", {})
        if "calls" in w:
            hcases.append((w["dialect"], w["input"], w["calls"]))
    while len(hcases) < n_help:
        d = r.choice(["MYSQL", "MYSQL", "HIVE"])
        g = sqlgen.Gen(r, d, wild=False)
        if r.chance(0.8):
            t = g.create_table()
            hcases.append((d, t, helper_calls(r, True)))
        else:
            hcases.append((d, g.query(), helper_calls(r, False)))
    res, _ = ctx.corr(["HELP %s %s %s" % (d, E.enhex(t), E.enhex(";".join(c))) for d, t, c in hcases], stream="helpers")
    for (d, t, calls), (_, a, _) in zip(hcases, res):
        if a.startswith("OK "):
            for call, st in zip(calls, a.split(" ")[1:-1]):
                ctx.count("helper:" + HELPER[call.split(":")[0]] + ":" + (st.split(",")[0] if not st.startswith("E:") else st))
        for sig, detail in judge_help(a, calls):
            pfam.report(ctx, sig, {"kind": "input", "command": "HELP", "dialect": d, "input": t, "calls": calls, "observed": a[:500], "detail": detail,
                                   "oracle": "c11: a helper returns a node of the same class, leaves the receiver untouched and keeps the result hashable",
                                   "how_found": "stream helpers"})
    for (d, t, calls), (_, a, b) in list(zip(hcases, res))[:4]:
        ctx.sample({"dialect": d, "statement": t[:120], "calls": calls, "impl": a[:200], "model": b[:200]})
    # ---- known findings
    for f in ctx.findings:
        if f.get("status") != "finding":
            continue
        w = f["witness"]
        a = E.run_impl(["HELP %s %s %s" % (w["dialect"], E.enhex(w["input"]), E.enhex(";".join(w["calls"])))])[0]
        if any(sig == f["signature"]["failure"] for sig, _ in judge_help(a, w["calls"])):
            ctx.report_known(f)
    pfam.conclude(ctx)


def replay(payload):
    if payload.get("command") == "HELP":
        a = E.run_impl(["HELP %s %s %s" % (payload["dialect"], E.enhex(payload["input"]), E.enhex(";".join(payload["calls"])))])[0]
        j = judge_help(a, payload["calls"])
        print("statement:", repr(payload["input"])); print("calls:", payload["calls"]); print("implementation:", a[:500]); print("verdict:", j)
        return 1 if j else 0
    a = E.run_impl(["IMM %s %s" % (payload["dialect"], E.enhex(payload["input"]))])[0]
    print("statement:", repr(payload["input"])); print("implementation:", a[:400])
    return 1 if a.startswith("OK ") and ("checks=ok" not in a or "imm=true" not in a) else 0
