"""C11 — trees are immutable, hashable values with structural equality; the copy-and-modify helpers.

Stream `nodes`: generated statements of every kind (all dialects) and the repository's own SQL through the `IMM` command: the model
predicts node count, node classes and "immutable, all run-time checks pass"; the implementation performs the run-time checks on EVERY
node at any depth (attribute assignment raises, only immutable field values, hash() succeeds, an independently re-parsed copy is ==
and hashes equal, a copy with one field changed is !=).
Stream `pools`: a text and its one-token variants (letter case / rename of every word, other literal, keyword, operator and operand swaps) through
the `POOL` command: the model predicts the number of nodes and of distinct structures; the implementation checks for every two nodes at
corresponding positions and for all pairs within a class that `==` ⇔ same class and same canonical dump, `!=` is its negation, `==` ⇒ same
hash, and that a set / dict of all nodes keeps exactly the distinct structures.  Every node class is also checked to have no hand-written
special method (`IMM`, and the `C11.schema_frozen` obligation on the regenerated class table).
Stream `helpers`: generated CREATE TABLE / SELECT statements with random sequences of the five helpers through the `HELP` command:
model and implementation must agree on every result; oracle: a helper returns a node of the same class, leaves the receiver's dump
unchanged, and a hashable receiver gives a hashable result.
"""
import engine as E
import pfam, sqlgen

HELPER = {"swc": "set_with_clauses", "stn": "set_table_name", "ct": "change_type", "ac": "append_column", "apc": "append_partition_by_column"}
COLDEFS = ["z BIGINT", "`y` varchar(20) NOT NULL COMMENT 'n'", "dt STRING", "`p q` int(11) DEFAULT 0", "k decimal(10,2) unsigned", "j json", "g GEOMETRY",
           "`t1` timestamp NULL DEFAULT CURRENT_TIMESTAMP ON UPDATE CURRENT_TIMESTAMP", "e enum('a','b') CHARACTER SET utf8", "hr int COMMENT 'hour'"]
WITHS = ["WITH w AS (SELECT 1)", "WITH w AS (SELECT a FROM t), v AS (SELECT b FROM w)", "WITH `w 1` AS (SELECT a FROM t WHERE b > 1)"]


def hx(s):
    return s.encode("utf-8").hex()


# ---------------------------------------------------------------------------------------------------------------------
# pools of near-identical trees: one text and its one-token variants
# ---------------------------------------------------------------------------------------------------------------------

POOL_BASES = [
    ("MYSQL", "SELECT count(a), s.f(b), CAST(c AS CHAR(3)), CAST(d AS SIGNED INT), EXTRACT(year FROM e), IF(a, 1, 2) FROM t"),
    ("MYSQL", "SELECT t.a AS x, b y, u.* FROM s.t AS u JOIN v w ON t.a = w.a LEFT JOIN z USING (k)"),
    ("MYSQL", "SELECT DISTINCT 1, 'a', TRUE, NULL, x'1F', 2.5 FROM t LIMIT 5, 10"),
    ("MYSQL", "SELECT ROW_NUMBER() OVER (PARTITION BY a ORDER BY b DESC NULLS LAST ROWS BETWEEN 1 PRECEDING AND CURRENT ROW), SUM(x) OVER (ORDER BY y ROWS BETWEEN UNBOUNDED PRECEDING AND 2 FOLLOWING) FROM t"),
    ("MYSQL", "SELECT CASE a WHEN 1 THEN 'x' WHEN 2 THEN 'y' ELSE 'z' END, CASE WHEN b > 1 THEN c ELSE d END FROM t"),
    ("MYSQL", "SELECT a FROM t WHERE a IN (1, 2) AND b NOT IN (SELECT k FROM u) OR c LIKE 'x%' XOR d RLIKE 'r' AND e REGEXP 'g' AND f IS NULL AND g IS NOT NULL AND h BETWEEN 1 AND 9 AND i NOT BETWEEN 2 AND 3 AND EXISTS (SELECT 1 FROM w)"),
    ("MYSQL", "SELECT a + b, c - d, e * f, g / h, i % j, k DIV l, m & n, o | p, q ^ r, s << 2, t >> 3, - u, ~ v, ! w FROM x WHERE a = 1 AND b != 2 AND c < 3 AND d <= 4 AND e > 5 AND f >= 6 AND g <=> 7 AND NOT h"),
    ("MYSQL", "SELECT a, COUNT(DISTINCT b) FROM t GROUP BY a, c WITH ROLLUP HAVING COUNT(b) > 1 ORDER BY a ASC, c DESC LIMIT 3"),
    ("HIVE", "SELECT a FROM t GROUP BY a, b GROUPING SETS ((a, b), (a)) ORDER BY a NULLS FIRST"),
    ("MYSQL", "SELECT a, b, c FROM t GROUP BY GROUPING SETS ((a, b), a, (c), (a, b + 1, c))"),
    ("HIVE", "SELECT a, SUM(x) FROM t GROUP BY a, b WITH CUBE"),
    ("MYSQL", "SELECT CAST(a AS DECIMAL(10, 2)), CAST(b AS CHAR) FROM t WHERE (a, b) IN ((1, 2), (3, 4))"),
    ("MYSQL", "SELECT a FROM t INNER JOIN u ON t.a = u.a RIGHT OUTER JOIN v ON u.b = v.b CROSS JOIN w UNION ALL SELECT b FROM x UNION SELECT c FROM y EXCEPT SELECT d FROM z"),
    ("MYSQL", "WITH w1 AS (SELECT a FROM t), w2 AS (SELECT b FROM w1) SELECT q.a FROM (SELECT a FROM w2) q"),
    ("HIVE", "SELECT a, x, arr[1] FROM t LATERAL VIEW OUTER explode(b) v AS x, y SORT BY a DISTRIBUTE BY b"),
    ("HIVE", "SELECT a FROM t CLUSTER BY a, b"),
    ("MYSQL", "INSERT INTO s.t (a, b) VALUES (1, 'x'), (2, NULL)"),
    ("HIVE", "INSERT OVERWRITE TABLE s.t PARTITION (dt = '1', hr) SELECT a, b FROM u"),
    ("MYSQL", "INSERT IGNORE INTO t SELECT a FROM u"),
    ("MYSQL", "UPDATE s.t SET a = 1, b = c + 2 WHERE d = 3 ORDER BY e LIMIT 4"),
    ("MYSQL", "DELETE FROM s.t WHERE a = 1 ORDER BY b DESC LIMIT 2, 5"),
    ("MYSQL", "CREATE TABLE IF NOT EXISTS s.t (id bigint(20) unsigned zerofill NOT NULL AUTO_INCREMENT COMMENT 'pk', n varchar(32) CHARACTER SET utf8 COLLATE utf8_bin NULL DEFAULT 'x' COMMENT 'name', "
              "g int GENERATED ALWAYS AS (id + 1) VIRTUAL, ts timestamp DEFAULT CURRENT_TIMESTAMP ON UPDATE CURRENT_TIMESTAMP, d decimal(10,2))"),
    ("MYSQL", "CREATE TABLE t (a int, PRIMARY KEY (a), UNIQUE KEY uk (a, b(10)) USING BTREE COMMENT 'u' KEY_BLOCK_SIZE = 8, KEY k1 (c), FULLTEXT KEY ft (d), "
              "CONSTRAINT fk1 FOREIGN KEY (a, b) REFERENCES p (x, y) ON DELETE CASCADE ON UPDATE RESTRICT)"),
    ("MYSQL", "CREATE TABLE t (a int) ENGINE=InnoDB AUTO_INCREMENT=10 DEFAULT CHARSET=utf8mb4 COLLATE=utf8_bin ROW_FORMAT=DYNAMIC STATS_PERSISTENT=1 COMMENT='tc'"),
    ("HIVE", "CREATE TABLE t (a int COMMENT 'c') COMMENT 'tc' PARTITIONED BY (dt string COMMENT 'p') ROW FORMAT SERDE 'org.x.S' STORED AS INPUTFORMAT 'in.f' OUTPUTFORMAT 'out.f' LOCATION 'hdfs://x' TBLPROPERTIES ('k1'='v1', 'k2'='v2')"),
    ("HIVE", "CREATE TABLE t (a int) ROW FORMAT DELIMITED FIELDS TERMINATED BY ',' STORED AS TEXTFILE"),
    ("MYSQL", "CREATE TABLE s.t AS SELECT a FROM u"),
    ("MYSQL", "ALTER TABLE s.t ADD c int COMMENT 'x'"),
    ("MYSQL", "ALTER TABLE t DROP COLUMN a, RENAME COLUMN b TO c, ADD KEY k (d), CHANGE `old` e int"),
    ("HIVE", "ALTER TABLE t ADD IF NOT EXISTS PARTITION (dt = '1')"),
    ("HIVE", "ALTER TABLE t DROP IF EXISTS PARTITION (dt = '1', hr = 2)"),
    ("MYSQL", "ALTER TABLE t MODIFY a varchar(20) NOT NULL"),
    ("MYSQL", "DROP TABLE IF EXISTS s.t; TRUNCATE TABLE s.u; USE db1; SET a.b = c; SHOW TABLES"),
    ("HIVE", "MSCK REPAIR TABLE s.t; ANALYZE TABLE s.u PARTITION (dt = '1') COMPUTE STATISTICS FOR COLUMNS CACHE METADATA NOSCAN; SET hive.exec.parallel = true"),
    ("MYSQL", "SHOW COLUMNS FROM s.t WHERE a = 1"),
]
SWAPS = [("ASC", "DESC"), ("DESC", "ASC"), ("FIRST", "LAST"), ("LAST", "FIRST"), ("PRECEDING", "FOLLOWING"), ("FOLLOWING", "PRECEDING"), ("AND", "OR"), ("OR", "AND"), ("XOR", "OR"),
         ("LEFT", "RIGHT"), ("RIGHT", "LEFT"), ("INNER", "LEFT"), ("CROSS", "INNER"), ("OUTER", ""), ("ALL", ""), ("DISTINCT", ""), ("NOT", ""), ("IGNORE", ""), ("UNION", "EXCEPT"),
         ("EXCEPT", "INTERSECT"), ("ROLLUP", "CUBE"), ("CUBE", "ROLLUP"), ("VIRTUAL", "STORED"), ("STORED", "VIRTUAL"), ("SIGNED", ""), ("UNSIGNED", ""), ("ZEROFILL", ""),
         ("AUTO_INCREMENT", ""), ("NULL", "NOT NULL"), ("LIKE", "RLIKE"), ("RLIKE", "REGEXP"), ("REGEXP", "LIKE"), ("INTO", "OVERWRITE"), ("OVERWRITE", "INTO"), ("UNBOUNDED", "3"),
         ("TEXTFILE", "INPUTFORMAT 'x'"), ("NOSCAN", ""), ("DIV", "MOD"), ("CHAR", "VARCHAR"), ("INT", "DECIMAL"), ("year", "month"), ("CASCADE", "RESTRICT"), ("RESTRICT", "CASCADE"),
         ("BTREE", "HASH"), ("IF EXISTS", ""), ("IF NOT EXISTS", ""), ("FOR COLUMNS", ""), ("CACHE METADATA", ""), ("WITH ROLLUP", ""), ("IS NOT", "IS"), ("IS", "IS NOT"), ("IN", "NOT IN")]
OPS = [(" = ", " <> "), (" != ", " = "), (" < ", " <= "), (" <= ", " < "), (" > ", " >= "), (" >= ", " > "), (" <=> ", " = "), (" + ", " - "), (" - ", " + "), (" * ", " / "),
       (" / ", " * "), (" % ", " * "), (" & ", " | "), (" | ", " & "), (" ^ ", " & "), (" << ", " >> "), (" >> ", " << "), ("- ", "~ "), ("~ ", "- "), ("! ", "- ")]


def single_edits(text):
    """every one-token variant of `text` outside quoted strings / quoted names: letter case, rename, other literal, keyword / operator swap, operand swap"""
    import re
    from props import c09
    out = []

    def put(a, b, new):
        v = text[:a] + new + text[b:]
        if v != text:
            out.append(v)
    for a0, b0 in c09.code_spans(text):
        seg = text[a0:b0]
        for m in re.finditer(r"[A-Za-z_][A-Za-z0-9_]*", seg):
            w, a, b = m.group(0), a0 + m.start(), a0 + m.end()
            put(a, b, w.upper()); put(a, b, w.lower()); put(a, b, w.capitalize())
            put(a, b, w + "_2")
        for m in re.finditer(r"(?<![A-Za-z_0-9.'])\d+(?![A-Za-z_'.])", seg):
            put(a0 + m.start(), a0 + m.end(), str(int(m.group(0)) + 1))
        for old, new in SWAPS:
            for m in re.finditer(r"\b" + old.replace(" ", r"\s+") + r"\b ?", seg):
                put(a0 + m.start(), a0 + m.end(), new + (" " if new else ""))
        for old, new in OPS:
            i = seg.find(old)
            while i >= 0:
                put(a0 + i, a0 + i + len(old), new)
                i = seg.find(old, i + 1)
        for m in re.finditer(r"\b(\w+) (\+|\*|=|AND|OR) (\w+)\b", seg):
            put(a0 + m.start(), a0 + m.end(), "%s %s %s" % (m.group(3), m.group(2), m.group(1)))
    for k, piece, a, b in quoted_pieces(text):
        put(a, b, piece[0] + piece[1:-1] + "2" + piece[-1])
        if any(ch.isalpha() for ch in piece):
            put(a, b, piece.swapcase())
    seen, res = set(), []
    for v in out:
        if v not in seen:
            seen.add(v); res.append(v)
    return res


def quoted_pieces(text):
    from props import c09
    pos, out = 0, []
    for is_code, piece in c09.segments(text):
        if not is_code and len(piece) >= 2:
            out.append((piece[0], piece, pos, pos + len(piece)))
        pos += len(piece)
    return out


def in_parallel(fn, reqs, k=14):
    """heavy requests: `fn` on k slices at once (each slice gets worker processes of its own), results in order"""
    import concurrent.futures
    if not reqs:
        return []
    size = (len(reqs) + k - 1) // k
    chunks = [reqs[i:i + size] for i in range(0, len(reqs), size)]
    with concurrent.futures.ThreadPoolExecutor(len(chunks)) as ex:
        return [x for part in ex.map(fn, chunks) for x in part]


def corr_parallel(ctx, reqs, stream):
    """ctx.corr with the two sides run on slices in parallel"""
    pre = in_parallel(lambda c: E.run_pairs(c), reqs)
    orig = E.run_pairs
    E.run_pairs = lambda r_, cfg=None, jobs=None: pre
    try:
        return ctx.corr(reqs, stream=stream)
    finally:
        E.run_pairs = orig


def pools(r, n_random, per_pool=10):
    """[(dialect, [texts], kind)]: every one-token variant of the systematic bases, and random subsets of the variants of generated statements"""
    out = []
    for d, base in POOL_BASES:
        vs = single_edits(base)
        for i in range(0, len(vs), per_pool):
            out.append((d, [base] + vs[i:i + per_pool] + [base], "systematic"))
    while n_random > 0:
        d = r.choice(pfam.MAIN_DIALECTS)
        base = sqlgen.Gen(r, d, wild=False).stmt()
        vs = single_edits(base)
        if not vs:
            continue
        vs = r.shuffle(vs)[:per_pool]
        out.append((d, [base] + vs + [base], "random"))
        n_random -= 1
    return out


def helper_calls(r, for_table):
    calls = []
    for _ in range(1 + r.below(5)):
        k = r.below(100)
        if k < 22: calls.append("ct:%d" % r.below(2))
        elif k < 44: calls.append("ac:" + hx(r.choice(COLDEFS)))
        elif k < 60: calls.append("apc:" + hx(r.choice(COLDEFS)))
        elif k < 80: calls.append("stn:%s:%s" % (r.choice(["-", hx("db"), hx("s 1")]), hx(r.choice(["u", "t_new", "a.b", "select"]))))
        else: calls.append("swc:" + r.choice(["-"] + [hx(w) for w in WITHS]))
        if not for_table and r.chance(0.7):
            calls[-1] = "swc:" + r.choice(["-"] + [hx(w) for w in WITHS])
    return calls


def judge_help(a, calls):
    """[(signature, detail)] for one HELP answer"""
    if not a.startswith("OK "):
        return []
    toks = a.split(" ")[1:]
    out, hashable = [], True        # the parsed statement is hashable (checked by the `nodes` stream)
    for call, st in zip(calls, toks[:-1]):
        name = HELPER[call.split(":")[0]]
        if st.startswith("E:") or st in ("BADARG", "BADCALL"):
            continue
        _, cls, kept, h = st.split(",", 3)
        if cls != "same":
            out.append(("class:" + name, "%s returned a node of class %s" % (name, cls)))
        if kept != "kept":
            out.append(("receiver-changed:" + name, "%s changed its receiver" % name))
        if hashable and h != "hashable":
            out.append(("unhashable:" + name, "%s on a hashable receiver returned a node that is %s" % (name, h)))
        hashable = h == "hashable"
    return out


def run(ctx):
    r = ctx.rng.fork("c11")
    n_nodes = 2000 if ctx.quick else 60000
    n_help = 1200 if ctx.quick else 25000
    ctx.cov["rule"] = ("nodes: %d generated statements of every kind (sqlgen.Gen.stmt over 7 dialects, 15%% from the wild generator) + the repository's SQL corpus; model and "
                       "implementation agree on node count and node classes; the implementation checks on every node at every depth: setattr raises, field values are "
                       "None/bool/int/str/Enum/tuple/node, no __dict__, no hand-written special method, hash() succeeds, re-parsed copy == and same hash, one-field variant !=.  "
                       "pools: every one-token variant of %d systematic statements (one per statement family / clause family) and random subsets of the variants of generated "
                       "statements, 10 variants per pool: for all pairs of nodes at corresponding positions and all pairs within a class == ⇔ same dump, == ⇒ same hash, set size = "
                       "distinct dumps.  helpers: %d generated CREATE "
                       "TABLE / SELECT statements × random sequences (1–5 calls) of set_with_clauses, set_table_name, change_type(HASHMAP_MYSQL_TO_HIVE), append_column, "
                       "append_partition_by_column; model and implementation agree on every call's outcome and on the final tree; oracle per call: same class, receiver's dump "
                       "unchanged, hashable receiver ⇒ hashable result.  distinct_nontrivial = distinct accepted answers" % (n_nodes, len(POOL_BASES), n_help))
    ctx.cov["validated_only"] = ["CPython's frozen-dataclass / tuple / enum semantics (setattr raises, structural == and hash): checked on every node of every generated tree, not modelled",
                                 "agreement of the helper models (MsqModel/Helpers.lean) with node.py (sampled)"]
    # ---- nodes
    cases = [(d, t) for d, t in pfam.corpus_statements()] + pfam.regression_cases()
    while len(cases) < n_nodes:
        d = r.choice(pfam.MAIN_DIALECTS)
        g = sqlgen.Gen(r, d, wild=r.chance(0.15))
        cases.append((d, g.stmt() if r.chance(0.8) else g.script()))
    res, _ = ctx.corr(["IMM %s %s" % (d, E.enhex(t)) for d, t in cases], stream="nodes")
    classes = set()
    for (d, t), (_, a, _) in zip(cases, res):
        if not a.startswith("OK "):
            continue
        f = dict(x.split("=", 1) for x in a.split(" ")[1:])
        classes |= set(f["classes"].split(",")) - {""}
        if f["checks"] != "ok" or f["imm"] != "true":
            what = f["checks"] if f["checks"] != "ok" else "type"
            pfam.report(ctx, "node:" + what.split(":")[0], {"kind": "input", "command": "IMM", "dialect": d, "input": t, "observed": a[:400], "detail": what,
                                                          "oracle": "c11: every node rejects assignment, holds immutable values only, hashes, equals its re-parsed copy and differs from a changed copy",
                                                          "how_found": "stream nodes"})
    # ---- pools: cross-tree structural equality
    pls = pools(r.fork("pools"), 350 if ctx.quick else 12000)
    for f in ctx.findings:
        w = f.get("witness", {})
        if "pool" in w:
            pls.insert(0, (w["dialect"], list(w["pool"]), "witness"))
    preqs = ["POOL %s %s" % (d, " ".join(E.enhex(t) for t in ts)) for d, ts, _ in pls]
    res, _ = corr_parallel(ctx, preqs, "pools")
    for (d, ts, kind), (_, a, _) in zip(pls, res):
        if not a.startswith("OK "):
            continue
        f = dict(x.split("=", 1) for x in a.split(" ")[1:])
        ctx.count("pool:" + kind + ":" + ("ok" if f["checks"] == "ok" else f["checks"].split(":")[0]))
        ctx.count("pool-texts:accepted", f["t"].split(",").count("P")); ctx.count("pool-texts:rejected", len(ts) - f["t"].split(",").count("P"))
        if f["checks"] != "ok":
            # shrink the pool to two texts
            small, obs = ts, a
            pairs = [[x, y] for i, x in enumerate(ts) for y in ts[i + 1:] if x != y][:120]
            for pr, a2 in zip(pairs, E.run_impl(["POOL %s %s" % (d, " ".join(E.enhex(t) for t in pr)) for pr in pairs])):
                if a2.startswith("OK ") and "checks=ok" not in a2 and a2.split("checks=")[1].split(":")[0] == f["checks"].split(":")[0]:
                    small, obs = pr, a2
                    break
            ck = obs.split("checks=")[1].split(":")
            sig = "pool:" + ck[0] + ("" if ck[0] in ("hash", "raised", "set-size", "dict-size") else ":" + (ck[3] if ck[0] == "eq-vs-structure" and len(ck) > 3 else (ck[1] if len(ck) > 1 else "")))
            pfam.report(ctx, sig, {"kind": "input", "command": "POOL", "dialect": d, "input": small[0], "pool": small, "observed": obs[:300],
                                                                              "detail": obs.split("checks=")[1],
                                                                              "oracle": "c11: two nodes are == exactly when they have the same class and the same canonical dump, equal nodes hash equal, a set keeps exactly the distinct structures",
                                                                              "how_found": "stream pools (%s), shrunk to a pair of texts" % kind})
    cov_reqs = ["PAIRS %s %s" % (d, " ".join(E.enhex(t) for t in ts)) for d, ts, kind in pls if kind == "systematic"] + \
               ["PAIRS %s %s" % (d, " ".join(E.enhex(t) for t in ts)) for d, ts, kind in pls if kind == "random"][:80]
    leaves = set()
    for a in in_parallel(lambda c: E.run_impl(c, jobs=1), cov_reqs):
        if a.startswith("OK ") and "leaves=" in a:
            leaves |= set(a.split("leaves=")[1].split(",")) - {"", "?"}
    ctx.cov["leaf_fields_witnessed_by_one_leaf_pairs"] = sorted(leaves)
    ctx.cov["distribution"]["leaf-fields-witnessed"] = len(leaves)
    try:
        allf = {c["name"] + "." + f_["name"] for c in E.gen_json()["static"]["schema"] for f_ in c["fields"]
                if not c["abstract"] and not any(k in f_["type"] for k in ("AST", "Alias", "Tuple", "Union[")) or (not c["abstract"] and "str" in f_["type"])}
        ctx.cov["leaf_fields_not_witnessed"] = sorted(x for x in allf - leaves if x.split(".")[0] in classes)
    except Exception:
        pass
    ctx.cov["distribution"]["node-classes-seen"] = len(classes)
    ctx.cov["node_classes_seen"] = sorted(classes)
    # ---- helpers
    hcases = []
    for f in ctx.findings:
        w = f.get("witness", {})
        if "calls" in w:
            hcases.append((w["dialect"], w["input"], w["calls"]))
    while len(hcases) < n_help:
        d = r.choice(["MYSQL", "MYSQL", "HIVE"])
        g = sqlgen.Gen(r, d, wild=False)
        if r.chance(0.8):
            t = g.create_table()
            hcases.append((d, t, helper_calls(r, True)))
        else:
            hcases.append((d, g.query(), helper_calls(r, False)))
    res, _ = ctx.corr(["HELP %s %s %s" % (d, E.enhex(t), E.enhex(";".join(c))) for d, t, c in hcases], stream="helpers")
    for (d, t, calls), (_, a, _) in zip(hcases, res):
        if a.startswith("OK "):
            for call, st in zip(calls, a.split(" ")[1:-1]):
                ctx.count("helper:" + HELPER[call.split(":")[0]] + ":" + (st.split(",")[0] if not st.startswith("E:") else st))
        for sig, detail in judge_help(a, calls):
            pfam.report(ctx, sig, {"kind": "input", "command": "HELP", "dialect": d, "input": t, "calls": calls, "observed": a[:500], "detail": detail,
                                   "oracle": "c11: a helper returns a node of the same class, leaves the receiver untouched and keeps the result hashable",
                                   "how_found": "stream helpers"})
    for (d, t, calls), (_, a, b) in list(zip(hcases, res))[:4]:
        ctx.sample({"dialect": d, "statement": t[:120], "calls": calls, "impl": a[:200], "model": b[:200]})
    # ---- known findings
    for f in ctx.findings:
        if f.get("status") != "finding":
            continue
        w = f["witness"]
        a = E.run_impl(["HELP %s %s %s" % (w["dialect"], E.enhex(w["input"]), E.enhex(";".join(w["calls"])))])[0]
        if any(sig == f["signature"]["failure"] for sig, _ in judge_help(a, w["calls"])):
            ctx.report_known(f)
    pfam.conclude(ctx)


def replay(payload):
    if payload.get("command") == "HELP":
        a = E.run_impl(["HELP %s %s %s" % (payload["dialect"], E.enhex(payload["input"]), E.enhex(";".join(payload["calls"])))])[0]
        j = judge_help(a, payload["calls"])
        print("statement:", repr(payload["input"])); print("calls:", payload["calls"]); print("implementation:", a[:500]); print("verdict:", j)
        return 1 if j else 0
    if payload.get("command") == "POOL":
        a = E.run_impl(["POOL %s %s" % (payload["dialect"], " ".join(E.enhex(t) for t in payload["pool"]))])[0]
        print("pool:", payload["pool"]); print("implementation:", a[:400])
        return 1 if a.startswith("OK ") and "checks=ok" not in a else 0
    a = E.run_impl(["IMM %s %s" % (payload["dialect"], E.enhex(payload["input"]))])[0]
    print("statement:", repr(payload["input"])); print("implementation:", a[:400])
    return 1 if a.startswith("OK ") and ("checks=ok" not in a or "imm=true" not in a) else 0
