"""C08 — no part of an accepted statement is silently ignored."""
import engine as E
import pfam, sqlgen
from props import c09

FRESH = "zzq9"


def boundaries(text):
    """token boundaries outside quoted text: every blank, and both sides of every bracket and comma"""
    out, pos = set(), 0
    for code, piece in c09.segments(text):
        if code:
            for i, c in enumerate(piece):
                if c == " ":
                    out.add(pos + i)
                elif c in "()[],":
                    out.add(pos + i); out.add(pos + i + 1)
        pos += len(piece)
    return sorted(out)


ATTRS = ["DEFAULT", "COMMENT", "COLLATE", "CHARACTER SET", "GENERATED", "ENGINE", "AUTO_INCREMENT", "CHARSET", "ROW_FORMAT", "STATS_PERSISTENT", "ON UPDATE", "LOCATION",
         "OUTPUTFORMAT", "INPUTFORMAT", "SERDE", "TERMINATED BY", "KEY_BLOCK_SIZE", "USING", "PRIMARY KEY", "NULL", "ZEROFILL", "UNSIGNED"]


def classify(d, text, answer):
    """attribute an accounting difference to a listed defect, by what the statement contains"""
    from props import c06
    import re
    # the whitespace pre-pass acts on input and printed text alike, so it can never cause an accounting difference
    cls = c06.finding_class(d, [text.replace("\t", " ").replace("\r\n", "\n").replace("\u3000", " ")])
    if cls:
        return cls
    # comments and blank runs of any kind between the words of an attribute do not matter
    up = re.sub(r"[ \t\r\n\u3000]+", " ", re.sub(r"/\*.*?\*/|--[^\n]*|#[^\n]*", " ", text, flags=re.S)).upper()
    if up.lstrip().startswith(("CREATE", "ALTER")) and any(len(re.findall(r"\b" + k + r"\b", up)) >= 2 for k in ATTRS):
        return "repeated-attribute-overwritten"
    if re.search(r"gained=\[[^\]]*%28;", answer):
        return "bracket-group-taken-as-name"
    return None


def run(ctx):
    n = 2500 if ctx.quick else 60000
    ctx.cov["rule"] = ("(a) accounting: generated and corpus statements of every kind, printed in the dialect they were written in (where the dialect's printer supports the tree): "
                       "the multiset of identifiers and literals of the input (NAME / LITERAL tokens that are not grammar keywords) must equal that of the printed text — the input cut into tokens both by the library's lexer and by the independent reference tokenizer (what was WRITTEN, whatever the lexer makes of it); "
                       "(b) stray token: the fresh identifier %s (or a fresh literal) inserted at a random token boundary of a valid text must give an error or a tree that "
                       "contains it; correspondence on every parse. distinct_nontrivial = distinct accepted trees" % FRESH)
    r = ctx.rng.fork("c08")
    cases = [(d, t, "regression") for d, t in pfam.regression_cases("C08")] + [(d, t, "corpus") for d, t in pfam.corpus_statements()]
    cases += pfam.scripts(r, n, wild=0.0, single=True)
    cases += [(d, t, "tree-first") for d, t in pfam.tree_texts(ctx.rng.fork("trees"), 100 if ctx.quick else 2500)]
    # every ACCEPTED token sequence up to a length over the small alphabets (tools/harness/smallscope.py), element-level ones wrapped into statements: accounted
    # like any other text — an option the parser reads in a second position and then overwrites, a repeated clause, a word taken for something else
    import smallscope
    cases += smallscope.accepted_statements(ctx, ["calls-case", "special-calls", "ddl-column", "ddl-column-2", "ddl-index", "ddl-fk", "select-clauses", "joins", "dml", "update-delete"])
    # the same statements with comments written between their tokens (two or three per text, of every shape incl. star runs before the closing slash, empty
    # comments, comment openers inside comments): nothing but the comments may disappear — judged against the reference tokenizer's reading of the text
    import lexstreams
    closed = [c for c in lexstreams.COMMENTS if c.endswith(("*/", "\n"))]
    rc = ctx.rng.fork("commented")
    base = [c for c in cases if c[2] not in ("regression", "corpus") and not c[2].startswith("small-scope") and len(c[1]) < 600 and not any(k in c[1] for k in ("/*", "--", "#"))]
    for d, t, _ in rc.shuffle(base)[: 500 if ctx.quick else 12000]:
        bs = boundaries(t)
        if len(bs) < 2:
            continue
        for b in sorted(rc.shuffle(bs)[: 2 + rc.below(2)], reverse=True):
            t = t[:b] + " " + rc.choice(closed) + " " + t[b:]
        cases.append((d, t, "commented"))
    res, _ = ctx.corr([pfam.req_parse(d, t) for d, t, _ in cases], stream="parse")
    acc = E.run_impl(["ACC %s %s" % (d, E.enhex(t)) for d, t, _ in cases])
    # the printed text of the small-scope statements whose accounting differs, in ONE batch (a process per case costs ~0.3 s)
    ss_diff = [(d, t) for (d, t, kind), a in zip(cases, acc) if kind.startswith("small-scope:") and a.startswith("OK differs")]
    printed_ss = dict(zip(ss_diff, E.run_impl([pfam.req_print(d, d, t) for d, t in ss_diff])))
    for (d, t, kind), a in zip(cases, acc):
        k = a.split(" ")[1] if a.startswith("OK ") else a.split(" ")[0]
        ctx.count("accounting:" + k.split(":")[0])
        if a.startswith("OK differs-from-the-written-text"):
            # the library's lexer and the reference tokenizer cut the INPUT differently: token grammar is C05's business where a listed departure explains it
            from props import c05
            import reflex
            if c05.hash_in_word(reflex.normalise(t)):
                ctx.count("accounting:lexers-differ:hash-in-word(F-C05-1)"); continue
        if kind.startswith("small-scope:") and a.startswith("OK differs"):
            # enumerated sequences put words where nobody writes them; two readings are not losses and are counted apart: a punctuation / operator token taken as a
            # column name (`SELECT , FROM t` gives the column `,`: the element rule accepts any token — nothing written is lost, a name is GAINED), and a literal word
            # (NULL / TRUE / FALSE) in a name position (`CREATE TABLE t (NULL c)`: stored and printed as the name `NULL` — the literal is "lost", the name is there)
            import re as _re
            mm = _re.search(r"lost=\[([^\]]*)\] gained=\[([^\]]*)\]", a)
            lost_ = [w for w in (mm.group(1).split(",") if mm else []) if w]
            if not lost_:
                ctx.count("accounting:small-scope:gained-only(any-token-as-name)"); continue
            if all(w.upper() in ("NULL", "TRUE", "FALSE") for w in lost_):
                ctx.count("accounting:small-scope:literal-word-as-name"); continue
            # a token where a bracket group is expected is consumed as an EMPTY group (F-C08-6): the printed statement shows a `()` the input does not have
            pr_ = printed_ss.get((d, t), "")
            if pr_.count("%28;%29;") > "".join(t.split()).count("()"):
                pfam.report(ctx, "word-before-bracket-group", {"kind": "input", "entry": "parse_statements + source", "dialect": d, "input": t, "observed": a[:400],
                                                               "oracle": "c08: every identifier and literal of the input appears the same number of times in the printed statement", "how_found": "stream " + kind})
                continue
        if a.startswith("OK differs") or a.startswith("OK printed-text-does-not-lex"):
            what = "lost" if "lost=[]" not in a else "gained"
            cls = classify(d, t, a)
            pfam.report(ctx, cls if cls else "accounting:" + (what if a.startswith("OK differs") else "unlexable"),
                        {"kind": "input", "entry": "parse_statements + source", "dialect": d, "input": t, "observed": a[:400],
                         "oracle": "c08: every identifier and literal of the input appears the same number of times in the printed statement", "how_found": "stream " + kind})
    # stray token
    stray = []
    for (d, t, kind), (_, a, _) in zip(cases, res):
        if not a.startswith("OK") or len(t) > 1500 or any(k in t for k in ("/*", "--", "#")) or kind.startswith("small-scope"):
            continue        # a token inserted inside a comment is rightly invisible
        bs = boundaries(t)
        if not bs:
            continue
        for _ in range(4):
            b = r.choice(bs)
            tok = FRESH if r.chance(0.7) else r.choice(["'" + FRESH + "'", "90417"])
            stray.append((d, t[:b] + " " + tok + " " + t[b:], tok.strip("'"), a, t))
        # a stray BRACKET GROUP holding the fresh token: at a random boundary, and next to every bracket that is already there (a second subscript, a second
        # argument list, a second column list: a parser that loops over groups where it should take one keeps only one of them)
        for o, c in (("[", "]"), ("(", ")")):
            spots = [i for i, ch_ in enumerate(t) if ch_ == o][:3] + [i + 1 for i, ch_ in enumerate(t) if ch_ == c][:3]
            if "'" in t or '"' in t or "`" in t:
                spots = [i for i in spots if i in bs]        # inside a quoted region a bracket is not a bracket
            for b in spots[:4] + [r.choice(bs)]:
                tok = r.choice([FRESH, "90417"])
                stray.append((d, t[:b] + " " + o + tok + c + " " + t[b:], tok, a, t))
    rs, _ = ctx.corr([pfam.req_parse(d, t) for d, t, _, _, _ in stray], stream="stray")
    # an accepted text with a stray token is a text like any other: everything else written in it must still be accounted for
    acc_idx = [i for i, (_, a, _) in enumerate(rs) if a.startswith("OK")]
    acc2 = dict(zip(acc_idx, E.run_impl(["ACC %s %s" % (stray[i][0], E.enhex(stray[i][1])) for i in acc_idx])))
    for i, ((d, t, tok, base, orig), (_, a, _)) in enumerate(zip(stray, rs)):
        if not a.startswith("OK"):
            ctx.count("stray:rejected"); continue
        x = acc2.get(i, "")
        import re as _re
        lost = [w for w in (_re.search(r"lost=\[([^\]]*)\]", x).group(1).split(",") if x.startswith("OK differs") and "lost=[" in x else []) if w and w != tok]
        shown = tok if (" " + tok + " ") in t else "'" + tok + "'"          # the stray is inserted as a word or as a quoted literal
        word_before_group = (" " + shown + " ") in t and t.split(" " + shown + " ", 1)[-1].lstrip().startswith("(")
        if lost and "differs-from-the-written-text" not in x and classify(d, t, x) is None and classify(d, orig, "") is None:
            ctx.count("stray:accepted-but-something-else-lost")
            pfam.report(ctx, "word-before-bracket-group" if word_before_group else "accounting:lost", {"kind": "input", "entry": "parse_statements + source", "dialect": d, "input": t, "original": orig, "observed": x[:400],
                                                 "oracle": "c08: every identifier and literal of the input appears the same number of times in the printed statement", "how_found": "stream stray"})
            continue
        if tok in a:
            ctx.count("stray:represented"); continue
        ctx.count("stray:IGNORED")
        after = t.split(" " + (tok if (" " + tok + " ") in t else "'" + tok + "'") + " ", 1)[-1].lstrip()
        cls = classify(d, t, "")
        pfam.report(ctx, "word-before-bracket-group" if after.startswith("(") else cls if cls else "stray-token-ignored" + (":unchanged" if a == base else ""),
                    {"kind": "input", "entry": "parse_statements", "dialect": d, "input": t, "original": orig, "observed": a[:400],
                     "oracle": "c08: an inserted token must be rejected or be represented in the tree", "how_found": "stream stray"})
    for f in ctx.findings:
        if f.get("status") == "finding":
            w = f["witness"]
            if "stray" in w:
                x = E.run_impl([pfam.req_parse(w["dialect"], w["input"])])[0]
                if x.startswith("OK") and w["stray"] not in x:
                    ctx.report_known(f)
            else:
                x = E.run_impl(["ACC %s %s" % (w["dialect"], E.enhex(w["input"]))])[0]
                if x.startswith("OK differs"):
                    ctx.report_known(f)
    for c_ in stray[:3]:
        ctx.sample({"dialect": c_[0], "with_stray_token": c_[1][:200]})
    pfam.conclude(ctx)


def replay(payload):
    a = E.run_impl([pfam.req_parse(payload["dialect"], payload["input"]), "ACC %s %s" % (payload["dialect"], E.enhex(payload["input"]))])
    print(repr(payload["input"])); print(a[0][:300]); print(a[1][:300])
    return 1
