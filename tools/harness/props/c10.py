"""C10 — a script parses to the concatenation of its statements."""
import engine as E
import pfam, sqlgen

SEPS = [";", "; ", " ;\n", ";\n\n", " ; -- c\n", ";/* x */", "\n;\n", ";\t", " ;# y\n"]
TRICKY = ["SELECT 'a;b' FROM t", "SELECT `x;y` FROM t", "SELECT a FROM t -- c;d\n", "SELECT (SELECT ';') FROM t", "SELECT a /* ; */ FROM t",
          "INSERT INTO t VALUES (';', 1)", "SET a = b", "SET mapred.job-name = x.y", "USE db", "UPDATE t SET a = ';'", "SELECT f(';', \";\")"]


def items(dump):
    """'OK 0 L[a,b]' -> the text between the brackets"""
    assert dump.startswith("OK 0 L[") and dump.endswith("]"), dump[:40]
    return dump[len("OK 0 L["):-1]


def truncations(r, cand, limit):
    """near-miss texts: generated statements with their last 1–3 words cut off (quote- and comment-free statements only, so that the cut never opens a
    literal or a comment that would swallow the separator).  Most are rejected on their own and drop out of the pool; the ones the implementation ACCEPTS
    on their own are exactly the texts whose end is decided by 'nothing follows', the decision a separator must not change"""
    out = []
    plain = [c for c in cand if "#" not in c and "--" not in c and "/*" not in c]
    for c in plain:
        words = c.split(" ")
        for k in (1, 2, 3):
            t = " ".join(words[:-k])
            if len(words) > k + 1 and len(out) < limit * 6 and all(t.count(q) % 2 == 0 for q in "'\"`") and t.count("(") == t.count(")"):
                out.append(t)
    r.shuffle(out)
    return list(dict.fromkeys(out))[:limit]


def run(ctx):
    n = 1200 if ctx.quick else 30000
    ctx.cov["rule"] = ("sequences (length 1–6, all kinds mixed) of generated statements that each parse on their own and do not end in a semicolon, plus fixed statements with "
                       "semicolons inside strings / names / comments / brackets, plus the same statements with their last 1–3 words cut off (kept when they parse on their own), joined with %d separator layouts, with and without a final semicolon, per dialect; "
                       "correspondence on every stand-alone parse and every script; oracle: the script's statement list equals the concatenation of the stand-alone lists. "
                       "distinct_nontrivial = distinct accepted scripts" % len(SEPS))
    r = ctx.rng.fork("c10")
    pool = {}
    for d in ("MYSQL", "HIVE", "DEFAULT", "DB2"):
        cand = [sqlgen.Gen(r, d, wild=False).stmt() for _ in range(n // 2)] + TRICKY
        g = sqlgen.Gen(r, d, wild=False)
        cand += [g.alter() for _ in range(n // 6)] + [g.create_table() for _ in range(n // 12)]
        cand = [c for c in cand if not c.rstrip().endswith(";")]
        cand += truncations(r, cand, n // 2)
        ans = [x[1] for x in ctx.corr([pfam.req_parse(d, c) for c in cand], stream="stand-alone")[0]]
        pool[d] = [(c, a) for c, a in zip(cand, ans) if a.startswith("OK 0 L[") and a != "OK 0 L[]"]
    scripts = []
    for i in range(n):
        d = r.choice(list(pool))
        k = 1 + r.below(6) if not r.chance(0.3) else 2
        parts = [r.choice(pool[d]) for _ in range(k)]
        text = ""
        for j, (c, a) in enumerate(parts):
            text += c + (r.choice(SEPS) if j < k - 1 else r.choice(["", "", ";", " ;", ";\n", " ; "]))
        scripts.append((d, text, ",".join(items(a) for _, a in parts), [c for c, _ in parts]))
    res, bad = ctx.corr([pfam.req_parse(d, t) for d, t, _, _ in scripts], stream="scripts")
    for (req, a, b), (d, t, want, parts) in zip(res, scripts):
        ok = a.startswith("OK 0 L[") and items(a) == want
        ctx.count("script:" + ("concatenation" if ok else a.split(" ")[0]))
        if not ok:
            sig = "rejected:" + a.split(" ")[0] if not a.startswith("OK") else "differs"
            pfam.report(ctx, sig, {"kind": "input", "entry": "parse_statements", "dialect": d, "input": t, "parts": parts, "observed": a[:400],
                                   "oracle": "c10: script must parse to the concatenation of the stand-alone parses", "how_found": "stream scripts"})
    for (req, a, b), s_ in list(zip(res, scripts))[:5]:
        ctx.sample({"dialect": s_[0], "script": s_[1][:200], "statements": len(s_[3]), "impl": a[:100]})
    pfam.conclude(ctx)


def replay(payload):
    d = payload["dialect"]
    alone = E.run_impl([pfam.req_parse(d, c) for c in payload["parts"]])
    a = E.run_impl([pfam.req_parse(d, payload["input"])])[0]
    want = ",".join(items(x) for x in alone)
    print("script:", repr(payload["input"])); print("implementation:", a[:300])
    return 0 if a.startswith("OK 0 L[") and items(a) == want else 1
