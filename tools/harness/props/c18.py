"""C18 — MySQL → Hive table conversion preserves the schema.

A dedicated generator builds MySQL CREATE TABLE statements from a structured description (so the check knows what every statement
declares without asking the parser): every catalogued column type with and without parameters and in every letter case, every column
attribute, keys, constraints, table options, quoted / qualified / odd names, tricky comments — systematically (one table per type ×
parameters, per attribute, per key kind, per option, per name shape) and at random; each with a helper sequence (change_type with the
shipped map, set_table_name, append_column, append_partition_by_column).  `CONV` runs on model and implementation (correspondence);
the oracle judges the implementation: the parser read what the DDL declares, each helper changed exactly its component, the Hive DDL
re-parses and declares the table name, the columns in order with their comments, the mapped types with parameters exactly where Hive
has them, the partition columns and the table comment; the MySQL DDL re-parses to the edited table.
"""
import engine as E
import pfam
from canon import q

HIVE_KEEPS = ("DECIMAL", "VARCHAR", "CHAR")
OUTSIDE_TYPES = [("NUMERIC", ["10", "2"]), ("GEOMETRY", None), ("POINT", None), ("NVARCHAR", ["20"]), ("FIXED", ["5", "1"]), ("SERIAL", None), ("LONG", None)]
MAP_ONLY_TYPES = [("JSON", None), ("BINARY", ["8"]), ("VARBINARY", ["16"])]
COL_NAMES = ["id", "c1", "user_name", "`id`", "`a b`", "`order`", "Amount", "`名前`", "`a.b`", "`x-y`", "_u", "`1st`", "dt", "`KEY`", "n2"]
TABLE_NAMES = [("t", None, "t"), ("db.t", "db", "t"), ("`t`", None, "t"), ("`db`.`t`", "db", "t"), ("`db.t`", "db", "t"), ("`my table`", None, "my table"),
               ("T1", None, "T1"), ("`select`", None, "select"), ("db.`t-1`", "db", "t-1"), ("`d b`.t2", "d b", "t2"), ("`表`", None, "表")]
DOTTED_TABLE_NAMES = [("`s`.`a.b`", "s", "a.b"), ("`a.b.c`", None, "a.b.c"), ("s.`x.y`", "s", "x.y")]
COMMENTS = ["'c'", "'user name'", "'it''s'", "\"dq\"", "'a,b'", "'(x)'", "'a;b'", "'-- not a comment'", "'名前'", "'a\\'b'", "''", "'COMMENT'", "'a`b'", "'50%'", "'a:b|c~d'", "'tab\\tx'", "'ratio a==b'", "'=='"]
ATTRS = ["UNSIGNED", "ZEROFILL", "UNSIGNED ZEROFILL", "CHARACTER SET utf8mb4", "COLLATE utf8mb4_bin", "CHARACTER SET utf8 COLLATE utf8_general_ci", "NULL", "NOT NULL", "AUTO_INCREMENT",
         "DEFAULT NULL", "DEFAULT 0", "DEFAULT '0'", "DEFAULT -1", "DEFAULT 1.5", "DEFAULT 'x y'", "DEFAULT CURRENT_TIMESTAMP", "DEFAULT b'0'", "DEFAULT (1 + 2)", "DEFAULT 1 + 2",
         "ON UPDATE CURRENT_TIMESTAMP", "DEFAULT CURRENT_TIMESTAMP ON UPDATE CURRENT_TIMESTAMP", "GENERATED ALWAYS AS (c1 + 1) VIRTUAL", "GENERATED ALWAYS AS (concat(a, 'x')) STORED",
         "NOT NULL DEFAULT ''", "not null", "default null", "unsigned", "NOT NULL AUTO_INCREMENT", "NULL DEFAULT NULL"]
KEYS = ["PRIMARY KEY (`id`)", "PRIMARY KEY (`id`, c1)", "PRIMARY KEY (`id`) USING BTREE", "UNIQUE KEY `uk` (`c1`)", "UNIQUE KEY uk2 (c1, `id`) USING HASH", "KEY `k1` (`c1`(10))",
        "KEY k2 (c1) COMMENT 'idx'", "KEY `k3` (`c1`) USING BTREE COMMENT 'i' KEY_BLOCK_SIZE = 8", "FULLTEXT KEY `ft` (`c1`)", "CONSTRAINT `fk1` FOREIGN KEY (`id`) REFERENCES `p` (`id`)",
        "CONSTRAINT fk2 FOREIGN KEY (`id`, c1) REFERENCES `p` (`a`, `b`) ON DELETE CASCADE", "CONSTRAINT `fk3` FOREIGN KEY (`id`) REFERENCES `p` (`id`) ON DELETE SET NULL ON UPDATE RESTRICT",
        "CONSTRAINT `fk4` FOREIGN KEY (`id`) REFERENCES `p` (`id`) ON UPDATE NO ACTION"]
OPTIONS = ["ENGINE=InnoDB", "ENGINE = MyISAM", "AUTO_INCREMENT=100", "DEFAULT CHARSET=utf8mb4", "COLLATE=utf8mb4_bin", "ROW_FORMAT=DYNAMIC", "STATS_PERSISTENT=1", "engine=innodb",
           "ENGINE=InnoDB AUTO_INCREMENT=7 DEFAULT CHARSET=utf8 COLLATE=utf8_bin ROW_FORMAT=COMPACT"]


class Col:
    def __init__(self, name_src, type_name, params, attrs, comment):
        self.name_src, self.type_name, self.params, self.attrs, self.comment = name_src, type_name, params, attrs, comment

    @property
    def name(self):
        return self.name_src.strip("`")

    def text(self):
        t = self.type_name + ("(" + ",".join(self.params) + ")" if self.params is not None else "")
        return " ".join([self.name_src, t] + self.attrs + (["COMMENT " + self.comment] if self.comment is not None else []))

    def view(self):
        return (self.name, self.type_name, None if self.params is None else list(self.params), self.comment)


def catalogue():
    st = E.gen_json()["static"]
    return [(n, lo, hi) for n, lo, hi in st["mysqlDataTypes"]], dict(st["mysqlToHive"])


def params_for(r, name, lo, hi, want):
    """literal sources of the type parameters, or None for no parentheses"""
    if not want and lo == 0:
        return None
    if hi == 0:
        return None
    if name in ("ENUM", "SET"):
        return r.choice([["'a'", "'b'"], ["'x'"], ["'a b'", "'c,d'", "'e'"]])
    n = max(lo, 1) if hi == 1 else r.choice([k for k in range(max(lo, 1), min(hi, 2) + 1)])
    return [r.choice(["10", "1", "20", "255", "3"])] + ([r.choice(["2", "0"])] if n == 2 else [])


def recase(r, s):
    return r.choice([s, s, s.lower(), s.lower(), s.capitalize()])


class Table:
    def __init__(self, name, cols, keys, options, parts, comment, ine=False):
        self.name, self.cols, self.keys, self.options, self.parts, self.comment, self.ine = name, cols, keys, options, parts, comment, ine

    def text(self, r=None):
        elems = [c.text() for c in self.cols] + list(self.keys)
        s = "CREATE TABLE " + ("IF NOT EXISTS " if self.ine else "") + self.name[0] + " (" + ", ".join(elems) + ")"
        tail = list(self.options)
        if self.comment is not None:
            tail.append(("COMMENT=" if (r is None or r.chance(0.7)) else "COMMENT ") + self.comment)
        if self.parts:
            tail.append("PARTITIONED BY (" + ", ".join(c.text() for c in self.parts) + ")")
        return s + ("" if not tail else " " + " ".join(tail))

    def view(self):
        return (self.name[1], self.name[2], [c.view() for c in self.cols], [c.view() for c in self.parts], self.comment)


def gen_tables(ctx, r, n_random):
    """[(kind, Table)]: the systematic part first"""
    cat, _ = catalogue()
    out = []
    base = lambda: [Col("`id`", "bigint", ["20"], ["NOT NULL"], None), Col("c1", "varchar", ["32"], [], "'c'")]
    for name, lo, hi in cat:                                   # every catalogued type, with and without parameters, three letter cases
        for want in (False, True):
            for nm in (name, name.lower(), name.capitalize()):
                out.append(("type", Table(("t", None, "t"), [Col("`id`", "bigint", ["20"], [], None), Col("`v`", nm, params_for(r, name, lo, hi, want), [], "'v'")], [], [], [], None)))
    for name, ps in MAP_ONLY_TYPES + OUTSIDE_TYPES:
        out.append(("type-outside-catalogue", Table(("t", None, "t"), [Col("`v`", name, ps, [], None), Col("w", "int", None, [], None)], [], [], [], None)))
    for name, ps in [("datetime", ["6"]), ("timestamp", ["3"]), ("time", ["3"]), ("double", ["10", "2"]), ("float", ["7", "3"]), ("year", ["4"])]:
        out.append(("type-extra-params", Table(("t", None, "t"), [Col("`v`", name, ps, [], "'fsp'")], [], [], [], None)))
    for a in ATTRS:                                            # every column attribute
        ty = ("timestamp", None) if "TIMESTAMP" in a.upper() else (("varchar", ["20"]) if "CHARACTER" in a or "COLLATE" in a or "''" in a or "'x y'" in a else ("int", ["11"]))
        out.append(("attribute", Table(("t", None, "t"), [Col("c1", "int", None, [], None), Col("`a`", ty[0], ty[1], [a], r.choice([None, "'after attr'"]))], [], [], [], None)))
    for k in KEYS:
        out.append(("key", Table(("t", None, "t"), base(), [k], [], [], None)))
    for o in OPTIONS:
        out.append(("option", Table(("t", None, "t"), base(), [], [o], [], r.choice([None, "'tc'"]))))
    for c in COMMENTS:
        out.append(("comment", Table(("t", None, "t"), [Col("`id`", "int", None, [], c)], [], [], [], c)))
    for nm in TABLE_NAMES + DOTTED_TABLE_NAMES:
        out.append(("table-name", Table(nm, base(), [], [], [], None, ine=r.chance(0.3))))
    for cn in COL_NAMES:
        out.append(("column-name", Table(("t", None, "t"), [Col(cn, "int", ["11"], [], "'n'"), Col("z", "text", None, [], None)], [], [], [], None)))
    out.append(("partitioned", Table(("t", None, "t"), base(), [], [], [Col("dt", "string", None, [], "'day'"), Col("`hr`", "int", None, [], None)], "'p'")))
    # partition columns of EVERY catalogued type, with and without parameters, by both routes: a parsed PARTITIONED BY and append_partition_by_column
    for name, lo, hi in cat:
        for want in (False, True):
            pc = Col("`p`", r.choice([name, name.lower()]), params_for(r, name, lo, hi, want), [], r.choice([None, "'part'"]))
            out.append(("partition-type:parsed", Table(("t", None, "t"), base(), [], [], [Col("dt", "string", None, [], None), pc], None)))
            out.append(("partition-type:helper", Table(("t", None, "t"), base(), [], [], [], None), [("apc", pc)]))
            out.append(("partition-type:helper", Table(("t", None, "t"), base(), [], [], [Col("dt", "string", None, [], None)], None), [("ct", 0), ("apc", pc), ("stn", NEW_NAMES[1])]))
    for name, ps in [("datetime", ["3"]), ("timestamp", ["6"]), ("time", ["3"]), ("double", ["10", "2"])]:
        pc = Col("`p`", name, ps, [], None)
        out.append(("partition-type:parsed", Table(("t", None, "t"), base(), [], [], [pc], None)))
        out.append(("partition-type:helper", Table(("t", None, "t"), base(), [], [], [], None), [("apc", pc)]))
    for _ in range(n_random):
        cols, used = [], set()
        for i in range(1 + r.below(6)):
            cn = r.choice(COL_NAMES)
            if cn.strip("`").lower() in used:
                cn = "c_%d" % i
            used.add(cn.strip("`").lower())
            if r.chance(0.06):
                name, ps = r.choice(MAP_ONLY_TYPES + OUTSIDE_TYPES)
            else:
                name, lo, hi = r.choice(cat)
                ps = params_for(r, name, lo, hi, r.chance(0.6))
            attrs = []
            for _k in range(r.choice([0, 0, 1, 1, 2, 3])):
                a = r.choice(ATTRS)
                if not any(a.split(" ")[0].upper() == b.split(" ")[0].upper() for b in attrs) and not (a.upper().startswith("GENERATED") and any("DEFAULT" in b.upper() for b in attrs)):
                    attrs.append(a)
            cols.append(Col(cn, recase(r, name), ps, attrs, r.choice([None, None] + COMMENTS)))
        keys = [r.choice(KEYS) for _ in range(r.choice([0, 0, 1, 2]))]
        opts = [r.choice(OPTIONS) for _ in range(r.choice([0, 1, 1, 2]))]
        parts = [Col("dt", "string", None, [], r.choice([None, "'p'"]))] if r.chance(0.12) else []
        if r.chance(0.08):
            pn, plo, phi = r.choice(cat)
            parts.append(Col("`pk`", recase(r, pn), params_for(r, pn, plo, phi, True), [], r.choice([None, "'pc'"])))
        tn = r.choice(TABLE_NAMES) if not r.chance(0.04) else r.choice(DOTTED_TABLE_NAMES)
        out.append(("random", Table(tn, cols, keys, opts, parts, r.choice([None, None] + COMMENTS), ine=r.chance(0.2))))
    return out


ADD_COLS = [Col("etl_time", "string", None, [], "'load time'"), Col("`z`", "BIGINT", None, [], None), Col("`p q`", "decimal", ["18", "4"], ["NOT NULL"], "'amount'"),
            Col("k", "varchar", ["64"], ["DEFAULT ''"], None), Col("g", "GEOMETRY", None, [], None), Col("dt", "string", None, [], "'partition day'"), Col("`hr`", "int", None, [], None),
            Col("stat_hour", "tinyint", ["2"], [], "'hour'"), Col("shard", "int", ["11"], ["NOT NULL"], None), Col("ts", "datetime", ["3"], [], None), Col("c3", "char", ["3"], [], None)]
NEW_NAMES = [("-", None, "t_hive"), ("ods", "ods", "t"), ("s 1", "s 1", "u"), ("-", None, "a.b"), ("db", "db", "x.y")]


def gen_calls(r, systematic_i=None):
    """[(call text, structured description)]"""
    if systematic_i is not None:
        return [[], [("ct", 1)], [("ct", 0)], [("ct", 0), ("stn", NEW_NAMES[1]), ("ac", ADD_COLS[0]), ("apc", ADD_COLS[5])]][systematic_i % 4]
    calls = []
    for _ in range(r.choice([0, 1, 1, 2, 3, 4])):
        k = r.below(100)
        if k < 40: calls.append(("ct", r.below(2)))
        elif k < 60: calls.append(("stn", r.choice(NEW_NAMES)))
        elif k < 82: calls.append(("ac", r.choice(ADD_COLS)))
        else: calls.append(("apc", r.choice(ADD_COLS)))
    return calls


def call_text(c):
    hx = lambda s: s.encode("utf-8").hex()
    if c[0] == "ct": return "ct:%d" % c[1]
    if c[0] == "stn": return "stn:%s:%s" % ("-" if c[1][1] is None else hx(c[1][1]), hx(c[1][2]))
    return "%s:%s" % (c[0], hx(c[1].text()))


def ser_call(c):
    """JSON-serialisable description of a call: what the oracle needs to know about it"""
    if c[0] == "ct": return ["ct", c[1]]
    if c[0] == "stn": return ["stn", c[1][1], c[1][2]]
    return [c[0], list(c[1].view())]


def tup_view(v):
    """(schema, table, columns, partition columns, comment) with tuples (JSON gives lists)"""
    col = lambda c: (c[0], c[1], None if c[2] is None else list(c[2]), c[3])
    return (v[0], v[1], [col(c) for c in v[2]], [col(c) for c in v[3]], v[4])


# ---------------------------------------------------------------------------------------------------------------------
# views
# ---------------------------------------------------------------------------------------------------------------------

def unesc(s):
    out, i = [], 0
    while i < len(s):
        if s[i] == "~":
            j = s.index("~", i + 1)
            out.append(chr(int(s[i + 1:j], 16))); i = j + 1
        else:
            out.append(s[i]); i += 1
    return "".join(out)


def parse_view(v):
    """canonical view -> (schema, table, [(name, type, params, comment)], [partition columns], comment), every component still in canonical quoting"""
    name, cols, parts, comment = v.split("|")
    sch, tbl = name.split(":")
    f = lambda s: [tuple(unesc(x) for x in c.split(":")) for c in s.split(";")] if s else []
    return (unesc(sch), unesc(tbl), f(cols), f(parts), unesc(comment))


def opt_s(s):
    return "None" if s is None else '"' + q(s) + '"'


def dump_params(ps):
    return "None" if ps is None else "T[" + ",".join('ASTLiteralExpression{value="%s"}' % q(p) for p in ps) + "]"


def canon_col(c):
    name, ty, ps, comment = c
    return (q(name), q(ty), dump_params(ps), opt_s(comment))


def canon_view(v):
    sch, tbl, cols, parts, comment = v
    return (opt_s(sch), q(tbl), [canon_col(c) for c in cols], [canon_col(c) for c in parts], opt_s(comment))


def first_diff(got, want, hive_params=False):
    """name of the first view component in which two canonical views differ (None if equal)"""
    if (got[0], got[1]) != (want[0], want[1]): return "table-name"
    for part, k in (("columns", 2), ("partitions", 3)):
        if [c[0] for c in got[k]] != [c[0] for c in want[k]]: return part if k == 3 else "column-names"
        if [c[1] for c in got[k]] != [c[1] for c in want[k]]: return "types" if k == 2 else "partition-types"
        if [c[2] for c in got[k]] != [c[2] for c in want[k]]: return "params" if k == 2 else "partition-params"
        if [c[3] for c in got[k]] != [c[3] for c in want[k]]: return "comments" if k == 2 else "partition-comments"
    if got[4] != want[4]: return "table-comment"
    return None


def judge(gen_view, calls, a, hmap, catalogued):
    """[(signature, detail)] for one CONV answer of the implementation; `gen_view` = what the generated DDL declares, `calls` = ser_call forms"""
    gen_view = tup_view(gen_view)
    if not a.startswith("OK "):
        return [("parse:rejected:" + a.split(" ")[0], "the generated MySQL DDL was not accepted: " + a[:80])]
    f = dict(t.split("=", 1) for t in a.split(" ")[1:])
    out = []
    v0 = parse_view(f["v0"])
    want0 = canon_view(gen_view)
    d = first_diff(v0, want0)
    if d:
        return [("parse:" + d, "the parser read %r, the DDL declares %r" % (v0, want0))]
    # the effect of the calls: `code` = what the helpers are documented to do, `prop` = what the Hive DDL must declare
    sch, name, cols, parts, comment = gen_view
    code_cols = [list(c) for c in cols]; prop_cols = [list(c) + [c[2]] for c in cols]      # prop: [name, type, params, comment, original params]
    code_parts = list(parts)
    sts = [] if f["calls"] == "-" else f["calls"].split(",")
    mapped_by_default_removal = False
    for c, st in zip(calls, sts):
        if c[0] == "ct":
            missing = [x[1] for x in code_cols if x[1].upper() not in hmap]
            if missing:
                if st != "E:PY_KeyError":
                    out.append(("change_type:no-KeyError", "types %r are not in the map but change_type answered %s" % (missing, st)))
                elif any(m.upper() in catalogued for m in missing):
                    out.append(("change_type:KeyError:catalogued", "catalogued type(s) %r missing from HASHMAP_MYSQL_TO_HIVE" % missing))
                else:
                    out.append(("change_type:KeyError:uncatalogued", "change_type raised KeyError for %r" % missing))
                continue
            if st != "ok":
                out.append(("change_type:" + st, "change_type failed on catalogued types")); continue
            for x in code_cols:
                x[1] = hmap[x[1].upper()]
                if c[1] == 1: x[2] = None
            for x in prop_cols:
                x[1] = hmap[x[1].upper()]
            if c[1] == 1:
                mapped_by_default_removal = True
        elif st != "ok":
            out.append(("helper:" + c[0] + ":" + st, "helper failed")); continue
        elif c[0] == "stn":
            sch, name = c[1], c[2]
        elif c[0] == "ac":
            code_cols.append(list(c[1])); prop_cols.append(list(c[1]) + [c[1][2]])
        elif c[0] == "apc":
            code_parts.append(tuple(c[1]))
    want1 = canon_view((sch, name, [tuple(x) for x in code_cols], code_parts, comment))
    v1 = parse_view(f["v1"])
    d = first_diff(v1, want1)
    if d:
        out.append(("helper:" + d, "after %r the tree declares %r, expected %r" % (calls, v1, want1)))
        return out
    dotted = "." in name or (sch is not None and "." in sch)      # the printers join schema and table into ONE back-quoted dotted name
    # the Hive pre-pass rewrites == to = inside quoted comments as well (F-C18-4, root cause F-C06-2): attributed first, then the comparison goes on with the
    # comments as the pre-pass leaves them, so that a second listed departure in the same table is still recognised
    fixc = lambda c_: c_ and c_.replace("==", "=")
    eqeq = any("==" in (x or "") for x in [comment] + [c[3] for c in prop_cols] + [p_[3] for p_ in code_parts])
    prop_cols_h = [x[:3] + [fixc(x[3])] + x[4:] for x in prop_cols]
    code_cols_h = [x[:3] + [fixc(x[3])] + x[4:] for x in code_cols]
    code_parts_h = [tuple(p_[:3]) + (fixc(p_[3]),) for p_ in code_parts]
    comment_h = fixc(comment)
    if eqeq and f["hive"].startswith("S:") and "|" in f["rh"]:
        keep0 = lambda ty, ps: ps if ty.upper() in HIVE_KEEPS else None
        as_written = canon_view((sch, name, [(x[0], x[1], keep0(x[1], x[4]), x[3]) for x in prop_cols], [(p_[0], p_[1], keep0(p_[1], p_[2]), p_[3]) for p_ in code_parts], comment))
        as_rewritten = canon_view((sch, name, [(x[0], x[1], keep0(x[1], x[4]), x[3]) for x in prop_cols_h], [(p_[0], p_[1], keep0(p_[1], p_[2]), p_[3]) for p_ in code_parts_h], comment_h))
        rv = parse_view(f["rh"])
        if first_diff(rv, as_written) and first_diff(rv, as_written) != first_diff(rv, as_rewritten):
            out.append(("hive:comment:eqeq-prepass", "a comment containing == comes back with = from the Hive DDL (whole-text pre-pass, root cause F-C06-2): %s" % f["hive"][:160]))
    # Hive
    if not f["hive"].startswith("S:"):
        out.append(("hive:print:" + f["hive"], "printing for Hive failed"))
    elif not ("|" in f["rh"]):
        out.append(("hive:reparse:" + f["rh"], "the Hive DDL does not parse back to one table: " + f["hive"][:200]))
    else:
        keep = lambda ty, ps: ps if ty.upper() in HIVE_KEEPS else None
        want_h = canon_view((sch, name, [(x[0], x[1], keep(x[1], x[4]), x[3]) for x in prop_cols_h], [(p[0], p[1], keep(p[1], p[2]), p[3]) for p in code_parts_h], comment_h))
        d = first_diff(parse_view(f["rh"]), want_h)
        if d == "table-name" and dotted:
            out.append(("table-name:dotted", "table %r.%r re-parses from the printed DDL as %r" % (sch, name, parse_view(f["rh"])[:2])))
        elif d == "params" and mapped_by_default_removal and first_diff(parse_view(f["rh"]), canon_view((sch, name, [(x[0], x[1], keep(x[1], x[2]), x[3]) for x in code_cols_h], [(p[0], p[1], keep(p[1], p[2]), p[3]) for p in code_parts_h], comment_h))) is None:
            out.append(("hive:params:removed-by-default", "change_type(remove_param=True) dropped parameters Hive has: %r" % [x[:3] for x in prop_cols_h if x[1].upper() in HIVE_KEEPS and x[4] is not None]))
        elif d:
            out.append(("hive:" + d, "the Hive DDL declares %r, expected %r; text %s" % (parse_view(f["rh"]), want_h, f["hive"][:200])))
    # MySQL: the MySQL printer has no PARTITIONED BY (Hive-only), everything else must come back
    if not f["mysql"].startswith("S:"):
        out.append(("mysql:print:" + f["mysql"], "printing for MySQL failed"))
    elif not ("|" in f["rm"]):
        out.append(("mysql:reparse:" + f["rm"], "the MySQL DDL does not parse back to one table: " + f["mysql"][:200]))
    else:
        rm = parse_view(f["rm"])
        want_m = (want1[0], want1[1], want1[2], rm[3] if True else want1[3], want1[4])
        d = first_diff(rm, want_m)
        if d == "table-name" and dotted:
            out.append(("table-name:dotted", "table %r.%r re-parses from the printed DDL as %r" % (sch, name, rm[:2])))
        elif d:
            out.append(("mysql:" + d, "the MySQL DDL declares %r, expected %r; text %s" % (rm, want_m, f["mysql"][:200])))
    return out


def run(ctx):
    r = ctx.rng.fork("c18")
    cat, hmap = catalogue()
    catalogued = {n for n, _, _ in cat}
    n_random = 4000 if ctx.quick else 40000
    tables = gen_tables(ctx, r, n_random)
    n_sys = len(tables) - n_random
    ctx.cov["rule"] = ("%d systematic MySQL CREATE TABLE statements (every one of the %d catalogued types × {without, with parameters} × 3 letter cases, %d types outside the "
                       "catalogue, %d column attributes, %d key / constraint forms, %d table options, %d comment shapes, %d table-name and %d column-name shapes, PARTITIONED BY, partition columns of every catalogued type with and without parameters via a parsed PARTITIONED BY and via append_partition_by_column) "
                       "each with 4 fixed helper sequences, + %d random tables (1–6 columns, 0–3 attributes each, keys, options, comments) with random helper sequences of 0–4 "
                       "calls; model and implementation agree on views, printed texts and re-parsed views; oracle on the implementation: parser view = generated structure, "
                       "helpers change exactly their component, Hive re-parse = property view (mapped types, parameters only for DECIMAL/VARCHAR/CHAR), MySQL re-parse = edited view. "
                       "distinct_nontrivial = distinct accepted answers"
                       % (n_sys, len(cat), len(MAP_ONLY_TYPES + OUTSIDE_TYPES), len(ATTRS), len(KEYS), len(OPTIONS), len(COMMENTS), len(TABLE_NAMES + DOTTED_TABLE_NAMES), len(COL_NAMES), n_random))
    ctx.cov["validated_only"] = ["print-for-Hive / re-parse for arbitrary tables (theorems cover the helper algebra, the column printer and kernel-evaluated examples; the general "
                                 "round trip needs the lexer on printed text)", "agreement of the typed helper models with node.py (sampled; tied to the C11 Val-level models by theorem)"]
    cases = []
    for i, entry in enumerate(tables):
        kind, t = entry[0], entry[1]
        if len(entry) > 2:
            cases.append((kind, t, entry[2]))
        elif i < n_sys:
            for k in range(4):
                cases.append((kind, t, gen_calls(r, k)))
        else:
            cases.append((kind, t, gen_calls(r)))
    reqs = ["CONV %s %s" % (E.enhex(t.text(r)), E.enhex(";".join(call_text(c) for c in calls))) for _, t, calls in cases]
    res, _ = ctx.corr(reqs, stream="conv")
    types_seen, part_types_seen = set(), set()
    for (kind, t, calls), req, (_, a, _) in zip(cases, reqs, res):
        js = judge(t.view(), [ser_call(c) for c in calls], a, hmap, catalogued)
        ctx.count("table:" + kind + (":ok" if not js else ":" + js[0][0].split(":")[0]))
        for c in calls:
            ctx.count("helper:" + c[0])
        for c in t.cols:
            types_seen.add((c.type_name.upper(), c.params is not None))
        for c in list(t.parts) + [x[1] for x in calls if x[0] == "apc"]:
            part_types_seen.add((c.type_name.upper(), c.params is not None))
        for sig, detail in js:
            pfam.report(ctx, sig, {"kind": "input", "entry": "ASTCreateTableStatement.source / change_type", "dialect": "MYSQL", "input": E.unhex(req.split(" ")[1]),
                                   "calls": [ser_call(c) for c in calls], "declares": t.view(), "request": req, "observed": a[:700], "detail": detail[:700],
                                   "oracle": "c18: same table name, columns in order with comments, mapped types (parameters only for DECIMAL/VARCHAR/CHAR), partition columns, table comment; "
                                             "helper edits show up in the printed DDL and nowhere else", "how_found": "stream conv (%s)" % kind})
    ctx.cov["distribution"]["catalogued (type, with parameters) pairs exercised"] = len([x for x in types_seen if x[0] in catalogued])
    ctx.cov["distribution"]["catalogued (type, with parameters) pairs exercised as partition column"] = len([x for x in part_types_seen if x[0] in catalogued])
    for (kind, t, calls), (_, a, b) in list(zip(cases, res))[-3:]:
        ctx.sample({"kind": kind, "ddl": t.text()[:200], "calls": [call_text(c) for c in calls], "impl": a[:240], "model": b[:240]})
    # known findings
    for f in ctx.findings:
        if f.get("status") != "finding":
            continue
        w = f["witness"]
        a = E.run_impl([w["request"]])[0]
        if any(sig == f["signature"]["failure"] for sig, _ in judge(w["declares"], w["calls"], a, hmap, catalogued)):
            ctx.report_known(f)
    pfam.conclude(ctx)


def replay(payload):
    cat, hmap = catalogue()
    a = E.run_impl([payload["request"]])[0]
    js = judge(payload["declares"], payload["calls"], a, hmap, {n for n, _, _ in cat})
    print("ddl:", repr(payload["input"])); print("calls:", payload.get("calls")); print("implementation:", a[:900]); print("verdict:", js)
    return 1 if js else 0
