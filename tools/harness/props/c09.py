"""C09 — layout, comments, keyword case and redundant quoting do not change the tree."""
import re
import engine as E
import pfam, sqlgen

KEYWORDS = ["SELECT", "DISTINCT", "FROM", "WHERE", "GROUP", "BY", "HAVING", "ORDER", "LIMIT", "OFFSET", "UNION", "ALL", "EXCEPT", "INTERSECT", "MINUS", "JOIN", "INNER",
            "LEFT", "RIGHT", "FULL", "OUTER", "CROSS", "SEMI", "ON", "USING", "AS", "AND", "OR", "XOR", "NOT", "IN", "IS", "LIKE", "RLIKE", "REGEXP", "BETWEEN",
            "EXISTS", "CASE", "WHEN", "THEN", "ELSE", "END", "CAST", "EXTRACT", "OVER", "PARTITION", "ROWS", "PRECEDING", "FOLLOWING", "UNBOUNDED", "CURRENT", "ROW",
            "DIV", "MOD", "ASC", "DESC", "NULLS", "FIRST", "LAST", "WITH", "ROLLUP", "CUBE", "GROUPING", "SETS", "INSERT", "INTO", "OVERWRITE", "TABLE", "VALUES",
            "UPDATE", "SET", "DELETE", "SORT", "DISTRIBUTE", "CLUSTER", "LATERAL", "VIEW", "IGNORE", "SIGNED", "IF"]
KW = re.compile(r"\b(" + "|".join(KEYWORDS) + r")\b", re.I)
PLAIN = ["a", "b", "c", "t1", "x_1", "col", "id", "dt", "_u", "A1"]


def segments(text):
    """[(is_code, piece)] — quoted strings, back-quoted names and comments are not code"""
    out, i, n, cur = [], 0, len(text), []
    while i < n:
        c = text[i]
        if c in "'\"`":
            j = i + 1
            while j < n:
                if text[j] == "\\" and c != "`": j += 2; continue
                if text[j] == c:
                    if j + 1 < n and text[j + 1] == c and c != "`": j += 2; continue
                    break
                j += 1
            out.append((True, "".join(cur))); cur = []
            out.append((False, text[i:j + 1])); i = j + 1
        else:
            cur.append(c); i += 1
    out.append((True, "".join(cur)))
    return [(k, p) for k, p in out if p]


def code_spans(text):
    """[(start, end)] of the pieces outside quoted strings and back-quoted names"""
    out, pos = [], 0
    for k, p in segments(text):
        if k:
            out.append((pos, pos + len(p)))
        pos += len(p)
    return out


def candidates(rng, text, between_free):
    """single surface edits (kind, start, end, replacement) at eligible positions outside quoted text; edits never overlap"""
    eds = []

    def add(kind, pattern, repl, flags=0):
        for a, b in code_spans(text):
            for m in re.finditer(pattern, text[a:b], flags):
                new = repl(m)
                nxt = text[a + m.end():a + m.end() + 1]
                if kind in ("quoting", "case") and nxt in ("'", '"', "`"):
                    continue        # b'01', x"1F": the letter is part of a literal
                if new is not None and new != m.group(0):
                    eds.append((kind, a + m.start(), a + m.end(), new))
    add("case", KW.pattern, lambda m: rng.choice([m.group(0).lower(), m.group(0).upper(), m.group(0).capitalize()]), re.I)
    add("spelling", r" <> | != ", lambda m: " != " if m.group(0) == " <> " else " <> ")
    add("spelling", r" && ", lambda m: " AND ")
    add("spelling", r" \|\| ", lambda m: " OR ")
    if between_free:
        add("spelling", r" AND ", lambda m: " && ")
    add("spelling", r" OR ", lambda m: " || ")
    add("spelling", r"\bLIMIT (\d+) OFFSET (\d+)", lambda m: "LIMIT %s, %s" % (m.group(2), m.group(1)), re.I)
    add("spelling", r"\bLIMIT (\d+), ?(\d+)", lambda m: "LIMIT %s OFFSET %s" % (m.group(2), m.group(1)), re.I)
    add("noise-words", r" AS (al)\b", lambda m: " al")
    add("noise-words", r" (al2)\b", lambda m: " AS al2")
    # two rewrites at one position: the alias without AS *and* back-quoted, with AS and back-quoted
    add("noise-words+quoting", r" AS (al)\b", lambda m: " `al`")
    add("noise-words+quoting", r" (al2)\b", lambda m: " AS `al2`")
    add("noise-words", r" ASC\b", lambda m: "", re.I)
    add("noise-words", r"\bINSERT (INTO|OVERWRITE) TABLE ", lambda m: "INSERT %s " % m.group(1), re.I)
    add("noise-words", r"\bINSERT (INTO|OVERWRITE) (?!TABLE)", lambda m: "INSERT %s TABLE " % m.group(1), re.I)
    plain = "|".join(PLAIN)
    add("quoting", r"(?<![A-Za-z0-9_`'.])(" + plain + r")(?![A-Za-z0-9_`'(])", lambda m: "`" + m.group(1) + "`")
    add("quoting", r"(?<=\.)(" + plain + r")(?![A-Za-z0-9_`'(.])", lambda m: "`" + m.group(1) + "`")
    add("parentheses", r"(?<=[-+*/=<>] )(" + plain + r"|\d+)(?= [-+*/=<>]|,| FROM| WHERE| AND| OR| THEN| ELSE| END)", lambda m: "(" + m.group(1) + ")")
    add("layout", r" ", lambda m: rng.choice(["  ", "\n", "\t", " /* c */ ", "\r\n", " -- x\n", "\u3000", " # y\n", " /* -- */ ", "\n\n"]))
    # drop overlapping edits: in random order, so that an edit that starts with a blank is not always beaten by the layout edit of that blank
    res = []
    for e in rng.shuffle(eds):
        if all(e[2] <= k[1] or e[1] >= k[2] for k in res):
            res.append(e)
    res.sort(key=lambda e: (e[1], e[2]))
    return res


def apply(text, eds):
    out, pos = [], 0
    for _, a, b, new in sorted(eds, key=lambda e: e[1]):
        out.append(text[pos:a]); out.append(new); pos = b
    out.append(text[pos:])
    return "".join(out)


def differs(ab, av):
    return (ab != av) and (ab.startswith("OK") or av.startswith("OK"))


def shrink(d, base, eds, ab):
    """the smallest subset of the edits that still changes the outcome (singles first, then greedy removal)"""
    singles = E.run_impl([pfam.req_parse(d, apply(base, [e])) for e in eds])
    for e, a in zip(eds, singles):
        if differs(ab, a):
            return [e]
    cur = list(eds)
    changed = True
    while changed and len(cur) > 1:
        changed = False
        for k in range(len(cur)):
            cand = cur[:k] + cur[k + 1:]
            if differs(ab, E.run_impl([pfam.req_parse(d, apply(base, cand))])[0]):
                cur = cand; changed = True; break
    return cur


def db2_two_words(text, e):
    """the edit touches a DB2 two-word CURRENT DATE / TIME / TIMESTAMP (letter case of one of the words, or the blank between them)"""
    ctxt = text[max(0, e[1] - 10):e[2] + 12]
    return re.search(r"CURRENT\s*(DATE|TIME)", ctxt, re.I) is not None and e[0] in ("layout", "case")


CHAIN_LINKS = ["LIKE 'x%'", "NOT LIKE 'x'", "RLIKE 'r'", "NOT RLIKE 'r'", "REGEXP '1'", "NOT REGEXP '1'", "IN (1, 2)", "NOT IN (3)", "IS NULL", "IS NOT NULL", "IS TRUE",
               "BETWEEN 1 AND 2", "NOT BETWEEN 1 AND 2", "IN (SELECT 1)", "like b", "regexp b", "is not true"]
CHAIN_HOSTS = ["SELECT {P} FROM t", "SELECT a FROM t WHERE {P}", "SELECT a FROM t JOIN u ON {P}", "SELECT a FROM t GROUP BY a HAVING {P}", "UPDATE t SET a = 1 WHERE {P}",
               "SELECT CASE WHEN {P} THEN 1 END FROM t", "DELETE FROM t WHERE {P} AND c = 1", "SELECT f({P}) AS al FROM t"]


def chain_pairs(r, quick):
    """chains of keyword predicates: the finished predicate `a <link 1>` as left operand of `<link 2>` (and of a third link), written without brackets and with the
    redundant brackets around the left operand — every ordered pair of links (each link kind first and later, plain and negated) at a drawn host; thorough: at every host,
    plus triples (seeded C09-12: one keyword missing from the continuation test only)"""
    out = []
    for l1 in CHAIN_LINKS:
        for l2 in CHAIN_LINKS:
            for h in ([r.choice(CHAIN_HOSTS)] if quick else CHAIN_HOSTS):
                out.append((h.replace("{P}", "a %s %s" % (l1, l2)), h.replace("{P}", "(a %s) %s" % (l1, l2))))
            if not quick or r.chance(0.2):
                l3, h = r.choice(CHAIN_LINKS), r.choice(CHAIN_HOSTS)
                out.append((h.replace("{P}", "a %s %s %s" % (l1, l2, l3)), h.replace("{P}", "((a %s) %s) %s" % (l1, l2, l3))))
    return out


def run(ctx):
    n = 3000 if ctx.quick else 80000
    kinds = ["case", "spelling", "noise-words", "quoting", "parentheses", "layout"]
    ctx.cov["rule"] = ("valid generated queries and data-change statements, each rewritten by a random subset of single surface edits of the kinds %s at eligible positions "
                       "outside quoted text; correspondence on base and variant; oracle: base and variant give equal trees, or are both rejected; a failing pair is shrunk to "
                       "the smallest set of edits; plus every ordered pair of %d keyword-predicate links (LIKE / RLIKE / REGEXP / IN / IS / BETWEEN, plain and negated) chained without brackets against the same chain with redundant brackets around the left operand, at %d hosts. distinct_nontrivial = distinct accepted base trees" % (kinds, len(CHAIN_LINKS), len(CHAIN_HOSTS)))
    r = ctx.rng.fork("c09")
    pairs = []
    for d, t in pfam.regression_cases("C09"):
        eds = candidates(r, t, " BETWEEN " not in t.upper())
        pairs.append((d, t, eds))
    while len(pairs) < n:
        d = r.choice(pfam.MAIN_DIALECTS)
        g = sqlgen.Gen(r, d, wild=False)
        base = g.query() if r.below(100) < 70 else g.stmt()
        if base.upper().startswith(("CREATE", "ALTER", "SET", "USE", "SHOW", "ANALYZE", "MSCK", "DROP", "TRUNCATE")):
            continue
        eds = candidates(r, base, " BETWEEN " not in base.upper())
        want = r.choice(kinds) if r.chance(0.5) else None
        eds = [e for e in eds if (e[0] == want if want else True) and r.chance(0.35 if want else 0.15)]
        if eds:
            pairs.append((d, base, eds))
    res_b, _ = ctx.corr([pfam.req_parse(d, b) for d, b, _ in pairs], stream="base")
    res_v, _ = ctx.corr([pfam.req_parse(d, apply(b, eds)) for d, b, eds in pairs], stream="variant")
    fails = []
    for (d, b, eds), (_, ab, _), (_, av, _) in zip(pairs, res_b, res_v):
        for k in set(e[0] for e in eds):
            ctx.count("rewrite:" + k)
        bad = differs(ab, av)
        ctx.count("pair:" + ("DIFFERENT" if bad else "equal-trees" if ab.startswith("OK") else "both-rejected"))
        if bad:
            fails.append((d, b, eds, ab))
    # shrink every failing pair: all single edits in one batch, then greedy removal for the few that need several edits
    reqs, owner = [], []
    for k, (d, b, eds, ab) in enumerate(fails):
        for e in eds:
            reqs.append(pfam.req_parse(d, apply(b, [e]))); owner.append((k, e))
    single = {}
    for (k, e), a in zip(owner, E.run_impl(reqs)):
        if k not in single and differs(fails[k][3], a):
            single[k] = [e]
    greedy = 0
    for k, (d, b, eds, ab) in enumerate(fails):
        small = single.get(k)
        if small is None:
            greedy += 1
            small = shrink(d, b, eds, ab) if greedy <= 6 else eds
        sig = "differs:" + "+".join(sorted(set(e[0] for e in small)))
        if d == "DB2" and all(db2_two_words(b, e) for e in small):
            sig = "differs:db2-current-two-words"
        elif all(e[0] == "case" and b[e[1]:e[2]].upper() == "USING" for e in small):
            sig = "differs:using-keyword-case"
        v = apply(b, small)
        pfam.report(ctx, sig, {"kind": "input", "entry": "parse_statements", "dialect": d, "input": b, "variant": v,
                               "edits": [[e[0], b[max(0, e[1] - 12):e[2] + 12], e[3]] for e in small][:6],
                               "observed": [ab[:300]], "oracle": "c09: texts that differ only in surface form must parse to equal trees or both be rejected",
                               "how_found": "stream rewrites, shrunk"})
    for f in ctx.findings:
        if f.get("status") == "finding":
            w = f["witness"]
            a2 = E.run_impl([pfam.req_parse(w["dialect"], w["input"]), pfam.req_parse(w["dialect"], w["variant"])])
            if differs(a2[0], a2[1]):
                ctx.report_known(f)
    # chains of keyword predicates with and without the redundant brackets around the left operand
    ch = chain_pairs(r.fork("chains"), ctx.quick)
    chd = [r.choice(pfam.MAIN_DIALECTS) for _ in ch]
    ca, _ = ctx.corr([pfam.req_parse(d, x) for d, (x, _) in zip(chd, ch)], stream="chain-plain")
    cb, _ = ctx.corr([pfam.req_parse(d, y) for d, (_, y) in zip(chd, ch)], stream="chain-bracketed")
    for d, (x, y), (_, xa, _), (_, xb, _) in zip(chd, ch, ca, cb):
        bad = differs(xa, xb)
        ctx.count("chain:" + ("DIFFERENT" if bad else "equal-trees" if xa.startswith("OK") else "both-rejected"))
        if bad:
            pfam.report(ctx, "differs:parentheses", {"kind": "input", "entry": "parse_statements", "dialect": d, "input": x, "variant": y, "edits": [["parentheses", "left operand of a keyword predicate", "(…)"]],
                                                     "observed": [xa[:300], xb[:300]], "oracle": "c09: redundant brackets around the left operand of a keyword predicate must not change the tree",
                                                     "how_found": "stream chains of keyword predicates"})
    for p_ in pairs[:4]:
        ctx.sample({"dialect": p_[0], "base": p_[1][:160], "variant": apply(p_[1], p_[2])[:160], "edits": sorted(set(e[0] for e in p_[2]))})
    pfam.conclude(ctx)


def replay(payload):
    a = E.run_impl([pfam.req_parse(payload["dialect"], payload["input"]), pfam.req_parse(payload["dialect"], payload["variant"])])
    print("base   :", repr(payload["input"]), "->", a[0][:200]); print("variant:", repr(payload["variant"]), "->", a[1][:200])
    return 0 if a[0] == a[1] or not (a[0].startswith("OK") or a[1].startswith("OK")) else 1
