"""C14 — table-usage analysis reports exactly the tables a query reads.

Two streams:
  * correspondence (model `AN.allUsedTables` … vs the real analyzers) on queries from the general SQL generator and
    from the dedicated generator below, for the three analyzers;
  * oracle: the dedicated generator places every table itself and returns, with the text, the ordered list of
    (schema, name) it wrote in FROM / JOIN positions (all levels), and the lists reachable through the FROM clause /
    the JOIN clauses of each top-level branch.  The implementation's answer must be exactly that list.
"""
import re
import engine as E
import pfam, sqlgen
import anfam

KINDS = ("all", "from", "join")
JOIN_TYPES = ["JOIN", "INNER JOIN", "LEFT JOIN", "LEFT OUTER JOIN", "RIGHT JOIN", "FULL OUTER JOIN", "CROSS JOIN", "FULL JOIN", "RIGHT OUTER JOIN"]
UNIONS = ["UNION", "UNION ALL", "EXCEPT", "INTERSECT", "MINUS"]


class TGen:
    """queries with known table placement.  Every method returns (text, [tables in textual order]) — tables are
    (schema or None, name, spelling kind)."""

    def __init__(self, rng, maxdepth=2, dotted=True, budget=8):
        self.r, self.maxdepth, self.k, self.dotted = rng, maxdepth, 0, dotted
        self.budget = budget          # number of tables still to be placed: bounds the size of the query
        self.tags = set()

    def p(self, x): return self.r.chance(x)
    def more(self, x): return self.budget > 0 and self.r.chance(x)
    def ch(self, xs): return self.r.choice(xs)

    def fresh(self, prefix):
        self.k += 1
        return "%s%d" % (prefix, self.k)

    def table(self):
        """one table reference as written, and what it denotes"""
        self.budget -= 1
        n = self.fresh(self.ch(["t", "T", "tab_", "x"]))
        s = self.fresh(self.ch(["s", "db", "Sch_"]))
        x = self.r.below(100)
        if x < 30: kind, text, ref = "bare", n, (None, n)
        elif x < 45: kind, text, ref = "quoted", "`%s`" % n, (None, n)
        elif x < 52: kind, text, ref = "quoted-blank", "`my %s`" % n, (None, "my " + n)
        elif x < 70: kind, text, ref = "qualified", "%s.%s" % (s, n), (s, n)
        elif x < 80: kind, text, ref = "qualified-quoted", "`%s`.`%s`" % (s, n), (s, n)
        elif x < 85: kind, text, ref = "qualified-half-quoted", "`%s`.%s" % (s, n), (s, n)
        elif x < 90: kind, text, ref = "qualified-half-quoted", "%s.`%s`" % (s, n), (s, n)
        elif x < 92:
            # a word the lexer reserves (no NAME mark) as the table part of a qualified name: legal, the qualifier makes it a name
            w = self.ch(["order", "group", "view", "limit", "left", "full", "union", "on", "by", "Select", "FROM", "where", "not", "and", "inner", "having", "minus"])
            kind, text, ref = "qualified-reserved-word", "%s.%s" % (s, w), (s, w)
        elif x < 94 and self.dotted: kind, text, ref = "quoted-with-dot", "`%s.%s`" % (s, n), (None, s + "." + n)
        elif x < 97 and self.dotted: kind, text, ref = "quoted-with-two-dots", "`%s.%s.z`" % (s, n), (None, s + "." + n + ".z")
        else: kind, text, ref = "keyword-quoted", "`select`", (None, "select")
        self.tags.add("name:" + kind)
        return text, [ref + (kind,)]

    def col(self):
        return self.ch(["a", "b", "c", "x.a", "`k y`", "id"])

    def scalar(self, d):
        """a select item / operand; sub-queries only below the depth bound"""
        x = self.r.below(100)
        if d >= self.maxdepth or self.budget <= 0 or x < 55:
            return self.ch([self.col(), "1", "'s'", "COUNT(*)", "f(" + self.col() + ")"]), []
        q, ts = self.query(d + 1, with_ok=self.p(0.2))
        self.tags.add("subquery:scalar")
        if x < 80: return "(" + q + ")", ts
        if x < 90: return "f((" + q + "), 1)", ts
        return "CASE WHEN a = 1 THEN (" + q + ") ELSE 0 END", ts

    def cond(self, d):
        x = self.r.below(100)
        if d >= self.maxdepth or self.budget <= 0 or x < 22:
            return self.col() + self.ch([" = 1", " > 2", " IS NULL", " LIKE 'p%'", " BETWEEN 1 AND 2", " IN (1, 2)"]), []
        if x < 55:
            q, ts = self.query(d + 1, with_ok=self.p(0.15)); self.tags.add("subquery:in")
            return self.col() + self.ch([" IN (", " NOT IN ("]) + q + ")", ts
        if x < 70:
            q, ts = self.query(d + 1); self.tags.add("subquery:exists")
            return self.ch(["EXISTS (", "NOT EXISTS ("]) + q + ")", ts
        if x < 80:
            q, ts = self.query(d + 1); self.tags.add("subquery:compare")
            return self.col() + self.ch([" = (", " > ("]) + q + ")", ts
        a, ta = self.cond(d + 1)
        b, tb = self.cond(d + 1)
        return "(" + a + self.ch([" AND ", " OR "]) + b + ")", ta + tb

    def from_item(self, d, alias_needed=False):
        if d < self.maxdepth and self.more(0.25):
            q, ts = self.query(d + 1, with_ok=self.p(0.15))
            self.tags.add("from:derived")
            return "(" + q + ")" + self.ch([" AS ", " "]) + self.fresh("q"), ts
        t, ts = self.table()
        al = self.ch([" AS " + self.fresh("al"), " " + self.fresh("al")] if alias_needed else ["", "", " AS " + self.fresh("al"), " " + self.fresh("al")])
        return t + al, ts

    def select(self, d):
        """(text, all, from-clause tables, join-clause tables)"""
        items, t_items = [], []
        for _ in range(1 + self.r.below(3)):
            s, ts = self.scalar(d)
            items.append(s + self.ch(["", "", " AS " + self.fresh("c")])); t_items += ts
        text = "SELECT " + self.ch(["", "", "DISTINCT "]) + ", ".join(items)
        froms, t_from = [], []
        for _ in range(self.ch([1, 1, 1, 2, 3]) if self.budget > 1 else 1):
            s, ts = self.from_item(d); froms.append(s); t_from += ts
        if len(froms) > 1: self.tags.add("from:list")
        text += " FROM " + ", ".join(froms)
        t_join = []
        nj = min(self.ch([0, 0, 1, 1, 2, 3]), max(0, self.budget))
        for _ in range(nj):
            jt = self.ch(JOIN_TYPES)
            # the joined table often has NO alias, so that the next word (USING, CROSS, ON, a clause keyword) follows the table name directly
            s, ts = self.from_item(d, alias_needed=self.p(0.35))
            t_join += ts
            text += " " + jt + " " + s
            x = self.r.below(100)
            if jt == "CROSS JOIN" or x < 15:
                pass
            elif x < 30:
                text += " USING(a)"
            else:
                c, tc = self.cond(d); text += " ON " + c; t_join += tc
                if tc: self.tags.add("join:on-subquery")
        if nj > 1: self.tags.add("join:chain")
        t_rest = []
        if self.p(0.5):
            c, tc = self.cond(d); text += " WHERE " + c; t_rest += tc
        if self.p(0.25):
            s, ts = self.scalar(d); text += " GROUP BY " + s; t_rest += ts
            if ts: self.tags.add("subquery:group-by")
            if self.p(0.5):
                c, tc = self.cond(d); text += " HAVING " + c; t_rest += tc
        if self.p(0.25):
            s, ts = self.scalar(d); text += " ORDER BY " + s + self.ch(["", " DESC"]); t_rest += ts
            if ts: self.tags.add("subquery:order-by")
        if self.p(0.2):
            text += " LIMIT " + self.ch(["1", "10 OFFSET 2", "3, 4"])
        elif d == 0 and " WHERE " not in text and " GROUP BY " not in text and " ORDER BY " not in text and self.p(0.15):
            # Hive clauses directly after a table reference (possibly without alias)
            text += " " + self.ch(["SORT BY a", "DISTRIBUTE BY a", "CLUSTER BY a", "SORT BY a DESC", "SORT BY a DISTRIBUTE BY b"]); self.tags.add("hive-clause-after-table")
        return text, t_items + t_from + t_join + t_rest, t_from, t_join

    def query(self, d=0, with_ok=True, top=False):
        """(text, all) — at the top level also the FROM-only and JOIN-only expectations"""
        t_with, wtext = [], ""
        if with_ok and d < self.maxdepth and self.more(0.3):
            ws = []
            for _ in range(self.ch([1, 1, 2])):
                q, ts = self.query(d + 1, with_ok=False)    # the body of a WITH table cannot itself start with WITH (rejected by the parser)
                ws.append(self.fresh("w") + " AS (" + q + ")"); t_with += ts
            wtext = "WITH " + ", ".join(ws) + " "
            self.tags.add("with")
        s, t_all, t_from, t_join = self.select(d)
        text = s
        for _ in range(min(self.ch([0, 0, 0, 1, 2]), max(0, self.budget))):
            s2, a2, f2, j2 = self.select(d)
            text += " " + self.ch(UNIONS) + " " + s2
            t_all += a2; t_from += f2; t_join += j2
            self.tags.add("union")
        if top:
            return wtext + text, t_with + t_all, t_from, t_join
        return wtext + text, t_with + t_all


def known_case(rng, maxdepth, dotted=True):
    g = TGen(rng, maxdepth, dotted, budget=rng.choice([1, 2, 3, 4, 5, 6, 8, 10, 12]))
    text, t_all, t_from, t_join = g.query(0, top=True)
    text, style = anfam.recase(rng, text)          # keywords in lower / Capitalised / mixed case
    g.tags.add("keywords:" + style)
    return {"text": text, "all": t_all, "from": t_from, "join": t_join, "tags": sorted(g.tags)}


def expected_dump(tables):
    def one(t):
        return "StandardTable{schema_name=%s,table_name=\"%s\"}" % ("None" if t[0] is None else '"' + E_q(t[0]) + '"', E_q(t[1]))
    return "OK L[" + ",".join(one(t) for t in tables) + "]"


def E_q(s):
    import canon
    return canon.q(s)


ITEM = re.compile(r'StandardTable\{schema_name=(None|"[^"]*"),table_name="([^"]*)"\}')


def parse_answer(a):
    """'OK L[StandardTable{…},…]' -> [(schema text or None, name text)] in canonical quoting"""
    return [(None if m.group(1) == "None" else m.group(1)[1:-1], m.group(2)) for m in ITEM.finditer(a)]


def judge(kind, want, answer):
    """None if the answer is exactly the expected list, else a failure signature"""
    if answer == expected_dump(want):
        return None
    if not answer.startswith("OK"):
        return "rejected:" + answer.split(" ")[0]
    got = parse_answer(answer)
    exp = [(None if t[0] is None else E_q(t[0]), E_q(t[1])) for t in want]
    if len(got) == len(exp):
        diff = [i for i in range(len(exp)) if got[i] != exp[i]]
        if diff and all(want[i][2] == "quoted-with-dot" and got[i] == tuple(E_q(x) for x in want[i][1].split(".")) for i in diff):
            return "schema-split:quoted-name-with-dot"
        if sorted(got, key=str) == sorted(exp, key=str):
            return "order"
        return "wrong-entry"
    return "missing" if len(got) < len(exp) else "extra"


def req(kind, d, text):
    return "AN tables %s %s %s" % (kind, d, E.enhex(text))


def run(ctx):
    n_known = 3000 if ctx.quick else 60000
    n_gen = 1500 if ctx.quick else 30000
    ctx.cov["rule"] = ("(1) correspondence of the three analyzers (all levels / FROM only / JOIN only) between the Lean model of the reflective walk and the real classes, on "
                       "the first statement of generated scripts (general generator: every statement kind, so also non-SELECT inputs and rejected texts) and on the dedicated "
                       "queries; (2) oracle on the implementation: a dedicated generator writes queries with known table placement — FROM lists, join chains with ON / USING, "
                       "derived tables, scalar / IN / EXISTS / comparison sub-queries in the select list, ON, WHERE, GROUP BY, HAVING, ORDER BY, UNION branches, WITH tables "
                       "(also nested), to depth 3, keywords in upper / lower / Capitalised / mixed letter case, joined tables mostly WITHOUT alias directly followed by USING / CROSS JOIN / ON / the next clause, Hive SORT BY / DISTRIBUTE BY / CLUSTER BY directly after a table reference, names bare / back-quoted / with blanks / schema-qualified in four quoting forms / back-quoted containing dots — and returns the "
                       "ordered list of (schema, name) per occurrence; the analyzers' answers must equal it exactly. distinct_nontrivial = distinct non-empty answers")
    ctx.cov["validated_only"] = ["agreement of the hand model of the reflective walk with analyzer/base.py and all_level_standard_table.py (sampled)",
                                 "schema/name split of the parser (`_parse_table_name_expression`) against the spelling written by the generator (oracle)"]
    r = ctx.rng.fork("c14")
    # -- dedicated generator --------------------------------------------------------------------------------
    cases = []
    for i in range(n_known):
        c = known_case(r, maxdepth=r.choice([0, 1, 1, 2, 2, 3]))
        c["dialect"] = r.choice(pfam.MAIN_DIALECTS)
        cases.append(c)
    reqs = [req(k, c["dialect"], c["text"]) for c in cases for k in KINDS]
    res, bad = anfam.corr(ctx, reqs, stream="known", nontrivial=lambda q, a: a.startswith("OK") and a != "OK L[]")
    for i, c in enumerate(cases):
        for t in c["tags"]:
            ctx.count("shape:" + t)
        ctx.count("tables-per-query:%s" % (len(c["all"]) if len(c["all"]) < 8 else "8+"))
        for j, k in enumerate(KINDS):
            a = res[3 * i + j][1]
            sig = judge(k, c[k], a)
            ctx.count("oracle:%s:%s" % (k, sig or "exact"))
            if sig:
                pfam.report(ctx, sig, {"kind": "input", "entry": "analyzer %s" % k, "dialect": c["dialect"], "input": c["text"], "analysis": k,
                                       "want": [list(t[:3]) for t in c[k]], "observed": a[:600],
                                       "oracle": "c14: the %s analysis must return exactly the tables written, in textual order" % k, "how_found": "dedicated generator"})
    # -- general generator: correspondence only --------------------------------------------------------------
    gen = []
    for d, t in pfam.regression_cases("C14"):
        gen.append((d, t))
    for i in range(n_gen):
        d = r.choice(pfam.MAIN_DIALECTS)
        g = sqlgen.Gen(r, d, wild=False)
        gen.append((d, g.query() if r.chance(0.8) else g.script()))
    anfam.corr(ctx, [req(k, d, t) for d, t in gen for k in KINDS], stream="general", nontrivial=lambda q, a: a.startswith("OK") and a != "OK L[]")
    # -- known findings ---------------------------------------------------------------------------------------
    for f in ctx.findings:
        if f.get("status") == "finding":
            w = f["witness"]
            a = E.run_impl([req(w.get("analysis", "all"), w["dialect"], w["input"])])[0]
            if a != expected_dump([tuple(t) + ("",) for t in w["want"]]):
                ctx.report_known(f)
        elif f.get("status") == "fixed" and "want" in f.get("witness", {}):
            w = f["witness"]
            a = E.run_impl([req("all", w["dialect"], w["input"])])[0]
            if a != expected_dump([tuple(t) + ("",) for t in w["want"]]):
                pfam.report(ctx, "regression:" + f["id"], {"kind": "input", "entry": "analyzer all", "dialect": w["dialect"], "input": w["input"], "analysis": "all",
                                                           "want": w["want"], "observed": a[:600], "oracle": "c14: fixed finding came back", "how_found": "regression"})
    for c in cases[:4]:
        ctx.sample({"dialect": c["dialect"], "query": c["text"][:300], "expected_all": [list(t[:2]) for t in c["all"]][:12], "tags": c["tags"]})
    pfam.conclude(ctx, search)


def search(ctx):
    """a broken obligation or correspondence: look harder for an input on which the implementation violates the property"""
    r = ctx.rng.fork("c14-search")
    n = 6000 if ctx.quick else 100000
    cases = [dict(known_case(r, maxdepth=r.choice([1, 2, 3])), dialect=r.choice(pfam.MAIN_DIALECTS)) for _ in range(n)]
    ans = E.run_impl([req(k, c["dialect"], c["text"]) for c in cases for k in KINDS])
    ctx.cov["evaluations"] += len(ans)
    for i, c in enumerate(cases):
        for j, k in enumerate(KINDS):
            sig = judge(k, c[k], ans[3 * i + j])
            if sig and pfam.report(ctx, sig, {"kind": "input", "entry": "analyzer %s" % k, "dialect": c["dialect"], "input": c["text"], "analysis": k,
                                             "want": [list(t[:3]) for t in c[k]], "observed": ans[3 * i + j][:600],
                                             "oracle": "c14: the %s analysis must return exactly the tables written" % k, "how_found": "search: directed generation"}):
                return


def replay(payload):
    k = payload.get("analysis", "all")
    a = E.run_impl([req(k, payload["dialect"], payload["input"])])[0]
    tables = [tuple(t) if len(t) > 2 else tuple(t) + ("",) for t in payload["want"]]
    want = expected_dump(tables)
    print("query   :", repr(payload["input"])); print("analysis:", k); print("expected:", want[:600]); print("observed:", a[:600])
    sig = judge(k, tables, a)
    known = [f["signature"]["failure"] for f in E.known_findings("C14") if f.get("status") == "finding"]
    if sig in known:
        print("differs only by the listed finding:", sig)
    return 0 if sig is None or sig in known else 1
