"""C12 — results depend only on the input text and dialect."""
import os, subprocess
import engine as E
import pfam, sqlgen, canon


def run_order(reqs, order, hashseed):
    """answers (in request order) of one fresh worker process that handles the requests in the given order under the given hash seed"""
    env = dict(os.environ, MSQ_REPO=E.REPO, PYTHONHASHSEED=str(hashseed))
    data = "\n".join(reqs[i] for i in order) + "\n"
    p = subprocess.run([E.PY, E.WORKER], input=data, capture_output=True, text=True, env=env, cwd=E.REPO)
    lines = p.stdout.split("\n")
    if len(lines) < len(order):
        raise E.Infra("worker produced %d lines for %d requests" % (len(lines), len(order)))
    out = [None] * len(reqs)
    for k, i in enumerate(order):
        out[i] = lines[k]
    return out


CAT = "CREATE TABLE t1 (a int, b int, c int); CREATE TABLE t2 (a int, c int, d int); CREATE TABLE s.t3 (a int, e int); CREATE TABLE t4 (k int, v int)"
TABS = {"t1": ["a", "b", "c"], "t2": ["a", "c", "d"], "s.t3": ["a", "e"], "t4": ["k", "v"]}


def shared_vocabulary(r, n):
    """analysis requests (lineage over one catalogue, used columns of every clause, used tables) on statements built from a SMALL vocabulary, so that equal
    expressions, equal select lists and equal sub-statements occur in many different statements of one history — plain SELECTs, set operations of 2–3 branches,
    derived tables, WITH tables, INSERT … SELECT.  A result that is remembered per expression or per statement and later changed in place shows up as an answer
    that depends on what was analysed before."""
    def expr(t):
        c = r.choice(TABS[t]); c2 = r.choice(TABS[t])
        return r.choice([c, c, c, "%s + %s" % (c, c2), "abs(%s)" % c, "CASE WHEN %s > 0 THEN %s END" % (c, c2), "%s * 2" % c])

    def select(t, k):
        items = [expr(t) for _ in range(k)]
        txt = "SELECT " + ", ".join(items) + " FROM " + t
        if r.chance(0.3): txt += " WHERE %s > %d" % (r.choice(TABS[t]), r.below(3))
        if r.chance(0.15): txt += " GROUP BY " + ", ".join(items) if all(i in TABS[t] for i in items) else ""
        return txt

    def query():
        k = 1 + r.below(2)
        shape = r.below(10)
        if shape < 4:
            return select(r.choice(list(TABS)), k)
        if shape < 7:
            op = r.choice(["UNION ALL", "UNION", "EXCEPT", "INTERSECT"])
            return (" %s " % op).join(select(r.choice(list(TABS)), k) for _ in range(2 + r.below(2)))
        if shape < 8:
            t = r.choice(list(TABS)); cs = [r.choice(TABS[t]) for _ in range(k)]
            return "SELECT %s FROM (SELECT %s FROM %s) x" % (", ".join("x." + c for c in cs), ", ".join(dict.fromkeys(cs)), t)
        if shape < 9:
            t = r.choice(list(TABS)); c = r.choice(TABS[t])
            return "WITH w AS (%s UNION ALL %s) SELECT %s FROM w" % ("SELECT %s FROM %s" % (c, t), "SELECT %s FROM %s" % (c, t), c)
        return "SELECT " + ", ".join("u.c%d" % i for i in range(k)) + " FROM (" + " UNION ALL ".join(
            "SELECT " + ", ".join("%s AS c%d" % (expr(t), i) for i in range(k)) + " FROM " + t for t in [r.choice(list(TABS)) for _ in range(2)]) + ") u"

    out = []
    for _ in range(n):
        q = query()
        d = r.choice(["MYSQL", "HIVE", "DEFAULT"])
        k = r.below(10)
        if k < 5 and r.chance(0.25) and not q.startswith("WITH"):
            q = "INSERT INTO t4 " + q          # positional pairing with t4's columns (k, v); the clause analyzers take query trees only
        if k < 5: out.append("AN lineage %s %s %s" % (d, E.enhex(CAT), E.enhex(q)))
        elif k < 8: out.append("AN columns %s %s %s" % (r.choice(["all", "select", "where", "group", "hash"]), d, E.enhex(q)))
        else: out.append("AN tables %s %s %s" % (r.choice(["all", "from", "join"]), d, E.enhex(q)))
    return out


def run(ctx):
    n = 400 if ctx.quick else 6000
    ctx.cov["rule"] = ("a pool of parse / print / lex / analyse requests (valid, invalid, mixed dialects and entry points, duplicates) answered (1) by the history-free model (correspondence), "
                       "(2) by fresh interpreter processes in three different random orders under PYTHONHASHSEED 0 / 1 / 4242, (3) concurrently from 8 threads in one process, "
                       "(4) twice in a row in one process; oracle: every request gets the same answer in every run; (5) lineage requests (WITH tables and derived tables of the same "
                       "name with different bodies, and statements without them) from 4–8 threads on ONE shared analyzer and provider that yields at every lookup: every call must give the "
                       "statement's own lineage (computed alone on a fresh analyzer before and after); (6) analysis requests (lineage, used columns per clause, used tables) on statements over a SMALL shared vocabulary — equal expressions / select lists / sub-statements recur across plain SELECTs, set operations, derived and WITH tables — are part of the pool of (2)–(4). distinct_nontrivial = distinct accepted answers")
    ctx.assumptions += ["real thread interleavings under the GIL and process-level effects are observed, not modelled", "the frame fact is syntactic (write-set report); dynamic validation is by these runs"]
    r = ctx.rng.fork("c12")
    reqs = []
    for d, t, kind in pfam.scripts(r, n, wild=0.2, mutate=0.2):
        k = r.below(10)
        if k < 5: reqs.append(pfam.req_parse(d, t))
        elif k < 8: reqs.append(pfam.req_print(d, r.choice(pfam.DIALECTS), t))
        elif k < 9: reqs.append("L 7 %s" % E.enhex(t))
        else: reqs.append("RT %s %s" % (d, E.enhex(t)))
    # the rarely used statement classes and their OPTIONAL PARTS present / absent (foreign-key actions, index options, partition specs, flags): a parser that keeps the
    # optional parts of one statement in a place that outlives the call hands them to the next statement that omits them (seeded C12-11) — the pool is answered in three
    # orders, twice in a row and from threads, so each of these is parsed after every other one in some run
    rare = [t for _, t in pfam.BRANCH_CORPUS] + [t for _, t in pfam.tree_texts(r.fork("rare-trees"), 60 if ctx.quick else 600, ["MYSQL", "HIVE"])]
    fk = "CREATE TABLE c%d (a int, CONSTRAINT fk%d FOREIGN KEY (a) REFERENCES p (id)%s)"
    rare += [fk % (i, i, opt) for i, opt in enumerate(["", " ON DELETE CASCADE", " ON UPDATE SET NULL", " ON DELETE RESTRICT ON UPDATE NO ACTION", "", " ON UPDATE CASCADE", ""])]
    rare += ["ALTER TABLE t ADD CONSTRAINT fk FOREIGN KEY (a) REFERENCES p (id)", "ALTER TABLE t ADD CONSTRAINT fk FOREIGN KEY (a) REFERENCES p (id) ON DELETE SET NULL ON UPDATE CASCADE",
             "CREATE TABLE i1 (a int, KEY k (a))", "CREATE TABLE i2 (a int, KEY k (a) USING BTREE COMMENT 'c' KEY_BLOCK_SIZE = 4)", "CREATE TABLE i3 (a int, UNIQUE KEY k (a(3)))",
             "ANALYZE TABLE t COMPUTE STATISTICS", "ANALYZE TABLE t PARTITION (dt = '1') COMPUTE STATISTICS FOR COLUMNS CACHE METADATA NOSCAN", "ALTER TABLE t DROP PARTITION (dt = '1')",
             "ALTER TABLE t DROP IF EXISTS PARTITION (dt = '2', hr = 3)", "ALTER TABLE t ADD IF NOT EXISTS PARTITION (dt = '1')", "CREATE TABLE IF NOT EXISTS x AS SELECT 1", "CREATE TABLE x AS SELECT 1",
             "SELECT a FROM t ORDER BY a NULLS FIRST", "SELECT a FROM t ORDER BY a DESC", "SELECT SUM(a) OVER (ORDER BY b ROWS BETWEEN UNBOUNDED PRECEDING AND CURRENT ROW) FROM t", "SELECT SUM(a) OVER () FROM t",
             "SELECT a FROM t GROUP BY a WITH ROLLUP", "SELECT a FROM t GROUP BY a", "INSERT IGNORE INTO t (a) VALUES (1)", "INSERT INTO t VALUES (1)", "SELECT CAST(a AS DECIMAL(10, 2)), CAST(b AS DECIMAL) FROM t"]
    for t in rare:
        d = r.choice(["MYSQL", "HIVE"])
        reqs.append(pfam.req_parse(d, t))
        reqs.append(pfam.req_print(d, d, t))
    # analyser requests, when those commands exist
    probe = E.run_impl(["AN tables all MYSQL %s" % E.enhex("SELECT a FROM t")])[0]
    if not probe.startswith("BADREQ"):
        for _ in range(n // 4):
            d = r.choice(["MYSQL", "HIVE", "DEFAULT"])
            reqs.append("AN tables all %s %s" % (d, E.enhex(sqlgen.Gen(r, d, wild=False).query())))
        reqs += shared_vocabulary(r.fork("shared-vocabulary"), n)
    reqs += reqs[: n // 5]          # duplicates: the same request again later in the history
    # (1) the model is a function of the request: correspondence on the requests the driver knows
    known = [q for q in reqs if q.split(" ")[0] in ("P", "PR", "L")]
    ctx.corr(known, stream="history-free-model")
    # (2) orders × hash seeds
    base = None
    runs = []
    for hs in (0, 1, 4242):
        order = r.shuffle(list(range(len(reqs))))
        runs.append((hs, run_order(reqs, order, hs)))
    # (4) twice in a row in one process
    twice = run_order(reqs + reqs, list(range(2 * len(reqs))), 7)
    runs.append(("second-pass", twice[len(reqs):]))
    runs.append(("first-pass", twice[:len(reqs)]))
    # (3) threads
    chunk = reqs[: min(len(reqs), 300 if ctx.quick else 2000)]
    a = E.run_impl(["THR 8 %s" % E.enhex("\n".join(chunk))], jobs=1)[0]
    if a.startswith("OK "):
        thr = canon.unhex(a[3:]).split("\n")
        runs.append(("threads", thr + [None] * (len(reqs) - len(thr))))
    ref = runs[0][1]
    for name, ans in runs[1:]:
        for i, (x, y) in enumerate(zip(ref, ans)):
            if y is None:
                continue
            ctx.cov["evaluations"] += 1
            if x != y:
                ctx.count("run:%s:DIFFERENT" % name)
                pfam.report(ctx, "depends-on-history:" + str(name if isinstance(name, str) else "hash-seed"),
                            {"kind": "history", "request": reqs[i][:300], "input": E.unhex(reqs[i].split(" ")[-1])[:300], "run": str(name), "observed": [x[:300], y[:300]],
                             "oracle": "c12: the same request must get the same answer whatever ran before, in whatever order, thread or process", "how_found": "runs"})
            else:
                ctx.count("run:%s:same" % name)
    for q in reqs[:3]:
        ctx.sample({"request": q[:80]})
    # (5) lineage requests from several threads on ONE shared analyzer and provider (machinery of props/c17.py)
    from props import c17
    if not E.run_impl(["LINTHR 1 1 MYSQL %s" % E.enhex("SELECT a FROM t")], jobs=1)[0].startswith("BADREQ"):
        c17.lineage_threads(ctx, r.fork("lineage-threads"), runs=3 if ctx.quick else 16)
    pfam.conclude(ctx)


def replay(payload):
    if payload.get("kind") == "lineage-threads":
        from props import c17
        return c17.replay_threads(payload)
    print(E.run_impl([payload["request"]]))
    return 1
