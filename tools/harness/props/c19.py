"""C19 — work grows linearly with input size."""
import math
import engine as E
import lexstreams as LS
import pfam, sqlgen

# scaling families: n ↦ text (accepted, and near-misses that fail late)
FAMILIES = {
    "select-items": lambda n: "SELECT " + ", ".join("c%d + %d AS a%d" % (i, i, i) for i in range(n)) + " FROM t",
    "operator-chain": lambda n: "SELECT " + " + ".join("x%d * 2" % i for i in range(n)) + " FROM t",
    "and-chain": lambda n: "SELECT a FROM t WHERE " + " AND ".join("c%d = %d" % (i, i) for i in range(n)),
    "in-list": lambda n: "SELECT a FROM t WHERE b IN (" + ", ".join(str(i) for i in range(n)) + ")",
    "values-rows": lambda n: "INSERT INTO t (a, b) VALUES " + ", ".join("(%d, 'v%d')" % (i, i) for i in range(n)),
    "statements": lambda n: "; ".join("SELECT a FROM t WHERE b = %d" % i for i in range(n)),
    "joins": lambda n: "SELECT a FROM t0 x0 " + " ".join("LEFT JOIN t%d x%d ON x%d.a = x0.a" % (i, i, i) for i in range(1, n + 1)),
    "case-arms": lambda n: "SELECT CASE " + " ".join("WHEN a = %d THEN %d" % (i, i) for i in range(n)) + " END FROM t",
    "union": lambda n: " UNION ALL ".join("SELECT %d AS a" % i for i in range(n)),
    "ddl-columns": lambda n: "CREATE TABLE t (" + ", ".join("c%d int(11) NOT NULL COMMENT 'c'" % i for i in range(n)) + ")",
    "blanks-comments": lambda n: "SELECT a " + "/* c */  \n" * n + "FROM t",
    "long-literal": lambda n: "SELECT '" + "x" * (8 * n) + "' FROM t",
    "late-failure-items": lambda n: "SELECT " + ", ".join("c%d" % i for i in range(n)) + " FROM t WHERE )",
    "late-failure-chain": lambda n: "SELECT " + " + ".join("x%d" % i for i in range(n)) + " + FROM t",
    "late-failure-rows": lambda n: "INSERT INTO t VALUES " + ", ".join("(%d)" % i for i in range(n)) + " (1 2",
    "function-items": lambda n: "SELECT " + ", ".join("f%d(c%d, %d)" % (i % 7, i, i) for i in range(n)) + " FROM t",
    "cast-items": lambda n: "SELECT " + ", ".join("CAST(c%d AS DECIMAL(10, 2))" % i for i in range(n)) + " FROM t",
    "alter-items": lambda n: "ALTER TABLE t " + ", ".join("ADD COLUMN c%d int" % i if False else "DROP COLUMN c%d" % i for i in range(n)),
    "function-statements": lambda n: "; ".join("SELECT f(a, %d) FROM t" % i for i in range(n)),
    "blank-run": lambda n: "SELECT a," + " " * (8 * n) + "b FROM t",
    "tab-run": lambda n: "SELECT a,\n" + "\t" * (8 * n) + "b\nFROM t",
    "blank-lines": lambda n: "SELECT a" + " \n" * (4 * n) + "FROM t",
    "long-word": lambda n: "SELECT " + "w" * (8 * n) + " FROM t",
    "long-number": lambda n: "SELECT " + "7" * (8 * n) + " FROM t",
    # ONE long token that is ALMOST what its position wants (a digit run ending in a letter where an integer is required, a hex literal with a bad last digit, …):
    # the text-level tests behind the grammar (is_int_literal & co., int(), the literal classifiers) see the whole token — their cost must be linear in its length
    "near-miss-limit": lambda n: "SELECT a FROM t LIMIT " + "1" * n + "x",
    "near-miss-offset": lambda n: "SELECT a FROM t LIMIT 5 OFFSET " + "1" * n + "x",
    "near-miss-limit-comma": lambda n: "SELECT a FROM t LIMIT " + "1" * n + "x, 3",
    "near-miss-limit-underscore": lambda n: "SELECT a FROM t LIMIT " + "1_" * (n // 2) + "x",
    "near-miss-type-parameter": lambda n: "CREATE TABLE t (a VARCHAR(" + "1" * n + "x))",
    "near-miss-frame": lambda n: "SELECT SUM(a) OVER (ORDER BY b ROWS BETWEEN " + "1" * n + "x PRECEDING AND CURRENT ROW) FROM t",
    "near-miss-float": lambda n: "SELECT a FROM t WHERE b = " + "1" * n + "." + "1" * n + "e",
    "near-miss-hex": lambda n: "SELECT x'" + "1F" * n + "G' FROM t",
    "near-miss-signed-number": lambda n: "SELECT a FROM t WHERE b = -" + "1" * n + "-",
    "long-limit": lambda n: "SELECT a FROM t LIMIT " + "1" * n,
    "long-float": lambda n: "SELECT " + "1" * n + "." + "2" * n + " FROM t",
    "long-quoted-name": lambda n: "SELECT `" + "a b" * n + "` FROM t",
    "long-dotted-word": lambda n: "SELECT " + "a." * n + "b FROM t",
    "long-index-ordinal": lambda n: "SELECT a FROM t GROUP BY " + "1" * n + " ORDER BY " + "2" * n + "x",
    # constructs nested in THEMSELVES (depth n/8, at most 40: CPython's frame limit): a parser that tries an alternative and parses the inner part again doubles per level
    "nested-subquery-arith": lambda n: "SELECT " + "((SELECT " * min(n // 8, 40) + "1" + ") + 1)" * min(n // 8, 40),
    "nested-subquery": lambda n: "SELECT " + "(SELECT " * min(n // 8, 40) + "1" + ")" * min(n // 8, 40),
    "nested-paren-arith": lambda n: "SELECT " + "((" * min(n // 8, 40) + "1" + ") * 2 + 1)" * min(n // 8, 40),
    "nested-function": lambda n: "SELECT " + "f(1, g(" * min(n // 8, 40) + "a" + "))" * min(n // 8, 40) + " FROM t",
    "nested-case": lambda n: "SELECT " + "CASE WHEN a = 1 THEN (" * min(n // 8, 40) + "0" + ") ELSE 2 END" * min(n // 8, 40) + " FROM t",
    "nested-in-subquery": lambda n: "SELECT a FROM t WHERE a IN " + "(SELECT b FROM u WHERE b IN " * min(n // 8, 30) + "(1, 2)" + ")" * min(n // 8, 30),
    "nested-derived-table": lambda n: "SELECT a FROM " + "(SELECT a FROM " * min(n // 8, 40) + "t" + ") q" * min(n // 8, 40),
    "nested-exists-not": lambda n: "SELECT a FROM t WHERE " + "NOT EXISTS (SELECT 1 FROM u WHERE " * min(n // 8, 30) + "1 = 1" + ")" * min(n // 8, 30),
    "nested-union-paren": lambda n: "SELECT a FROM " + "(SELECT 1 AS a UNION ALL SELECT a FROM " * min(n // 8, 30) + "t" + ") q" * min(n // 8, 30),
    # every call-like element production nested in its own argument, plain and schema-qualified, accepted or not (a dispatcher that parses a call to look at
    # what FOLLOWS it and then hands the same tokens to the production proper parses every level twice; seeded C19-10)
    "nested-window": lambda n: "SELECT " + "SUM(" * min(n // 8, 40) + "a" + ") OVER (PARTITION BY b ORDER BY c)" * min(n // 8, 40) + " FROM t",
    "nested-qualified-window": lambda n: "SELECT " + "udf.acc(" * min(n // 8, 40) + "a" + ") OVER (ORDER BY c)" * min(n // 8, 40) + " FROM t",
    "nested-qualified-function": lambda n: "SELECT " + "s.f(1, s.g(" * min(n // 8, 40) + "a" + "))" * min(n // 8, 40) + " FROM t",
    "nested-qualified-function-alias": lambda n: "SELECT " + "s.f(" * min(n // 8, 40) + "a" + ") x" * 1 + ")" * (min(n // 8, 40) - 1) + " FROM t",
    "nested-cast": lambda n: "SELECT " + "CAST(" * min(n // 8, 40) + "a" + " AS CHAR(3))" * min(n // 8, 40) + " FROM t",
    "nested-extract-if": lambda n: "SELECT " + "IF(a, EXTRACT(YEAR FROM " * min(n // 8, 40) + "b" + "), 1)" * min(n // 8, 40) + " FROM t",
    "nested-case-value": lambda n: "SELECT " + "CASE (" * min(n // 8, 40) + "a" + ") WHEN 1 THEN 2 END" * min(n // 8, 40) + " FROM t",
    "nested-in-list": lambda n: "SELECT a FROM t WHERE " + "a IN ((" * min(n // 8, 40) + "b" + "), 1)" * min(n // 8, 40),
    "nested-between": lambda n: "SELECT a FROM t WHERE " + "(a BETWEEN (" * min(n // 8, 40) + "b" + ") AND 9)" * min(n // 8, 40),
    "nested-window-cast": lambda n: "SELECT " + "CAST((SUM(" * min(n // 8, 40) + "a" + ") OVER (ORDER BY b)) AS SIGNED INTEGER)" * min(n // 8, 40) + " FROM t",
    "nesting": lambda n: "SELECT " + "(" * min(n, 40) + "1" + ")" * min(n, 40) + " + " + " + ".join("1" for _ in range(n)),
}


# oracle on the implementation's own count, with characters for tokens.  Proved of the model for every statement class: C19.cursor_steps_linear (≤ 5000·tokens + 482)
# and C19.total_steps_linear (≤ 10002·|text| + 5483, handle calls included), lean/MsqProofs/Props/C19T.lean; the line below is the constant of the SELECT block
# (C19.cursor_steps_linear_select) — TIGHTER than the theorem for DML / DDL, so for those classes it is a measurement that happens to hold
PC_A, PC_B = 1400, 300


TIME_LIMIT = 60          # seconds one TIME request (3–5 repeats of one parse) may take before the worker abandons it


def micros(ans):
    """a TIME answer in microseconds; a request the worker had to abandon after TIME_LIMIT seconds counts as that long (a lower bound of its time)"""
    return int(ans.split(" ")[1]) if ans.startswith("OK ") else TIME_LIMIT * 1000000


def timed(reqs):
    """TIME requests under their own request limit: the default 5 s limit covers ALL repeats of a request, so on a loaded machine a linear family was cut off at the
    larger sizes and the cap itself looked like growth (false alarm of a thorough run next to 16 busy cores; corrected, see DESIGN §12.9)"""
    import os
    old = os.environ.get("MSQ_REQ_TIMEOUT")
    os.environ["MSQ_REQ_TIMEOUT"] = str(TIME_LIMIT)
    try:
        return E.run_impl(reqs, jobs=1)
    finally:
        if old is None: os.environ.pop("MSQ_REQ_TIMEOUT", None)
        else: os.environ["MSQ_REQ_TIMEOUT"] = old


def counters(ans):
    return dict((k, int(v)) for k, v in (x.split("=") for x in ans.split(" ")[1:]))


def run(ctx):
    quick = ctx.quick
    ctx.cov["rule"] = ("(a) lexer: exact correspondence of the number of handle() calls between model and implementation on the C04 string spaces, and the oracle handle ≤ 2·|text|+1 on "
                       "the implementation; (b)+(c) %d scaling families (items, operator chains, IN lists, VALUES rows, statements, joins, CASE arms, UNION, DDL columns, blanks and comments, "
                       "long literals, nesting, and near-misses that fail late) at sizes n, 2n, 4n, 8n: deterministic counters observed by wrapping FSMMachine.handle, every TokenScanner "
                       "method and the token list of every cursor from outside — handle calls, cursor-method calls, token-list element reads (a slice or iteration of k elements counts k), Python-level calls inside the library (sys.setprofile: total work, e.g. rebuilt nodes), largest backward move of a cursor — must at most double (+ a constant) when the input doubles, and no "
                       "cursor may move backwards; wall-clock growth exponent (best of several repeats) must stay below 1.6, confirmed three times before it counts" % len(FAMILIES))
    ctx.assumptions += ["seconds are not modelled; timing is judged only through the growth exponent with repeated confirmation", "the cost model counts what the harness can observe from outside: calls of TokenScanner methods and the children a comma split walks over; work inside AMT node methods (source_equal…, upper()) is per call O(|token|) and is covered by the `calls` / time measurements only"]
    r = ctx.rng.fork("c19")
    alpha, _ = LS.alphabet()
    strs = list(LS.exhaustive(alpha, 2 if quick else 3)) + [LS.random_concat(r, 1 + r.below(20)) for _ in range(3000 if quick else 60000)]
    res, _ = ctx.corr(["LC %s" % E.enhex(s) for s in strs], stream="handle-calls", nontrivial=lambda q, a: a.startswith("OK"))
    for s, (_, a, _) in zip(strs, res):
        if a.startswith("OK"):
            n = int(a.split(" ")[1])
            pre = s.replace("\r\n", "\n")
            if n > 2 * len(pre) + 1:
                pfam.report(ctx, "handle-calls", {"kind": "input", "entry": "FSMMachine.parse", "input": s, "observed": a, "oracle": "c19: at most 2·|text|+1 handle calls", "how_found": "stream"})
    # (a') parser: the cost model's count of cursor operations (driver command PC: TokenScanner method calls, nested ones included, plus one per child walked by a
    # comma split) against the same count taken on the implementation from outside (tools/harness/canon_ext_pc.py) — EXACT equality, accepted and rejected texts
    import smallscope
    pc = [(d, t, "corpus") for d, t in pfam.corpus_statements()] + [(d, t, "regression") for d, t in pfam.regression_cases()]
    pc += pfam.scripts(r.fork("pc"), 200 if quick else 6000, wild=0.2, mutate=0.35)
    pc += [(d, t, "tree-first") for d, t in pfam.tree_texts(ctx.rng.fork("pc-trees"), 25 if quick else 1500)]
    pc += [("MYSQL", mk(n), "family") for mk in FAMILIES.values() for n in ((3, 17) if quick else (3, 17, 60))]
    for nm in ("select-clauses", "joins", "set-ops", "dml", "update-delete", "ddl-create", "ddl-alter"):
        entry, alpha, n_thorough, n_quick = smallscope.ALPHABETS[nm]
        seqs = list(smallscope.sequences(alpha, 3 if quick else 4))
        pc += [(dd, t, "small-scope") for t in (seqs if not quick else r.fork("pc-" + nm).shuffle(seqs)[:300]) for dd in ("MYSQL", "HIVE")[:1 if quick else 2]]
    seen_pc = set()
    pc = [x for x in pc if not ((x[0], x[1]) in seen_pc or seen_pc.add((x[0], x[1])))]
    res, _ = ctx.corr(["PC %s %s" % (d, E.enhex(t)) for d, t, _ in pc], stream="cursor-operations", nontrivial=lambda q, a: a.startswith("OK") or a.startswith("REJ"))
    worst = 0.0
    for (d, t, kind), (_, a, _) in zip(pc, res):
        ctx.count("cursor-operations:%s:%s" % (kind, a.split(" ")[0]))
        if a.startswith(("OK ", "REJ ")):
            n_ops = int(a.split(" ")[1])
            worst = max(worst, n_ops / max(1, len(t)))
            # the bound, on the implementation's own count: cursor operations ≤ A·|text| + B
            if n_ops > PC_A * len(t) + PC_B:
                pfam.report(ctx, "cursor-operations-bound", {"kind": "input", "entry": "parse_statements", "dialect": d, "input": t, "observed": a,
                                                             "oracle": "c19: at most %d·|text| + %d cursor operations" % (PC_A, PC_B), "how_found": "stream"})
    ctx.cov["cursor_operations_per_character_max"] = round(worst, 2)
    base = 40 if quick else 100
    sizes = [base, 2 * base, 4 * base, 8 * base]
    reqs, meta = [], []
    for name, mk in FAMILIES.items():
        for n in sizes:
            reqs.append("COST MYSQL %s" % E.enhex(mk(n))); meta.append((name, n))
    ans = E.run_impl(reqs)
    table = {}
    for (name, n), a in zip(meta, ans):
        if "handle=" not in a:
            # the worker abandoned the request (5 s alarm) or failed: on inputs of a few thousand characters that is itself a failure of the property
            pfam.report(ctx, "no-answer-in-5s", {"kind": "input", "entry": "parse_statements", "dialect": "MYSQL", "input": FAMILIES[name](n), "family": name, "sizes": [n],
                                                 "observed": a[:200], "oracle": "c19: a text of %d characters must be handled within the worker's 5 s alarm" % len(FAMILIES[name](n)), "how_found": "family"})
            continue
        table.setdefault(name, []).append((n, a.split(" ")[0], counters(a)))
    for name, rows in table.items():
        if len(rows) < 2:
            continue
        ctx.count("family:" + name + ":" + rows[0][1].split(":")[0])
        ctx.sample({"family": name, "sizes": [x[0] for x in rows], "handle": [x[2]["handle"] for x in rows], "cursor": [x[2]["cursor"] for x in rows], "reads": [x[2]["reads"] for x in rows], "calls": [x[2]["calls"] for x in rows]}, limit=60)
        if any(x[2]["backwards"] > 0 for x in rows):
            pfam.report(ctx, "cursor-moved-backwards", {"kind": "input", "entry": "parse_statements", "dialect": "MYSQL", "input": FAMILIES[name](sizes[0]), "family": name,
                                                        "observed": [x[2] for x in rows], "oracle": "c19: the token cursor only moves forward", "how_found": "family"})
        for key in ("handle", "cursor", "reads", "calls"):
            for (n1, _, c1), (n2, _, c2) in zip(rows, rows[1:]):
                growth = len(FAMILIES[name](n2)) / len(FAMILIES[name](n1))     # the text grows a little faster than n (longer numerals)
                if c2[key] > growth * 1.1 * c1[key] + 64:
                    pfam.report(ctx, "superlinear-" + key, {"kind": "input", "entry": "parse_statements", "dialect": "MYSQL", "input": FAMILIES[name](n1), "family": name, "sizes": [n1, n2],
                                                            "observed": [c1, c2], "oracle": "c19: the %s steps grow at most in proportion to the length of the input" % key, "how_found": "family"})
                    break
    # wall-clock growth exponent (thorough tier always; quick tier only the four cheapest sizes, still with confirmation)
    tsizes = [8 * base, 16 * base, 32 * base] if not quick else [4 * base, 8 * base, 16 * base]
    suspicious = []
    for name, mk in FAMILIES.items():
        if name == "nesting" or name.startswith("nested-"):
            continue        # depth-bounded families: judged on the step counters
        t = [micros(x) for x in timed(["TIME MYSQL %s 3" % E.enhex(mk(n)) for n in tsizes])]
        expo = math.log(max(t[-1], 1) / max(t[0], 1)) / math.log(tsizes[-1] / tsizes[0])
        ctx.cov.setdefault("growth_exponent", {})[name] = round(expo, 2)
        if expo > 1.6 and t[-1] > 20000:
            suspicious.append(name)
    for name in suspicious:
        confirmed = 0
        for _ in range(3):
            t = [micros(x) for x in timed(["TIME MYSQL %s 5" % E.enhex(FAMILIES[name](n)) for n in tsizes])]
            expo = math.log(max(t[-1], 1) / max(t[0], 1)) / math.log(tsizes[-1] / tsizes[0])
            if t[0] >= TIME_LIMIT * 1000000:
                ctx.count("timing:smallest-size-abandoned-inconclusive")          # no measurement at all: nothing to compare
                continue
            confirmed += expo > 1.6
        if confirmed == 3:
            pfam.report(ctx, "superlinear-time", {"kind": "input", "entry": "parse_statements", "dialect": "MYSQL", "input": FAMILIES[name](tsizes[0]), "family": name, "sizes": tsizes,
                                                  "observed": {"exponent": round(expo, 2), "micros": t}, "oracle": "c19: time grows linearly (exponent < 1.6, confirmed three times)", "how_found": "family timing"})
    pfam.conclude(ctx)


def replay(payload):
    if "family" in payload:
        a = E.run_impl(["COST MYSQL %s" % E.enhex(FAMILIES[payload["family"]](n)) for n in payload.get("sizes", [40, 80])])
        print(a); return 1
    print(E.run_impl(["LC %s" % E.enhex(payload["input"])])); return 1
