"""C02 — expression trees follow the documented operator precedence and grouping."""
import engine as E
import pfam, canon

# the documented table (property text): smaller binds tighter; left associative
COMPUTE = [("^", 3, "BITWISE_XOR"), ("*", 4, "MULTIPLE"), ("/", 4, "DIVIDE"), ("DIV", 4, "DIVIDE"), ("%", 4, "MOD"), ("MOD", 4, "MOD"), ("+", 5, "PLUS"), ("-", 5, "SUBTRACT"),
           ("<<", 6, "SHIFT_LEFT"), (">>", 6, "SHIRT_RIGHT"), ("&", 7, "BITWISE_AND"), ("|", 8, "BITWISE_OR"), ("div", 4, "DIVIDE"), ("mod", 4, "MOD")]
UNARY = [("-", "SUBTRACT"), ("+", "PLUS"), ("~", "BITWISE_INVERSION"), ("!", "LOGICAL_INVERSION")]
CMP = [("=", "EQ"), ("!=", "NEQ"), ("<>", "NEQ"), ("<", "LT"), ("<=", "LTE"), (">", "GT"), (">=", "GTE"), ("<=>", "SAME_EQUAL")]
ATOMS = ["a", "b", "c", "x1", "1", "2", "'s'", "NULL", "t.c"]


def level(t):
    k = t[0]
    if k == "atom": return 0
    if k == "un": return 2
    if k == "bin": return t[1][1]
    if k in ("is", "like", "between", "in"): return 9
    if k == "cmp": return 10
    if k == "not": return 11
    return {"and": 12, "xor": 13, "or": 14}[k]


def gen(r, depth, maxlevel, hive=False):
    """a random tree whose root level is ≤ maxlevel"""
    if depth <= 0 or r.chance(0.25):
        return ("atom", r.choice(ATOMS))
    kinds = ["un", "bin", "bin", "bin"]
    if maxlevel >= 9: kinds += ["is", "like", "between", "in"]
    if maxlevel >= 10: kinds += ["cmp", "cmp"]
    if maxlevel >= 11: kinds += ["not"]
    if maxlevel >= 12: kinds += ["and", "and"]
    if maxlevel >= 13: kinds += ["xor"]
    if maxlevel >= 14: kinds += ["or", "or"]
    k = r.choice(kinds)
    sub = lambda ml: gen(r, depth - 1, ml, hive)
    if k == "un":
        ops = [u for u in UNARY if not (hive and u[0] == "!")]
        return ("un", r.choice(ops), sub(14))
    if k == "bin": return ("bin", r.choice(COMPUTE), sub(14), sub(14))
    if k == "cmp": return ("cmp", r.choice(CMP), sub(14), sub(14))
    if k == "is": return ("is", r.chance(0.4), sub(14), r.choice(["NULL", "TRUE", "FALSE"]))
    if k == "like": return ("like", r.choice(["LIKE", "RLIKE", "REGEXP"]), r.chance(0.3), sub(14), sub(14))
    if k == "between": return ("between", r.chance(0.3), sub(14), sub(14), sub(14))
    if k == "in": return ("in", r.chance(0.3), sub(14), [sub(14) for _ in range(1 + r.below(3))])
    if k == "not": return ("not", sub(14))
    return (k, sub(14), sub(14))


def render(r, t, hive=False):
    """text of a tree: parentheses exactly where the documented precedence needs them, plus random redundant ones"""
    def w(c, maxl):
        s = render(r, c, hive)
        if level(c) > maxl or r.chance(0.12):
            s = "(" + s + ")"
            if r.chance(0.1): s = "(" + s + ")"
        return s
    k = t[0]
    if k == "atom": return t[1]
    if k == "un":
        s = w(t[2], 2)
        return t[1][0] + (" " if (s.startswith(t[1][0]) or r.chance(0.3)) else "") + s
    if k == "bin": return w(t[2], t[1][1]) + " " + t[1][0] + " " + w(t[3], t[1][1] - 1)
    if k == "cmp": return w(t[2], 10) + " " + t[1][0] + " " + w(t[3], 9)
    if k == "is": return w(t[2], 9) + " IS " + ("NOT " if t[1] else "") + t[3]
    if k == "like": return w(t[3], 9) + (" NOT " if t[2] else " ") + t[1] + " " + w(t[4], 8)
    if k == "between": return w(t[2], 9) + (" NOT" if t[1] else "") + " BETWEEN " + w(t[3], 8) + " AND " + w(t[4], 8)
    if k == "in": return w(t[2], 9) + (" NOT" if t[1] else "") + " IN (" + ", ".join(w(x, 8) for x in t[3]) + ")"
    if k == "not": return r.choice(["NOT ", "not "] + (["! "] if hive else [])) + w(t[1], 11)
    word = {"and": ["AND", "&&", "and"], "xor": ["XOR", "xor"], "or": ["OR", "||", "or"]}[k]
    return w(t[1], level(t)) + " " + r.choice(word) + " " + w(t[2], level(t) - 1)


def atom_dump(a):
    if a[0] in "0123456789'" or a in ("NULL", "TRUE", "FALSE"):
        return 'ASTLiteralExpression{value="%s"}' % canon.q(a)
    if "." in a:
        tb, c = a.split(".")
        return 'ASTColumnNameExpression{table_name="%s",column_name="%s"}' % (tb, c)
    return 'ASTColumnNameExpression{table_name=None,column_name="%s"}' % a


def expected(t):
    k = t[0]
    if k == "atom": return atom_dump(t[1])
    if k == "un": return "ASTUnaryExpression{operator=ASTComputeOperator{enum=EnumComputeOperator.%s},expression=%s}" % (t[1][1], expected(t[2]))
    if k == "bin": return "ASTComputeExpression{before_value=%s,after_value=%s,operator=ASTComputeOperator{enum=EnumComputeOperator.%s}}" % (expected(t[2]), expected(t[3]), t[1][2])
    if k == "cmp": return "ASTOperatorConditionExpression{before_value=%s,after_value=%s,operator=ASTCompareOperator{enum=EnumCompareOperator.%s}}" % (expected(t[2]), expected(t[3]), t[1][1])
    b = lambda x: "True" if x else "False"
    if k == "is": return "ASTIsExpression{is_not=%s,before_value=%s,after_value=%s}" % (b(t[1]), expected(t[2]), atom_dump(t[3]))
    if k == "like":
        cls = {"LIKE": "ASTLikeExpression", "RLIKE": "ASTRlikeExpression", "REGEXP": "ASTRegexpExpression"}[t[1]]
        return "%s{is_not=%s,before_value=%s,after_value=%s}" % (cls, b(t[2]), expected(t[3]), expected(t[4]))
    if k == "between": return "ASTBetweenExpression{is_not=%s,before_value=%s,from_value=%s,to_value=%s}" % (b(t[1]), expected(t[2]), expected(t[3]), expected(t[4]))
    if k == "in": return "ASTInExpression{is_not=%s,before_value=%s,after_value=ASTSubValueExpression{values=T[%s]}}" % (b(t[1]), expected(t[2]), ",".join(expected(x) for x in t[3]))
    if k == "not": return "ASTLogicalNotExpression{expression=%s}" % expected(t[1])
    cls = {"and": "ASTLogicalAndExpression", "xor": "ASTLogicalXorExpression", "or": "ASTLogicalOrExpression"}[k]
    return "%s{before_value=%s,after_value=%s}" % (cls, expected(t[1]), expected(t[2]))


# expression positions: (text with {E}, highest level the position parses without parentheses)
POSITIONS = [("SELECT {E} FROM t", 14), ("SELECT a FROM t WHERE {E}", 14), ("SELECT a FROM t x JOIN u y ON {E}", 14), ("SELECT a FROM t GROUP BY a HAVING {E}", 14),
             ("SELECT CASE WHEN {E} THEN 1 END FROM t", 14), ("SELECT CASE a WHEN 1 THEN {E} ELSE 2 END FROM t", 14), ("SELECT f(1, {E}) FROM t", 14), ("SELECT IF({E}, 1, 2) FROM t", 14),
             ("SELECT a FROM t WHERE z IN (9, {E})", 8), ("SELECT a FROM t WHERE z BETWEEN {E} AND 9", 8), ("INSERT INTO t PARTITION (dt = {E}) VALUES (1)", 8),
             ("CREATE TABLE t (a int DEFAULT {E})", 8), ("SELECT a FROM t ORDER BY {E} DESC", 8), ("UPDATE t SET a = {E} WHERE b = 1", 14), ("SELECT SUM(a) OVER (PARTITION BY {E}) FROM t", 8),
             ("SELECT a FROM t GROUP BY {E}", 8)]


def chain_tree(atoms, ops):
    """the tree of the flat chain a0 o1 a1 o2 a2 …: repeatedly merge the leftmost operator of the tightest level (left associative)"""
    nodes = [("atom", a) for a in atoms]
    ops = list(ops)
    while ops:
        lv = min(o[1] for o in ops)
        i = next(k for k, o in enumerate(ops) if o[1] == lv)
        nodes[i:i + 2] = [("bin", ops[i], nodes[i], nodes[i + 1])]
        del ops[i]
    return nodes[0]


def chains(r, quick):
    """every flat chain of three binary operators, and a sample of chains of four and five, without any parentheses"""
    import itertools
    names = ["a", "b", "c", "x1", "2", "t.c"]
    out = []
    for ops in itertools.product(COMPUTE[:12], repeat=3):
        out.append((names[:4], ops))
    for _ in range(1500 if quick else 30000):
        k = 4 + r.below(2)
        out.append(([r.choice(names) for _ in range(k + 1)], tuple(r.choice(COMPUTE) for _ in range(k))))
    res = []
    for atoms, ops in out:
        txt = atoms[0] + "".join(" %s %s" % (o[0], a) for o, a in zip(ops, atoms[1:]))
        res.append((txt, expected(chain_tree(atoms, ops))))
    return res


def run(ctx):
    n = 3000 if ctx.quick else 80000
    ctx.cov["rule"] = ("every flat chain of three binary arithmetic / bitwise operators (12³) and a sample of chains of four and five, against a reference that merges the tightest "
                       "leftmost operator first; random expression TREES over every unary / binary / keyword / comparison / logical operator and both spellings (DIV and /, MOD and %%, && and AND, || and OR, <> and !=), "
                       "depth ≤ 4, rendered with parentheses exactly where the documented precedence and left associativity need them plus random redundant ones, placed at %d expression "
                       "positions, for each dialect (Hive: `!` as NOT); oracle: the tree returned by the parser is the generated tree (so redundant parentheses change nothing and "
                       "grouping parentheses are honoured); correspondence on every parse. distinct_nontrivial = distinct accepted trees" % len(POSITIONS))
    r = ctx.rng.fork("c02")
    cases = []
    for i in range(n):
        d = r.choice(pfam.DIALECTS)
        hive = d == "HIVE"
        pos, maxl = r.choice(POSITIONS)
        t = gen(r, 1 + r.below(4), 14, hive)
        txt = render(r, t, hive)
        if level(t) > maxl:
            txt = "(" + txt + ")"
        cases.append((d, pos.replace("{E}", txt), expected(t), txt))
    for txt, want in chains(r, ctx.quick):
        d = r.choice(pfam.DIALECTS)
        pos, _ = r.choice(POSITIONS)
        cases.append((d, pos.replace("{E}", txt), want, txt))
    res, _ = ctx.corr([pfam.req_parse(d, s) for d, s, _, _ in cases], stream="positions")
    for (d, s, want, txt), (_, a, _) in zip(cases, res):
        if a.startswith("OK") and want in a:
            ctx.count("tree:as-documented"); continue
        ctx.count("tree:" + ("DIFFERENT" if a.startswith("OK") else a.split(" ")[0]))
        pfam.report(ctx, "precedence" if a.startswith("OK") else "rejected:" + a.split(" ")[0],
                    {"kind": "input", "entry": "parse_statements", "dialect": d, "input": s, "expression": txt, "expected_tree": want[:600], "observed": a[:600],
                     "oracle": "c02: the returned tree must nest operators as the documented precedence, associativity and the explicit parentheses dictate", "how_found": "stream positions"})
    for c_ in cases[:4]:
        ctx.sample({"dialect": c_[0], "input": c_[1][:200], "expected_tree": c_[2][:200]})
    # every token sequence up to a length over small alphabets of expression tokens (keyword predicates and their NOT forms, operator layers, calls / CASE,
    # sub-queries, windows / CAST / EXTRACT / index): the shallow, wide part of the input space, enumerated
    import smallscope
    n_ss = smallscope.run(ctx, ["predicates", "operators", "calls-case", "subqueries", "special-calls"], dialects=("MYSQL", "HIVE"), thorough_dialects=("MYSQL", "HIVE", "DB2"))
    ctx.cov["rule"] += "; small-scope correspondence: every token sequence up to length 3–5 over five expression alphabets (%d requests)" % n_ss
    pfam.conclude(ctx)


def replay(payload):
    a = E.run_impl([pfam.req_parse(payload["dialect"], payload["input"])])[0]
    print(repr(payload["input"])); print("expected:", payload["expected_tree"][:300]); print("observed:", a[:300])
    return 0 if payload["expected_tree"] in a else 1
