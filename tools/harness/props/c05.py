"""C05 — token boundaries and token classes agree with the SQL token grammar.

Proof side (lean/props.json "C05"): a second, rule-based definition of the token automaton (`MsqModel/Lex/Spec.lean`) agrees with the
regenerated transition table on every cell for every character (`C05.agree_cfgN`), hence the two lexers agree on every text
(`C05.lex_eq_spec`), and the token-grammar theorems (integers, words, quoted strings incl. rejection of unterminated ones, operators with
maximal munch, TRUE/FALSE/NULL in any case) hold for all payloads.  Implementation side: an independent reference tokenizer
(`reflex.py`, a direct maximal-munch scanner, no table) is compared with the library on all strings over the class-representative
alphabet up to a bound and on random concatenations of well-formed tokens; the model answers the same requests (correspondence)."""
import re
import engine as E
import lexstreams as LS
import pfam, reflex


def norm(a):
    # a `[…]` group is rendered with round brackets by the library (F-C04-2, C04's finding): compare modulo the rendered brackets
    return re.sub(r"\[S%28;%29;", "[S%5b;%5d;", a)


def classify(text, a, r):
    """attribute a difference to a listed departure from the token grammar, by what the text contains"""
    T = reflex.normalise(text)
    if a.startswith("OK") and r == "LEX" and re.search(r"[(\[]", T) and mismatched(T):
        return "bracket-kind"
    if hash_in_word(T):
        return "hash-in-word"
    return None


def code_chars(T):
    """(index, char) of the characters that are outside strings, names and comments according to the reference grammar"""
    out, i, n = [], 0, len(T)
    while i < n:
        c = T[i]
        if c in "'\"":
            try:
                i = reflex.scan_string(T, i, c)
            except reflex.Reject:
                return out
        elif c == "`":
            j = T.find("`", i + 1)
            if j < 0: return out
            i = j + 1
        elif T.startswith("--", i) or c == "#":
            if c == "#": out.append((i, c))
            j = T.find("\n", i)
            i = n if j < 0 else j
        elif T.startswith("/*", i):
            j = T.find("*/", i + 2)
            if j < 0: return out
            i = j + 2
        else:
            out.append((i, c)); i += 1
    return out


def hash_in_word(T):
    cc = dict(code_chars(T))
    # … directly after a word character, or after the point of a decimal literal
    return any(c == "#" and (i - 1) in cc and (cc[i - 1] not in reflex.DELIM or (cc[i - 1] == "." and cc.get(i - 2, " ").isdigit())) for i, c in cc.items())


def mismatched(T):
    st = []
    for _, c in code_chars(T):
        if c in "([": st.append(c)
        elif c in ")]":
            if not st: return False
            o = st.pop()
            if (o, c) not in (("(", ")"), ("[", "]")): return True
    return False


def shrink(text, cfg, unexplained, rounds=60):
    """smallest text (deleting characters from either end, then single characters) on which implementation and reference still differ for an
    unlisted reason; every round asks the implementation about all candidates in one batch"""
    cur = text
    for _ in range(rounds):
        if len(cur) <= 1:
            break
        cands = list(dict.fromkeys([cur[1:], cur[:-1]] + [cur[:i] + cur[i + 1:] for i in range(1, len(cur) - 1)]))
        ans = E.run_impl(["L %d %s" % (cfg, E.enhex(c)) for c in cands], cfg=cfg)
        nxt = next((c for c, a in zip(cands, ans) if unexplained(c, norm(a))), None)
        if nxt is None:
            break
        cur = nxt
    return cur


def run(ctx):
    quick = ctx.quick
    alpha, nclasses = LS.alphabet()
    k = 3 if quick else 4
    ctx.cov["rule"] = ("(1) every string of length ≤ %d over the %d class representatives of the regenerated table's character classes (plus TAB, CR, U+3000, non-ASCII, astral) under the "
                       "shipped configuration, and length ≤ %d under the all-retaining configuration; (2) random concatenations of well-formed tokens of every kind (words, keywords, "
                       "TRUE/FALSE/NULL in mixed case, integers, decimals, hex/bit literals in all spellings, strings with doubled-quote and backslash escapes, back-quoted names, every "
                       "operator, comments of the three kinds, nested brackets) with arbitrary or no separators; (3) the same texts cut short inside a string / name / block comment / "
                       "bracket group (must be rejected); each compared token by token (text, marks, nesting) with the reference tokenizer reflex.py, and model vs implementation "
                       "(correspondence). distinct_nontrivial = distinct accepted token lists" % (k, len(alpha), k - 1))
    ctx.assumptions += ["the reference decides where the property is silent: `.5` is a point and an integer, exponents are not number syntax (`1e5` is a word), `0x`/`0b` need no digit, a point may "
                        "not follow a hex/bit literal, `--` needs no following blank, a back-quote inside a back-quoted name is not escapable — the library agrees on all of these"]
    r = ctx.rng.fork("c05")
    cases = [(7, s) for s in LS.exhaustive(alpha, k)]
    small = [c for c in alpha if c in " \n'\"`#-/*(1a<=|x0."]
    cases += [(0, s) for s in LS.exhaustive(small, k)]
    # the witnesses of repaired lexer defects (regression corpus), also embedded between other tokens
    import json as _json, os as _os
    for f in _json.load(open(_os.path.join(E.VERIF, "known_findings.json"))):
        w = f.get("witness", {})
        if f.get("status") == "fixed" and isinstance(w.get("input"), str) and len(w["input"]) < 400:
            cases += [(7, w["input"]), (0, w["input"]), (7, "a " + w["input"] + " , (b)")]
    n = 6000 if quick else 150000
    for _ in range(n):
        s = LS.random_concat(r, 1 + r.below(12))
        cfg = 7 if r.chance(0.7) else r.below(8)
        cases.append((cfg, s))
        if r.chance(0.25) and len(s) > 2:
            cases.append((cfg, s[:1 + r.below(len(s) - 1)]))      # cut short: unterminated constructs must be rejected
    # the retention options are a process-wide setting of the library: one worker configuration per option setting
    cases.sort(key=lambda c: c[0])
    res = []
    for cfg in sorted(set(c[0] for c in cases)):
        part, _ = ctx.corr(["L %d %s" % (cfg, E.enhex(s)) for c, s in cases if c == cfg], cfg=cfg, stream="tokens:cfg%d" % cfg, nontrivial=lambda q, a: a.startswith("OK"))
        res += part

    def unexplained_on(cfg):
        return lambda s, a: a != reflex.lex(s, cfg) and classify(s, a, reflex.lex(s, cfg)) is None
    budget = 6
    for (cfg, s), (_, a, _) in zip(cases, res):
        ref = reflex.lex(s, cfg)
        a = norm(a)
        ctx.count("ref:" + ref.split(" ")[0] + "/impl:" + a.split(" ")[0])
        if a == ref:
            continue
        cls = classify(s, a, ref)
        if cls is None and budget > 0 and len(s) <= 200:
            budget -= 1
            s2 = shrink(s, cfg, unexplained_on(cfg))
            if s2 != s:
                s, a, ref = s2, norm(E.run_impl(["L %d %s" % (cfg, E.enhex(s2))], cfg=cfg)[0]), reflex.lex(s2, cfg)
        sig = cls or ("accepts-malformed" if a.startswith("OK") and ref == "LEX" else "rejects-well-formed" if ref.startswith("OK") and not a.startswith("OK") else "tokens-differ")
        pfam.report(ctx, sig, {"kind": "input", "entry": "FSMMachine.parse", "config": cfg, "input": s, "observed": a[:400], "reference": ref[:400],
                               "oracle": "c05: the library's tokens must be the reference tokenizer's (maximal munch, class marks, rejection of unterminated / unbalanced input)",
                               "how_found": "stream tokens"})
    for f in ctx.findings:
        if f.get("status") == "finding":
            w = f["witness"]
            a = norm(E.run_impl(["L %d %s" % (w.get("config", 7), E.enhex(w["input"]))], cfg=w.get("config", 7))[0])
            if a != reflex.lex(w["input"], w.get("config", 7)):
                ctx.report_known(f)
    for (cfg, s), (_, a, b) in list(zip(cases, res))[-4:]:
        ctx.sample({"config": cfg, "input": s[:120], "impl": a[:160], "reference": reflex.lex(s, cfg)[:160]})
    pfam.conclude(ctx, search)


def search(ctx):
    """a broken obligation names cells (SPECDIFF / BADCELLS): drive the implementation into them with longer exhaustive strings"""
    alpha, _ = LS.alphabet()
    strs = list(LS.exhaustive([c for c in alpha if ord(c) < 128], 4))[:400000]
    ans = E.run_impl(["L 7 %s" % E.enhex(s) for s in strs], cfg=7)
    ctx.cov["evaluations"] += len(strs)
    for s, a in zip(strs, ans):
        ref = reflex.lex(s, 7)
        if norm(a) != ref and classify(s, norm(a), ref) is None:
            pfam.report(ctx, "tokens-differ", {"kind": "input", "entry": "FSMMachine.parse", "config": 7, "input": s, "observed": a[:300], "reference": ref[:300],
                                               "oracle": "c05: reference tokenizer", "how_found": "search: exhaustive length 4"})
            return


def replay(payload):
    cfg = payload.get("config", 7)
    a = norm(E.run_impl(["L %d %s" % (cfg, E.enhex(payload["input"]))], cfg=cfg)[0])
    ref = reflex.lex(payload["input"], cfg)
    print("input:", repr(payload["input"]), "config", cfg); print("implementation:", a[:400]); print("reference     :", ref[:400])
    return 0 if a == ref else 1
