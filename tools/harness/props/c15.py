"""C15 — per-clause column usage is exact, level-local and resolves aliases and ordinals.

Streams:
  * correspondence of the seven clause analyzers and of the select-item map between the Lean model and the real
    classes, on general generated statements and on the dedicated queries;
  * oracle: a dedicated generator writes queries with known column placement per clause and returns, with the
    text, a description of every clause (references in textual order, aliases, ordinals); the expected answer of
    each analyzer is computed from that description alone.
"""
import re
import engine as E
import pfam, sqlgen
import anfam

KINDS = ("all", "select", "join", "where", "group", "having", "order")

# reference kinds:  ("col", table or None, name)   ("anon",)   ("lowglobal", name)   ("ord", k)


class CGen:
    def __init__(self, rng, maxdepth=1, clash=0.0, lowglobal=0.0, hive_index=0.0):
        self.r, self.maxdepth, self.k = rng, maxdepth, 0
        self.clash, self.lowglobal, self.hive_index = clash, lowglobal, hive_index
        self.tags = set()

    def p(self, x): return self.r.chance(x)
    def ch(self, xs): return self.r.choice(xs)

    def fresh(self, prefix):
        self.k += 1
        return "%s%d" % (prefix, self.k)

    # -- expressions with known references -------------------------------------------------------------------
    def column(self, inner=False):
        n = self.fresh("in_" if inner else self.ch(["c", "col_", "C"]))
        x = self.r.below(100)
        if x < 55: return n, [("col", None, n)]
        if x < 65: return "`%s`" % n, [("col", None, n)]
        if x < 72: return "`my %s`" % n, [("col", None, "my " + n)]
        t = self.ch(["t1", "t2", "u", "x"])
        if x < 90: return "%s.%s" % (t, n), [("col", t, n)]
        return "`%s`.`%s`" % (t, n), [("col", t, n)]

    def subquery(self, d):
        """a nested query: none of its columns may be reported"""
        g = CGen(self.r, 0)
        g.k = self.k + 100
        c1, _ = g.column(inner=True); c2, _ = g.column(inner=True)
        self.tags.add("subquery")
        return "SELECT %s FROM %s WHERE %s = 1%s" % (c1, self.fresh("it"), c2, self.ch(["", " GROUP BY 1", " ORDER BY " + c1, " ORDER BY 1", " ORDER BY 1 DESC LIMIT 1"]))

    def window(self):
        """a window function whose OVER clause partitions / orders by columns and by integer LITERALS: a literal inside OVER is
        a constant, never a select-list position, and contributes no reference"""
        refs = []
        x = self.r.below(100)
        if x < 40: fn = self.ch(["ROW_NUMBER()", "RANK()", "DENSE_RANK()"])
        elif x < 70:
            c, rc = self.column(); fn = "%s(%s)" % (self.ch(["SUM", "MAX", "COUNT"]), c); refs += rc
        else:
            c, rc = self.column(); fn = "%s(%s, %s)" % (self.ch(["LAG", "LEAD"]), c, self.ch(["1", "2"])); refs += rc
        parts = []
        def keys(n):
            out = []
            for _ in range(n):
                if self.p(0.55):
                    out.append(self.ch(["1", "2", "3", "10"])); self.tags.add("window:literal-key")
                else:
                    c, rc = self.column(); out.append(c); refs.extend(rc)
            return out
        if self.p(0.6): parts.append("PARTITION BY " + ", ".join(keys(self.ch([1, 1, 2]))))
        if self.p(0.8) or not parts: parts.append("ORDER BY " + ", ".join(k + self.ch(["", " DESC", " ASC"]) for k in keys(self.ch([1, 1, 2]))))
        self.tags.add("window")
        return "%s OVER (%s)" % (fn, " ".join(parts)), refs

    def expr(self, d=0, agg_ok=True):
        x = self.r.below(100)
        if d > 1 or x < 30:
            return self.column()
        if x < 38: return self.ch(["1", "'s'", "2.5", "NULL"]), []
        if x < 48:
            a, ra = self.expr(d + 1, agg_ok); b, rb = self.expr(d + 1, agg_ok)
            return "%s %s %s" % (a, self.ch(["+", "-", "*"]), b), ra + rb
        if x < 53:
            a, ra = self.expr(d + 1, agg_ok); b, rb = self.expr(d + 1, agg_ok)
            return "%s(%s, %s)" % (self.ch(["f", "COALESCE", "concat"]), a, b), ra + rb
        if x < 56:          # integer literals as function arguments and in CASE arms: constants
            a, ra = self.expr(d + 1, agg_ok)
            self.tags.add("literal:argument")
            return self.ch(["f(%s, 1)", "SUBSTRING(%s, 1, 2)", "CASE WHEN %s > 1 THEN 2 ELSE 3 END", "COALESCE(%s, 1)", "IF(%s IN (1, 2), 1, 2)"]) % a, ra
        if x < 66 and agg_ok:
            a, ra = self.expr(d + 1, False)
            self.tags.add("aggregate:with-column")
            return "%s(%s%s)" % (self.ch(["SUM", "MAX", "MIN", "AVG", "COUNT"]), self.ch(["", "", "DISTINCT "]), a), (ra if ra else [("anon",)])
        if x < 73 and agg_ok:
            self.tags.add("aggregate:no-column")
            return self.ch(["COUNT(1)", "SUM(1 + 2)", "COUNT('x')", "MAX(NULL)", "COUNT((" + self.subquery(d) + "))"]), [("anon",)]
        if x < 77 and agg_ok:
            self.tags.add("wildcard:count")
            return "COUNT(*)", [("col", None, "*")]
        if x < 82:
            a, ra = self.expr(d + 1, agg_ok); b, rb = self.expr(d + 1, agg_ok); c, rc = self.expr(d + 1, agg_ok)
            return "CASE WHEN %s > 1 THEN %s ELSE %s END" % (a, b, c), ra + rb + rc
        if x < 85:
            a, ra = self.expr(d + 1, agg_ok)
            return "CAST(%s AS %s)" % (a, self.ch(["INT", "CHAR(3)", "DECIMAL(10,2)"])), ra
        if x < 89:
            self.tags.add("global:upper")
            return self.ch(["CURRENT_DATE", "CURRENT_TIMESTAMP", "CURRENT_TIME"]), []
        if x < 91 and self.p(self.lowglobal):
            n = self.ch(["current_date", "Current_Timestamp", "current_time"])
            self.tags.add("global:lower")
            return n, []          # a dialect variable in any letter case is not a column (F-C15-3, fixed)
        if x < 93 and self.maxdepth > 0:
            return "(" + self.subquery(d) + ")", []
        if x < 99:
            return self.window()
        return self.column()

    def cond(self, d=0, agg_ok=False):
        x = self.r.below(100)
        a, ra = self.expr(d + 1, agg_ok)
        if x < 40: return a + self.ch([" = 1", " > 2", " IS NULL", " LIKE 'p%'", " BETWEEN 1 AND 2", " IN (1, 2)"]), ra
        if x < 55:
            b, rb = self.expr(d + 1, agg_ok)
            return "%s %s %s" % (a, self.ch(["=", "<", ">=", "<>"]), b), ra + rb
        if x < 68 and self.maxdepth > 0:
            return a + self.ch([" IN (", " NOT IN ("]) + self.subquery(d) + ")", ra
        if x < 76 and self.maxdepth > 0:
            return self.ch(["EXISTS (", "NOT EXISTS ("]) + self.subquery(d) + ")", []
        if d < 2:
            b, rb = self.cond(d + 1, agg_ok); c, rc = self.cond(d + 1, agg_ok)
            return "(" + b + self.ch([" AND ", " OR "]) + c + ")", rb + rc
        return a + " = 1", ra

    # -- one SELECT ---------------------------------------------------------------------------------------------
    def select(self):
        lv = {"items": [], "join": [], "where": [], "group": [], "having": [], "order": []}
        texts = []
        n = 1 + self.r.below(4)
        trap = self.p(0.15)          # select item 1 is a literal / a window over literals / a sub-query, and position 1 is used below
        self.force_ord1 = trap
        for i in range(n):
            x = self.r.below(100)
            if trap and i == 0:
                k = self.r.below(3)
                if k == 0: t, refs = self.ch(["7", "1", "'s'"]), []
                elif k == 1: t, refs = self.window()
                else: t, refs = "(" + self.subquery(0) + ")", []
                al = self.fresh("al") if self.p(0.5) else None
                self.tags.add("item1:" + ["literal", "window", "subquery"][k])
            elif x < 6 and i == 0:
                t, refs, al = "*", [("col", None, "*")], None; self.tags.add("wildcard:all")
            elif x < 12:
                t, refs, al = "t1.*", [("col", "t1", "*")], None; self.tags.add("wildcard:qualified")
            else:
                t, refs = self.expr(0)
                al = self.fresh("al") if self.p(0.55) else None
            lv["items"].append({"refs": refs, "alias": al})
            texts.append(t + (" AS " + al if al else ""))
        # an alias that clashes with a column used at this level (F-C15-1): chosen below, after the clauses are known
        text = "SELECT " + self.ch(["", "", "DISTINCT "]) + "%ITEMS%"
        text += " FROM " + self.ch(["t1", "t1 AS x", "s.t1", "(SELECT in_z FROM zz) AS t1"])
        for _ in range(self.ch([0, 0, 1, 2])):
            tr = self.ch(["t2", "u AS t2", "(SELECT in_y FROM yy WHERE in_w = 2) AS u"])
            x = self.r.below(100)
            if x < 15:
                text += " CROSS JOIN " + tr
            elif x < 30:
                c = self.fresh("k")
                text += " JOIN %s USING(%s)" % (tr, c); lv["join"] += [("col", None, c)]; self.tags.add("join:using")
            else:
                c, rc = self.cond(0)
                text += " %s %s ON %s" % (self.ch(["JOIN", "LEFT JOIN", "INNER JOIN", "RIGHT OUTER JOIN"]), tr, c); lv["join"] += rc
        if self.p(0.6):
            c, rc = self.cond(0); text += " WHERE " + c; lv["where"] += rc
        aliases = [it["alias"] for it in lv["items"] if it["alias"]]
        if self.p(0.45):
            parts = []
            for _ in range(self.ch([1, 1, 2, 3])):
                t, ent = self.by_item(lv, aliases, "group"); parts.append(t); lv["group"].append(ent)
            text += " GROUP BY " + ", ".join(parts)
            if self.p(0.5):
                if self.p(0.2):
                    w, rw = self.window(); text += " HAVING %s > 0" % w; lv["having"] += rw; self.tags.add("having:window")
                elif aliases and self.p(0.4):
                    a = self.ch(aliases); text += " HAVING %s > 0" % a; lv["having"] += [("col", None, a)]; self.tags.add("having:alias")
                else:
                    c, rc = self.cond(0, agg_ok=True); text += " HAVING " + c; lv["having"] += rc
        if self.p(0.45):
            parts = []
            for _ in range(self.ch([1, 1, 2, 3])):
                t, ent = self.by_item(lv, aliases, "order"); parts.append(t + self.ch(["", " DESC", " ASC"])); lv["order"].append(ent)
            text += " ORDER BY " + ", ".join(parts)
        if self.p(0.2): text += " LIMIT 5"
        # alias / column clash
        used = [r for r in lv["join"] + lv["where"] + [x for it in lv["items"] for x in it["refs"]] if r[0] == "col" and r[1] is None and r[2] != "*"]
        if used and aliases and self.p(self.clash):
            victim = self.ch(used)[2]
            if re.fullmatch(r"[A-Za-z_][A-Za-z0-9_]*", victim):
                i = self.ch([j for j, it in enumerate(lv["items"]) if it["alias"]])
                old = lv["items"][i]["alias"]
                if not any(e[1][0][0] == "col" and old == e[1][0][2] for e in lv["group"] + lv["order"] if e[0] == "refs" and len(e[1]) == 1) and ("col", None, old) not in lv["having"]:
                    texts[i] = texts[i][:-len(old)] + victim
                    lv["items"][i]["alias"] = victim
                    self.tags.add("alias-clash")
        # an alias that is the COLUMN NAME of a QUALIFIED reference of this level (`SELECT o.price * o.qty AS price … WHERE o.price > 10`): no clash at all — a
        # qualified reference is never an alias, in any clause
        aliases = [it["alias"] for it in lv["items"] if it["alias"]]
        qual = [r for r in lv["join"] + lv["where"] + lv["having"] + [x for it in lv["items"] for x in it["refs"]]
                + [x for e in lv["group"] + lv["order"] if e[0] == "refs" for x in e[1]] if r[0] == "col" and r[1] is not None and r[2] != "*"]
        unq = {r[2] for r in lv["join"] + lv["where"] + lv["having"] + [x for it in lv["items"] for x in it["refs"]]
               + [x for e in lv["group"] + lv["order"] if e[0] == "refs" for x in e[1]] if r[0] == "col" and r[1] is None}
        if qual and aliases and "alias-clash" not in self.tags and self.p(0.3):
            victim = self.ch(qual)[2]
            if re.fullmatch(r"[A-Za-z_][A-Za-z0-9_]*", victim) and victim not in unq and victim not in aliases:
                i = self.ch([j for j, it in enumerate(lv["items"]) if it["alias"]])
                old = lv["items"][i]["alias"]
                if not any(e[1][0][0] == "col" and old == e[1][0][2] for e in lv["group"] + lv["order"] if e[0] == "refs" and len(e[1]) == 1) and ("col", None, old) not in lv["having"] \
                        and texts[i].endswith(old):
                    texts[i] = texts[i][:-len(old)] + victim
                    lv["items"][i]["alias"] = victim
                    self.tags.add("alias-equals-qualified-column")
        return text.replace("%ITEMS%", ", ".join(texts)), lv

    def by_item(self, lv, aliases, clause):
        """one GROUP BY / ORDER BY item: an ordinal, an alias, or an expression"""
        x = self.r.below(100)
        if self.p(self.hive_index):
            n = self.fresh("arr"); self.tags.add("array-index-in-" + clause); lv["index_in_" + clause] = True
            return "%s[%d]" % (n, self.r.below(3)), ("refs", [("col", None, n)])
        if getattr(self, "force_ord1", False):
            self.force_ord1 = False; self.tags.add("ordinal")
            return "1", ("ord", 1)
        if x < 30:
            k = 1 + self.r.below(len(lv["items"])); self.tags.add("ordinal")
            return str(k), ("ord", k)
        if x < 38:          # look like positions, are expressions: no reference, no position
            self.tags.add("by:not-a-position")
            return self.ch(["1 + 1", "'1'", "+1", "2 * 1", "'2'", "(1 + 0)"]), ("refs", [])
        if x < 46:
            w, rw = self.window(); self.tags.add("by:window")
            return w, ("refs", rw)
        if x < 64 and aliases:
            a = self.ch(aliases); self.tags.add("alias-reference")
            return a, ("refs", [("col", None, a)])
        t, refs = self.expr(1, agg_ok=False)
        if re.fullmatch(r"[+-]?\d+", t):        # a bare integer would be a position
            t, refs = self.column()
        return t, ("refs", refs)

    def query(self):
        """(text, description): description = {"withs": [query description], "branches": [level]}"""
        q = {"withs": [], "branches": []}
        wtext = ""
        if self.maxdepth > 0 and self.p(0.2):
            ws = []
            for _ in range(self.ch([1, 1, 2])):
                g = CGen(self.r, 0); g.k = self.k + 300; self.k += 50
                bt, bq = g.query()
                ws.append(self.fresh("w") + " AS (" + bt + ")"); q["withs"].append(bq)
            wtext = "WITH " + ", ".join(ws) + " "
            self.tags.add("with")
        t, lv = self.select(); q["branches"].append(lv)
        text = t
        for _ in range(self.ch([0, 0, 0, 1, 2])):
            t, lv = self.select(); q["branches"].append(lv)
            text += " " + self.ch(["UNION", "UNION ALL", "EXCEPT"]) + " " + t
            self.tags.add("union")
        return wtext + text, q


# -- the oracle: expected answers from the description alone -------------------------------------------------------

def conv(refs, lowglobal_as_column):
    out = []
    for r in refs:
        if r[0] == "col": out.append((r[1], r[2], None))
        elif r[0] == "anon": out.append((None, None, None))
        elif r[0] == "ord": out.append((None, None, r[1]))
        elif r[0] == "lowglobal" and lowglobal_as_column: out.append((None, r[1], None))
    return out


def resolve(lv, cols, D2):
    """alias (last item carrying it) or position -> the references of that select item; everything else unchanged"""
    out = []
    for c in cols:
        t, n, k = c
        hit = None
        if t is None and n is not None and k is None:
            for it in lv["items"]:
                if it["alias"] == n: hit = it
        elif t is None and n is None and k is not None and 1 <= k <= len(lv["items"]):
            hit = lv["items"][k - 1]
        out += conv(hit["refs"], D2) if hit is not None else [c]
    return out


def by_refs(entries):
    out = []
    for e in entries:
        out += [("ord", e[1])] if e[0] == "ord" else list(e[1])
    return out


def raw_all(q, D2):
    """what the node-level collection returns for a whole query (used for the WITH leak): nothing resolved"""
    out = []
    for w in q["withs"]:
        out += raw_all(w, D2)
    for lv in q["branches"]:
        out += conv([x for it in lv["items"] for x in it["refs"]] + lv["join"] + lv["where"] + by_refs(lv["group"]) + lv["having"] + by_refs(lv["order"]), D2)
    return out


def expected(kind, q, D1=False, D2=False, D3=False):
    out = []
    for bi, lv in enumerate(q["branches"]):
        sel = conv([x for it in lv["items"] for x in it["refs"]], D2)
        join, where = conv(lv["join"], D2), conv(lv["where"], D2)
        if D1:
            sel, join, where = resolve(lv, sel, D2), resolve(lv, join, D2), resolve(lv, where, D2)
        group = resolve(lv, conv(by_refs(lv["group"]), D2), D2)
        having = resolve(lv, conv(lv["having"], D2), D2)
        order = resolve(lv, conv(by_refs(lv["order"]), D2), D2)
        part = {"select": sel, "join": join, "where": where, "group": group, "having": having, "order": order,
                "all": sel + join + where + group + having + order}[kind]
        if kind == "all" and D3 and len(q["branches"]) == 1:
            leak = []
            for w in q["withs"]:
                leak += raw_all(w, D2)
            part = resolve(lv, leak, D2) + part
        out += part
    return out


def dump_cols(cols):
    import canon
    def s(x): return "None" if x is None else '"' + canon.q(x) + '"'
    return "OK L[" + ",".join("QuoteColumn{table_name=%s,column_name=%s,column_idx=%s}" % (s(t), s(n), "None" if k is None else k) for t, n, k in cols) + "]"


DEFECTS = [("D1", "alias-substituted-in-select-join-where"), ("D2", "lower-case-dialect-variable-reported"), ("D3", "with-body-leaks-into-all-clauses")]
D4 = "array-index-in-group-order-by-not-printable"


def raises_notsup(kind, q):
    """F-C15-4: the ordinal test prints the item in the DEFAULT dialect, which refuses an array index"""
    return any((kind in ("group", "all") and lv.get("index_in_group")) or (kind in ("order", "all") and lv.get("index_in_order")) for lv in q["branches"])



def judge(kind, q, answer):
    """[] if exact; else the list of failure signatures that explain the answer (known defect classes), or one unexplained signature"""
    if answer == dump_cols(expected(kind, q)):
        return []
    if not answer.startswith("OK"):
        return [D4] if answer == "NOTSUP" and raises_notsup(kind, q) else ["rejected:" + answer.split(" ")[0]]
    import itertools
    for n in (1, 2, 3):
        for combo in itertools.combinations(range(3), n):
            kw = {DEFECTS[i][0]: True for i in combo}
            if answer == dump_cols(expected(kind, q, **kw)):
                return [DEFECTS[i][1] for i in combo]
    return ["wrong:" + kind]


def known_case(rng):
    d = rng.choice(["MYSQL", "HIVE", "DEFAULT", "ORACLE", "MYSQL", "POSTGRE_SQL", "HIVE"])
    g = CGen(rng, maxdepth=rng.choice([0, 1, 1, 1]), clash=rng.choice([0, 0, 0, 0.5]), lowglobal=rng.choice([0, 0, 0, 1]),
             hive_index=rng.choice([0, 0, 0.15]) if d == "HIVE" else 0)
    text, q = g.query()
    text, style = anfam.recase(rng, text)          # keywords in lower / Capitalised / mixed case
    g.tags.add("keywords:" + style)
    return {"text": text, "q": q, "tags": sorted(g.tags), "dialect": d}


def req(kind, d, text):
    return "AN columns %s %s %s" % (kind, d, E.enhex(text))


def check_case(ctx, c, answers, how):
    for k, a in zip(KINDS, answers):
        sigs = judge(k, c["q"], a)
        ctx.count("oracle:%s:%s" % (k, "+".join(sigs) if sigs else "exact"))
        for sig in sigs:
            pfam.report(ctx, sig, {"kind": "input", "entry": "analyzer " + k, "dialect": c["dialect"], "input": c["text"], "analysis": k, "q": c["q"],
                                   "want": dump_cols(expected(k, c["q"]))[:800], "observed": a[:800],
                                   "oracle": "c15: the %s analysis must return exactly the references written in the clause (aliases / ordinals resolved only in GROUP BY, HAVING, ORDER BY)" % k,
                                   "how_found": how})


def run(ctx):
    n_known = 1500 if ctx.quick else 25000
    n_gen = 700 if ctx.quick else 12000
    ctx.cov["rule"] = ("(1) correspondence of CurrentUsedQuoteColumn, the six Current<Clause>ClauseUsedQuoteColumn and CurrentColumnSelectToDirectQuoteHash between the Lean model and the "
                       "real classes on the first statement of general generated scripts (all statement kinds, Hive clauses, rejected texts) and on the dedicated queries; "
                       "(2) oracle on the implementation: a dedicated generator writes single-level and nested queries with known column placement per clause — bare / quoted / "
                       "qualified columns, arithmetic, functions, CASE, CAST, window functions whose OVER clause partitions / orders by columns and by integer literals (in the select list, HAVING and ORDER BY), integer literals as function arguments / CASE arms / IN lists, items that look like positions but are expressions (1 + 1, '1', +1), position 1 naming a literal / window / sub-query item, sub-queries with their own ORDER BY 1, aggregates with and without column arguments, COUNT(*), `*`, `t.*`, upper- and "
                       "lower-case dialect variables, scalar / IN / EXISTS sub-queries and derived tables in every clause, USING / ON joins, aliases and ordinals in GROUP BY / HAVING / "
                       "ORDER BY, alias/column name clashes, WITH tables, UNION branches — and the expected answer of each of the seven analyzers is computed from the description of "
                       "the query alone; an answer that differs is explained by a listed defect class only if it equals the answer predicted for exactly that class. "
                       "distinct_nontrivial = distinct non-empty answers")
    ctx.cov["validated_only"] = ["agreement of the hand model with current_level_used_quote_columns.py / current_level_column_analyzer.py (sampled)",
                                 "the select-item map on UNION statements (correspondence only)"]
    r = ctx.rng.fork("c15")
    cases = []
    for i in range(n_known):
        cases.append(known_case(r))
    reqs = [req(k, c["dialect"], c["text"]) for c in cases for k in KINDS + ("hash",)]
    res, bad = anfam.corr(ctx, reqs, stream="known", nontrivial=lambda q, a: a.startswith("OK") and a != "OK L[]")
    m = len(KINDS) + 1
    for i, c in enumerate(cases):
        for t in c["tags"]:
            ctx.count("shape:" + t)
        check_case(ctx, c, [res[m * i + j][1] for j in range(len(KINDS))], "dedicated generator")
        # the select-item map of a single SELECT: one entry per item, 0-based position, the item's references
        if len(c["q"]["branches"]) == 1:
            a = res[m * i + len(KINDS)][1]
            n_items = len(c["q"]["branches"][0]["items"])
            idx = [int(x) for x in re.findall(r"StandardColumn\{column_idx=(-?\d+),", a)]
            ok = a.startswith("OK") and idx == list(range(n_items))
            if ok:
                # the references of all items, concatenated, are the select-list references
                inner = re.sub(r"T\[StandardColumn\{[^}]*\},L\[", "", a[len("OK L["):])
                got = re.findall(r"QuoteColumn\{[^}]*\}", inner)
                want = re.findall(r"QuoteColumn\{[^}]*\}", dump_cols(expected("select", c["q"])))
                want2 = re.findall(r"QuoteColumn\{[^}]*\}", dump_cols(expected("select", c["q"], D2=True)))
                ok = got == want
                if not ok and got == want2:
                    ok = True
                    pfam.report(ctx, DEFECTS[1][1], {"kind": "input", "entry": "analyzer hash", "dialect": c["dialect"], "input": c["text"], "analysis": "hash", "q": c["q"],
                                                     "observed": a[:800], "oracle": "c15: dialect variables are not columns", "how_found": "dedicated generator"})
            ctx.count("oracle:hash:" + ("exact" if ok else "wrong"))
            if not ok and not a.startswith("NOTSUP"):
                pfam.report(ctx, "wrong:hash", {"kind": "input", "entry": "analyzer hash", "dialect": c["dialect"], "input": c["text"], "analysis": "hash", "q": c["q"],
                                                "observed": a[:800], "oracle": "c15: one entry per select item, 0-based position, the item's references", "how_found": "dedicated generator"})
    # -- general generator: correspondence only ------------------------------------------------------------------
    gen = list(pfam.regression_cases("C15"))
    for i in range(n_gen):
        d = r.choice(pfam.MAIN_DIALECTS)
        g = sqlgen.Gen(r, d, wild=False)
        gen.append((d, g.query() if r.chance(0.85) else g.script()))
    anfam.corr(ctx, [req(k, d, t) for d, t in gen for k in KINDS + ("hash",)], stream="general", nontrivial=lambda q, a: a.startswith("OK") and a != "OK L[]")
    # -- an alias equal to (the column name of) the item it renames: `t.a AS a`, `a AS a`, `t.a a`, `t.a + 1 AS a` × the alias used in GROUP BY / HAVING / ORDER BY /
    #    WHERE / several of them (seeded C15-13: identity aliases skipped by comparing the column NAME only, so `t.a AS a … GROUP BY a` lost its qualifier) — systematic, correspondence
    same = []
    for q_, c_ in (("t", "a"), ("t1", "id"), ("u", "k")):
        for item in ("%s.%s AS %s" % (q_, c_, c_), "%s.%s %s" % (q_, c_, c_), "%s AS %s" % (c_, c_), "%s.%s + 1 AS %s" % (q_, c_, c_), "`%s`.`%s` AS `%s`" % (q_, c_, c_), "%s.%s AS %s" % (q_, c_, c_.upper())):
            for tail in ("GROUP BY %s" % c_, "ORDER BY %s DESC" % c_, "GROUP BY %s.z HAVING %s > 3" % (q_, c_), "WHERE %s > 0 GROUP BY %s ORDER BY %s" % (c_, c_, c_), "GROUP BY %s.%s ORDER BY 1" % (q_, c_),
                         "JOIN v ON %s.%s = v.%s ORDER BY %s" % (q_, c_, c_, c_), "GROUP BY 1 HAVING MAX(%s) > 1" % c_):
                j, rest = (tail, "") if tail.startswith("JOIN") else ("", tail)
                same.append((r.choice(pfam.MAIN_DIALECTS), "SELECT %s, COUNT(1) AS n FROM %s %s %s" % (item, q_, j, rest)))
    anfam.corr(ctx, [req(k, d, t) for d, t in same for k in KINDS + ("hash",)], stream="alias-equals-name", nontrivial=lambda q, a: a.startswith("OK") and a != "OK L[]")
    # -- known findings --------------------------------------------------------------------------------------------
    for f in ctx.findings:
        if f.get("status") == "finding":
            w = f["witness"]
            a = E.run_impl([req(w["analysis"], w["dialect"], w["input"])])[0]
            if a != w["want"]:
                ctx.report_known(f)
    for c in cases[:4]:
        ctx.sample({"dialect": c["dialect"], "query": c["text"][:300], "expected_where": dump_cols(expected("where", c["q"]))[:200],
                    "expected_order": dump_cols(expected("order", c["q"]))[:200], "tags": c["tags"]})
    pfam.conclude(ctx, search)


def search(ctx):
    r = ctx.rng.fork("c15-search")
    # the identity-alias shapes with the answer written out: `q.c AS c … GROUP BY c / ORDER BY c` refers to the item, i.e. to q.c
    for q_, c_ in (("t", "a"), ("t1", "id"), ("u", "k")):
        for kind, tail in (("group", "GROUP BY %s" % c_), ("order", "ORDER BY %s DESC" % c_)):
            for item in ("%s.%s AS %s" % (q_, c_, c_), "%s.%s %s" % (q_, c_, c_)):
                text = "SELECT %s, COUNT(1) AS n FROM %s %s" % (item, q_, tail)
                a = E.run_impl([req(kind, "MYSQL", text)])[0]
                want = 'OK L[QuoteColumn{table_name="%s",column_name="%s",column_idx=None}]' % (q_, c_)
                ctx.cov["evaluations"] += 1
                if a != want:
                    pfam.report(ctx, "wrong:" + kind, {"kind": "input", "entry": "analyzer " + kind, "dialect": "MYSQL", "input": text, "analysis": kind, "want": want, "observed": a[:400],
                                                       "oracle": "c15: an alias in GROUP BY / ORDER BY stands for its select item, here the qualified column", "how_found": "search: identity aliases"})
                    return
    n = 4000 if ctx.quick else 60000
    cases = [known_case(r) for _ in range(n)]
    ans = E.run_impl([req(k, c["dialect"], c["text"]) for c in cases for k in KINDS])
    ctx.cov["evaluations"] += len(ans)
    for i, c in enumerate(cases):
        check_case(ctx, c, ans[len(KINDS) * i:len(KINDS) * (i + 1)], "search: directed generation")
        if ctx.violations:
            return


def replay(payload):
    k = payload["analysis"]
    a = E.run_impl([req(k, payload["dialect"], payload["input"])])[0]
    print("query   :", repr(payload["input"])); print("analysis:", k); print("observed:", a[:800])
    if k == "hash":
        return 1
    want = dump_cols(expected(k, payload["q"])) if "q" in payload else payload["want"]
    print("expected:", want[:800])
    return 0 if a == want else 1
