"""C04 — tokenisation is lossless and brackets are faithfully nested."""
import engine as E
import lexstreams as LS
from lexstreams import Leaf, Group

NORMAL = [("\r\n", "\n"), ("\t", " "), ("　", " ")]     # the specified whitespace normalisation


def normalise(text):
    for a, b in NORMAL:
        text = text.replace(a, b)
    return text


class Fail(Exception):
    def __init__(self, sig, detail):
        self.sig, self.detail = sig, detail


def oracle(text, cfg_idx, toks):
    """judge an accepted lexing against the statement of C04; returns [(signature, detail)]"""
    T = normalise(text)
    ign_space, ign_lb, ign_comment = bool(cfg_idx & 4), bool(cfg_idx & 2), bool(cfg_idx & 1)
    fails = []
    written = []      # the text as the tokens would render it with the brackets that were written

    def opener(pos):
        return T.startswith("#", pos) or T.startswith("--", pos) or T.startswith("/*", pos)

    def skip_one(pos):
        if pos >= len(T):
            return None
        c = T[pos]
        if c == " " and ign_space: return pos + 1
        if c == "\n" and ign_lb: return pos + 1
        if ign_comment and (T.startswith("#", pos) or T.startswith("--", pos)):
            j = T.find("\n", pos)
            return len(T) if j < 0 else j
        if ign_comment and T.startswith("/*", pos):
            j = T.find("*/", pos + 2)
            if j < 0:
                raise Fail("cover", "unterminated block comment accepted at %d" % pos)
            return j + 2
        return None

    def walk(ts, pos):
        for t in ts:
            while True:
                if isinstance(t, Leaf):
                    if t.src == "":
                        raise Fail("cover", "empty token")
                    if T.startswith(t.src, pos) and (not (ign_comment and opener(pos)) or any(t.src.startswith(o) for o in ("#", "--", "/*")) and not ign_comment):
                        break
                else:
                    if pos < len(T) and T[pos] in "([" and not (ign_comment and opener(pos)):
                        break
                nxt = skip_one(pos)
                if nxt is None:
                    what = t.src if isinstance(t, Leaf) else "<group>"
                    raise Fail("cover", "token %r not found at offset %d (next input %r)" % (what, pos, T[pos:pos + 12]))
                written.append(T[pos:nxt]) if False else None
                pos = nxt
            if isinstance(t, Leaf):
                pos += len(t.src)
            else:
                wo = T[pos]
                pos = walk(t.children, pos + 1)
                while pos < len(T) and T[pos] not in ")]":
                    nxt = skip_one(pos)
                    if nxt is None:
                        raise Fail("cover", "unconsumed input %r inside a bracket group at %d" % (T[pos:pos + 12], pos))
                    pos = nxt
                if pos >= len(T):
                    raise Fail("cover", "bracket group not closed in the input")
                wc = T[pos]
                pos += 1
                want = {"(": ("P", ")"), "[": ("S", "]")}[wo]
                if wc != want[1] or t.kind != want[0]:
                    fails.append(("bracket-kind", "group of kind %s for brackets %s…%s" % (t.kind, wo, wc)))
                if t.open != wo or t.close != wc:
                    fails.append(("group-render", "group written %s…%s renders %s…%s" % (wo, wc, t.open, t.close)))
                inner = sum(len(LS.tok_source(c)) for c in t.children)
                if t.srclen != inner + len(t.open) + len(t.close):
                    fails.append(("group-srclen", "group source length %d ≠ %d" % (t.srclen, inner + 2)))
        return pos

    try:
        pos = walk(toks, 0)
        while pos < len(T):
            nxt = skip_one(pos)
            if nxt is None:
                raise Fail("cover", "unconsumed input %r at %d" % (T[pos:pos + 12], pos))
            pos = nxt
    except Fail as f:
        fails.append((f.sig, f.detail))
        return fails
    if cfg_idx == 0:
        got = "".join(LS.tok_source(t) for t in toks)
        if got != text:
            # attribute the difference
            def render_written(ts, pos_box):
                return None
            if any(s == "group-render" for s, _ in fails):
                pass          # already attributed to the rendering of groups
            elif got == T and T != text:
                fails.append(("retain-prepass", "TAB / CR LF / U+3000 do not come back with retention on"))
            else:
                fails.append(("retain-roundtrip", "concatenated token texts %r differ from the input %r" % (got[:40], text[:40])))
    return fails


def judge(ctx, text, cfg_idx, impl_answer, how):
    """apply the oracle to an implementation answer; returns True if a *new* violation was recorded"""
    if not impl_answer.startswith("OK"):
        return False
    try:
        toks = LS.parse_toks(impl_answer[3:])
    except Exception as e:
        raise E.Infra("cannot parse canonical tokens %r: %s" % (impl_answer[:80], e))
    new = False
    for sig, detail in oracle(text, cfg_idx, toks):
        f = ctx.match_finding(sig)
        if f:
            ctx.count("known:" + f["id"])
            continue
        if sig in ctx.reported:
            continue
        ctx.reported.add(sig)
        ctx.violation({"kind": "input", "entry": "FSMMachine.parse", "config": cfg_idx, "input": text, "observed": impl_answer[:400],
                       "expected": "C04: " + sig, "oracle": "c04.oracle: " + detail, "how_found": how, "minimal": False})
        new = True
    return new


def streams(ctx, alpha):
    """yield (stream name, cfg, [texts])"""
    quick = ctx.quick
    k_ship = 3 if quick else 4
    k_other = 2 if quick else 3
    n_rand = 4000 if quick else 60000
    for cfg in range(8):
        k = k_ship if cfg in (7, 0) else k_other
        yield "exhaustive<=%d" % k, cfg, list(LS.exhaustive(alpha, k))
        r = ctx.rng.fork("concat%d" % cfg)
        texts = [LS.random_concat(r, 1 + r.below(12)) for _ in range(n_rand)]
        texts += [LS.random_soup(r, alpha, 4 + r.below(10)) for _ in range(n_rand // 2)]
        yield "random", cfg, texts


def run(ctx):
    ctx.reported = set()
    gen = E.gen_json()
    alpha, nclasses = LS.alphabet(gen)
    ctx.cov["rule"] = ("lexer correspondence (generated model vs FSMMachine.parse) and the C04 oracle on: all strings up to the stated length over a "
                       "%d-symbol class-representative alphabet (%d column classes of the 8 generated tables + pre-pass/non-ASCII characters), "
                       "random concatenations of well-formed tokens with arbitrary separators and nested brackets, random soups; "
                       "under all 8 option settings. distinct_nontrivial = distinct accepted token trees" % (len(alpha), nclasses))
    ctx.assumptions += ["statements are relative to the specified whitespace normalisation (CR LF→LF, TAB→space, U+3000→space); that the pre-pass is exactly this chain is a decide obligation",
                        "gap classification in the theorem is 'begins with a comment opener'; the oracle additionally checks comment extent"]
    for name, cfg, texts in streams(ctx, alpha):
        reqs = ["L %d %s" % (cfg, E.enhex(t)) for t in texts]
        res, bad = ctx.corr(reqs, cfg=cfg, stream="cfg%d/%s" % (cfg, name))
        for (req, a, b), t in zip(res, texts):
            judge(ctx, t, cfg, a, "stream " + name)
        if res:
            i = min(len(res) - 1, 1 + len(res) // 3)
            ctx.sample({"config": cfg, "input": texts[i], "impl": res[i][1][:160], "model": res[i][2][:160]}, limit=10)
    # known findings: replay the recorded witnesses
    for f in ctx.findings:
        if f.get("status") != "finding":
            continue
        w = f["witness"]
        ans = E.run_impl(["L %d %s" % (w["config"], E.enhex(w["input"]))], cfg=w["config"])[0]
        sigs = [s for s, _ in oracle(w["input"], w["config"], LS.parse_toks(ans[3:]))] if ans.startswith("OK") else []
        if f["signature"]["failure"] in sigs:
            ctx.report_known(f)
    # anything broken and no failing input yet: search harder on the implementation
    if ctx.broken and not ctx.violations:
        search(ctx, alpha)
    if ctx.broken and not ctx.violations:
        ctx.violation({"kind": "obligation", "input": None, "how_found": "search exhausted its budget",
                       "broken_detail": ctx.broken}, found=False)


def search(ctx, alpha):
    """directed search on the implementation: strings reaching the offending cells, then deeper exhaustive strings"""
    cfgs = list(range(8))
    cand = []
    try:
        for cfg in cfgs:
            out = E.run_model(["BADCELLS %d" % cfg])[0]
            cells = out.split()[1:]
            if cells:
                ctx.cov.setdefault("bad_cells", {})[str(cfg)] = cells[:20]
    except Exception:
        pass
    k = 4 if ctx.quick else 5
    for cfg in cfgs:
        texts = list(LS.exhaustive(alpha, k if cfg in (0, 7) else k - 1))
        answers = E.run_impl(["L %d %s" % (cfg, E.enhex(t)) for t in texts], cfg=cfg)
        ctx.cov["evaluations"] += len(texts)
        for t, a in zip(texts, answers):
            if judge(ctx, t, cfg, a, "search: exhaustive strings ≤ %d" % k):
                return


def replay(payload):
    ans = E.run_impl(["L %d %s" % (payload["config"], E.enhex(payload["input"]))], cfg=payload["config"])[0]
    print("input:", repr(payload["input"]), "config:", payload["config"])
    print("implementation:", ans)
    if ans.startswith("OK"):
        fails = oracle(payload["input"], payload["config"], LS.parse_toks(ans[3:]))
        print("oracle:", fails or "holds")
        return 1 if fails else 0
    return 0
