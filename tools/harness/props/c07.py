"""C07 — malformed input fails closed with the library's parse error; parsing terminates; no trace is left."""
import engine as E
import pfam, sqlgen

ENTRIES = ["statements", "select_statement", "single_select_statement", "logical_or_level_expression", "compute_expression", "element_level_expression",
           "unary_level_expression", "keyword_condition_level_expression", "operator_condition_level_expression", "logical_not_level_expression",
           "logical_and_level_expression", "logical_xor_level_expression", "function_expression", "function_expression_and_index", "window_expression",
           "case_expression", "cast_function_expression", "extract_function_expression", "if_function_expression", "sub_query_expression",
           "sub_value_expression", "literal_expression", "table_name_expression", "column_name_expression", "function_name_expression", "from_table",
           "join_clause", "table_expression", "where_clause", "order_by_clause", "group_by_clause", "limit_clause", "with_clause", "lateral_view_clause",
           "config_string_expression", "column_type_expression", "partition_expression", "foreign_key_expression", "index_column",
           "primary_index_expression", "unique_index_expression", "normal_index_expression", "fulltext_expression", "define_column_expression",
           "column_or_index", "alter_expression", "set_statement", "create_table_statement", "drop_table_statement", "analyze_table_statement",
           "alter_table_statement", "msck_repair_table_statement", "use_statement", "truncate_table_statement", "update_statement", "delete_statement",
           "show_columns_statement", "insert_statement"]
# the other 26 public parse_* methods (lean/MsqModel/Parse/Entry2.lean): with ENTRIES, every public parsing entry point of SQLParser (84)
ENTRIES2 = ["insert_type", "join_type", "order_type", "union_type", "compare_operator", "compute_operator", "cast_data_type", "window_row_item", "window_row",
            "wildcard_expression", "alias_expression", "multi_alias_expression", "join_on_expression", "join_using_expression", "join_expression", "select_column",
            "select_clause", "from_clause", "grouping_sets", "having_clause", "sort_by_clause", "distribute_by_clause", "cluster_by_clause", "with_table",
            "update_set_column", "update_set_clause"]
ALL_ENTRIES = ENTRIES + ENTRIES2
FAMILY = ("OK", "LEX", "PARSE", "NOTSUP")
SENTINEL = ("MYSQL", "SELECT a, COUNT(b) AS n FROM s.t WHERE c IN (1, 2) GROUP BY a ORDER BY n DESC LIMIT 3")
DEPTH = 64      # the stated nesting depth (CPython's frame limit is reached from about 95 levels)

JOIN_WORDS = ["JOIN", "INNER JOIN", "LEFT JOIN", "LEFT OUTER JOIN", "LEFT SEMI JOIN", "RIGHT JOIN", "RIGHT OUTER JOIN", "RIGHT SEMI JOIN", "FULL JOIN", "FULL OUTER JOIN",
              "CROSS JOIN", "left join", "Inner Join"]
ROW_ITEMS = ["CURRENT ROW", "UNBOUNDED PRECEDING", "UNBOUNDED FOLLOWING", "3 PRECEDING", "1 FOLLOWING", "current row", "2 preceding", "unbounded following", "0 FOLLOWING"]
CAST_NAMES = ["CHAR", "ENUM", "LONGTEXT", "MEDIUMTEXT", "SET", "TEXT", "TINYTEXT", "VARCHAR", "BIT", "BIGINT", "BOOLEAN", "BOOL", "DECIMAL", "DEC", "DOUBLE", "INT", "INTEGER", "MEDIUMINT",
              "REAL", "SMALLINT", "TINYINT", "DATE", "DATETIME", "TIMESTAMP", "TIME", "YEAR", "BOLB", "MEDIUMBLOB", "LONGBLOB", "TINYBLOB", "STRING", "int", "varchar", "Decimal"]


def _stmt(g, fallback, *heads):
    """a generated statement of the wanted kind (the statement generator draws the kind at random)"""
    for _ in range(80):
        t = g.stmt()
        if t.upper().startswith(heads):
            return t
    return fallback


def _index(g, fallback, head):
    for _ in range(60):
        t = g.index()
        if t.startswith(head):
            return t
    return fallback


def _alias(g):
    return g.ch(["", "", " AS al", " al2", " as `q r`"])


# text fragments that are a sensible start for each entry point (the private method behind `parse_cast_function_expression`, `parse_extract_…`, `parse_if_…` starts at the
# bracket AFTER the function name; a `parse_*_clause` starts at its keyword)
FRAGMENTS = {"statements": lambda g: g.script(),
             "logical_or_level_expression": lambda g: g.cond(), "compute_expression": lambda g: g.expr(), "element_level_expression": lambda g: g.elem(0),
             "unary_level_expression": lambda g: g.unary(0), "keyword_condition_level_expression": lambda g: g.pred(1),
             "operator_condition_level_expression": lambda g: g.pred(1), "logical_not_level_expression": lambda g: g.cond(), "logical_and_level_expression": lambda g: g.cond(),
             "logical_xor_level_expression": lambda g: g.cond(), "function_expression": lambda g: "f(" + g.expr() + ")", "select_statement": lambda g: g.query(),
             "single_select_statement": lambda g: g.select(), "case_expression": lambda g: "CASE WHEN " + g.cond() + " THEN 1 END", "from_table": lambda g: g.tref(0),
             "where_clause": lambda g: "WHERE " + g.cond(), "order_by_clause": lambda g: "ORDER BY " + g.expr(), "group_by_clause": lambda g: "GROUP BY " + g.expr(),
             "limit_clause": lambda g: "LIMIT 1, 2", "with_clause": lambda g: "WITH w AS (" + g.select(1) + ")", "define_column_expression": lambda g: g.coldef(),
             "column_or_index": lambda g: g.index(), "alter_expression": lambda g: "ADD " + g.coldef(), "partition_expression": lambda g: g.partition(),
             "create_table_statement": lambda g: g.create_table(), "alter_table_statement": lambda g: g.alter(), "window_expression": lambda g: "SUM(a) OVER (ORDER BY b)",
             "table_name_expression": lambda g: g.ch(sqlgen.TABLES), "column_name_expression": lambda g: g.nm() + "." + g.nm(), "join_clause": lambda g: "LEFT JOIN t ON " + g.cond()}
# … and for the entry points that used to get whole statements only
FRAGMENTS.update({
    "function_expression_and_index": lambda g: g.ch(sqlgen.FUNCS) + "(" + g.expr(1) + ")" + g.ch(["", "[0]", "[a + 1]"]),
    "cast_function_expression": lambda g: "(" + g.expr(1) + " " + g.kw("AS") + " " + g.ch(sqlgen.CAST_T) + ")",
    "extract_function_expression": lambda g: "(" + g.ch(["YEAR", "month", "DAY"]) + " " + g.kw("FROM") + " " + g.expr(1) + ")",
    "if_function_expression": lambda g: "(" + g.cond(1) + ", " + g.expr(1) + ", 2)",
    "sub_query_expression": lambda g: "(" + g.query(1) + ")", "sub_value_expression": lambda g: "(1, " + g.expr(1) + g.ch(["", ", 'x'"]) + ")",
    "literal_expression": lambda g: g.lit(), "function_name_expression": lambda g: g.ch(sqlgen.FUNCS), "table_expression": lambda g: g.tref(0),
    "lateral_view_clause": lambda g: "LATERAL VIEW " + g.ch(["", "OUTER "]) + "explode(" + g.nm() + ") " + g.ch(["v", "lv", "`k y`"]) + " AS " + g.ch(["x1", "x1, x2"]),
    "config_string_expression": lambda g: g.ch(["hive.exec.parallel = true", "a=1", "mapred.job-name = x.y", "a.b-c.d = e", "x = 'v'"]),
    "column_type_expression": lambda g: g.ch(sqlgen.COLTYPES), "index_column": lambda g: g.ch(["`a`", "b", "`c`(10)", "d(5)"]),
    "foreign_key_expression": lambda g: _index(g, "CONSTRAINT `fk1` FOREIGN KEY (`a`) REFERENCES `p` (`id`) ON DELETE CASCADE", "CONSTRAINT"),
    "primary_index_expression": lambda g: _index(g, "PRIMARY KEY (`a`)", "PRIMARY"), "unique_index_expression": lambda g: _index(g, "UNIQUE KEY `uk` (`a`, b)", "UNIQUE"),
    "normal_index_expression": lambda g: _index(g, "KEY `k1` (`a`) USING BTREE", "KEY"), "fulltext_expression": lambda g: _index(g, "FULLTEXT KEY ft (`a`)", "FULLTEXT"),
    "set_statement": lambda g: _stmt(g, "SET a = 1", "SET "), "drop_table_statement": lambda g: _stmt(g, "DROP TABLE IF EXISTS t", "DROP "),
    "analyze_table_statement": lambda g: _stmt(g, "ANALYZE TABLE t PARTITION (dt) COMPUTE STATISTICS NOSCAN", "ANALYZE "),
    "msck_repair_table_statement": lambda g: _stmt(g, "MSCK REPAIR TABLE s.t", "MSCK "), "use_statement": lambda g: _stmt(g, "USE db", "USE "),
    "truncate_table_statement": lambda g: _stmt(g, "TRUNCATE TABLE t", "TRUNCATE "), "update_statement": lambda g: _stmt(g, "UPDATE t SET a = 1 WHERE b = 2 LIMIT 3", "UPDATE "),
    "delete_statement": lambda g: _stmt(g, "DELETE FROM t WHERE a = 1 ORDER BY a LIMIT 2", "DELETE "),
    "show_columns_statement": lambda g: "SHOW COLUMNS FROM " + g.ch(sqlgen.TABLES) + g.ch(["", " WHERE " + g.cond(1)]),
    "insert_statement": lambda g: _stmt(g, "INSERT INTO t (a, b) VALUES (1, 'x')", "INSERT "),
    # the 26 entry points of ENTRIES2
    "insert_type": lambda g: "INSERT " + g.ch(["INTO", "IGNORE INTO", "OVERWRITE", "OVERWRITE TABLE", "INTO TABLE", "into", "ignore into"]) + " " + g.ch(sqlgen.TABLES),
    "join_type": lambda g: g.ch(JOIN_WORDS) + " " + g.ch(sqlgen.TABLES), "order_type": lambda g: g.ch(["DESC", "ASC", "desc", "asc", "Desc", "a"]) + g.ch(["", " NULLS FIRST", ", b"]),
    "union_type": lambda g: g.ch(["UNION", "UNION ALL", "EXCEPT", "INTERSECT", "MINUS", "union all", "union", "Union All"]) + " SELECT 1",
    "compare_operator": lambda g: g.ch(sqlgen.CMP_OPS) + " " + g.nm(), "compute_operator": lambda g: g.ch(sqlgen.BIN_OPS + ["~", "!", "div", "Mod"]) + " " + g.nm(),
    "cast_data_type": lambda g: g.ch(CAST_NAMES) + g.ch(["", "", "(10)", "(10, 2)", " )"]),
    "window_row_item": lambda g: g.ch(ROW_ITEMS) + g.ch(["", " AND CURRENT ROW"]), "window_row": lambda g: g.kw("ROWS") + " " + g.kw("BETWEEN") + " " + g.ch(ROW_ITEMS) + " " + g.kw("AND") + " " + g.ch(ROW_ITEMS),
    "wildcard_expression": lambda g: g.ch(["*", "t.*", "`t`.*", "t . *", g.nm() + ".*"]) + g.ch(["", ", a", " FROM t"]),
    "alias_expression": lambda g: g.ch(["AS x", "x", "as `z z`", "AS `a.b`", "`a`", "As x1", "al"]) + g.ch(["", " FROM t", ", b"]),
    "multi_alias_expression": lambda g: g.kw("AS") + " " + g.ch(["x1", "x1, x2", "`a b`, c, d", "x1 , x2"]),
    "join_on_expression": lambda g: g.kw("ON") + " " + g.cond(1), "join_using_expression": lambda g: g.ch(["USING(a, b)", "using(a)", "USING (t.a)", "USING(a)[0]"]),
    "join_expression": lambda g: g.ch([g.kw("ON") + " " + g.cond(1), "USING(a, b)", "using (a)"]),
    "select_column": lambda g: (g.cond(1) if g.p(0.3) else g.expr(1)) + _alias(g),
    "select_clause": lambda g: g.kw("SELECT") + " " + g.ch(["", "", "DISTINCT ", "distinct "]) + ", ".join(g.expr(1) + _alias(g) for _ in range(g.n(1, 3))) + g.ch(["", " FROM t"]),
    "from_clause": lambda g: g.kw("FROM") + " " + ", ".join(g.tref(1) for _ in range(g.n(1, 2))),
    "grouping_sets": lambda g: g.kw("GROUPING") + " " + g.kw("SETS") + " (" + ", ".join(g.ch(["(a, b)", "a", "(" + g.expr(1) + ")", g.expr(1), "()", "(a, b, c + 1)"]) for _ in range(g.n(1, 3))) + ")",
    "having_clause": lambda g: g.kw("HAVING") + " " + g.cond(1),
    "sort_by_clause": lambda g: g.kw("SORT") + " BY " + ", ".join(g.expr(1) + g.ch(["", " ASC", " DESC", " desc NULLS LAST", " NULLS FIRST"]) for _ in range(g.n(1, 2))),
    "distribute_by_clause": lambda g: g.kw("DISTRIBUTE") + " BY " + ", ".join(g.expr(1) for _ in range(g.n(1, 2))),
    "cluster_by_clause": lambda g: g.kw("CLUSTER") + " BY " + ", ".join(g.expr(1) for _ in range(g.n(1, 2))),
    "with_table": lambda g: g.ch(["w", "`w 3`", "w2"]) + " " + g.kw("AS") + " (" + g.query(1) + ")",
    "update_set_column": lambda g: g.nm() + " = " + (g.cond(1) if g.p(0.3) else g.expr(1)),
    "update_set_clause": lambda g: g.kw("SET") + " " + ", ".join(g.nm() + " = " + g.expr(1) for _ in range(g.n(1, 3)))})


def malformed(rng, text):
    k = rng.below(100)
    if k < 25: return sqlgen.char_prefix(rng, text)
    if k < 40:
        toks = text.split(" "); return " ".join(toks[:rng.below(len(toks) + 1)])
    if k < 80: return sqlgen.mutate(rng, text)
    if k < 90: return sqlgen.soup(rng, 1 + rng.below(10))
    return sqlgen.mutate(rng, sqlgen.mutate(rng, text))


CLASS_REPS = ["`a.b.c`", "'a.b.c'", "`a..b`", "`.`", "`a.`", "``", "`s`.`t`.`u`", "a.b.c.d", "\"a.b\"", "7", "2.5", "'10'", "\"q\"", "NULL", "TRUE", "x'1F'", "b'10'", "0x1F", "0b1", "1e3", "1_0", "٣", "zz", "`z z`", "SELECT", "FROM", "AS", "+", "-2", ",", "(1)", "()", "[1]", ".",
              "=", "*", "CASE", "NOT", "(SELECT 1)"]


def token_spans(text):
    """[(start, end)] of the tokens of a text (a quoted string / back-quoted name is one token)"""
    import re
    from props import c09
    spans, pos = [], 0
    for code, piece in c09.segments(text):
        if code:
            spans += [(pos + m.start(), pos + m.end()) for m in re.finditer(r"\d+(?:\.\d+)?|\w+|[^\s\w]", piece)]
        elif piece:
            spans.append((pos, pos + len(piece)))       # a quoted string / back-quoted name is one token
        pos += len(piece)
    return spans


def class_substitutions(rng, text, positions):
    """replace one token of a valid text by a token of every other lexical class (the integer-only, name-only, keyword-only positions of the grammar each get every
    kind of literal, word, operator and bracket group)"""
    spans = token_spans(text)
    if not spans:
        return []
    ints = [sp for sp in spans if text[sp[0]:sp[1]].isdigit()]
    quoted = [sp for sp in spans if text[sp[0]] in "`'\""]
    chosen = [rng.choice(spans) for _ in range(positions)] + ints[:3] + ([rng.choice(quoted)] if quoted else [])
    out = []
    for a, b in chosen:
        for rep in CLASS_REPS:
            if rep != text[a:b]:
                out.append(text[:a] + rep + text[b:])
    return out


def entry_cases(rng, base, max_pos, reps_per_pos):
    """the streams of ONE entry point from one valid text: the text, every token-granularity truncation, character truncations inside tokens, a token of another lexical
    class at every position (at most `max_pos` positions, `reps_per_pos` classes each — all of CLASS_REPS when None), token deletion, garbage"""
    out = [(base, "valid")]
    spans = token_spans(base)
    pos = spans if len(spans) <= max_pos else [spans[0], spans[-1]] + [rng.choice(spans) for _ in range(max_pos - 2)]
    for a, b in pos:
        out.append((base[:a].rstrip(), "truncation"))
        if b - a > 1:
            out.append((base[:a + 1 + rng.below(b - a - 1)], "truncation"))
        reps = CLASS_REPS if reps_per_pos is None else [rng.choice(CLASS_REPS) for _ in range(reps_per_pos)]
        for rep in reps:
            if rep != base[a:b]:
                out.append((base[:a] + rep + base[b:], "class-substitution"))
        out.append(((base[:a] + base[b:]).strip(), "deletion"))
    for _ in range(2):
        out.append((sqlgen.soup(rng, 1 + rng.below(6)), "garbage"))
    out.append((sqlgen.mutate(rng, base), "mutation"))
    return out


# texts on which the dialect pre-pass of `_unify_input_scanner` (string argument only) is visible
PREPASS = [("HIVE", "where_clause", "WHERE a == b"), ("HIVE", "logical_or_level_expression", "a == 1 OR b == 'x==y'"), ("DB2", "compute_expression", "CURRENT DATE + 1"),
           ("DB2", "select_clause", "SELECT CURRENT TIMESTAMP, CURRENT TIME"), ("HIVE", "having_clause", "HAVING a == 1"), ("HIVE", "update_set_column", "a == 1"),
           ("HIVE", "compare_operator", "== b"), ("HIVE", "statements", "SELECT a FROM t WHERE b == 1"), ("DB2", "statements", "SELECT CURRENT DATE FROM t")]
OTHER_KINDS = ["none", "bytes", "int", "list"]


def judge(ctx, res, meta):
    """the oracle on one stream: a tree or the library's parse-error family; returns the sentinel's answers"""
    sentinel_answers = set()
    for (req, a, b), (e, d, t, kind) in zip(res, meta):
        k = a.split(" ")[0]
        ctx.count("entry:" + e, 1)
        ctx.count("kind:" + kind.split(":")[0], 1)
        if kind == "sentinel":
            sentinel_answers.add(a)
            continue
        if k in FAMILY:
            continue
        if a.startswith("UNMODELLED recursion") and not kind.startswith("nesting"):
            ctx.count("recursion-beyond-model"); continue
        sig = "foreign:" + a.split(" ")[1] if a.startswith("PY ") else ("hang" if k == "HANG" else "recursion" if "recursion" in a else "other:" + k)
        pfam.report(ctx, sig, {"kind": "input", "entry": "parse_" + e, "dialect": d, "input": t, "observed": a[:300], "request": req.split(" ")[0],
                               "oracle": "c07: outcome must be a tree or LexicalParseError / SqlParseError / NotSupportError", "how_found": "stream " + kind})
    return sentinel_answers


def run(ctx):
    n = 4000 if ctx.quick else 80000
    ctx.cov["rule"] = ("for EVERY public parse_* entry point of SQLParser (%d = the 58 of PM.entries + the 26 of PM.entries2) and dialect: character and token prefixes of valid texts, "
                       "single-token deletion / duplication / swap / replacement / insertion, substitution of one token by a token of every other lexical class (every kind of literal, word, "
                       "keyword, operator, bracket group) in tree-first generated statements of every class, token soups, bracket nesting to depth %d, the regression corpus; per entry point "
                       "(stream per-entry): valid texts of the entry's own grammar, every token-granularity truncation, truncations inside tokens, a token of another lexical class at every "
                       "position, token deletion, garbage; the three argument kinds of _unify_input_scanner (string; TokenScanner: no dialect pre-pass; anything else: parse error) for every "
                       "entry point; correspondence on outcome kind, tree and number of unconsumed tokens; oracle: the implementation's outcome is a tree or the library's parse-error family, "
                       "never a foreign exception, never a time-out (5 s), and a sentinel statement parsed between the malformed inputs in the same process always gives the same tree. "
                       "distinct_nontrivial = distinct accepted trees" % (len(ALL_ENTRIES), DEPTH))
    ctx.assumptions += ["termination is observed as a 5 s time-out per request; RecursionError is outside the model and is a violation only at nesting depth ≤ %d" % DEPTH,
                        "the sentinel detects state leaked inside one interpreter; cross-process effects are C12's"]
    r = ctx.rng.fork("malformed")
    reqs, meta = [], []
    sent = pfam.req_parse(*SENTINEL)
    for d, t in pfam.regression_cases():
        reqs.append(pfam.req_parse(d, t)); meta.append(("statements", d, t, "regression"))
    for i in range(n):
        d = r.choice(pfam.MAIN_DIALECTS)
        g = sqlgen.Gen(r, d, wild=r.chance(0.3))
        e = r.choice(ALL_ENTRIES) if r.chance(0.6) else "statements"
        base = FRAGMENTS[e](g) if r.chance(0.85) else g.stmt()
        t = base if r.chance(0.15) else malformed(r, base)
        reqs.append(pfam.req_parse(d, t, e)); meta.append((e, d, t, "malformed"))
        if i % 10 == 9:
            reqs.append(sent); meta.append(("statements",) + SENTINEL + ("sentinel",))
    bases = [(d, t) for d, t in pfam.tree_texts(ctx.rng.fork("trees"), 25 if ctx.quick else 400, ["MYSQL", "HIVE", "DEFAULT"])]
    for d, t in bases:
        if len(t) > 1200:
            continue
        for v in class_substitutions(r, t, 2 if ctx.quick else 4):
            reqs.append(pfam.req_parse(d, v)); meta.append(("statements", d, v, "class-substitution"))
    for depth in sorted(set([1, 2, 3, 8, 16, 32, 48, DEPTH])):
        for e, mk in (("logical_or_level_expression", lambda k: "(" * k + "a + 1" + ")" * k), ("statements", lambda k: "SELECT " + "(" * k + "1" + ")" * k),
                      ("statements", lambda k: "SELECT * FROM " + "(SELECT * FROM " * k + "t" + ") q" * k), ("compute_expression", lambda k: "f(" * k + "1" + ")" * k),
                      ("logical_or_level_expression", lambda k: "[" * k + "a" + "]" * k), ("statements", lambda k: "SELECT " + "CASE WHEN a THEN " * k + "1" + " END" * k),
                      ("select_column", lambda k: "(" * k + "a + 1" + ")" * k + " AS x"), ("with_table", lambda k: "w AS (" + "SELECT * FROM (" * k + "SELECT 1" + ") q" * k + ")"),
                      ("grouping_sets", lambda k: "GROUPING SETS ((" + "(" * k + "a" + ")" * k + ", b))"), ("join_on_expression", lambda k: "ON " + "NOT (" * k + "a" + ")" * k),
                      ("update_set_clause", lambda k: "SET a = " + "f(" * k + "1" + ")" * k), ("from_clause", lambda k: "FROM " + "(" * k + "t" + ")" * k)):
            reqs.append(pfam.req_parse("MYSQL", mk(depth), e)); meta.append((e, "MYSQL", mk(depth), "nesting:%d" % depth))
    # one worker process per chunk handles its requests in order, so the sentinel sees what the malformed inputs left behind
    res, bad = ctx.corr(reqs, stream="entry-points")
    sentinel_answers = judge(ctx, res, meta)

    # every entry point with inputs of its own grammar
    r2 = ctx.rng.fork("per-entry")
    reqs2, meta2 = [], []
    for e in ALL_ENTRIES:
        for j in range(2 if ctx.quick else 12):
            d = r2.choice(pfam.MAIN_DIALECTS)
            g = sqlgen.Gen(r2, d, maxdepth=r2.choice([0, 1, 1]), wild=False)
            base = FRAGMENTS[e](g)
            if len(base) > 400:
                base = FRAGMENTS[e](sqlgen.Gen(r2, d, maxdepth=0, wild=False))
            for t, kind in entry_cases(r2, base, 10 if ctx.quick else 40, 4 if ctx.quick else None):
                reqs2.append(pfam.req_parse(d, t, e)); meta2.append((e, d, t, kind))
        reqs2.append(sent); meta2.append(("statements",) + SENTINEL + ("sentinel",))
    res2, bad2 = ctx.corr(reqs2, stream="per-entry")
    sentinel_answers |= judge(ctx, res2, meta2)

    # the argument kinds of _unify_input_scanner: a TokenScanner (no dialect pre-pass), neither scanner nor string
    r3 = ctx.rng.fork("argument-kinds")
    reqs3, meta3 = [], []
    for d, e, t in PREPASS:
        reqs3.append(pfam.req_parse(d, t, e)); meta3.append((e, d, t, "string-argument"))
        reqs3.append("PS %s %s %s" % (e, d, E.enhex(t))); meta3.append((e, d, t, "scanner-argument"))
    for e in ALL_ENTRIES:
        for j in range(2 if ctx.quick else 10):
            d = r3.choice(["HIVE", "DB2", "MYSQL", "HIVE"])
            base = FRAGMENTS[e](sqlgen.Gen(r3, d, maxdepth=1, wild=False))
            t = base if j == 0 else malformed(r3, base)
            reqs3.append("PS %s %s %s" % (e, d, E.enhex(t))); meta3.append((e, d, t, "scanner-argument"))
        for k in OTHER_KINDS:
            reqs3.append("PX %s %s %s" % (e, r3.choice(pfam.MAIN_DIALECTS), k)); meta3.append((e, "-", k, "other-argument"))
    res3, bad3 = ctx.corr(reqs3, stream="argument-kinds")
    judge(ctx, res3, meta3)
    for (req, a, b), m in zip(res3, meta3):
        if m[3] == "other-argument" and a != "PARSE":
            pfam.report(ctx, "other-argument:" + a.split(" ")[0], {"kind": "input", "entry": "parse_" + m[0], "dialect": m[1], "input": m[2], "observed": a[:300], "request": "PX",
                                                                   "oracle": "c07: an argument that is neither a scanner nor a string is refused with the library's parse error", "how_found": "stream other-argument"})

    if len(sentinel_answers) > 1:
        pfam.report(ctx, "trace", {"kind": "history", "entry": "parse_statements", "dialect": SENTINEL[0], "input": SENTINEL[1], "observed": sorted(sentinel_answers)[:2],
                                   "oracle": "c07: a rejected input must leave no trace — the sentinel statement parsed differently after some malformed input", "how_found": "sentinel"})
    fresh = E.run_impl([sent])[0]
    if sentinel_answers and fresh not in sentinel_answers:
        pfam.report(ctx, "trace", {"kind": "history", "entry": "parse_statements", "dialect": SENTINEL[0], "input": SENTINEL[1], "observed": [fresh] + sorted(sentinel_answers)[:1],
                                   "oracle": "c07: sentinel in a fresh process differs", "how_found": "sentinel"})
    # small scope: every token sequence up to a length over the alphabets of tools/harness/smallscope.py — almost all malformed; each outcome must be a tree or
    # the library's error family
    import smallscope

    def judge_ss(nm, entry, d, t, a):
        k = a.split(" ")[0]
        if k in FAMILY or k == "OK" or a.startswith("UNMODELLED"):
            return
        sig = "foreign:" + a.split(" ")[1] if a.startswith("PY ") else ("hang" if k == "HANG" else "other:" + k)
        pfam.report(ctx, sig, {"kind": "input", "entry": "parse_" + entry, "dialect": d, "input": t, "observed": a[:300], "request": "P",
                               "oracle": "c07: outcome must be a tree or LexicalParseError / SqlParseError / NotSupportError", "how_found": "stream small-scope:" + nm})
    smallscope.run(ctx, list(smallscope.ALPHABETS), dialects=("DB2",), thorough_dialects=("DB2", "ORACLE"), judge=judge_ss)
    missing = [e for e in ALL_ENTRIES if not ctx.cov["distribution"].get("entry:" + e)]
    if missing:
        ctx.note_broken("correspondence", "entry-points", "no request for the entry point(s) %s" % missing)
    for (req, a, b), m in list(zip(res, meta))[:200:40] + list(zip(res2, meta2))[:4000:500]:
        ctx.sample({"entry": m[0], "dialect": m[1], "input": m[2][:160], "impl": a[:120], "model": b[:120]}, limit=12)
    pfam.conclude(ctx)


def replay(payload):
    op = payload.get("request", "P")
    e = payload["entry"].replace("parse_", "")
    if op == "PX":
        req = "PX %s MYSQL %s" % (e, payload["input"])
    elif op == "PS":
        req = "PS %s %s %s" % (e, payload["dialect"], E.enhex(payload["input"]))
    else:
        req = pfam.req_parse(payload["dialect"], payload["input"], e)
    a = E.run_impl([req])[0]
    print("input:", repr(payload["input"]), payload["entry"], payload["dialect"], op); print("implementation:", a[:400])
    return 0 if a.split(" ")[0] in FAMILY else 1
