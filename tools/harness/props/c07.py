"""C07 — malformed input fails closed with the library's parse error; parsing terminates; no trace is left."""
import engine as E
import pfam, sqlgen

ENTRIES = ["statements", "select_statement", "single_select_statement", "logical_or_level_expression", "compute_expression", "element_level_expression",
           "unary_level_expression", "keyword_condition_level_expression", "operator_condition_level_expression", "logical_not_level_expression",
           "logical_and_level_expression", "logical_xor_level_expression", "function_expression", "function_expression_and_index", "window_expression",
           "case_expression", "cast_function_expression", "extract_function_expression", "if_function_expression", "sub_query_expression",
           "sub_value_expression", "literal_expression", "table_name_expression", "column_name_expression", "function_name_expression", "from_table",
           "join_clause", "table_expression", "where_clause", "order_by_clause", "group_by_clause", "limit_clause", "with_clause", "lateral_view_clause",
           "config_string_expression", "column_type_expression", "partition_expression", "foreign_key_expression", "index_column",
           "primary_index_expression", "unique_index_expression", "normal_index_expression", "fulltext_expression", "define_column_expression",
           "column_or_index", "alter_expression", "set_statement", "create_table_statement", "drop_table_statement", "analyze_table_statement",
           "alter_table_statement", "msck_repair_table_statement", "use_statement", "truncate_table_statement", "update_statement", "delete_statement",
           "show_columns_statement", "insert_statement"]
FAMILY = ("OK", "LEX", "PARSE", "NOTSUP")
SENTINEL = ("MYSQL", "SELECT a, COUNT(b) AS n FROM s.t WHERE c IN (1, 2) GROUP BY a ORDER BY n DESC LIMIT 3")
DEPTH = 64      # the stated nesting depth (CPython's frame limit is reached from about 95 levels)

# text fragments that are a sensible start for the non-statement entry points
FRAGMENTS = {"logical_or_level_expression": lambda g: g.cond(), "compute_expression": lambda g: g.expr(), "element_level_expression": lambda g: g.elem(0),
             "unary_level_expression": lambda g: g.unary(0), "keyword_condition_level_expression": lambda g: g.pred(1),
             "operator_condition_level_expression": lambda g: g.pred(1), "logical_not_level_expression": lambda g: g.cond(), "logical_and_level_expression": lambda g: g.cond(),
             "logical_xor_level_expression": lambda g: g.cond(), "function_expression": lambda g: "f(" + g.expr() + ")", "select_statement": lambda g: g.query(),
             "single_select_statement": lambda g: g.select(), "case_expression": lambda g: "CASE WHEN " + g.cond() + " THEN 1 END", "from_table": lambda g: g.tref(0),
             "where_clause": lambda g: "WHERE " + g.cond(), "order_by_clause": lambda g: "ORDER BY " + g.expr(), "group_by_clause": lambda g: "GROUP BY " + g.expr(),
             "limit_clause": lambda g: "LIMIT 1, 2", "with_clause": lambda g: "WITH w AS (" + g.select(1) + ")", "define_column_expression": lambda g: g.coldef(),
             "column_or_index": lambda g: g.index(), "alter_expression": lambda g: "ADD " + g.coldef(), "partition_expression": lambda g: g.partition(),
             "create_table_statement": lambda g: g.create_table(), "alter_table_statement": lambda g: g.alter(), "window_expression": lambda g: "SUM(a) OVER (ORDER BY b)",
             "table_name_expression": lambda g: g.ch(sqlgen.TABLES), "column_name_expression": lambda g: g.nm() + "." + g.nm(), "join_clause": lambda g: "LEFT JOIN t ON " + g.cond()}


def malformed(rng, text):
    k = rng.below(100)
    if k < 25: return sqlgen.char_prefix(rng, text)
    if k < 40:
        toks = text.split(" "); return " ".join(toks[:rng.below(len(toks) + 1)])
    if k < 80: return sqlgen.mutate(rng, text)
    if k < 90: return sqlgen.soup(rng, 1 + rng.below(10))
    return sqlgen.mutate(rng, sqlgen.mutate(rng, text))


CLASS_REPS = ["`a.b.c`", "'a.b.c'", "`a..b`", "`.`", "`a.`", "``", "`s`.`t`.`u`", "a.b.c.d", "\"a.b\"", "7", "2.5", "'10'", "\"q\"", "NULL", "TRUE", "x'1F'", "b'10'", "0x1F", "0b1", "1e3", "1_0", "٣", "zz", "`z z`", "SELECT", "FROM", "AS", "+", "-2", ",", "(1)", "()", "[1]", ".",
              "=", "*", "CASE", "NOT", "(SELECT 1)"]


def class_substitutions(rng, text, positions):
    """replace one token of a valid text by a token of every other lexical class (the integer-only, name-only, keyword-only positions of the grammar each get every
    kind of literal, word, operator and bracket group)"""
    import re
    from props import c09
    spans, pos = [], 0
    for code, piece in c09.segments(text):
        if code:
            spans += [(pos + m.start(), pos + m.end()) for m in re.finditer(r"\d+(?:\.\d+)?|\w+|[^\s\w]", piece)]
        elif piece:
            spans.append((pos, pos + len(piece)))       # a quoted string / back-quoted name is one token
        pos += len(piece)
    if not spans:
        return []
    ints = [sp for sp in spans if text[sp[0]:sp[1]].isdigit()]
    quoted = [sp for sp in spans if text[sp[0]] in "`'\""]
    chosen = [rng.choice(spans) for _ in range(positions)] + ints[:3] + ([rng.choice(quoted)] if quoted else [])
    out = []
    for a, b in chosen:
        for rep in CLASS_REPS:
            if rep != text[a:b]:
                out.append(text[:a] + rep + text[b:])
    return out


def run(ctx):
    n = 4000 if ctx.quick else 80000
    ctx.cov["rule"] = ("for every modelled parse_* entry point (%d) and dialect: character and token prefixes of valid texts, single-token deletion / duplication / swap / "
                       "replacement / insertion, substitution of one token by a token of every other lexical class (every kind of literal, word, keyword, operator, bracket group) in "
                       "tree-first generated statements of every class, token soups, bracket nesting to depth %d, the regression corpus; correspondence on outcome kind and tree; oracle: the "
                       "implementation's outcome is a tree or the library's parse-error family, never a foreign exception, never a time-out (5 s), and a sentinel statement "
                       "parsed between the malformed inputs in the same process always gives the same tree. distinct_nontrivial = distinct accepted trees" % (len(ENTRIES), DEPTH))
    ctx.assumptions += ["termination is observed as a 5 s time-out per request; RecursionError is outside the model and is a violation only at nesting depth ≤ %d" % DEPTH,
                        "the sentinel detects state leaked inside one interpreter; cross-process effects are C12's"]
    r = ctx.rng.fork("malformed")
    reqs, meta = [], []
    sent = pfam.req_parse(*SENTINEL)
    for d, t in pfam.regression_cases():
        reqs.append(pfam.req_parse(d, t)); meta.append(("statements", d, t, "regression"))
    for i in range(n):
        d = r.choice(pfam.MAIN_DIALECTS)
        g = sqlgen.Gen(r, d, wild=r.chance(0.3))
        e = r.choice(ENTRIES) if r.chance(0.6) else "statements"
        base = FRAGMENTS[e](g) if e in FRAGMENTS else g.stmt()
        t = base if r.chance(0.15) else malformed(r, base)
        reqs.append(pfam.req_parse(d, t, e)); meta.append((e, d, t, "malformed"))
        if i % 10 == 9:
            reqs.append(sent); meta.append(("statements",) + SENTINEL + ("sentinel",))
    bases = [(d, t) for d, t in pfam.tree_texts(ctx.rng.fork("trees"), 25 if ctx.quick else 400, ["MYSQL", "HIVE", "DEFAULT"])]
    for d, t in bases:
        if len(t) > 1200:
            continue
        for v in class_substitutions(r, t, 2 if ctx.quick else 4):
            reqs.append(pfam.req_parse(d, v)); meta.append(("statements", d, v, "class-substitution"))
    for depth in sorted(set([1, 2, 3, 8, 16, 32, 48, DEPTH])):
        for e, mk in (("logical_or_level_expression", lambda k: "(" * k + "a + 1" + ")" * k), ("statements", lambda k: "SELECT " + "(" * k + "1" + ")" * k),
                      ("statements", lambda k: "SELECT * FROM " + "(SELECT * FROM " * k + "t" + ") q" * k), ("compute_expression", lambda k: "f(" * k + "1" + ")" * k),
                      ("logical_or_level_expression", lambda k: "[" * k + "a" + "]" * k), ("statements", lambda k: "SELECT " + "CASE WHEN a THEN " * k + "1" + " END" * k)):
            reqs.append(pfam.req_parse("MYSQL", mk(depth), e)); meta.append((e, "MYSQL", mk(depth), "nesting:%d" % depth))
    # one worker process per chunk handles its requests in order, so the sentinel sees what the malformed inputs left behind
    res, bad = ctx.corr(reqs, stream="entry-points")
    sentinel_answers = set()
    for (req, a, b), (e, d, t, kind) in zip(res, meta):
        k = a.split(" ")[0]
        ctx.count("entry:" + e, 1)
        if kind == "sentinel":
            sentinel_answers.add(a)
            continue
        if k in FAMILY:
            continue
        if a.startswith("UNMODELLED recursion") and not kind.startswith("nesting"):
            ctx.count("recursion-beyond-model"); continue
        sig = "foreign:" + a.split(" ")[1] if a.startswith("PY ") else ("hang" if k == "HANG" else "recursion" if "recursion" in a else "other:" + k)
        pfam.report(ctx, sig, {"kind": "input", "entry": "parse_" + e, "dialect": d, "input": t, "observed": a[:300],
                               "oracle": "c07: outcome must be a tree or LexicalParseError / SqlParseError / NotSupportError", "how_found": "stream " + kind})
    if len(sentinel_answers) > 1:
        pfam.report(ctx, "trace", {"kind": "history", "entry": "parse_statements", "dialect": SENTINEL[0], "input": SENTINEL[1], "observed": sorted(sentinel_answers)[:2],
                                   "oracle": "c07: a rejected input must leave no trace — the sentinel statement parsed differently after some malformed input", "how_found": "sentinel"})
    fresh = E.run_impl([sent])[0]
    if sentinel_answers and fresh not in sentinel_answers:
        pfam.report(ctx, "trace", {"kind": "history", "entry": "parse_statements", "dialect": SENTINEL[0], "input": SENTINEL[1], "observed": [fresh] + sorted(sentinel_answers)[:1],
                                   "oracle": "c07: sentinel in a fresh process differs", "how_found": "sentinel"})
    for (req, a, b), m in list(zip(res, meta))[:200:40]:
        ctx.sample({"entry": m[0], "dialect": m[1], "input": m[2][:160], "impl": a[:120], "model": b[:120]}, limit=8)
    pfam.conclude(ctx)


def replay(payload):
    a = E.run_impl([pfam.req_parse(payload["dialect"], payload["input"], payload["entry"].replace("parse_", ""))])[0]
    print("input:", repr(payload["input"]), payload["entry"], payload["dialect"]); print("implementation:", a[:400])
    return 0 if a.split(" ")[0] in FAMILY else 1
