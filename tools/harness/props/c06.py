"""C06 — quoted text is opaque and is carried through verbatim."""
import engine as E
import pfam, canon

PAYLOADS = ["pl", "a==b", "==", "SELECT", "CURRENT DATE", "CURRENT TIMESTAMP x", "--", "-- c", "/*", "/* x", "#", "# c", "(", ")]", "([", ";", "a;b", "a\tb", "a\r\nb", "a　b",
            "é", "日本語", "😀", "a b", " ", "FROM t WHERE", "1 + 2", ",", "NULL", "!=", "<=>", "a.b", "%", "x_1", "CURRENT_DATE", "UNION ALL", "\\n", "it s", "{#}", "#{x}",
            "a'b", 'a"b', "a`b", "*/", "\n",
            "cross", "USING", "sort", "Distribute", "cluster", "left", "join", "on", "as", "limit", "union", "where", "order", "group", "partition", "over", "null", "true", "and", "not", "in", "is",
            "total\n", "\nx", "x\n\n", "x ", " x", "x\t", "x\r", "x\u3000", "x.", ".x", "903", "1x", "x-1", "_", "$", "a b c",
            "caſe", "exıſtſ", "ıſ", "ﬁrst", "straße", "İd", "\u212a", "ſelect", "uſıng",
            "a\\tb", "\\d+", "C:\\\\dir", "\\\\", "x\\%y", "\\n\\r", "\\", "ab\\",
            # the names the function parser looks at AFTER stripping the back-quotes (parser.py:557-587): a back-quoted `cast` is read as the CAST keyword (F-C06-6)
            "cast", "CAST", "extract", "if", "substring", "count", "Sum", "max",
            # runs of blanks (a printer that tidies its own layout with a text replace reaches into the payload)
            "a  b", "x   y", "  ", " a  "]
# region kind -> (open, close, forbidden substrings)
REGIONS = {"sq": ("'", "'", ["'"]), "dq": ('"', '"', ['"']), "bq": ("`", "`", ["`"]), "block": ("/*", "*/", ["*/", "*"]),
           "dash": ("-- ", "\n", ["\n", "\r"]), "hash": ("# ", "\n", ["\n", "\r"])}
# (region kinds allowed, text with {R} for the region)
TEMPLATES = [(("sq", "dq"), "SELECT {R} FROM t"), (("sq", "dq"), "SELECT a FROM t WHERE b = {R} AND c > 1"), (("sq", "dq"), "SELECT f(a, {R}, 2) FROM t"),
             (("sq", "dq"), "INSERT INTO t (a) VALUES ({R})"), (("sq", "dq"), "UPDATE t SET a = {R} WHERE b IN ({R}, 'k')"), (("sq",), "SELECT CASE WHEN a = {R} THEN {R} END FROM t"),
             (("sq", "dq"), "CREATE TABLE t (a int COMMENT {R}) COMMENT={R}"), (("sq",), "SELECT a FROM t WHERE b LIKE {R}"),
             (("bq",), "SELECT {R} FROM t"), (("bq",), "SELECT a AS {R} FROM t"), (("bq",), "SELECT zq.{R} FROM {R} zq"), (("bq",), "SELECT a FROM s.{R} WHERE {R} > 1"),
             (("bq",), "UPDATE {R} SET a = 1"), (("bq",), "INSERT INTO {R} (a) VALUES (1)"), (("bq",), "SELECT {R}(a) FROM t"),
             (("bq",), "SELECT a {R} FROM t"), (("bq",), "SELECT a FROM t {R}"), (("bq",), "SELECT a FROM (SELECT 1) {R}"), (("bq",), "SELECT a FROM t JOIN u {R} ON 1 = 1"),
             (("bq",), "SELECT a FROM t {R} WHERE 1 = 1"), (("bq",), "INSERT INTO t SELECT a {R} FROM u {R}"), (("bq",), "SELECT COUNT(1) {R}, b FROM t GROUP BY b"),
             (("block", "dash", "hash"), "SELECT a {R} FROM t"), (("block", "dash", "hash"), "SELECT a, {R} b FROM t WHERE c = 1"), (("block",), "SELECT f({R}a) FROM t"),
             (("block", "dash", "hash"), "SELECT a FROM t {R} ; {R} SELECT 2"), (("block", "dash", "hash"), "INSERT INTO t VALUES (1) {R}"),
             # hosts whose printer lays its parts out on several lines or brackets / indents them (a printer that post-processes the printed TEXT of a part —
             # re-indents, strips, re-joins — reaches into the payloads of that part): both CASE forms with ELSE, sub-queries in every position, WITH, set
             # operations, windows, the clause tails, DDL
             (("sq", "dq"), "SELECT CASE a WHEN {R} THEN {R} ELSE {R} END AS c FROM t"), (("sq",), "SELECT CASE WHEN a = 1 THEN 2 ELSE {R} END FROM t WHERE CASE b WHEN 1 THEN {R} END = {R}"),
             (("sq", "dq"), "SELECT (SELECT {R} FROM u WHERE u.a = {R}) AS s FROM t"), (("sq", "dq"), "SELECT a FROM (SELECT {R} AS a FROM u WHERE b = {R}) q"),
             (("sq", "dq"), "WITH w AS (SELECT {R} AS a FROM u) SELECT a FROM w WHERE a <> {R}"), (("sq", "dq"), "SELECT {R} FROM t UNION ALL SELECT {R} FROM u"),
             (("sq", "dq"), "SELECT a FROM t WHERE b IN (SELECT c FROM u WHERE d = {R}) AND EXISTS (SELECT 1 FROM v WHERE e = {R})"),
             (("sq", "dq"), "SELECT f(a) OVER (PARTITION BY {R} ORDER BY {R}) FROM t"), (("sq", "dq"), "SELECT a FROM t WHERE b BETWEEN {R} AND {R}"),
             (("sq", "dq"), "SELECT a FROM t JOIN u ON t.a = {R} GROUP BY {R} HAVING MAX(b) > {R} ORDER BY {R} DESC"), (("sq", "dq"), "SELECT CAST({R} AS CHAR), IF(a, {R}, {R}) FROM t"),
             (("sq", "dq"), "INSERT INTO t PARTITION (dt = {R}) SELECT a FROM u WHERE b = {R}"), (("sq", "dq"), "DELETE FROM t WHERE a = {R} OR b IN ({R})"),
             (("sq", "dq"), "CREATE TABLE t (a varchar(9) DEFAULT {R} COMMENT {R}, b int) ENGINE=InnoDB COMMENT={R}"), (("sq", "dq"), "ALTER TABLE t ADD COLUMN c int COMMENT {R}"),
             (("bq",), "WITH {R} AS (SELECT 1 AS a) SELECT a FROM {R}"), (("bq",), "SELECT CASE {R} WHEN 1 THEN {R} ELSE {R} END FROM t"),
             (("bq",), "SELECT (SELECT {R} FROM u) FROM (SELECT {R} FROM v) q"), (("bq",), "CREATE TABLE {R} ({R} int, PRIMARY KEY ({R}))"), (("bq",), "ALTER TABLE {R} DROP COLUMN {R}"),
             (("bq",), "SELECT a FROM t ORDER BY {R}, {R} DESC"), (("bq",), "SELECT f(a) OVER (PARTITION BY {R} ORDER BY {R}) FROM t GROUP BY {R}"),
             (("block", "dash", "hash"), "SELECT CASE a {R} WHEN 1 THEN 2 {R} ELSE 3 END FROM t"), (("block", "dash", "hash"), "SELECT a FROM (SELECT 1 {R}) q {R} WHERE a = 1")]


# the rarely used statement classes, each under the dialects whose printer prints it (their printers are code paths of their own: seeded C06-11)
RARE_TEMPLATES = [(("sq", "dq"), "ANALYZE TABLE t PARTITION (dt = {R}) COMPUTE STATISTICS", ("HIVE",)), (("bq",), "ANALYZE TABLE {R} COMPUTE STATISTICS NOSCAN", ("HIVE", "MYSQL")),
                  (("bq",), "ANALYZE TABLE t PARTITION ({R} = 1, {R}) COMPUTE STATISTICS FOR COLUMNS", ("HIVE",)),
                  (("sq", "dq"), "ALTER TABLE t ADD IF NOT EXISTS PARTITION (dt = {R}, hr = {R})", ("HIVE", "MYSQL")), (("sq", "dq"), "ALTER TABLE t DROP IF EXISTS PARTITION (dt = {R})", ("HIVE", "MYSQL")),
                  (("bq",), "ALTER TABLE {R} DROP PARTITION ({R} = 1)", ("HIVE", "MYSQL")), (("bq",), "ALTER TABLE t RENAME COLUMN {R} TO {R}", ("MYSQL", "HIVE")),
                  (("sq", "dq"), "ALTER TABLE t MODIFY c varchar(9) DEFAULT {R} COMMENT {R}", ("MYSQL",)), (("bq",), "ALTER TABLE t CHANGE {R} {R} int", ("MYSQL", "HIVE")),
                  (("sq", "dq"), "ALTER TABLE t ADD KEY k (a) COMMENT {R}", ("MYSQL",)),
                  (("bq",), "DROP TABLE IF EXISTS {R}", ("MYSQL", "HIVE")), (("bq",), "TRUNCATE TABLE {R}", ("MYSQL", "HIVE")), (("bq",), "MSCK REPAIR TABLE {R}", ("HIVE",)),
                  (("sq", "dq"), "SET a.b = {R}", ("HIVE", "MYSQL")), (("sq", "dq"), "SHOW COLUMNS FROM t WHERE a = {R}", ("MYSQL",)), (("bq",), "SHOW COLUMNS FROM {R} WHERE {R} = 1", ("MYSQL",)),
                  (("sq", "dq"), "CREATE TABLE IF NOT EXISTS t AS SELECT {R} AS a FROM u WHERE b = {R}", ("MYSQL", "HIVE")), (("bq",), "CREATE TABLE {R} AS SELECT {R} FROM {R}", ("MYSQL", "HIVE")),
                  (("sq", "dq"), "CREATE TABLE t (a int) PARTITIONED BY (dt string COMMENT {R}) STORED AS ORC TBLPROPERTIES ({R}={R})", ("HIVE",)),
                  (("sq", "dq"), "CREATE TABLE t (a int, KEY k (a) USING BTREE COMMENT {R}) ENGINE=InnoDB COMMENT={R}", ("MYSQL",)),
                  (("sq", "dq"), "INSERT OVERWRITE TABLE t PARTITION (dt = {R}, hr) SELECT a FROM u", ("HIVE",)), (("sq", "dq"), "INSERT IGNORE INTO t (a) VALUES ({R}), ({R})", ("MYSQL",)),
                  (("bq",), "SELECT a FROM t LATERAL VIEW explode(b) {R} AS x", ("HIVE",)), (("bq",), "SELECT {R}.x FROM t LATERAL VIEW OUTER explode(b) {R} AS x, y WHERE x = 'k'", ("HIVE",)),
                  (("sq", "dq"), "SELECT a FROM t LATERAL VIEW OUTER explode(split(b, {R})) v AS x, y", ("HIVE",)), (("sq", "dq"), "SELECT a FROM t ORDER BY f({R}) DESC NULLS LAST LIMIT 1", ("MYSQL", "HIVE")),
                  (("sq", "dq"), "SELECT SUM(a) OVER (PARTITION BY f({R}) ORDER BY b ROWS BETWEEN 1 PRECEDING AND CURRENT ROW) FROM t", ("MYSQL", "HIVE")),
                  (("sq", "dq"), "SELECT a FROM t GROUP BY f({R}) GROUPING SETS ((f({R})), ())", ("HIVE",)), (("sq", "dq"), "SELECT m[{R}], CAST({R} AS DECIMAL(10, 2)), EXTRACT(YEAR FROM {R}) FROM t", ("HIVE",))]


# positions whose name the parser keeps WITH its back-quotes (the LATERAL VIEW view name, parser.py `_parse_lateral_view_clause`): the leaf is accepted in either form —
# what decides is that the printed statement reads back as the same tree (seeded C06-12: the quotes stripped by the parser and not restored by the printer)
RAW_BQ = "LATERAL VIEW"


def ok_payload(kind, p):
    if kind in ("sq", "dq") and (len(p) - len(p.rstrip("\\"))) % 2 == 1:
        return False          # a trailing backslash would escape the closing quote
    return not any(f in p for f in REGIONS[kind][2])


def finding_class(d, payloads):
    """the known pre-pass defects a failing pair can be attributed to (by what the payloads contain)"""
    s = " ".join(payloads)
    if any(c in s for c in ("\t", "\r\n", "　")): return "prepass-whitespace"
    if d == "HIVE" and "==" in s: return "prepass-hive-double-equals"
    if d == "DB2" and any(w in s for w in ("CURRENT DATE", "CURRENT TIME", "CURRENT_DATE", "CURRENT_TIME")): return "prepass-db2-current"
    return None


def leaf_text(kind, p):
    o, c, _ = REGIONS[kind]
    return o + p + c if kind in ("sq", "dq") else p


def run(ctx):
    n = 2500 if ctx.quick else 60000
    ctx.cov["rule"] = ("%d statement templates with a quoted region (string literal in both quote kinds, back-quoted name as column / alias / table / function, block and line "
                       "comments) at select-list, predicate, argument, VALUES, SET, DDL and alias positions × pairs of %d quote-free payloads (operators, keywords, comment openers, "
                       "brackets, semicolons, TAB, CR LF, U+3000, non-ASCII, astral, escapes) × all dialects; correspondence on tokens and trees; oracle: (1) the two trees are "
                       "equal once the payload-bearing leaf is masked, (2) that leaf carries exactly the written text, (3) the printed SQL contains it verbatim and parses back to the same tree, (4) comments "
                       "leave no trace; every payload occurs at every template and region kind at least once per run (quick: one drawn dialect; thorough: every dialect), random pairs on top. distinct_nontrivial = distinct accepted trees" % (len(TEMPLATES), len(PAYLOADS)))
    r = ctx.rng.fork("c06")
    cases = []

    def add(kinds, tmpl, kind, p1, p2, d):
        if p1 == p2 or not ok_payload(kind, p1) or not ok_payload(kind, p2):
            return
        if kind == "bq" and (p1.strip("`") == "" or p2.strip("`") == ""):
            return
        o, c, _ = REGIONS[kind]
        cases.append((d, kind, tmpl, p1, p2, tmpl.replace("{R}", o + p1 + c), tmpl.replace("{R}", o + p2 + c)))
    # every payload once at every template and region kind (the dialect and the partner payload are drawn): a printer or parser rule that singles out ONE word
    # at ONE position is a cell of this table, not a matter of luck; the thorough tier adds every dialect
    for kinds, tmpl in TEMPLATES:
        for kind in kinds:
            for p1 in PAYLOADS:
                for d in (pfam.DIALECTS if not ctx.quick else [r.choice(pfam.DIALECTS)]):
                    add(kinds, tmpl, kind, p1, r.choice(PAYLOADS), d)
    for kinds, tmpl, ds in RARE_TEMPLATES:
        for kind in kinds:
            for p1 in PAYLOADS:
                for d in (ds if not ctx.quick else [r.choice(ds)]):
                    add(kinds, tmpl, kind, p1, r.choice(PAYLOADS), d)
    ctx.count("cases:systematic", len(cases))
    while len(cases) < n + (0 if not ctx.quick else 3500):
        kinds, tmpl = r.choice(TEMPLATES)
        add(kinds, tmpl, r.choice(kinds), r.choice(PAYLOADS), r.choice(PAYLOADS), r.choice(pfam.DIALECTS))
    ra, _ = ctx.corr([pfam.req_parse(d, a) for d, _, _, _, _, a, _ in cases], stream="parse-a")
    rb, _ = ctx.corr([pfam.req_parse(d, b) for d, _, _, _, _, _, b in cases], stream="parse-b")
    ctx.corr(["L 7 %s" % E.enhex(a) for _, _, _, _, _, a, _ in cases[: n // 3]], cfg=None, stream="lex")
    pr = E.run_impl([pfam.req_print(d, d, a) for d, _, _, _, _, a, _ in cases])
    rt = E.run_impl(["RT %s %s" % (d, E.enhex(a)) for d, _, _, _, _, a, _ in cases])
    for (d, kind, tmpl, p1, p2, a, b), (_, xa, _), (_, xb, _), pa, rta in zip(cases, ra, rb, pr, rt):
        comment = kind in ("block", "dash", "hash")
        cls = finding_class(d, [p1, p2])
        if cls is None and kind == "bq" and "{R}(" in tmpl and any(p.upper() in ("CAST", "EXTRACT", "IF", "SUBSTRING", "COUNT", "SUM", "MAX", "MIN", "AVG") for p in (p1, p2)):
            cls = "backquoted-function-name-read-as-keyword"
        if cls is None and kind == "bq" and any(p.count(".") == 1 for p in (p1, p2)) and any(k in tmpl for k in ("FROM {R}", "UPDATE {R}", "INTO {R}", "{R}(", "TABLE {R}", "EXISTS {R}")):
            cls = "dot-in-backquoted-table-or-function-name"
        def fail(sig, detail):
            # a pair whose payloads contain what a known pre-pass defect rewrites is attributed to that defect, whatever the symptom
            pfam.report(ctx, cls if cls else sig, {"kind": "input", "entry": "parse_statements", "dialect": d, "input": a, "other": b, "region": kind,
                                                                 "payloads": [p1, p2], "observed": [xa[:300], xb[:300]], "oracle": "c06: " + detail, "how_found": "stream templates"})
        ctx.count("region:" + kind)
        if xa.startswith("OK") != xb.startswith("OK"):
            fail("acceptance-depends-on-payload", "both texts must be accepted or both rejected"); continue
        if not xa.startswith("OK"):
            ctx.count("both-rejected"); continue
        if comment:
            plain = tmpl.replace("{R}", " ")
            if xa != xb:
                fail("comment-visible", "a comment body must not influence the tree")
            continue
        la, lb = '"' + canon.q(leaf_text(kind, p1)) + '"', '"' + canon.q(leaf_text(kind, p2)) + '"'
        if kind == "bq" and RAW_BQ in tmpl:
            ra_, rb_ = '"' + canon.q("`" + p1 + "`") + '"', '"' + canon.q("`" + p2 + "`") + '"'
            xa, xb = xa.replace(ra_, la), xb.replace(rb_, lb)
        if la not in xa:
            fail("payload-not-verbatim", "the written text %r must reach the tree unchanged" % leaf_text(kind, p1)); continue
        if xa.replace(la, "§") != xb.replace(lb, "§"):
            fail("payload-leaks", "replacing the payload must change only that leaf"); continue
        # … and the printed SQL must carry it in a form that reads back as the same leaf (quoting kept where the payload needs it)
        if rta.startswith("OK"):
            verdicts = [v.split("|")[0] for v in rta.split(" ")[1:] if v]
            badv = [v for v in verdicts if v not in ("ok", "unsupported", "print:NOTSUP", "print:PARSE")]
            if badv and not (kind == "bq" and any("." in p for p in (p1,))):
                fail("payload-lost-in-round-trip", "the printed statement must parse back to the same tree (%s)" % badv[0][:80]); continue
        # printed SQL carries the payload verbatim (only checked where the printer accepts the statement)
        if pa.startswith("OK"):
            outs = [x for x in pa.split(" ")[1:] if x.startswith("S:")]
            if outs and not all(canon.q(p1) in o_ for o_ in outs[:1]):
                fail("payload-not-printed", "the printed SQL must contain the payload %r verbatim" % p1)
    for c_ in cases[:4]:
        ctx.sample({"dialect": c_[0], "region": c_[1], "text_a": c_[5], "text_b": c_[6]})
    # known findings: replay the witnesses
    for f in ctx.findings:
        if f.get("status") == "finding":
            w = f["witness"]
            a2 = E.run_impl([pfam.req_parse(w["dialect"], w["input"])])[0]
            if ('"' + canon.q(w["leaf"]) + '"') not in a2:
                ctx.report_known(f)
    pfam.conclude(ctx)


def replay(payload):
    a = E.run_impl([pfam.req_parse(payload["dialect"], payload["input"]), pfam.req_parse(payload["dialect"], payload["other"])])
    print(repr(payload["input"]), "->", a[0][:300]); print(repr(payload["other"]), "->", a[1][:300])
    return 1
