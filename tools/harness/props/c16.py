"""C16 — column lineage maps each output column to exactly its base-table sources.

Streams:
  * correspondence of `TableLineageAnalyzer.get_select_table_lineage / get_insert_table_lineage → all_columns()` (and of
    the names the getter was asked for) between the Lean model and the real code, on (catalogue, query) pairs from the
    dedicated generator, on its deliberately defective variants, and on general generated queries over the catalogue;
  * oracle: the dedicated generator builds the data flow together with the text, so for every query it knows the
    output columns in order (name, 1-based position) and the exact set of (schema, table, column) base columns reaching
    each, or that the query must be refused with an analysis error.

A generated query contains at most ONE construct from the list RISKY (constructs on which the implementation is known
or suspected to fail); a failure is attributed to that construct and the observed outcome, and must match a listed
finding exactly.  A query without such a construct must be analysed exactly.
"""
import re
import engine as E
import pfam, sqlgen
import anfam

RISKY = ["anonymous-aggregate", "duplicate-output-name", "scalar-subquery", "aliased-wildcard", "union-unqualified", "derived-alias-reused",
         "unknown-qualified-column", "unknown-qualifier", "dialect-variable", "derived-without-alias", "count-star-join"]


class LGen:
    def __init__(self, rng, risky=None, maxdepth=2):
        self.r, self.risky, self.maxdepth, self.k = rng, risky, maxdepth, 0
        self.used_risky = False
        self.tags = set()
        self.tables = []
        self.withs = []          # WITH tables visible at the point of generation: sources like any other, named by the WITH name
        self.shadow = None       # a catalogue table that the query never reads: its name may be taken as a derived table's alias

    def p(self, x): return self.r.chance(x)
    def ch(self, xs): return self.r.choice(xs)
    def fresh(self, prefix):
        self.k += 1
        return "%s%d" % (prefix, self.k)

    def want(self, feature, prob=0.5):
        """use the risky construct `feature` here? (at most one per query)"""
        if self.risky == feature and not self.used_risky and self.p(prob):
            self.used_risky = True
            return True
        return False

    # -- catalogue -----------------------------------------------------------------------------------------------
    def catalogue(self):
        shared = ["id", "k", "dt"]
        for i in range(2 + self.r.below(4)):
            name = self.fresh(self.ch(["t", "tab_", "T"]))
            schema = self.fresh("s") if self.p(0.3) else None
            cols = []
            for j in range(1 + self.r.below(4)):
                c = self.ch(shared) if self.p(0.25) else "%s%d_%d" % (self.ch(["a", "b", "col"]), i, j)
                if c not in cols: cols.append(c)
            self.tables.append({"schema": schema, "name": name, "cols": cols})
        text = "; ".join("CREATE TABLE %s (%s)" % ((t["schema"] + "." if t["schema"] else "") + t["name"],
                                                     ", ".join("%s %s" % (c, self.ch(["int", "varchar(20)", "bigint(20)"])) for c in t["cols"])) for t in self.tables)
        self.all_tables = list(self.tables)
        plain = [t for t in self.tables if t["schema"] is None]
        if len(self.tables) >= 3 and plain and self.p(0.5):
            self.shadow = self.ch(plain)
            self.tables = [t for t in self.tables if t is not self.shadow]
        return text

    # -- sources in scope: {"ref": name to qualify with, "cols": [(name, frozenset of base columns)], "base": bool, "aliased": bool} ----------
    def base_source(self, force_alias=False, no_alias=False):
        t = self.ch(self.tables)
        al = None if no_alias else (self.fresh("x") if (force_alias or self.p(0.4)) else None)
        text = (t["schema"] + "." if t["schema"] else "") + t["name"] + ((self.ch([" AS ", " "]) + al) if al else "")
        src = {"ref": al or t["name"], "cols": [(c, frozenset([(t["schema"], t["name"], c)])) for c in t["cols"]], "base": True, "aliased": al is not None, "table": t}
        return text, src

    def derived(self, d, alias=None, force_with=False):
        """a derived table (None if the nested query cannot serve as one)"""
        text, out = self.query(d + 1, force_with=force_with)
        if out == "ANALYZER":
            return None
        cols = [(n, s) for n, s in out if n is not None]
        if len(cols) == len(out) and len(set(n for n, _ in cols)) == len(cols):
            if alias is None and self.want("derived-without-alias", 0.7):
                self.tags.add("risky:derived-without-alias")
                return "(" + text + ")", {"ref": None, "cols": cols, "base": False, "aliased": False}
            al = alias or self.fresh("q")
            self.tags.add("derived-table")
            return "(" + text + ")" + self.ch([" AS ", " "]) + al, {"ref": al, "cols": cols, "base": False, "aliased": True}
        return None

    def source(self, d, taken, no_alias=False, allow_with=True):
        if allow_with and self.withs and not no_alias and self.p(0.4):
            w = self.ch(self.withs)
            al = self.fresh("x") if self.p(0.3) else None
            if (al or w["ref"]) not in taken:
                self.tags.add("with:used")
                return w["ref"] + ((self.ch([" AS ", " "]) + al) if al else ""), {"ref": al or w["ref"], "cols": w["cols"], "base": True, "aliased": al is not None}
        if d < self.maxdepth and self.p(0.3) and not no_alias:
            r_ = self.derived(d)
            if r_ is not None:
                return r_
        for _ in range(8):
            text, src = self.base_source(no_alias=no_alias)
            if src["ref"] not in taken:
                return text, src
        text, src = self.base_source(force_alias=True)
        return text, src

    def refs(self, scope, qualified_only=False):
        """every way to name a column of the scope: (text, sources)"""
        out = []
        names = [n for s in scope for n, _ in s["cols"]]
        for s in scope:
            for n, srcs in s["cols"]:
                if s["ref"] is not None:
                    out.append(("%s.%s" % (s["ref"], n), srcs))
                if not qualified_only and names.count(n) == 1:
                    out.append((n, srcs))
        return out

    def expr(self, scope, d, qualified_only=False, depth=0):
        rs = self.refs(scope, qualified_only)
        x = self.r.below(100)
        if not rs:
            return "1", frozenset()
        if depth > 1 or x < 45:
            return self.ch(rs)
        if x < 60:
            a, sa = self.expr(scope, d, qualified_only, depth + 1); b, sb = self.expr(scope, d, qualified_only, depth + 1)
            return "%s %s %s" % (a, self.ch(["+", "-", "*"]), b), sa | sb
        if x < 70:
            a, sa = self.expr(scope, d, qualified_only, depth + 1)
            return "%s(%s, %s)" % (self.ch(["f", "COALESCE", "concat"]), a, self.ch(["1", "'s'"])), sa
        if x < 78:
            a, sa = self.expr(scope, d, qualified_only, depth + 1)
            if not sa:                        # an aggregate without a column argument is a risky construct of its own
                a, sa = self.ch(rs)
            self.tags.add("aggregate")
            return "%s(%s)" % (self.ch(["SUM", "MAX", "MIN"]), a), sa
        if x < 86:
            a, sa = self.expr(scope, d, qualified_only, depth + 1); b, sb = self.expr(scope, d, qualified_only, depth + 1); c, sc = self.expr(scope, d, qualified_only, depth + 1)
            return "CASE WHEN %s > 1 THEN %s ELSE %s END" % (a, b, c), sa | sb | sc
        if x < 92:
            return self.ch(["1", "'lit'", "NULL"]), frozenset()
        if x < 96:
            a, sa = self.expr(scope, d, qualified_only, depth + 1)
            return "CAST(%s AS CHAR(3))" % a, sa
        return self.ch(rs)

    def select(self, d, arity=None, qualified_only=False, plain_from=False, no_star=False):
        """(text, [(output name or None = unchecked, sources)], scope)"""
        scope, parts = [], []
        n_src = self.ch([1, 1, 1, 2, 3]) if not plain_from else self.ch([1, 2])
        text_from = ""
        # side-by-side derived tables, a LATER one with its own WITH clause (the store of derived-table lineages is shared by all levels);
        # the earlier sibling's alias is, in half of the cases, the name of a catalogue table the query never reads
        siblings = self.risky is None and not plain_from and d < self.maxdepth and self.p(0.12)
        if siblings: n_src = self.ch([2, 2, 3])
        n_comma = 1 + self.r.below(n_src)          # the FROM list first, then the JOINs (a comma after a JOIN is not accepted by the parser)
        for i in range(n_src):
            forced = None
            if siblings and i == 0:
                al = self.shadow["name"] if (self.shadow is not None and self.p(0.6) and "shadowed" not in self.tags) else None
                if al and self.p(0.5):
                    # the silent variant: the derived table also exports a column named like one of the shadowed base table's
                    o = self.ch(self.tables); oc = self.ch(o["cols"]); sc = self.ch(self.shadow["cols"])
                    forced = ("(SELECT %s.%s AS %s FROM %s) %s" % (o["name"], oc, sc, (o["schema"] + "." if o["schema"] else "") + o["name"], al),
                              {"ref": al, "cols": [(sc, frozenset([(o["schema"], o["name"], oc)]))], "base": False, "aliased": True})
                    self.tags.add("shadowed:same-column")
                else:
                    forced = self.derived(d, alias=al or self.fresh("q"))
                if forced is not None and al: self.tags.add("shadowed")
            elif siblings and i == n_src - 1:
                forced = self.derived(d, alias=self.fresh("q"), force_with=True)
                if forced is not None: self.tags.add("sibling-with")
            t, s = forced if forced is not None else self.source(d, [x["ref"] for x in scope], no_alias=plain_from and self.p(0.5), allow_with=not plain_from)
            scope.append(s)
            if i == 0: text_from = t
            elif i < n_comma: text_from += ", " + t
            else:
                cond = ""
                if self.p(0.8) and all(x["ref"] is not None for x in scope):
                    a = self.ch(self.refs(scope[:-1], True) or [("1", None)])[0]; b = self.ch(self.refs([s], True) or [("1", None)])[0]
                    cond = " ON %s = %s" % (a, b)
                text_from += " %s %s%s" % (self.ch(["JOIN", "LEFT JOIN", "INNER JOIN"]), t, cond)
        if len(scope) > 1: self.tags.add("join")
        if n_src == 1 and not siblings and self.risky is None and scope[0]["ref"] is not None and scope[0]["cols"] and self.p(0.12):
            # LATERAL VIEW f(refs) v AS names: an unqualified reference to one of the names reads what the function's arguments read
            # (table_lineage_analyzer.py:55-62 — no other generator reaches that substitution)
            rs = self.refs(scope, True)
            k = self.ch([1, 1, 2])
            args = [self.ch(rs) for _ in range(self.ch([1, 1, 2]))]
            names = [self.fresh("lx") for _ in range(k)]
            text_from += " LATERAL VIEW %s%s(%s) %s AS %s" % (self.ch(["", "OUTER "]), self.ch(["explode", "f"]), ", ".join(a for a, _ in args), self.fresh("lv"), ", ".join(names))
            srcs = frozenset(x for _, sa in args for x in sa)
            scope.append({"ref": None, "cols": [(nm, srcs) for nm in names], "base": False, "aliased": False})
            self.tags.add("lateral-view")
        out, items = [], []
        n_items = arity if arity is not None else 1 + self.r.below(4)
        if siblings and scope[0]["ref"] is not None and scope[0]["cols"]:
            c0 = self.ch(scope[0]["cols"]); nm = self.fresh("o")         # the earlier sibling is read after the later one was analysed
            items.append("%s.%s AS %s" % (scope[0]["ref"], c0[0], nm)); out.append((nm, c0[1]))
        while len(out) < n_items:
            x = self.r.below(100)
            room = n_items - len(out)
            all_cols = [(n, s) for sc in scope for n, s in sc["cols"]]
            star_ok = all(sc["ref"] is not None and (not sc["base"] or not sc["aliased"]) for sc in scope) and not qualified_only and not no_star
            if x < 8 and star_ok and arity is None and len(all_cols) <= room + 3 and not items:
                items.append("*"); out += all_cols; self.tags.add("wildcard:all")
                n_items = max(n_items, len(out))
                continue
            if x < 16 and arity is None and not no_star:
                sc = self.ch(scope)
                if sc["ref"] is not None and (not sc["base"] or not sc["aliased"]):
                    items.append(sc["ref"] + ".*"); out += list(sc["cols"]); self.tags.add("wildcard:qualified")
                    n_items = max(n_items, len(out))
                    continue
                if sc["ref"] is not None and self.want("aliased-wildcard", 0.8):
                    items.append(sc["ref"] + ".*"); out += list(sc["cols"]); self.tags.add("risky:aliased-wildcard")
                    n_items = max(n_items, len(out))
                    continue
            if not no_star and self.want("anonymous-aggregate", 0.4):      # not in a UNION branch: there it would read the tables of all branches (F-C16-7)
                # an aggregate without column argument depends on the upstream tables as a whole: (schema, table, None)
                tabs = frozenset((x[0], x[1], None) for sc in scope for _, srcs in sc["cols"] for x in srcs)
                al = self.fresh("n"); items.append(self.ch(["COUNT(1)", "SUM(1)", "COUNT('x')"]) + " AS " + al); out.append((al, tabs)); self.tags.add("risky:anonymous-aggregate")
                continue
            if d == 0 and not no_star and len(scope) > 1 and self.want("count-star-join", 0.4):
                # COUNT(*) reads every column of every table in scope
                every = frozenset(x for sc in scope for _, srcs in sc["cols"] for x in srcs)
                al = self.fresh("n"); items.append("COUNT(*) AS " + al); out.append((al, every)); self.tags.add("risky:count-star-join")
                continue
            if d == 0 and self.want("dialect-variable", 0.4):
                v = self.ch(["CURRENT_DATE", "CURRENT_TIMESTAMP"])
                items.append(v); out.append((v, frozenset())); self.tags.add("risky:dialect-variable")
                continue
            if d < self.maxdepth and self.want("scalar-subquery", 0.4):
                sub = LGen(self.r, None, 0); sub.tables = self.tables; sub.k = self.k + 500
                t, o, _ = sub.select(d + 1, arity=1, plain_from=True)
                al = self.fresh("sq"); items.append("(" + t + ") AS " + al); out.append((al, o[0][1])); self.tags.add("risky:scalar-subquery")
                continue
            if d == 0 and any(sc["ref"] for sc in scope) and self.want("unknown-qualified-column", 0.4):
                sc = self.ch([sc for sc in scope if sc["ref"]])
                items.append(sc["ref"] + ".nosuch_col"); out = "ANALYZER"; self.tags.add("risky:unknown-qualified-column")
                break
            if d == 0 and self.want("unknown-qualifier", 0.4):
                items.append("nosuch_tab." + (scope[0]["cols"][0][0])); out = "ANALYZER"; self.tags.add("risky:unknown-qualifier")
                break
            t, srcs = self.expr(scope, d, qualified_only)
            is_col = t in [x[0] for x in self.refs(scope, qualified_only)]
            if is_col and self.p(0.5):
                name = t.split(".")[-1]
                items.append(t)
            else:
                name = self.fresh("o")
                items.append(t + self.ch([" AS ", " "]) + name)
            out.append((name, srcs))
        if out != "ANALYZER":
            names = [n for n, _ in out if n is not None]
            if len(set(names)) != len(names):
                # duplicate output names: only as the risky construct of this query
                if self.risky == "duplicate-output-name" and not self.used_risky:
                    self.used_risky = True; self.tags.add("risky:duplicate-output-name")
                else:
                    return self.select(d, arity, qualified_only, plain_from, no_star)
            elif self.want("duplicate-output-name", 0.6) and len(out) >= 1 and out[0][0] is not None and arity is None:
                t, srcs = self.expr(scope, d, qualified_only)
                items.append(t + " AS " + out[0][0]); out.append((out[0][0], srcs)); self.tags.add("risky:duplicate-output-name")
        text = "SELECT " + ", ".join(items) + " FROM " + text_from
        if self.p(0.3) and all(x["ref"] is not None for x in scope):
            rs = self.refs(scope, True)
            if rs:
                text += " WHERE %s > 0" % self.ch(rs)[0]
                if self.risky is None and self.p(0.25):
                    t = self.ch(self.tables); v = self.fresh("v")          # a WITH clause inside a predicate sub-query: not part of the flow
                    text += " AND %s %s (WITH %s AS (SELECT %s FROM %s) SELECT %s FROM %s)" % (
                        self.ch(rs)[0], self.ch(["IN", "NOT IN"]), v, t["cols"][0], (t["schema"] + "." if t["schema"] else "") + t["name"], t["cols"][0], v)
                    self.tags.add("with:in-predicate-subquery")
        return text, out, scope

    def query(self, d=0, force_with=False):
        """(text, outputs) — outputs = [(name, sources)] or "ANALYZER" """
        # WITH tables: analysed first, visible to the statement they are attached to and to everything nested in it
        pushed, parts = 0, []
        if self.risky is None and d <= self.maxdepth and (force_with or self.p(0.15)):
            for _ in range(self.ch([1, 1, 2])):
                bt, bo, _ = self.select(d + 1)          # the body is a SELECT (it cannot itself start with WITH); it may contain derived tables with WITH
                if bo == "ANALYZER": continue
                cols = [(n, s_) for n, s_ in bo if n is not None]
                if cols and len(cols) == len(bo) and len(set(n for n, _ in cols)) == len(cols):
                    w = self.fresh("w")
                    parts.append("%s AS (%s)" % (w, bt)); self.withs.append({"ref": w, "cols": cols}); pushed += 1
            if parts: self.tags.add("with" if d == 0 else "with:nested")
        text, out = self.query_body(d)
        if pushed: del self.withs[len(self.withs) - pushed:]
        prefix = "WITH " + ", ".join(parts) + " " if parts else ""
        if d == 0: self.top_prefix = prefix
        return prefix + text, out

    def query_body(self, d):
        if d <= 1 and self.p(0.2) or (self.risky in ("union-unqualified",) and d == 0):
            # UNION: the branches are analysed in ONE scope by the implementation, so the clean form qualifies every reference
            unq = self.want("union-unqualified", 1.0)
            t1, o1, sc1 = self.select(d, arity=None, qualified_only=not unq, plain_from=True, no_star=True)
            if o1 == "ANALYZER" or any(n is None for n, _ in o1):
                return t1, o1
            t2, o2, sc2 = self.select(d, arity=len(o1), qualified_only=not unq, plain_from=True, no_star=True)
            if o2 == "ANALYZER":
                return t1, o1
            refs1, refs2 = [s["ref"] for s in sc1], [s["ref"] for s in sc2]
            tabs1 = {s["ref"]: s["table"]["name"] for s in sc1 if s.get("table")}; tabs2 = {s["ref"]: s["table"]["name"] for s in sc2 if s.get("table")}
            if any(r in tabs1 and tabs1[r] != tabs2[r] for r in tabs2) or any(not s["base"] for s in sc1 + sc2):
                return t1, o1          # the same qualifier for different tables in the two branches: not the clean form
            if unq: self.tags.add("risky:union-unqualified")
            self.tags.add("union")
            return t1 + " " + self.ch(["UNION", "UNION ALL"]) + " " + t2, [(n1, None if s1 is None or s2 is None else s1 | s2) for (n1, s1), (_, s2) in zip(o1, o2)]
        if d == 0 and self.want("derived-alias-reused", 0.9) and len(self.tables) >= 2:
            # an inner derived table takes, as its alias, the name of a base table that the outer level reads directly
            ta, tb = self.tables[0], self.tables[1]
            fa = (ta["schema"] + "." if ta["schema"] else "") + ta["name"]; fb = (tb["schema"] + "." if tb["schema"] else "") + tb["name"]
            self.tags.add("risky:derived-alias-reused")
            return ("SELECT o.v1, %s.%s FROM (SELECT %s.%s AS v1 FROM (SELECT %s FROM %s) %s) o, %s"
                    % (tb["name"], tb["cols"][-1], tb["name"], ta["cols"][0], ta["cols"][0], fa, tb["name"], fb)), \
                [("v1", frozenset([(ta["schema"], ta["name"], ta["cols"][0])])), (tb["cols"][-1], frozenset([(tb["schema"], tb["name"], tb["cols"][-1])]))]
        t, o, _ = self.select(d)
        return t, o

    def statement(self):
        """(text, kind, expectation): kind = "select" | "insert" """
        text, out = self.query(0)
        pre = getattr(self, "top_prefix", "")
        body = text[len(pre):]          # the WITH clause of an INSERT is written before INSERT
        if self.p(0.25) and out != "ANALYZER" and self.risky is None:
            tgt = self.ch(self.tables)
            full = (tgt["schema"] + "." if tgt["schema"] else "") + tgt["name"]
            x = self.r.below(100)
            self.tags.add("insert")
            if x < 35 and len(tgt["cols"]) == len(out):
                return pre + "INSERT INTO %s %s" % (full, body), "insert", [((tgt["schema"], tgt["name"], c), s) for c, (_, s) in zip(tgt["cols"], out)]
            if x < 70 and len(tgt["cols"]) >= len(out):
                cols = self.r.shuffle(tgt["cols"])[:len(out)]
                self.tags.add("insert:column-list")
                return pre + "INSERT INTO %s (%s) %s" % (full, ", ".join(cols), body), "insert", [((tgt["schema"], tgt["name"], c), s) for c, (_, s) in zip(cols, out)]
            if len(tgt["cols"]) != len(out):
                self.tags.add("insert:arity-mismatch")
                return pre + "INSERT INTO %s %s" % (full, body), "insert", "ANALYZER"
        return text, "select", out


def known_case(rng, risky=None):
    g = LGen(rng, risky, maxdepth=rng.choice([0, 1, 1, 2]))
    cat = g.catalogue()
    text, kind, want = g.statement()
    text, style = anfam.recase(rng, text)          # keywords in lower / Capitalised / mixed case
    g.tags.add("keywords:" + style)
    risky_used = sorted(t[6:] for t in g.tags if t.startswith("risky:"))
    return {"catalogue": cat, "text": text, "kind": kind, "want": want, "tags": sorted(g.tags), "risky": risky_used, "dialect": rng.choice(["MYSQL", "HIVE", "DEFAULT"])}


def history_case(rng):
    """2–4 statements over one catalogue, to be analysed one after the other on ONE analyzer, with deliberate name collisions
    across the statements: one name N is a derived table's alias in one statement, a WITH table in another, and (when N is the name
    of a catalogue table) a base table read directly in a third — in every order.  Each statement's flow is known for it alone."""
    g = LGen(rng, None, maxdepth=1)
    cat = g.catalogue()
    full = lambda t: (t["schema"] + "." if t["schema"] else "") + t["name"]
    plain = [t for t in g.all_tables if t["schema"] is None]
    B = rng.choice(plain) if plain and rng.chance(0.65) else None
    N = B["name"] if B else "v%d" % rng.below(100)
    xcol = rng.choice(B["cols"]) if B else "x0"
    others = [t for t in g.all_tables if t is not B] or g.all_tables

    def src():
        t = rng.choice(others)
        return t, rng.choice(t["cols"])

    def derived():
        t, c = src()
        return "SELECT %s.%s FROM (SELECT %s.%s AS %s FROM %s) %s" % (N, xcol, t["name"], c, xcol, full(t), N), [(xcol, frozenset([(t["schema"], t["name"], c)]))]

    def with_():
        t, c = src(); c2 = rng.choice(t["cols"])
        if rng.chance(0.5):
            return "WITH %s AS (SELECT %s AS %s FROM %s) SELECT %s.%s FROM %s" % (N, c, xcol, full(t), N, xcol, N), [(xcol, frozenset([(t["schema"], t["name"], c)]))]
        return ("WITH %s AS (SELECT %s.%s + %s.%s AS %s FROM %s) SELECT %s AS o1 FROM %s" % (N, t["name"], c, t["name"], c2, xcol, full(t), xcol, N),
                [("o1", frozenset([(t["schema"], t["name"], c), (t["schema"], t["name"], c2)]))])

    def base():
        if rng.chance(0.5):
            return "SELECT %s.%s FROM %s" % (N, xcol, N), [(xcol, frozenset([(None, N, xcol)]))]
        return "SELECT %s, %s AS o2 FROM %s" % (xcol, B["cols"][0], N), [(xcol, frozenset([(None, N, xcol)])), ("o2", frozenset([(None, N, B["cols"][0])]))]

    def random_():
        h = LGen(rng, None, maxdepth=1); h.tables = list(g.tables); h.all_tables = g.all_tables; h.shadow = g.shadow; h.k = 900 + rng.below(50) * 40
        text, kind, want = h.statement()
        return text, want, kind

    roles = ["derived", "with"] + (["base"] if B else ["with"]) + ["random"]
    roles = rng.shuffle(roles)[:2 + rng.below(3)]
    if not ({"derived", "with", "base"} & set(roles[:-1])):
        roles = ["derived"] + roles
    steps = []
    for role in roles:
        r_ = {"derived": derived, "with": with_, "base": base, "random": random_}[role]()
        text, want = r_[0], r_[1]
        kind = r_[2] if len(r_) > 2 else "select"
        text, _ = anfam.recase(rng, text)
        steps.append({"text": text, "want": want, "kind": kind, "role": role})
    return {"catalogue": cat, "steps": steps, "dialect": rng.choice(["MYSQL", "HIVE", "DEFAULT"]), "name": N, "name_is_base_table": B is not None}


def ambiguity_case(rng):
    """the AMBIGUITY family: an unqualified reference whose name exists in two upstream tables of one SELECT level must be refused with
    the library's analysis error — whatever the two tables are (base / derived / WITH, in both orders) and however the column is defined in
    a derived / WITH table (base column, constant, expression over two columns, dialect variable: the last three carry few or no base
    sources, which must not make the name look unique).  Control: the name exists in one of the two only, and the flow is known."""
    k = rng.below(90) + 10
    X = rng.choice(["x%d" % k, "val_%d" % k, "C%d" % k])
    P = {"name": "p%d" % k, "cols": ["p1", "p2", X]}
    Q = {"name": "q%d" % k, "cols": ["q1", X, "q2"]}
    R = {"name": "r%d" % k, "cols": ["r1", "r2"]}
    cat = "; ".join("CREATE TABLE %s (%s)" % (t["name"], ", ".join(c + " int" for c in t["cols"])) for t in rng.shuffle([P, Q, R]))
    DEFS = {"base-column": ("%s.r1" % R["name"], [(None, R["name"], "r1")]), "constant": (rng.choice(["1", "0", "'c'", "NULL"]), []),
            "expression": ("%s.r1 + %s.r2" % (R["name"], R["name"]), [(None, R["name"], "r1"), (None, R["name"], "r2")]),
            "dialect-variable": (rng.choice(["CURRENT_DATE", "CURRENT_TIMESTAMP"]), [])}
    withs = []

    def entry(kind, has_x, n):
        """(FROM text, name to qualify with, sources of X or None if the entry has no column X, join key)"""
        if kind == "base":
            t = (P if n == 0 else Q) if has_x else R
            al = "b%d" % n if rng.chance(0.4) else None
            return t["name"] + (" AS " + al if al else ""), al or t["name"], ([(None, t["name"], X)] if has_x else None), t["cols"][0], "base"
        d = rng.choice(sorted(DEFS))
        text, srcs = DEFS[d]
        name = ("d%d" if kind == "derived" else "w%d") % n
        body = "SELECT %s AS %s, %s.r2 AS k%d FROM %s" % (text, X if has_x else "other_%d" % n, R["name"], n, R["name"])
        if kind == "derived":
            return "(%s) %s" % (body, name), name, (srcs if has_x else None), "k%d" % n, d
        withs.append("%s AS (%s)" % (name, body))
        return name, name, (srcs if has_x else None), "k%d" % n, d

    pair = rng.choice([("base", "base"), ("derived", "base"), ("base", "derived"), ("with", "base"), ("base", "with"), ("derived", "derived"),
                       ("with", "derived"), ("derived", "with")])
    control = rng.chance(0.3)
    has = [True, True] if not control else rng.shuffle([True, False])
    e = [entry(pair[0], has[0], 0), entry(pair[1], has[1], 1)]
    frm = e[0][0] + (", " + e[1][0] if rng.chance(0.4) else " %s %s ON %s.%s = %s.%s" % (rng.choice(["JOIN", "LEFT JOIN", "INNER JOIN"]), e[1][0], e[0][1], e[0][3], e[1][1], e[1][3]))
    shape = rng.below(4)
    item, name = [(X, X), ("%s + 1 AS o1" % X, "o1"), ("f(%s, 2) AS o1" % X, "o1"), ("CASE WHEN %s > 0 THEN %s ELSE 0 END AS o1" % (X, X), "o1")][shape]
    other = "%s.%s AS o2" % (e[0][1], e[0][3])
    items = rng.shuffle([item, other])
    text = "SELECT " + ", ".join(items) + " FROM " + frm
    if control:
        src = [x for x in e if x[2] is not None][0]
        flow = {name: frozenset(tuple(t) for t in src[2]), "o2": None}
        key_src = frozenset([(None, P["name"] if e[0][0].startswith(P["name"]) else R["name"] if e[0][0].startswith(R["name"]) else Q["name"], e[0][3])]) if pair[0] == "base" else frozenset([(None, R["name"], "r2")])
        flow["o2"] = key_src
        want = [((X if it is item and shape == 0 else ("o1" if it is item else "o2")), flow[name] if it is item else flow["o2"]) for it in items]
    else:
        want = "ANALYZER"
    kind = "select"
    if rng.chance(0.2):
        text = "INSERT INTO %s (r1, r2) %s" % (R["name"], text); kind = "insert"
        if want != "ANALYZER":
            want = [((None, R["name"], c), w[1]) for c, w in zip(["r1", "r2"], want)]
    if withs:
        text = "WITH " + ", ".join(withs) + " " + text
    text, _ = anfam.recase(rng, text)
    return {"catalogue": cat, "text": text, "kind": kind, "want": want, "risky": [], "dialect": rng.choice(["MYSQL", "HIVE", "DEFAULT"]),
            "tags": ["ambiguity:%s-%s" % pair, "ambiguity:%s" % ("control" if control else "ambiguous"), "ambiguity:def:%s" % e[0][4], "ambiguity:def:%s" % e[1][4]],
            "family": "ambiguity:%s-%s:%s+%s:%s" % (pair[0], pair[1], e[0][4], e[1][4], "control" if control else "ambiguous")}


def req_seq(c):
    return "AN lineage-seq %s %s %s" % (c["dialect"], E.enhex(c["catalogue"]), " ".join(E.enhex(st["text"]) for st in c["steps"]))


def check_history(ctx, c, answer, how):
    parts = answer.split(" ;; ")
    if len(parts) != len(c["steps"]):
        raise E.Infra("history answer with %d parts for %d statements: %s" % (len(parts), len(c["steps"]), answer[:200]))
    for i, (st, a) in enumerate(zip(c["steps"], parts)):
        outcome, empty = judge(st, a)
        if outcome is None and not empty:
            ctx.count("oracle:history:exact:" + st["role"])
            continue
        sig = "history:%s:%s" % (st["role"], outcome or EMPTY_SCHEMA)
        ctx.count("oracle:" + sig)
        alone = E.run_impl(["AN lineage %s %s %s" % (c["dialect"], E.enhex(c["catalogue"]), E.enhex(st["text"]))])[0]
        pfam.report(ctx, sig, {"kind": "history", "entry": "one TableLineageAnalyzer, several statements", "dialect": c["dialect"], "catalogue": c["catalogue"],
                               "history": [x["text"] for x in c["steps"]], "failing_statement": i, "input": st["text"], "stmt": st["kind"],
                               "want": st["want"] if st["want"] == "ANALYZER" else [[w[0], sorted(map(list, w[1]), key=str) if w[1] is not None else None] for w in st["want"]],
                               "observed": a[:900], "observed_alone": alone[:900], "how_found": how,
                               "oracle": "c16: a statement analysed after others on the same analyzer must get the lineage it gets alone (its known data flow)"})


# -- reading the implementation's answer ---------------------------------------------------------------------------

SRC = re.compile(r'SourceColumn\{schema_name=(None|"[^"]*"),table_name="([^"]*)",column_name=(None|"[^"]*")\}')
ENTRY = re.compile(r'T\[(StandardColumn\{column_idx=(-?\d+),column_name="([^"]*)"\}|SourceColumn\{[^}]*\}|None),(L\[[^\]]*\]|None)\]')


def unq(s):
    """canonical quoting -> text (None stays None)"""
    return None if s == "None" else re.sub(r"%([0-9a-f]+);", lambda m: chr(int(m.group(1), 16)), s[1:-1])


def parse_answer(a):
    """'OK L[T[…],…] ASKED L[…]' -> ([(head, [sources])], asked names)"""
    body, _, asked = a[3:].partition(" ASKED ")
    out = []
    for m in ENTRY.finditer(body):
        head = m.group(1)
        if head.startswith("StandardColumn"):
            h = ("std", int(m.group(2)), unq('"' + m.group(3) + '"'))
        elif head.startswith("SourceColumn"):
            s = SRC.match(head); h = ("src", unq(s.group(1)), unq('"' + s.group(2) + '"'), unq(s.group(3)))
        else:
            h = ("none",)
        out.append((h, [(unq(s.group(1)), unq('"' + s.group(2) + '"'), unq(s.group(3))) for s in SRC.finditer(m.group(4))]))
    return out, re.findall(r'"([^"]*)"', asked)


def judge(c, a):
    """None if the answer is what the data flow says; else (outcome class, uses-empty-string-schema)"""
    want = c["want"]
    if want == "ANALYZER":
        return None if a == "ANALYZER" else ("accepted" if a.startswith("OK") else a.replace(" ", "-")), False
    if not a.startswith("OK"):
        return a.replace(" ", "-"), False
    got, asked = parse_answer(a)
    empty = any(s[0] == "" for _, srcs in got for s in srcs)
    norm = lambda srcs: frozenset((None if s[0] == "" else s[0], s[1], s[2]) for s in srcs)
    if len(got) != len(want):
        return "arity", empty
    for i, ((h, srcs), w) in enumerate(zip(got, want)):
        if c["kind"] == "select":
            name, wsrc = w
            if h[0] != "std" or h[1] != i + 1 or (name is not None and h[2] != name):
                return "output-column", empty
        else:
            tgt, wsrc = w
            if h[0] != "src" or (h[1], h[2], h[3]) != tuple(tgt):
                return "target-column", empty
        if wsrc is not None and norm(srcs) != frozenset(tuple(x) for x in wsrc):
            extra, missing = norm(srcs) - frozenset(tuple(x) for x in wsrc), frozenset(tuple(x) for x in wsrc) - norm(srcs)
            return "sources", empty
    return None, empty


def req(c):
    return "AN lineage %s %s %s" % (c["dialect"], E.enhex(c["catalogue"]), E.enhex(c["text"]))


EMPTY_SCHEMA = "schema-empty-string"
# one root cause, several visible outcomes
CANON = {"derived-alias-reused:ANALYZER": "derived-alias-reused:stale-store", "derived-alias-reused:sources": "derived-alias-reused:stale-store",
         "derived-alias-reused:output-column": "derived-alias-reused:stale-store",
         "duplicate-output-name:output-column": "duplicate-output-name:collapsed", "duplicate-output-name:sources": "duplicate-output-name:collapsed",
         "union-unqualified:ANALYZER": "union-unqualified:one-scope", "union-unqualified:sources": "union-unqualified:one-scope",
         "union-unqualified:PY-KeyError": "union-unqualified:one-scope"}


def check_case(ctx, c, a, how):
    outcome, empty = judge(c, a)
    payload = {"kind": "input", "entry": "TableLineageAnalyzer", "dialect": c["dialect"], "input": c["text"], "catalogue": c["catalogue"], "stmt": c["kind"],
               "want": c["want"] if c["want"] == "ANALYZER" else [[w[0], sorted(map(list, w[1]), key=str) if w[1] is not None else None] for w in c["want"]],
               "observed": a[:900], "risky": c["risky"], "how_found": how,
               "oracle": "c16: output columns in order with exactly the base columns that flow into each; unknown / ambiguous references are analysis errors"}
    if empty:
        ctx.count("oracle:" + EMPTY_SCHEMA)
        pfam.report(ctx, EMPTY_SCHEMA, payload)
    if outcome is None:
        ctx.count("oracle:exact:" + (c["risky"][0] if c["risky"] else "clean"))
        return
    sig = "%s:%s" % (c["risky"][0] if c["risky"] else "clean", outcome)
    sig = CANON.get(sig, sig)
    ctx.count("oracle:" + sig)
    pfam.report(ctx, sig, payload)


def general_case(rng):
    """a general generated query over the names of a small fixed catalogue (mostly errors: unknown tables / columns)"""
    d = rng.choice(["MYSQL", "HIVE", "DEFAULT"])
    g = sqlgen.Gen(rng, d, wild=False, maxdepth=1)
    cat = "CREATE TABLE t (a int, b int, c int); CREATE TABLE u (a int, id int); CREATE TABLE s.t (x_1 int, dt int); CREATE TABLE w (col int); CREATE TABLE db1.tbl_2 (a int)"
    q = g.query()
    if rng.chance(0.2):
        q = "INSERT INTO " + rng.choice(["t", "u", "s.t"]) + rng.choice(["", " (a, b)", " (a)"]) + " " + q
    return {"catalogue": cat, "text": q, "dialect": d}


def run(ctx):
    n_clean = 3000 if ctx.quick else 50000
    n_risky = 100 if ctx.quick else 3000
    n_gen = 2500 if ctx.quick else 40000
    ctx.cov["rule"] = ("(1) correspondence of get_select_table_lineage / get_insert_table_lineage → all_columns() and of the getter's request log between the Lean model and the real "
                       "code (through a CreateTableStatementGetter subclass serving the catalogue from a dict) on the dedicated (catalogue, query) pairs, on one variant per risky "
                       "construct, and on general generated queries over a fixed catalogue (mostly analysis errors); (2) oracle on the implementation: random catalogues (2–5 tables, "
                       "with and without schema, shared and private column names) and queries whose data flow is built together with the text — base tables with and without alias, "
                       "join chains, derived tables to depth 2, WITH tables (at the top, inside derived tables, inside WITH bodies' derived tables, inside predicate sub-queries; used with and without alias), derived tables side by side where a later sibling has its own WITH clause and the earlier sibling's alias is in some cases the name of a catalogue table the query never reads (with and without a same-named column), expressions / functions / CASE / CAST / aggregates over qualified and unambiguous unqualified references, `*` and "
                       "`t.*`, UNION with qualified references, INSERT … SELECT with explicit column list (permuted), with the target's schema, and with an arity mismatch — judged on "
                       "output names, 1-based positions and the exact source set per output column; at most one construct of RISKY=%s per query, failures attributed to it. "
                       "distinct_nontrivial = distinct accepted answers" % RISKY)
    ctx.cov["rule"] += (" (3) histories: sequences of 2–4 statements over one catalogue analysed on ONE TableLineageAnalyzer, one name being a derived alias in one statement, "
                        "a WITH table in another and (when it names a catalogue table) a base table in a third, in every order, mixed with random clean statements; each answer "
                        "must be the statement's own known flow; keywords of every generated text in upper / lower / Capitalised / mixed case.")
    ctx.cov["rule"] += (" (4) ambiguity family: an unqualified reference (bare, in arithmetic, in a function, in CASE; also under INSERT … SELECT) whose name exists in two upstream "
                        "tables of the level — (base, base), (derived, base), (WITH, base), (derived, derived), (WITH, derived) in both orders, the column being a base column / a constant / "
                        "an expression over two columns / a dialect variable in the derived or WITH table — must be refused with the analysis error; control: the name exists in one "
                        "table only and has its known flow.")
    ctx.cov["validated_only"] = ["agreement of the hand model with analyzer/data_linage/*.py, current_level_table_name_analyzer.py, current_level_sub_query.py (sampled)"]
    r = ctx.rng.fork("c16")
    cases = [known_case(r) for _ in range(n_clean)]
    for feat in RISKY:
        k = 0
        for _ in range(n_risky * 4):
            c = known_case(r, feat)
            if c["risky"] == [feat]:
                cases.append(c); k += 1
                if k >= n_risky: break
    res, bad = anfam.corr(ctx, [req(c) for c in cases], stream="known")
    for c, (_, a, _) in zip(cases, res):
        for t in c["tags"]:
            ctx.count("shape:" + t)
        check_case(ctx, c, a, "dedicated generator")
    # -- the ambiguity family ---------------------------------------------------------------------------------------------------
    amb = [ambiguity_case(r) for _ in range(500 if ctx.quick else 15000)]
    ares, _ = anfam.corr(ctx, [req(c) for c in amb], stream="ambiguity")
    for c, (_, a, _) in zip(amb, ares):
        for t in c["tags"]:
            ctx.count("shape:" + t)
        outcome, empty = judge(c, a)
        if outcome is None and not empty:
            ctx.count("oracle:ambiguity:" + ("refused" if c["want"] == "ANALYZER" else "flow-exact"))
            continue
        sig = "ambiguity:%s:%s" % ("control" if c["want"] != "ANALYZER" else "ambiguous", outcome or EMPTY_SCHEMA)
        ctx.count("oracle:" + sig)
        pfam.report(ctx, sig, {"kind": "input", "entry": "TableLineageAnalyzer", "dialect": c["dialect"], "input": c["text"], "catalogue": c["catalogue"], "stmt": c["kind"],
                               "family": c["family"], "want": c["want"] if c["want"] == "ANALYZER" else [[w[0], sorted(map(list, w[1]), key=str)] for w in c["want"]],
                               "observed": a[:900], "risky": [], "how_found": "ambiguity family",
                               "oracle": "c16: an unqualified reference whose name exists in two upstream tables of the level is an analysis error, never a lineage; with a unique name it has its flow"})
    # -- histories: several statements on one analyzer -----------------------------------------------------------------------
    hist = [history_case(r) for _ in range(400 if ctx.quick else 12000)]
    hres, _ = anfam.corr(ctx, [req_seq(c) for c in hist], stream="history")
    for c, (_, a, _) in zip(hist, hres):
        ctx.count("history:length-%d" % len(c["steps"]))
        ctx.count("history:name-is-%s" % ("base-table" if c["name_is_base_table"] else "fresh"))
        check_history(ctx, c, a, "histories")
    gen = [general_case(r) for _ in range(n_gen)]
    anfam.corr(ctx, [req(c) for c in gen], stream="general")
    for f in ctx.findings:
        if f.get("status") == "finding":
            w = f["witness"]
            a = E.run_impl(["AN lineage %s %s %s" % (w["dialect"], E.enhex(w["catalogue"]), E.enhex(w["input"]))])[0]
            if (w.get("observed_prefix") and a.startswith(w["observed_prefix"])) or (w.get("observed") and a == w["observed"]):
                ctx.report_known(f)
    for c in cases[:3] + cases[n_clean:n_clean + 2]:
        ctx.sample({"catalogue": c["catalogue"][:200], "query": c["text"][:300], "want": str(c["want"])[:300], "tags": c["tags"]})
    # names that mean different things at different levels (a WITH table / derived alias named like a base table, a derived alias named like a visible WITH table):
    # the known flows of props/c17.py's shadowing family, judged here as lineage VALUES
    from props import c17
    sh = c17.shadowing_cases(ctx.rng.fork("shadowing"), 200 if ctx.quick else 4000)
    res_sh, _ = ctx.corr(["AN lineage %s %s %s" % (d, E.enhex(c17.SHADOW_CAT), E.enhex(t)) for d, t, _ in sh], stream="lineage-shadowing")
    for (d, t, want), (_, a, _) in zip(sh, res_sh):
        got = c17.parse_an_lineage(a) if a.startswith("OK ") else None
        ctx.count("shadowing:" + ("as-specified" if got == want else "DIFFERENT"))
        if got != want:
            pfam.report(ctx, "lineage:name-shadowing", {"kind": "input", "entry": "TableLineageAnalyzer", "dialect": d, "input": t, "catalogue": c17.SHADOW_CAT,
                                                       "want": [[n_, sorted(map(list, s_), key=str)] for n_, s_ in want], "observed": a[:600],
                                                       "oracle": "c16: each output column has exactly the base columns that flow into it; a derived table's alias is looked up before a WITH table of the same name, both before the provider",
                                                       "how_found": "stream lineage-shadowing"})
    # constant aggregates (COUNT(1), SUM(1): a table-level source, no column) over derived / WITH tables of exactly ONE, of two and of three output columns, the inner
    # column itself a constant aggregate, a real column or both; over one table and over a join (seeded C16-13: the upstream-table set of a one-column lineage dropped
    # its table-level sources) — systematic, against the analyzer model; the one-column shapes also with the flow written out
    agg = []
    for outer in ("COUNT(1)", "SUM(1)", "COUNT('x')"):
        for inner in ("COUNT(1) AS n", "SUM(1) AS n", "a", "a, COUNT(1) AS n", "COUNT(1) AS n, MAX(b) AS m", "a, b, COUNT(1) AS n"):
            for src in ("t1", "t1 JOIN t2 ON t1.a = t2.a"):
                inner_q = "SELECT %s FROM %s" % (inner.replace("a,", "t1.a,").replace("MAX(b)", "MAX(t1.b)") if "JOIN" in src else inner, src)
                if inner == "a" and "JOIN" in src:
                    inner_q = "SELECT t1.a FROM %s" % src
                if inner.startswith("a,") or inner == "a, b, COUNT(1) AS n":
                    inner_q += " GROUP BY " + ("t1.a" if "JOIN" in src else "a") + (", b" if inner.startswith("a, b") and "JOIN" not in src else ", t1.b" if inner.startswith("a, b") else "")
                    inner_q = inner_q.replace("t1.a, b,", "t1.a, t1.b,")
                want1 = None
                if inner in ("COUNT(1) AS n", "SUM(1) AS n"):
                    want1 = [("m", {(None, "t1", None)} | ({(None, "t2", None)} if "JOIN" in src else set()))]
                agg.append(("SELECT %s AS m FROM (%s) q" % (outer, inner_q), want1))
                agg.append(("WITH w AS (%s) SELECT %s AS m FROM w" % (inner_q, outer), want1))
    res_ag, _ = ctx.corr(["AN lineage %s %s %s" % ("MYSQL", E.enhex(c17.SHADOW_CAT), E.enhex(t)) for t, _ in agg], stream="lineage-constant-aggregates")
    for (t, want), (_, a, _) in zip(agg, res_ag):
        if want is None or not a.startswith("OK "):
            continue
        got = AGG_SRC.findall(a.split(" ASKED ")[0])
        tabs = {x for x in got}
        ctx.count("constant-aggregate:" + ("as-specified" if tabs == {w[1] for w in want[0][1]} else "DIFFERENT"))
        if tabs != {w[1] for w in want[0][1]}:
            pfam.report(ctx, "lineage:constant-aggregate", {"kind": "input", "entry": "TableLineageAnalyzer", "dialect": "MYSQL", "input": t, "catalogue": c17.SHADOW_CAT,
                                                           "want": sorted(w[1] for w in want[0][1]), "observed": a[:600],
                                                           "oracle": "c16: a constant aggregate depends on every table of its level, also through a derived / WITH table whose only column is a constant aggregate",
                                                           "how_found": "stream lineage-constant-aggregates"})
    pfam.conclude(ctx, search)


AGG_SRC = re.compile(r'SourceColumn\{schema_name=(?:None|"[^"]*"),table_name="([^"]*)",column_name=None\}')


def search(ctx):
    r = ctx.rng.fork("c16-search")
    n = 4000 if ctx.quick else 60000
    cases = [known_case(r) for _ in range(n)]
    ans = E.run_impl([req(c) for c in cases])
    ctx.cov["evaluations"] += len(ans)
    for c, a in zip(cases, ans):
        check_case(ctx, c, a, "search: directed generation")
        if ctx.violations:
            return


def replay(payload):
    if payload.get("kind") == "history":
        texts, i = payload["history"], payload["failing_statement"]
        a = E.run_impl(["AN lineage-seq %s %s %s" % (payload["dialect"], E.enhex(payload["catalogue"]), " ".join(E.enhex(t) for t in texts))])[0].split(" ;; ")
        print("catalogue:", payload["catalogue"])
        for k, t in enumerate(texts): print("statement %d%s: %r" % (k, " (judged)" if k == i else "", t))
        print("expected :", str(payload["want"])[:800]); print("observed :", a[i][:800])
        want = payload["want"] if payload["want"] == "ANALYZER" else [(w[0] if payload["stmt"] == "select" else tuple(w[0]), None if w[1] is None else frozenset(tuple(x) for x in w[1])) for w in payload["want"]]
        outcome, empty = judge({"want": want, "kind": payload["stmt"]}, a[i])
        return 0 if outcome is None and not empty else 1
    a = E.run_impl(["AN lineage %s %s %s" % (payload["dialect"], E.enhex(payload["catalogue"]), E.enhex(payload["input"]))])[0]
    print("catalogue:", payload["catalogue"]); print("query    :", repr(payload["input"])); print("expected :", str(payload["want"])[:800]); print("observed :", a[:800])
    if "stmt" not in payload:
        if "constant-aggregates" in payload.get("how_found", ""):
            return 0 if a.startswith("OK ") and set(AGG_SRC.findall(a.split(" ASKED ")[0])) == set(payload["want"]) else 1
        from props import c17
        got = c17.parse_an_lineage(a) if a.startswith("OK ") else None
        return 0 if got == [(n_, {tuple(x) for x in s_}) for n_, s_ in payload["want"]] else 1
    want = payload["want"] if payload["want"] == "ANALYZER" else [(w[0] if payload["stmt"] == "select" else tuple(w[0]), None if w[1] is None else frozenset(tuple(x) for x in w[1])) for w in payload["want"]]
    outcome, empty = judge({"want": want, "kind": payload["stmt"]}, a)
    return 0 if outcome is None and not empty else 1
