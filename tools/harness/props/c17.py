"""C17 — schema lookups are minimal, consistently keyed and cache-transparent.

Part A (histories): operation sequences `new | nodisk | get n | crash n` are run against the cache model and against the real
`CreateTableStatementGetter` in a fresh temporary directory (correspondence), and the implementation's answers are judged by the
abstract cache: every completed request answers what the provider's text parses to, and the provider is asked only when the
name is cold.  Part B (lineage requests): `TableLineageAnalyzer` over a provider that knows every table; the provider may be
asked only for base tables the statement names, under one spelling, and the lineage must not depend on the cache temperature.
"""
import itertools
import re
import urllib.parse
import engine as E
import pfam, sqlgen
from canon_ext_cache import provider, path_class, hx, fnv1a, ABS_SANDBOX

# name groups of the exhaustive small-scope stream: each group probes one hazard next to plain names
GROUPS = [
    ["a", "b"],
    ["a.sql.b", "a.b"],
    ["x.sql", "x"],
    ["s/t", "a"],
    ["./a", "a"],
    ["a", "a/x", "../x"],
    ["q#cr", "q#crlf"],
    ["q#bad", "w#empty"],
    ["", "`s.t`", "s.t"],
    ["a\0b", "a"],
    ["a%2Fb", "a/b"],
    ["", ".", ".."],
    [ABS_SANDBOX + "/x", "x"],
    ["é表", "a b"],
]
# foreign files next to a name group: (group, [(file name, text)]) — files of an earlier version whose raw name is no canonical encoding (must be ignored),
# and a canonical file with the provider's text (must be trusted by the next process)
LEGACY_GROUPS = [
    (["a b", "a"], [("a b.sql", "CREATE TABLE legacy (z INT)"), ("a%20b.sql", None)]),
    (["a/b", "a%2fb"], [("a%2fb.sql", "CREATE TABLE legacy (z INT)"), ("a%2Fb.sql", None)]),
    (["é", "A"], [("é.sql", "CREATE TABLE legacy (z INT)"), ("%41.sql", "CREATE TABLE legacy (z INT)"), ("%C3%A9.sql", None)]),
]
NAMES = ["a", "b", "c", "s.t", "`s.t`", "`s`.`t`", "S.T", "a b", "é表", "x-y", "a.b", "a.b.c", ".a", "a.", "..", "sql", "a.sq", ".sq", "a.sql.b",
         "x.sql", ".sql", "a.sqlx", ".sql.sql", "s/t", "./a", "a/./b", "../x", "a//b", "a/", "a\0b", "q#cr", "r#cr", "q#crlf", "q#bad", "w#empty",
         "", "*", "a?b", "a:b", "a;b", "a'b", "a\"b", "a\\b", "~", "-", "CON", "a\tb", "a\nb", "A", "a.SQL",
         ".", "a%2Fb", "a%2fb", "a/b", "%", "%41", "%2", "a%", " ", "a ", ABS_SANDBOX + "/", ABS_SANDBOX + "//x", ABS_SANDBOX + "/x", ABS_SANDBOX + "/./y", "..sql", "a.sql.tmp", "a.tmp", "x.tmp",
         "a\u3000b", "😀", "\x80", "\x7f", "\u07ff", "\u0800", "\ud7ff", "\ue000", "\uffff", "\U00010000", "\U0010ffff", "\ufffd", "a\u0301", "Ω.表"]
# foreign directory entries of the random histories: non-canonical stems (raw blank / non-ASCII, lower-case, incomplete, non-UTF-8, overlong, surrogate escapes,
# an escaped safe character), other suffixes; `None` = the provider's text for the name the stem decodes to (a canonical file somebody else put there)
JUNK = "CREATE TABLE legacy (z INT)"
FILES = [("a b.sql", JUNK), ("é表.sql", JUNK), ("a%2fb.sql", JUNK), ("%41.sql", JUNK), ("%FF.sql", JUNK), ("%C0%AF.sql", JUNK), ("%ED%A0%80.sql", JUNK), ("%.sql", JUNK),
         ("a%2.sql", JUNK), ("%2Fa%.sql", JUNK), ("x.sql.tmp", JUNK), ("b.sql.tmp", ""), ("a.SQL", JUNK), ("a.sql.bak", JUNK), ("%F4%90%80%80.sql", JUNK), ("%EF%BF%BD.sql", None),
         ("a%20b.sql", None), ("s%2Ft.sql", None), ("%C3%A9%E8%A1%A8.sql", None), ("b.sql", None), ("..%2Fx.sql", None), ("%25.sql", None), ("a%00b.sql", None)]
CRASHES = [(1, 0), (2, 0), (3, 0), (3, 7), (3, 10 ** 6), (4, 0), (5, 0)]      # (atomic steps completed, characters flushed), see Cache.get


def op_get(n):
    return "get:" + hx(n)


def op_crash(n, c):
    return "crash:%d:%d:%s" % (c[0], c[1], hx(n))


def req(ops):
    return "CACHE " + E.enhex(";".join(ops))


def op_put(fn, text):
    """somebody else writes `fn` into the cache directory; text `None` = the provider's text for the table the file name stands for"""
    if text is None:
        assert fn.endswith(".sql")
        text = provider(urllib.parse.unquote(fn[:-4]))
    return "put:%s:%s" % (hx(fn), hx(text))


def name_of(op):
    return bytes.fromhex(op.split(":")[-1]).decode("utf-8") if op.startswith(("get:", "crash:")) else None


def put_of(op):
    """(file name, text) of a `put`"""
    if not op.startswith("put:"):
        return None
    _, f, t = op.split(":")
    return bytes.fromhex(f).decode("utf-8", "surrogateescape"), bytes.fromhex(t).decode("utf-8")


def canonical_table(fn):
    """the table a directory entry stands for: the name whose encoding + `.sql` it is, else None (independent of the library: the specification of the naming scheme)"""
    if not fn.endswith(".sql") or not fn.isascii():
        return None
    n = urllib.parse.unquote(fn[:-4], errors="replace")
    return n if urllib.parse.quote(n, safe="") + ".sql" == fn else None


def hazard(n):
    """the one feature of a name that takes it out of the fragment the theorems cover (priority order)"""
    if len(urllib.parse.quote(n, safe="")) + len(".sql.tmp") > 255: return "long"
    if "\0" in n: return "nul"
    if "/" in n: return "slash"
    if ".sql" in n: return "dotsql"
    if n.endswith("#cr"): return "cr"
    if "%" in n: return "percent"
    if not n.isascii(): return "nonascii"
    if n in ("", ".", ".."): return "dots"
    if n != urllib.parse.quote(n, safe=""): return "escaped"
    return None


def parse_answer(a):
    """'OK r1 r2 … calls=… dir=… parent=…' -> (results, calls, dir, parent)"""
    toks = a.split(" ")
    assert toks[0] == "OK" and toks[-3].startswith("calls=") and toks[-2].startswith("dir=") and toks[-1].startswith("parent="), a[:80]
    return toks[1:-3], toks[-3][6:], toks[-2][4:], toks[-1][7:]


def judge(ops, a, expected):
    """AbsCache oracle on one implementation answer: None, or (failure kind, index of the failing op, detail).
    Only the first failure of a history is judged (after it the abstract state is undefined)."""
    if not a.startswith("OK "):
        return ("harness", 0, a[:80])
    results, calls, d, parent = parse_answer(a)
    if len(results) != len(ops):
        return ("harness", 0, "result count")
    inst, warm_mem, warm_disk, maybe, put_later = None, set(), set(), set(), set()
    for i, (op, r) in enumerate(zip(ops, results)):
        if op in ("new", "nodisk"):
            if r.startswith("E:"):
                return ("init-raises", i, "instantiation raised " + r[2:])
            inst, warm_mem = op, set()
            warm_disk |= put_later              # a canonical file with the provider's text that somebody else put there is seen by the next process
            put_later = set()
            continue
        if op == "anylength":
            continue
        if op.startswith("put:"):
            fn, text = put_of(op)
            m = canonical_table(fn)
            if m is not None:
                if text != provider(m):
                    return ("harness", i, "the history plants a wrong text under a canonical name")
                put_later.add(m)                # every other entry must stay without any effect: nothing to note
            continue
        n = name_of(op)
        if inst is None:
            if r != "NOINSTANCE":
                return ("harness", i, "expected NOINSTANCE")
            continue
        asked, body = r[0] == "+", r[1:]
        warm = n in warm_mem or (inst == "new" and n in warm_disk)
        if asked and warm:
            return ("extra-call", i, "the provider was asked for %r although it is warm" % n)
        if body == "CRASHED":
            inst = None
            maybe.add(n)        # the interrupted fetch may or may not have completed: either is allowed afterwards
            continue
        if body != expected[n]:
            return ("result", i, "request for %r answered %s, the provider's text parses to %s" % (n, body[:120], expected[n][:120]))
        if not asked and not warm and n not in maybe:
            return ("result", i, "request for %r answered without asking the provider although it is cold" % n)
        if body.startswith("S"):
            warm_mem.add(n)
        if inst == "new":
            warm_disk.add(n)
    if parent:
        return ("escape", len(ops) - 1, "files written above the cache directory: " + parent)
    return None


def signature(kind, ops, answer):
    """failure kind + the hazards left in the (shrunk) history; `crash` counts only if a process really died between the creation of the file and its rename"""
    hz = {h for h in (hazard(name_of(o)) for o in ops if name_of(o) is not None) if h}
    if any(o.startswith("put:") and canonical_table(put_of(o)[0]) is None for o in ops):
        hz.add("foreign-file")
    if answer.startswith("OK "):
        for o, r in zip(ops, parse_answer(answer)[0]):
            if o.startswith(("crash:2:", "crash:3:", "crash:4:")) and r[1:] == "CRASHED":
                hz.add("crash")
    return kind + ":" + ("+".join(sorted(hz)) if hz else "plain")


def simpler(ops):
    """candidate simplifications of a history: drop one operation, or turn a crashing request into a plain one"""
    out = [ops[:k] + ops[k + 1:] for k in range(len(ops)) if len(ops) > 1]
    for k, o in enumerate(ops):
        if o.startswith("crash:"):
            out.append(ops[:k] + ["get:" + o.split(":")[-1]] + ops[k + 1:])
    return out


def shrink_all(items, expected):
    """items: [(ops, kind)] -> [(ops, answer)] minimal histories whose first failure keeps its kind (all items advance in one batch per round)"""
    cur = [list(o) for o, _ in items]
    ans = E.run_impl([req(o) for o in cur])
    active = set(range(len(items)))
    while active:
        cands = {i: simpler(cur[i]) for i in active}
        flat = [(i, c) for i in sorted(active) for c in cands[i]]
        res = E.run_impl([req(c) for _, c in flat])
        moved = set()
        for (i, c), a in zip(flat, res):
            if i in moved:
                continue
            j = judge(c, a, expected)
            if j and j[0] == items[i][1]:
                cur[i], ans[i] = c, a
                moved.add(i)
        active = moved
    return list(zip(cur, ans))


def expected_results(ctx, names):
    """name -> the token a completed request must answer: the implementation's own parse of the provider's text"""
    names = sorted(names)
    res, _ = ctx.corr(["P create_table_statement DEFAULT " + E.enhex(provider(n)) for n in names], stream="provider-texts")
    out = {}
    for n, (_, a, _) in zip(names, res):
        out[n] = ("S#" + fnv1a(a.split(" ", 2)[2])) if a.startswith("OK ") else ("E:" + a.replace(" ", "_"))
    return out


def histories(ctx, r):
    seqs = []
    depth = 3 if ctx.quick else 4
    for g in GROUPS:
        alphabet = ["new", "nodisk"] + [op_get(n) for n in g] + [op_crash(n, (2, 0)) for n in g] + [op_crash(g[0], (3, 7))]
        for k in range(1, depth + 1):
            for tail in itertools.product(alphabet, repeat=k):
                seqs.append(["new"] + list(tail))
    for g, files in LEGACY_GROUPS:
        alphabet = ["new"] + [op_get(n) for n in g] + [op_put(f, t) for f, t in files] + [op_crash(g[0], (2, 0))]
        for k in range(1, depth + 1):
            for tail in itertools.product(alphabet, repeat=k):
                if any(o.startswith("put:") for o in tail):
                    seqs.append(["new"] + list(tail))
                    seqs.append(list(tail))             # … the first process already finds the files
    n_exh = len(seqs)
    n_rand = 1500 if ctx.quick else 60000
    for i in range(n_rand):
        pool = [r.choice(NAMES) for _ in range(1 + r.below(4))]
        if r.chance(0.5):
            pool = [n for n in pool if hazard(n) is None] or ["a"]
        ops = [r.choice(["new", "new", "nodisk"])]
        for _ in range(2 + r.below(12)):
            x = r.below(100)
            if x < 55: ops.append(op_get(r.choice(pool)))
            elif x < 70: ops.append(op_crash(r.choice(pool), r.choice(CRASHES)))
            elif x < 88: ops.append("new")
            elif x < 94: ops.append("nodisk")
            else:
                fn, text = r.choice(FILES) if r.chance(0.7) else (urllib.parse.quote(r.choice(pool), safe="") + ".sql", None)
                if len(fn.encode("utf-8")) <= 255:
                    ops.append(op_put(fn, text))
        seqs.append(ops)
    return seqs, n_exh


# ---------------------------------------------------------------------------------------------------------------------
# the file name of a table (QUOTE) and the table of a directory entry (STEM)
# ---------------------------------------------------------------------------------------------------------------------

NAME_ALPHABET = list("ab.Z09_-~") + ["/", "\\", "%", " ", "\0", "\t", "\n", "é", "表", "😀", "\x7f", "\x80", "\u07ff", "\u0800", "\ud7ff", "\ue000", "\uffff", "\U00010000", "\U0010ffff",
                                      "..", "./", "../", ".sql", ".tmp", "%2F", "%2f", "%25", "#", "?", ":", "*", "`", "'", "\"", "+", "&", "=", "@", "$", ",", ";", "(", "[", "{", "|", "<", "^", "!"]
STEM_ALPHABET = list("ab.Z9_-~") + ["%2F", "%2f", "%25", "%20", "%00", "%41", "%7E", "%C3%A9", "%E8%A1%A8", "%F0%9F%98%80", "%C3", "%A9", "%FF", "%C0%AF", "%ED%A0%80", "%EF%BF%BD", "%F4%8F%BF%BF",
                                    "%F4%90%80%80", "%", "%2", "%G0", "%0g", " ", "é", "表", "+", "\\", ".sql", ".tmp"]


PLAIN = set("abcdefghijklmnopqrstuvwxyzABCDEFGHIJKLMNOPQRSTUVWXYZ0123456789_.-~")


def judge_entry(f, n, a):
    """STEM answer for the entry `f` (saved for table `n`, or generated: n = None) -> (ok, listed as, stands for)"""
    want = n if n is not None else canonical_table(f)
    got = "none" if a == "OK none" else (bytes.fromhex(a[8:]).decode("utf-8") if a.startswith("OK some ") else a)
    return got == ("none" if want is None else want), got, want


def file_names(ctx, r):
    """model `Cache.enc` / `Cache.entryName` against the real class, and the real class against the specification of the naming scheme: the file name of a table is a
    single component without NUL, different tables get different files, a name of letters, digits and `_.-~` keeps the file name of earlier versions, and the
    directory listing reads a file back as the table it was saved for — and reads nothing else"""
    n_rand = 1500 if ctx.quick else 40000
    names = list(dict.fromkeys(NAMES + [x for g in GROUPS for x in g] + [chr(c) for c in range(0, 0x250)] +
                               ["".join(r.choice(NAME_ALPHABET) for _ in range(1 + r.below(6))) for _ in range(n_rand)] +
                               [chr(r.choice([r.below(0xD800), 0xE000 + r.below(0x110000 - 0xE000)])) for _ in range(n_rand // 3)]))
    names = [n for n in names if len(urllib.parse.quote(n, safe="")) <= 240 and (not n.startswith("/") or n.startswith(ABS_SANDBOX + "/"))]
    res, _ = ctx.corr(["QUOTE " + E.enhex(n) for n in names], stream="file-names")
    by_file, stems = {}, []
    for n, (_, a, _) in zip(names, res):
        ctx.cov["evaluations"] += 1
        if a.startswith("UNMODELLED"):
            ctx.count("file-name:unmodelled")
            continue
        bad = None
        fn = None
        if not a.startswith("OK ") or "=" in a:
            bad = ("file-name:no-single-file", "save_to_disk(%r) -> %s" % (n, a[:200]))
        else:
            fn = bytes.fromhex(a[3:]).decode("utf-8", "surrogateescape")
            if "/" in fn or "\0" in fn or fn in (".", ".."):
                bad = ("file-name:not-a-component", "table %r is saved as %r" % (n, fn))
            elif by_file.setdefault(fn, n) != n:
                bad = ("file-name:collision", "tables %r and %r share the file %r" % (by_file[fn], n, fn), by_file[fn])
            elif all(c in PLAIN for c in n) and fn != n + ".sql":
                bad = ("file-name:renamed-plain", "table %r, made of letters, digits and _.-~ only, is saved as %r (earlier versions: %r)" % (n, fn, n + ".sql"))
            else:
                stems.append((fn, n))
        ctx.count("file-name:" + ("ok:" + (hazard(n) or "plain") if bad is None else bad[0]))
        ctx.distinct.add(hash(a))
        if bad:
            pfam.report(ctx, bad[0], {"kind": "file-name", "name": n, "other": bad[2] if len(bad) > 2 else n, "observed": a[:300], "detail": bad[1],
                                      "oracle": "c17: the cache file of a table is one directory entry, different for different tables", "how_found": "stream file-names"})
    # entries: the files just seen (must be read back as their table), and generated stems (read as table n only if they are n's file)
    gen = list(dict.fromkeys(["".join(r.choice(STEM_ALPHABET) for _ in range(1 + r.below(5))) + r.choice([".sql", ".sql", ".sql", ".sql.tmp", ".SQL", ""]) for _ in range(n_rand)] +
                             [f for f, _ in FILES]))
    gen = [(f, None) for f in gen if 0 < len(f.encode("utf-8")) <= 255 and f not in (".", "..") and f not in by_file]
    entries = stems + gen
    res2, _ = ctx.corr(["STEM " + E.enhex(f) for f, _ in entries], stream="directory-entries")
    for (f, n), (_, a, _) in zip(entries, res2):
        ctx.cov["evaluations"] += 1
        ok, got, want = judge_entry(f, n, a)
        ctx.count("directory-entry:" + ("saved-file-read-back" if n is not None else ("canonical" if want is not None else "ignored")) + ("" if ok else ":WRONG"))
        ctx.distinct.add(hash(a))
        if not ok:
            sig = "directory-entry:" + ("not-read-back" if n is not None else ("not-ignored" if want is None else "canonical-not-listed"))
            pfam.report(ctx, sig, {"kind": "directory-entry", "file": f, "saved_for": n, "observed": a[:300], "detail": "the entry %r is listed as %r; it stands for %r" % (f, got, want),
                                   "oracle": "c17: __init__ lists a directory entry as table n exactly if it is the file of n", "how_found": "stream directory-entries"})
    # entries whose name is not UTF-8 (implementation only: the model's names are Unicode strings): the instantiation must survive them
    raw = [b"\xff\xfe.sql", b"a\xc3.sql", b"\xed\xa0\x80.sql", b"%FF\x80.sql"]
    hist = [["put:%s:%s" % (b.hex(), hx(JUNK)), "new", op_get("a"), "new", op_get("a")] for b in raw]
    for h, a in zip(hist, E.run_impl([req(h) for h in hist])):
        ctx.cov["evaluations"] += 1
        ok = a.startswith("OK P I[] +S#") and " E:" not in a and parse_answer(a)[0][4].startswith("-S#")
        ctx.count("directory-entry:undecodable-name" + ("" if ok else ":WRONG"))
        if not ok:
            pfam.report(ctx, "init-raises:foreign-file", {"kind": "ops", "ops": h, "names": [name_of(o) for o in h], "observed": a[:400], "detail": "a directory entry whose name is not UTF-8",
                                                          "oracle": "c17: a foreign file in the cache directory has no effect", "how_found": "stream directory-entries (undecodable names)"})
    ctx.cov["distribution"]["file-names:distinct-files"] = len(by_file)


# ---------------------------------------------------------------------------------------------------------------------
# lineage requests
# ---------------------------------------------------------------------------------------------------------------------

TABLES = ["t1", "t2", "s.t", "`s`.`t`", "`s.t`", "S.T", "db1.orders", "`a b`", "db.`x-y`", "t1", "s.t"]


def lineage_statements(r, n):
    out = []
    for i in range(n):
        d = r.choice(["MYSQL", "HIVE"])
        a, b, c = r.choice(TABLES), r.choice(TABLES), r.choice(TABLES)
        k = r.below(30)
        al, al2 = r.choice(["x", "t1", "orders", "t2", "q"]), r.choice(["u", "act_u", "t2"])      # derived-table aliases, sometimes a catalogue table's name
        if al2 == al: al2 = "u9"
        if k == 0: s = "SELECT a, b FROM %s" % a
        elif k == 1: s = "SELECT x.a, x.c FROM %s x" % a
        elif k == 2: s = "SELECT x.a, y.b FROM %s x JOIN %s y ON x.a = y.a" % (a, b)
        elif k == 3: s = "SELECT d.a FROM (SELECT a, b FROM %s) d" % a
        elif k == 4: s = "SELECT d.a FROM (SELECT a FROM %s UNION ALL SELECT a FROM %s) d" % (a, b)
        elif k == 5: s = "INSERT INTO %s SELECT a, b, c FROM %s" % (a, b)
        elif k == 6: s = "INSERT INTO %s (a, b) SELECT x.a, x.b FROM %s x" % (a, b)
        elif k == 7: s = "INSERT INTO %s SELECT x.a, y.b, y.c FROM %s x LEFT JOIN %s y ON x.a = y.a" % (a, b, c)
        elif k == 8: s = "WITH w AS (SELECT a FROM %s) SELECT a FROM w" % a
        elif k == 9: s = "SELECT * FROM %s" % a
        elif k == 10: s = "SELECT x.* FROM %s x" % a
        elif k == 11: s = "SELECT a FROM %s WHERE b IN (SELECT b FROM %s)" % (a, b)
        elif k == 12: s = "SELECT x.a FROM %s x; SELECT y.b FROM %s y; SELECT x.a FROM %s x" % (a, b, a)
        elif k == 13: s = "INSERT OVERWRITE TABLE %s SELECT a, b, c FROM %s" % (a, b); d = "HIVE"
        elif k == 14: s = "SELECT x.a, COUNT(x.b) AS n FROM %s x GROUP BY x.a" % a
        # sibling derived tables where a LATER sibling has a WITH clause of its own; WITH inside WITH bodies and inside IN-sub-queries
        elif k == 15: s = "SELECT %s.a, %s.b FROM (SELECT a, c FROM %s) %s JOIN (WITH act AS (SELECT a, b FROM %s) SELECT a, b FROM act) %s ON %s.a = %s.a" % (al, al2, a, al, b, al2, al, al2)
        elif k == 16: s = ("SELECT %s.a, m.b, %s.c FROM (SELECT a FROM %s) %s JOIN (SELECT a, b FROM %s) m ON %s.a = m.a JOIN (WITH w1 AS (SELECT a, c FROM %s), w2 AS (SELECT a, c FROM w1) SELECT a, c FROM w2) %s ON m.a = %s.a"
                           % (al, al2, a, al, b, al, c, al2, al2))
        elif k == 17: s = "WITH w AS (SELECT %s.a, r2.b FROM (SELECT a FROM %s) %s JOIN (WITH v AS (SELECT a, b FROM %s) SELECT a, b FROM v) r2 ON %s.a = r2.a) SELECT w.a, w.b FROM w" % (al, a, al, b, al)
        elif k == 18: s = "SELECT %s.a FROM (SELECT a, b FROM %s) %s WHERE %s.b IN (WITH v AS (SELECT b FROM %s) SELECT b FROM v)" % (al, a, al, al, b)
        elif k == 19: s = "INSERT INTO %s SELECT %s.a, %s.b, %s.c FROM (SELECT a, b FROM %s) %s JOIN (WITH v AS (SELECT a, c FROM %s) SELECT a, c FROM v) %s ON %s.a = %s.a" % (c, al, al, al2, a, al, b, al2, al, al2)
        elif k == 20: s = "SELECT %s.a, %s.a FROM (WITH v AS (SELECT a FROM %s) SELECT a FROM v) %s JOIN (WITH v AS (SELECT a FROM %s) SELECT a FROM v) %s ON %s.a = %s.a" % (al, al2, a, al, b, al2, al, al2)
        # a WITH table / derived-table alias that has the NAME OF THE BASE TABLE it reads (or that an earlier sibling reads): inside the body the name is the base
        # table, outside it is the WITH / derived table — the lookup order "derived, WITH, provider" must hold although the provider was already asked for the name
        elif k == 21: n_ = r.choice(["t1", "t2"]); s = "WITH %s AS (SELECT o.b AS a, o.c AS k FROM %s o) SELECT a, k FROM %s" % (n_, n_, n_)
        elif k == 22: n_ = r.choice(["t1", "t2"]); s = "SELECT %s.a FROM (SELECT b AS a FROM %s) %s" % (n_, n_, n_)
        elif k == 23: n_ = r.choice(["t1", "t2"]); s = "SELECT p.a, %s.k FROM (SELECT a FROM %s) p JOIN (SELECT y.b AS k FROM %s y) %s ON 1 = 1" % (n_, n_, b, n_)
        elif k == 24: n_ = r.choice(["t1", "t2"]); s = "INSERT INTO %s (a) WITH %s AS (SELECT c AS a FROM %s) SELECT a FROM %s" % (a, n_, n_, n_) if d == "HIVE" else "WITH %s AS (SELECT c AS a FROM %s) SELECT %s.a FROM %s" % (n_, n_, n_, n_)
        # a WITH clause in front of a COMPOUND query, alone and under INSERT (the analyzer moves the INSERT's WITH onto its query with set_with_clauses: for a compound
        # query the clause must stay on the compound statement, where the WITH tables are registered — seeded C17-11)
        elif k == 25: s = "WITH w AS (SELECT a, b FROM %s) INSERT INTO %s (a, b) SELECT a, b FROM w UNION ALL SELECT a, b FROM %s" % (a, b, c)
        elif k == 26: s = "WITH w AS (SELECT a FROM %s) SELECT a FROM w UNION SELECT a FROM %s EXCEPT SELECT a FROM w" % (a, b)
        elif k == 27: s = "WITH w AS (SELECT a FROM %s), v AS (SELECT a FROM w) INSERT OVERWRITE TABLE %s SELECT a, a, a FROM %s UNION ALL SELECT a, a, a FROM v" % (a, b, c); d = "HIVE"
        elif k == 28: s = "WITH t1 AS (SELECT c AS a FROM %s) INSERT INTO %s (a) SELECT a FROM %s UNION ALL SELECT a FROM t1" % (a, b, c)
        else:
            g = sqlgen.Gen(r, d, wild=False)
            s = g.query()
        out.append((d, s))
    return out


SHADOW_CAT = "CREATE TABLE t1 (a int, b int, c int); CREATE TABLE t2 (a int, b int, c int); CREATE TABLE s.t (a int, b int, c int); CREATE TABLE db1.orders (a int, b int, c int)"


def shadowing_cases(r, n):
    """(dialect, statement, [(output column, {(schema, table, column)})]): a WITH table / derived-table alias named like the base table it reads, or like a base
    table an EARLIER sibling reads.  Inside the body the name is the base table (the provider is asked for it), outside it is the WITH / derived table: the
    lookup order "derived table, WITH table, provider" must hold although the provider's answer for that very name is already there."""
    out = []
    plain = {"t1": (None, "t1"), "t2": (None, "t2"), "s.t": ("s", "t"), "db1.orders": ("db1", "orders")}
    for _ in range(n):
        d = r.choice(["MYSQL", "HIVE", "DEFAULT"])
        n_ = r.choice(["t1", "t2"]); N = plain[n_]
        b_ = r.choice(list(plain)); B = plain[b_]
        x, y, z = r.shuffle(["a", "b", "c"])
        k = r.below(10)
        # a derived table whose ALIAS is the name of a visible WITH table (which it reads): outside the derived table the name is the derived table — the store looks
        # derived tables up before WITH tables (seeded C16-12: the two lookups swapped)
        if k == 7: s, w = "WITH w AS (SELECT %s, %s FROM %s) SELECT w.%s FROM (SELECT %s AS %s FROM w) w" % (x, y, n_, x, y, x), [(x, {N + (y,)})]
        elif k == 8: s, w = "WITH w AS (SELECT %s, %s FROM %s) SELECT %s FROM (SELECT %s AS %s FROM w) w" % (x, y, n_, x, y, x), [(x, {N + (y,)})]
        elif k == 9: s, w = ("WITH w AS (SELECT %s, %s FROM %s), v AS (SELECT %s FROM %s) SELECT w.%s, v.%s FROM (SELECT %s AS %s FROM w) w JOIN v ON 1 = 1" % (x, y, n_, z, b_, x, z, y, x)), [(x, {N + (y,)}), (z, {B + (z,)})]
        elif k == 0: s, w = "WITH %s AS (SELECT o.%s AS %s, o.%s AS k FROM %s o) SELECT %s, k FROM %s" % (n_, y, x, z, n_, x, n_), [(x, {N + (y,)}), ("k", {N + (z,)})]
        elif k == 1: s, w = "SELECT %s.%s FROM (SELECT %s AS %s FROM %s) %s" % (n_, x, y, x, n_, n_), [(x, {N + (y,)})]
        elif k == 2: s, w = ("SELECT p.%s, %s.k FROM (SELECT %s FROM %s) p JOIN (SELECT q.%s AS k FROM %s q) %s ON 1 = 1" % (x, n_, x, n_, y, b_, n_)), [(x, {N + (x,)}), ("k", {B + (y,)})]
        elif k == 3: s, w = "WITH %s AS (SELECT %s AS %s FROM %s) SELECT %s.%s FROM %s" % (n_, z, x, n_, n_, x, n_), [(x, {N + (z,)})]
        elif k == 4: s, w = ("WITH v AS (SELECT %s FROM %s), %s AS (SELECT %s AS %s FROM %s) SELECT v.%s, %s.%s FROM v JOIN %s ON 1 = 1" % (x, n_, n_, y, z, b_, x, n_, z, n_)), [(x, {N + (x,)}), (z, {B + (y,)})]
        elif k == 5: s, w = ("SELECT %s FROM (SELECT %s.%s FROM (SELECT %s AS %s FROM %s) %s) o" % (x, n_, x, y, x, n_, n_)), [(x, {N + (y,)})]
        else: s, w = "SELECT %s, %s FROM %s" % (x, y, n_), [(x, {N + (x,)}), (y, {N + (y,)})]          # control
        out.append((d, s, w))
    return out


LIN_ITEM = re.compile(r'T\[StandardColumn\{column_idx=\d+,column_name="([^"]*)"\},L\[((?:SourceColumn\{[^}]*\},?)*)\]\]')
LIN_SRC = re.compile(r'SourceColumn\{schema_name=(None|"[^"]*"),table_name="([^"]*)",column_name="([^"]*)"\}')


def parse_an_lineage(a):
    body = a.split(" ASKED ")[0]
    return [(m.group(1), {(None if x.group(1) == "None" else x.group(1).strip('"'), x.group(2), x.group(3)) for x in LIN_SRC.finditer(m.group(2))}) for m in LIN_ITEM.finditer(body)]


def unhexlist(s):
    return [bytes.fromhex(x).decode("utf-8") for x in s.split(",")] if s else []


def judge_lineage(a):
    """None or (failure, detail) on one `LIN` answer"""
    if not a.startswith("OK "):
        return None
    f = dict(t.split("=", 1) for t in a.split(" ")[1:])
    if not (f["cold"] == f["mem"] == f["disk"] == f["nodisk"]):
        return ("lineage:temperature", "cold=%s mem=%s disk=%s nodisk=%s" % (f["cold"][:80], f["mem"][:80], f["disk"][:80], f["nodisk"][:80]))
    cold = unhexlist(f["calls_cold"])
    if f["calls_mem"] or f["calls_disk"]:
        return ("lineage:asked-again", "warm provider asked for %r / %r" % (unhexlist(f["calls_mem"]), unhexlist(f["calls_disk"])))
    if unhexlist(f["calls_nodisk"]) != cold:
        return ("lineage:nodisk-calls", "%r vs %r" % (unhexlist(f["calls_nodisk"]), cold))
    named, withs, derived, targets = (set(unhexlist(f[k])) for k in ("named", "with", "derived", "target"))
    for k in cold:
        if k in named or k in targets:
            continue
        if k.startswith("`") and k.replace("`", "") in targets:
            return ("spelling:insert-target", "INSERT target requested as %r, source tables are requested as %r" % (k, k.replace("`", "")))
        if k in withs:
            return ("lineage:with-table", "provider asked for %r, which the statement uses only as a WITH table" % k)
        if k in derived:
            return ("lineage:derived-table", "provider asked for %r, which the statement uses only as a derived-table alias" % k)
        return ("lineage:not-named", "provider asked for %r; the statement names the base tables %r" % (k, sorted(named | targets)))
    if len(set(cold)) != len(cold):
        return ("lineage:asked-twice", "%r" % cold)
    norm = {}
    for k in cold:
        if norm.setdefault(k.replace("`", ""), k) != k:
            return ("lineage:two-spellings", "%r and %r" % (norm[k.replace("`", "")], k))
    return None


# ---------------------------------------------------------------------------------------------------------------------
# histories of lineage requests: a name that is a derived-table alias / WITH name in one statement and a base table in another
# ---------------------------------------------------------------------------------------------------------------------

SHARED_NAMES = ["r", "w", "x", "t1", "d"]          # used as alias / WITH name AND as base table
BASES = ["ods.refunds", "t2", "s.t", "db1.orders"]


def history_pool(r):
    """(dialect, statement) pool: every name of SHARED_NAMES occurs as a derived alias, as a WITH name and as a base table"""
    pool = []
    for n in SHARED_NAMES:
        for b in BASES[:3]:
            pool.append("SELECT %s.a FROM (SELECT a FROM %s) %s" % (n, b, n))
            pool.append("SELECT %s.a, y.b FROM (SELECT a, b FROM %s) %s JOIN %s y ON %s.a = y.a" % (n, b, n, BASES[3], n))
            pool.append("WITH %s AS (SELECT a FROM %s) SELECT a FROM %s" % (n, b, n))
            pool.append("INSERT INTO %s SELECT q.a, q.b, q.c FROM (SELECT a, b, c FROM %s) q" % (n, b))
        pool.append("SELECT a FROM %s" % n)
        pool.append("SELECT %s.a, %s.b FROM %s" % (n, n, n))
        pool.append("SELECT * FROM %s" % n)
        pool.append("SELECT z.a FROM %s z JOIN %s y ON z.a = y.a" % (n, BASES[1]))
        pool.append("INSERT INTO %s (a, b) SELECT a, b FROM %s" % (BASES[0], n))
        pool.append("SELECT a FROM s.%s" % n)
        # set operations: the analyzer MERGES the branches' sources column by column — a walker result that is shared between calls (memoised, handed out by
        # reference) is extended in place there; visible when the statement is analysed again, or when a later statement has a select expression equal to one of
        # the first branch's
        pool.append("SELECT a FROM %s UNION ALL SELECT c FROM %s" % (n, BASES[1]))
        pool.append("SELECT a, b FROM %s UNION SELECT b, c FROM %s UNION ALL SELECT c, a FROM %s" % (BASES[0], n, BASES[2]))
        pool.append("SELECT %s.a, u.b FROM (SELECT a, c FROM %s) %s JOIN (WITH act AS (SELECT a, b FROM %s) SELECT a, b FROM act) u ON %s.a = u.a" % (n, BASES[0], n, BASES[1], n))
    return [("MYSQL", s_) for s_ in pool]


def parse_linh(a):
    """'OK r=…;c=… r=…;c=…' -> [(lineage, [asked names])]"""
    out = []
    for tok in a.split(" ")[1:]:
        res, calls = tok[2:].rsplit(";c=", 1)
        out.append((res, unhexlist(calls)))
    return out


def fresh_process_each(requests):
    """every request in a worker process of its own (16 at a time)"""
    import concurrent.futures
    with concurrent.futures.ThreadPoolExecutor(E.JOBS) as ex:
        return list(ex.map(lambda q_: E.run_impl([q_], jobs=1)[0], requests))


def judge_history(mode, stmts, a, ref):
    """None or (signature, index, detail): every statement of a history must give the lineage it gives alone in a fresh process, and the
    provider must have been asked (now, or earlier in a shared history) for every table it is asked for when the statement is analysed alone"""
    if not a.startswith("OK "):
        return ("lineage:history-harness", 0, a[:120])
    got = parse_linh(a)
    asked = set()
    for i, (st, (res, calls)) in enumerate(zip(stmts, got)):
        want_res, want_calls = ref[st]
        if res != want_res:
            return ("lineage:history", i, "statement %d %r gives %s after %r; alone in a fresh process it gives %s" % (i, st[1], res[:160], [s_[1] for s_ in stmts[:i]], want_res[:160]))
        asked = (asked | set(calls)) if mode == "shared" else set(calls)
        missing = [c for c in want_calls if c not in asked]
        if missing or (mode == "fresh" and calls != want_calls):
            return ("lineage:history-calls", i, "statement %d %r: provider asked for %r, alone in a fresh process it is asked for %r" % (i, st[1], calls, want_calls))
    return None


def lineage_histories(ctx, r):
    pool = history_pool(r)
    n = 160 if ctx.quick else 3000
    hists = []
    for f in ctx.findings:
        w = f.get("witness", {})
        if "history" in w:
            hists.append((w["mode"], [tuple(x) for x in w["history"]]))
    # directed pairs first: a statement that defines a name, then a statement that reads the base table of that name
    for nme in SHARED_NAMES:
        definers = [p_ for p_ in pool if (") %s" % nme) in p_[1] or ("WITH %s AS" % nme) in p_[1]]
        readers = [p_ for p_ in pool if p_[1].endswith("FROM %s" % nme) or ("FROM %s z" % nme) in p_[1]]
        for mode in ("shared", "fresh"):
            hists.append((mode, [r.choice(definers), r.choice(readers)]))
    # … a set operation twice, and a set operation followed by a plain statement that selects the same column expressions
    unions = [p_ for p_ in pool if " UNION " in p_[1]]
    for u in unions[: 6 if ctx.quick else len(unions)]:
        for mode in ("shared", "fresh"):
            hists.append((mode, [u, u]))
            hists.append((mode, [u, r.choice([p_ for p_ in pool if p_[1].startswith("SELECT a FROM") and " UNION " not in p_[1]]), u]))
    while len(hists) < n:
        hists.append((r.choice(["shared", "fresh"]), [r.choice(pool) for _ in range(2 + r.below(3))]))
    distinct = sorted({st for _, h in hists for st in h})
    refs = fresh_process_each(["LINH %s shared %s" % (d, E.enhex(t)) for d, t in distinct])
    ref = {}
    for st, a in zip(distinct, refs):
        if not a.startswith("OK "):
            raise E.Infra("C17 reference lineage: %s on %r" % (a[:100], st))
        ref[st] = parse_linh(a)[0]
    answers = fresh_process_each(["LINH %s %s %s" % (h[0][0], mode, " ".join(E.enhex(t) for _, t in h)) for mode, h in hists])
    for (mode, h), a in zip(hists, answers):
        ctx.cov["evaluations"] += 1
        ctx.distinct.add(hash(a))
        j = judge_history(mode, h, a, ref)
        ctx.count("lineage-history:" + mode + ":" + ("same-as-alone" if j is None else j[0]))
        if j is None:
            continue
        if j[0].endswith("harness"):
            raise E.Infra("C17 LINH: " + j[2])
        # shrink: the failing statement after each single earlier statement, then after each pair
        i = j[1]
        small = h[:i + 1]
        cands = [[p_, h[i]] for p_ in h[:i]]
        for c, a2 in zip(cands, fresh_process_each(["LINH %s %s %s" % (c[0][0], mode, " ".join(E.enhex(t) for _, t in c)) for c in cands])):
            j2 = judge_history(mode, c, a2, ref)
            if j2 and j2[0] == j[0]:
                small, j, a = c, j2, a2
                break
        pfam.report(ctx, j[0], {"kind": "lineage-history", "mode": mode, "history": [list(x) for x in small], "observed": a[:600], "detail": j[2],
                                "reference": {t: list(ref[(d, t)]) for d, t in small},
                                "oracle": "c17: analysing a statement after other statements gives the lineage it gives alone in a fresh process, and the provider is asked for every base table it names",
                                "how_found": "stream lineage histories (each history in a process of its own), shrunk to a pair"})
    ctx.cov["distribution"]["lineage-history:distinct-statements"] = len(distinct)


# ---------------------------------------------------------------------------------------------------------------------
# lineage requests from several threads on ONE analyzer and provider
# ---------------------------------------------------------------------------------------------------------------------

THREAD_POOL = [
    "WITH w AS (SELECT a, b FROM t1) SELECT w.a, w.b FROM w",
    "WITH w AS (SELECT a, c FROM t2) SELECT w.a, w.c FROM w",
    "WITH w AS (SELECT b FROM s.t), v AS (SELECT b FROM w) SELECT v.b FROM v",
    "WITH w AS (SELECT c FROM t3) SELECT w.c, y.a FROM w JOIN t1 y ON w.c = y.c",
    "SELECT x.a FROM (SELECT a FROM t1) x",
    "SELECT x.c, y.b FROM (SELECT a, c FROM t2) x JOIN (SELECT a, b FROM t3) y ON x.a = y.a",
    "SELECT x.b FROM (SELECT b FROM db1.orders) x",
    "SELECT a, b FROM t1",
    "SELECT z.a FROM s.t z",
    "SELECT w.a FROM w",
    "SELECT x.a FROM x",
    "INSERT INTO t9 SELECT w.a, w.b, w.c FROM (SELECT a, b, c FROM t1) w",
    "WITH w AS (SELECT a FROM t2) INSERT INTO t9 (a) SELECT w.a FROM w",
    # the SAME derived-table / WITH-body text as a statement above, in a scope where the table it reads is a WITH table of that name: a result remembered per sub-query
    # tree (and not per tree AND scope) hands one statement the other's lineage (seeded C12-12)
    "WITH t1 AS (SELECT c AS a FROM t2) SELECT x.a FROM (SELECT a FROM t1) x",
    "WITH t1 AS (SELECT b AS a FROM t3) INSERT INTO t9 (a) SELECT x.a FROM (SELECT a FROM t1) x",
    "WITH t2 AS (SELECT b AS a, a AS c FROM t1) SELECT x.c, y.b FROM (SELECT a, c FROM t2) x JOIN (SELECT a, b FROM t3) y ON x.a = y.a",
    "WITH t1 AS (SELECT c AS a, a AS b FROM t2), w AS (SELECT a, b FROM t1) SELECT w.a, w.b FROM w",
]


def lineage_threads(ctx, r, runs=None):
    """`LINTHR`: the statements of THREAD_POOL (same WITH name / derived alias with different bodies in different statements, the same names as base
    tables, statements without WITH) analysed from 6 threads on one shared analyzer+provider; every call must give the statement's own lineage"""
    runs = runs if runs is not None else (2 if ctx.quick else 12)
    reqs = []
    for _ in range(runs):
        pool = r.shuffle(THREAD_POOL)
        reqs.append("LINTHR %d %d MYSQL %s" % (r.choice([4, 6, 8]), 300 if ctx.quick else 1500, " ".join(E.enhex(t) for t in pool)))
    import os
    old_limit = os.environ.get("MSQ_REQ_TIMEOUT")
    os.environ["MSQ_REQ_TIMEOUT"] = "120"            # one request = thousands of calls
    try:
        answers = fresh_process_each(reqs)
    finally:
        if old_limit is None: os.environ.pop("MSQ_REQ_TIMEOUT", None)
        else: os.environ["MSQ_REQ_TIMEOUT"] = old_limit
    for q_, a in zip(reqs, answers):
        if not a.startswith("OK "):
            raise E.Infra("LINTHR: " + a[:200])
        f = dict(x.split("=", 1) for x in a.split(" ")[1:])
        ctx.cov["evaluations"] += int(f["calls"])
        ctx.count("lineage-threads:calls", int(f["calls"]))
        if "nondeterministic-alone" in f:
            pfam.report(ctx, "lineage:nondeterministic", {"kind": "lineage-threads", "request": q_, "observed": a[:400], "detail": "a statement alone gives two different lineages",
                                                         "oracle": "c12/c17: lineage depends only on the statement and the catalogue", "how_found": "stream lineage threads"})
        elif f["mismatches"] != "0":
            stmt = bytes.fromhex(f["first"]).decode("utf-8")
            others = unhexlist(f.get("inflight", ""))
            ctx.count("lineage-threads:mismatching-calls", int(f["mismatches"]))
            pfam.report(ctx, "lineage:shared-analyzer-threads", {"kind": "lineage-threads", "request": q_, "input": stmt, "in_flight": others, "observed": f["got"][:400], "alone": f["alone"][:400],
                                                                "detail": "%s of %s calls on the shared analyzer differ from the statement's own lineage; first: %r while %r were being analysed by other threads"
                                                                          % (f["mismatches"], f["calls"], stmt, others),
                                                                "oracle": "c12/c17: a statement's lineage on an analyzer shared by several threads is the lineage it gives alone on a fresh analyzer",
                                                                "how_found": "stream lineage threads (shared analyzer and provider, provider yields at every lookup)"})
        else:
            ctx.count("lineage-threads:runs-without-mismatch")


def replay_threads(payload, attempts=6):
    """the interleaving is not controlled: the recorded run is repeated until a mismatching call shows up (each mismatch is a violation by itself)"""
    import os
    os.environ["MSQ_REQ_TIMEOUT"] = "120"
    for _ in range(attempts):
        a = E.run_impl([payload["request"]], jobs=1)[0]
        if a.startswith("OK ") and " mismatches=0" not in a:
            print("implementation:", a[:700])
            return 1
    print("no mismatching call in %d runs:" % attempts, a[:200])
    return 0


def run(ctx):
    r = ctx.rng.fork("c17")
    ctx.cov["rule"] = ("A: every operation history `new` + up to %d operations over {new, nodisk, get n, death-after-creating-the-temporary-file n, death-during-write n} for %d name groups "
                       "(plain / `.sql` inside / `/` / `./` / `../` / absolute (below a sandbox directory) / NUL / `%%2F` next to `/` / empty, `.`, `..` / blank and non-ASCII / carriage "
                       "return in the provider's text / unparsable text / quoting), 3 groups with FOREIGN FILES written into the directory (a legacy file with a raw blank / non-ASCII / "
                       "lower-case-escape name next to the canonical file of the same table: the first must stay without effect, the second is trusted by the next process), plus random "
                       "histories of 3-14 operations over %d names, %d crash points and 23 foreign directory entries (non-canonical stems, broken / overlong / non-UTF-8 escapes, temporary "
                       "files, canonical files with the provider's text); model and implementation (real class, fresh temporary directory, crash = BaseException raised inside the "
                       "patched open/write/close) must agree; oracle = abstract cache (answer = parse of the provider's text, provider asked only when cold, nothing written "
                       "above the directory); a failing history is shrunk and classified by the hazards left in it.  A2 (file names): `QUOTE` = the file `save_to_disk` leaves for a table in a fresh "
                       "directory, `STEM` = what `__init__` lists for a directory holding one entry, model (`Cache.enc`, `Cache.entryName`) vs real class on the name lists, every code point "
                       "below U+0250, random strings over an alphabet of safe / separator / escape / non-ASCII pieces and random code points; oracle (independent of the library's quote): one "
                       "path component without NUL, different tables different files, names of letters / digits / `_.-~` keep `<name>.sql`, every saved file is read back as its table, a "
                       "generated entry is listed as table n exactly if it is n's file; entries with undecodable names (implementation only) must not disturb the instantiation; names "
                       "whose file name exceeds 255 bytes (implementation only, outside the model): same oracle — F-C17-10.  B: lineage of generated SELECT / INSERT…SELECT statements "
                       "over %d table spellings with the provider cold / warm in memory / warm on disk in a new instance / without directory; oracle: same lineage, warm "
                       "provider never asked, cold provider asked only for named base tables, once, under one spelling.  C: histories of 2–5 lineage requests, each history in a worker process "
                       "of its own, over a pool in which every one of 5 names is a derived-table alias, a WITH name and a base table, with one provider+analyzer for the history and "
                       "with fresh ones per statement; oracle: every statement gives the lineage and asks for the tables it does alone in a fresh process.  "
                       "distinct_nontrivial = distinct implementation answers"
                       % (3 if ctx.quick else 4, len(GROUPS), len(NAMES), len(CRASHES), len(set(TABLES))))
    ctx.cov["proved"] = list(ctx.cov.get("proved", []))
    ctx.cov["validated_only"] = ["agreement of the cache model with tool.py (sampled histories)", "lineage requests: provider calls ⊆ named base tables (implementation only; "
                                 "the lineage analyzers are not modelled here)", "atomicity of close / completeness of os.listdir (assumed)", "Cache.enc = urllib.parse.quote(·, safe=\"\") and Cache.entryName = the listing of __init__ (sampled names and directory entries)"]
    seqs, n_exh = histories(ctx, r)
    for f in ctx.findings:                       # witnesses of findings, fixed ones included: the regression corpus
        if "ops" in f.get("witness", {}):
            seqs.append(list(f["witness"]["ops"]))
    names = {name_of(o) for s in seqs for o in s if name_of(o) is not None} | set(NAMES)
    for f in ctx.findings:
        names |= {name_of(o) for o in f.get("witness", {}).get("ops", []) if name_of(o) is not None}
    expected = expected_results(ctx, names)
    res, bad = ctx.corr([req(s) for s in seqs], stream="histories")
    ctx.count("histories:exhaustive", n_exh)
    ctx.count("histories:random", len(seqs) - n_exh)
    fails = {}
    for s, (_, a, _) in zip(seqs, res):
        if a.startswith("UNMODELLED"):
            continue
        j = judge(s, a, expected)
        hz = sorted({h for h in (hazard(name_of(o)) for o in s if name_of(o)) if h})
        ctx.count("history:" + ("ok" if j is None else j[0]) + (":hazard-free" if not hz and not any(o.startswith("crash") for o in s) else ""))
        if j is not None:
            if j[0] == "harness":
                raise E.Infra("C17 harness: %s on %s" % (j[2], s))
            fails.setdefault((j[0], tuple(hz), any(o.startswith(("crash:2", "crash:3", "crash:4")) for o in s)), []).append((s, j))
    # shrink the two shortest histories of every (failure kind, hazard set, crash?) class, all classes in one batch per round
    todo = []
    for key, lst in sorted(fails.items()):
        lst.sort(key=lambda x: (len(x[0]), x[0]))
        todo += [(s_, j[0]) for s_, j in lst[:2]]
    for (s_, kind), (small, a) in zip(todo, shrink_all(todo, expected) if todo else []):
        j2 = judge(small, a, expected)
        pfam.report(ctx, signature(kind, small, a), {"kind": "ops", "ops": small, "names": [name_of(o) for o in small], "observed": a[:600], "detail": j2[2] if j2 else "",
                                                     "oracle": "c17: every completed request answers what the provider's text parses to; the provider is asked only for cold names; "
                                                               "nothing is written above the cache directory", "how_found": "stream histories, shrunk"})
    for s, (_, a, b) in list(zip(seqs, res))[n_exh:n_exh + 3]:
        ctx.sample({"ops": [o if name_of(o) is None else o.split(":")[0] + " " + repr(name_of(o)) for o in s], "impl": a[:160], "model": b[:160]})

    file_names(ctx, r.fork("file-names"))

    # names whose file name the file system refuses (the model has no length limit: implementation only, judged by the same oracle)
    longs = ["a" * 248, "a" * 300, "表" * 28, "s." + "t" * 250, "é" * 60]
    lh = [["anylength", "new", op_get(n)] for n in longs] + [["anylength", "new", op_get("a" * 247), "new", op_get("a" * 247)], ["anylength", "nodisk", op_get("a" * 300)]]
    expected.update(expected_results(ctx, {name_of(o) for h in lh for o in h if name_of(o) is not None} - set(expected)))
    for h, a in zip(lh, E.run_impl([req(h) for h in lh])):
        ctx.cov["evaluations"] += 1
        j = judge(h, a, expected)
        ctx.count("history:long-name:" + ("ok" if j is None else j[0]))
        if j is not None:
            if j[0] == "harness":
                raise E.Infra("C17 harness: %s on %s" % (j[2], h))
            pfam.report(ctx, signature(j[0], h, a), {"kind": "ops", "ops": h, "names": [name_of(o) for o in h], "observed": a[:300], "detail": j[2],
                                                     "oracle": "c17: every completed request answers what the provider's text parses to, with or without a cache directory",
                                                     "how_found": "stream long names (implementation only)"})

    # lineage requests
    stmts = lineage_statements(r, 600 if ctx.quick else 20000) + [(d, t) for d, t in pfam.corpus_statements() if t.upper().startswith(("SELECT", "INSERT", "WITH"))][:300]
    for f in ctx.findings:
        w = f.get("witness", {})
        if "input" in w:
            stmts.append((w["dialect"], w["input"]))
    ans = E.run_impl(["LIN %s %s" % (d, E.enhex(t)) for d, t in stmts])
    for (d, t), a in zip(stmts, ans):
        ctx.cov["evaluations"] += 1
        if a.startswith("HARNESS-ERROR"):
            raise E.Infra("%s on %s" % (a, t))
        j = judge_lineage(a)
        ok = a.startswith("OK ")
        analysed = ok and "cold=R" in a
        ctx.count("lineage:" + ("rejected-by-parser" if not ok else (j[0] if j else ("analysed" if analysed else "analyzer-error"))))
        if analysed:
            ctx.distinct.add(hash(a))
        if j:
            pfam.report(ctx, j[0], {"kind": "lineage", "dialect": d, "input": t, "observed": a[:600], "detail": j[1],
                                    "oracle": "c17: the provider is asked only for base tables the statement names, once, under one spelling; same lineage at every cache temperature",
                                    "how_found": "stream lineage"})
    for (d, t), a in list(zip(stmts, ans))[:3]:
        ctx.sample({"dialect": d, "sql": t[:160], "impl": a[:200]})

    # what the provider returned decides the result — for the table it was asked about, not for a WITH / derived table of the same name
    sh = shadowing_cases(r.fork("shadowing"), 300 if ctx.quick else 6000)
    res_sh, _ = ctx.corr(["AN lineage %s %s %s" % (d, E.enhex(SHADOW_CAT), E.enhex(t)) for d, t, _ in sh], stream="lineage-shadowing")
    for (d, t, want), (_, a, _) in zip(sh, res_sh):
        got = parse_an_lineage(a) if a.startswith("OK ") else None
        okk = got == want
        ctx.count("shadowing:" + ("as-specified" if okk else "DIFFERENT"))
        if not okk:
            pfam.report(ctx, "lineage:name-shadowing", {"kind": "lineage-value", "dialect": d, "input": t, "catalogue": SHADOW_CAT, "want": [[n_, sorted(map(list, s_), key=str)] for n_, s_ in want],
                                                       "observed": a[:600], "oracle": "c17: a WITH table / derived-table alias named like a base table is looked up before the provider's "
                                                       "answer for that name: the lineage is the body's, the provider is asked for base tables only", "how_found": "stream lineage-shadowing"})
    lineage_histories(ctx, r.fork("histories"))
    lineage_threads(ctx, r.fork("threads"), runs=1 if ctx.quick else 6)

    # known findings: replay every witness on the implementation
    for f in ctx.findings:
        if f.get("status") != "finding":
            continue
        w = f["witness"]
        if "ops" in w:
            a = E.run_impl([req(w["ops"])])[0]
            j = judge(w["ops"], a, expected)
            if j and signature(j[0], w["ops"], a) == f["signature"]["failure"]:
                ctx.report_known(f)
        elif "input" in w:
            a = E.run_impl(["LIN %s %s" % (w["dialect"], E.enhex(w["input"]))])[0]
            j = judge_lineage(a)
            if j and j[0] == f["signature"]["failure"]:
                ctx.report_known(f)
    pfam.conclude(ctx)


def replay(payload):
    if payload.get("kind") == "lineage-value":
        a = E.run_impl(["AN lineage %s %s %s" % (payload["dialect"], E.enhex(payload["catalogue"]), E.enhex(payload["input"]))])[0]
        got = parse_an_lineage(a) if a.startswith("OK ") else None
        print(payload["input"]); print("wanted  :", payload["want"]); print("observed:", a[:600])
        return 0 if got is not None and [[n_, sorted(map(list, s_), key=str)] for n_, s_ in got] == payload["want"] else 1
    if payload.get("kind") == "lineage-threads":
        return replay_threads(payload)
    if payload.get("kind") == "lineage-history":
        h = [tuple(x) for x in payload["history"]]
        ref = {}
        for st in sorted(set(h)):
            ref[st] = parse_linh(E.run_impl(["LINH %s shared %s" % (st[0], E.enhex(st[1]))], jobs=1)[0])[0]
        a = E.run_impl(["LINH %s %s %s" % (h[0][0], payload["mode"], " ".join(E.enhex(t) for _, t in h))], jobs=1)[0]
        j = judge_history(payload["mode"], h, a, ref)
        print("history (%s):" % payload["mode"], [t for _, t in h]); print("implementation:", a[:600]); print("alone in a fresh process:", ref); print("verdict:", j)
        return 1 if j else 0
    if payload.get("kind") == "lineage":
        a = E.run_impl(["LIN %s %s" % (payload["dialect"], E.enhex(payload["input"]))])[0]
        j = judge_lineage(a)
        print("statement:", repr(payload["input"])); print("implementation:", a[:600]); print("verdict:", j)
        return 1 if j else 0
    if payload.get("kind") == "file-name":
        n = payload["name"]
        a, b = E.run_impl(["QUOTE " + E.enhex(n), "QUOTE " + E.enhex(payload.get("other", n))])
        print("table:", repr(n)); print("implementation:", a[:300]); print("detail:", payload.get("detail"))
        fn = bytes.fromhex(a[3:]).decode("utf-8", "surrogateescape") if a.startswith("OK ") and "=" not in a else None
        bad = fn is None or "/" in fn or "\0" in fn or fn in (".", "..") or (all(c in PLAIN for c in n) and fn != n + ".sql") or (payload.get("other", n) != n and a == b)
        return 1 if bad else 0
    if payload.get("kind") == "directory-entry":
        f = payload["file"]
        a = E.run_impl(["STEM " + E.enhex(f)])[0]
        ok, got, want = judge_entry(f, payload.get("saved_for"), a)
        print("directory entry:", repr(f)); print("implementation:", a[:300]); print("listed as %r, stands for %r" % (got, want))
        return 0 if ok else 1
    ops = payload["ops"]
    names = sorted({name_of(o) for o in ops if name_of(o) is not None})
    exp = {}
    for n, a in zip(names, E.run_impl(["P create_table_statement DEFAULT " + E.enhex(provider(n)) for n in names])):
        exp[n] = ("S#" + fnv1a(a.split(" ", 2)[2])) if a.startswith("OK ") else ("E:" + a.replace(" ", "_"))
    a = E.run_impl([req(ops)])[0]
    j = judge(ops, a, exp)
    print("history:", [o if name_of(o) is None else o.split(":")[0] + " " + repr(name_of(o)) for o in ops]); print("implementation:", a[:600]); print("verdict:", j)
    return 1 if j else 0
