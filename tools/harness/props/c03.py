"""C03 — every clause and element of a statement lands in the right slot of the tree.

Oracle (tree first): statement TREES are generated directly from the node classes — the generator knows the slot of everything it
emits — printed, and parsed; the parser must return exactly that tree (worker command TREE, canon_ext_tree.py).  The spellings the
printer never emits (LIMIT n OFFSET m, alias without AS, bare JOIN rules) are added as rewrites of the printed text that must give
the same tree.  Correspondence: the parser and printer models answer the same printed texts."""
import re
import engine as E
import pfam

DIALECTS = ["MYSQL", "HIVE", "DEFAULT", "SQL_SERVER", "ORACLE", "POSTGRE_SQL", "DB2"]


def sig_of(kind):
    k = kind
    if k.startswith("slot:"):
        m = re.findall(r"\.([A-Za-z]+)\.([a-z_]+)", k)
        return "slot:" + (".".join(m[-1]) if m else "?")
    return k.split("|")[0]


def unq(s):
    return re.sub(r"%([0-9a-f]+);", lambda m: chr(int(m.group(1), 16)), s)


def tree_batches(ctx, batches, how):
    reqs = ["TREE %s %d %d" % (d, seed, n) for d, seed, n in batches]
    for (d, seed, n), a in zip(batches, E.run_impl(reqs)):
        if not a.startswith("OK "):
            raise E.Infra("TREE answered %s" % a[:200])
        parts = a.split(" ")
        ok, bad = int(parts[1]), int(parts[2])
        ctx.cov["evaluations"] += ok + bad
        ctx.count("tree:%s:ok" % d, ok)
        for kv in parts[3].split(","):
            if "=" in kv:
                ctx.count("kind:" + kv.split("=")[0], int(kv.split("=")[1]))
        for f in parts[4:]:
            if not f:
                continue
            kind, cls, text = f.split("|", 2)
            kind, text = unq(kind), unq(text)
            ctx.count("tree:%s:%s" % (d, sig_of(kind)))
            pfam.report(ctx, sig_of(kind), {"kind": "input", "entry": "parse_statements(tree.source())", "dialect": d, "input": text, "statement_class": cls,
                                            "observed": kind, "tree_seed": [d, seed, n], "oracle": "c03: a generated tree, printed and parsed, must come back with every element in its slot",
                                            "how_found": how})


LIMIT2 = re.compile(r"LIMIT (\d+), (\d+)")
# the keywords the printer writes (never stored in the tree): their letter case must not matter
KEYWORDS = ("SELECT DISTINCT FROM WHERE GROUP BY HAVING ORDER LIMIT OFFSET UNION ALL EXCEPT INTERSECT MINUS WITH AS ON JOIN INNER LEFT RIGHT FULL OUTER CROSS SEMI "
            "LATERAL VIEW SORT DISTRIBUTE CLUSTER GROUPING SETS CUBE ROLLUP ASC DESC NULLS FIRST LAST AND OR XOR NOT IN IS LIKE RLIKE REGEXP BETWEEN EXISTS CASE WHEN THEN ELSE END "
            "OVER PARTITION ROWS PRECEDING FOLLOWING UNBOUNDED ROW INSERT INTO OVERWRITE IGNORE TABLE VALUES UPDATE SET DELETE CREATE IF ALTER ADD DROP COLUMN CHANGE MODIFY "
            "RENAME TO TRUNCATE ANALYZE MSCK REPAIR USE SHOW DATABASES TABLES COLUMNS PRIMARY UNIQUE KEY FULLTEXT CONSTRAINT FOREIGN REFERENCES DEFAULT COMMENT "
            "AUTO_INCREMENT UNSIGNED ZEROFILL CHARACTER COLLATE GENERATED ALWAYS STORED VIRTUAL ENGINE CHARSET ROW_FORMAT PARTITIONED STORED LOCATION TBLPROPERTIES DIV MOD "
            "CAST EXTRACT SIGNED COMPUTE STATISTICS FOR NOSCAN CACHE METADATA").split()
KW_RE = re.compile(r"\b(" + "|".join(sorted(set(KEYWORDS), key=len, reverse=True)) + r")\b")


def recase(text, f):
    """apply f to every keyword outside quoted text"""
    from props import c09
    return "".join(KW_RE.sub(lambda m: f(m.group(0)), piece) if code else piece for code, piece in c09.segments(text))


def spellings(text):
    """rewrites of a printed statement into spellings the printer never emits; all must parse to the same tree"""
    out = []
    if LIMIT2.search(text):
        out.append(("limit-offset", LIMIT2.sub(lambda m: "LIMIT %s OFFSET %s" % (m.group(2), m.group(1)), text)))
        out.append(("limit-offset-lower", LIMIT2.sub(lambda m: "limit %s offset %s" % (m.group(2), m.group(1)), text)))
    if " AS al" in text:
        out.append(("alias-without-as", text.replace(" AS al", " al")))
    if "INSERT INTO TABLE " in text:
        out.append(("insert-into-without-table", text.replace("INSERT INTO TABLE ", "INSERT INTO ", 1)))
    elif "INSERT INTO " in text:
        out.append(("insert-into-table", text.replace("INSERT INTO ", "INSERT INTO TABLE ", 1)))
    if " ASC" in text and "'" not in text:
        out.append(("asc-implicit", text.replace(" ASC", "")))
    if "\n" in text and "--" not in text and "#" not in text:
        out.append(("one-line", text.replace("\n", " ")))
    if "USING" not in text:       # the letter case of a join's USING is stored in the tree (finding F-C09-2)
        out.append(("keywords-lower", recase(text, str.lower)))
        out.append(("keywords-capitalised", recase(text, str.capitalize)))
    return out


def run(ctx):
    quick = ctx.quick
    ctx.cov["rule"] = ("tree-first generation: random statement trees over every statement class (single/union SELECT with WITH, DISTINCT, aliases, sub-query tables, every JOIN "
                       "type with ON/USING/no rule, WHERE, GROUP BY with GROUPING SETS/CUBE/ROLLUP, HAVING, ORDER BY with direction and NULLS, LIMIT with and without offset, Hive "
                       "LATERAL VIEW / SORT / DISTRIBUTE / CLUSTER BY, INSERT kinds × VALUES/SELECT × PARTITION × columns, UPDATE, DELETE, CREATE TABLE with every column attribute, "
                       "key kind, foreign key and table option, CTAS, ALTER TABLE clauses, DROP/TRUNCATE/ANALYZE/MSCK/USE/SET/SHOW) with nested expressions and sub-queries to depth 4, "
                       "per dialect; printed by the library's printer and parsed back: the returned tree must equal the generated one (failures are shrunk slot-preservingly); "
                       "plus spellings the printer never emits (LIMIT n OFFSET m, alias without AS, INSERT INTO TABLE, implicit ASC, one line) which must give the same tree; "
                       "correspondence of the parser and printer models on the same printed texts. distinct_nontrivial = distinct accepted texts")
    ctx.assumptions += ["the generated tree is the specification of the slots; the printer is used only as a way to write the tree down — a printer defect shows up as a failure too and is "
                        "told apart by the replay (print:, parse:, slot: signatures)",
                        "slots the grammar fills with its compute-level rule (GROUP BY, ORDER BY, IN lists, CAST argument, DEFAULT …) get compute-level trees; a one-element GROUPING SETS "
                        "group never starts with a bracket (the grammar reads that as a group)"]
    r = ctx.rng.fork("c03")
    per = 300 if quick else 400
    rounds = 4 if quick else 40
    batches = [(d, 1 + r.below(10 ** 6), per) for _ in range(rounds) for d in DIALECTS]
    tree_batches(ctx, batches, "stream trees")
    # the printed texts: correspondence of both models, and the alternative spellings on the implementation
    tb = [(d, 1 + r.below(10 ** 6), 60 if quick else 200) for d in DIALECTS for _ in range(1 if quick else 6)]
    texts = []
    for (d, seed, n), a in zip(tb, E.run_impl(["TREETEXT %s %d %d" % b for b in tb])):
        texts += [(d, E.unhex(h)) for h in a.split(" ")[1:] if h and h != "-"]
    res, bad = ctx.corr([pfam.req_parse(d, t) for d, t in texts], stream="tree-texts")
    ctx.corr([pfam.req_print(d, d, t) for d, t in texts], stream="tree-texts-print", nontrivial=lambda q, a: a.startswith("OK") and "S:" in a)
    base = {(d, t): a for (d, t), (_, a, _) in zip(texts, res)}
    var = [(d, t, name, v) for d, t in texts for name, v in spellings(t)]
    vres, vbad = ctx.corr([pfam.req_parse(d, v) for d, t, name, v in var], stream="spellings")
    for (d, t, name, v), (_, a, _) in zip(var, vres):
        same = a == base[(d, t)]
        ctx.count("spelling:%s:%s" % (name, "same" if same else "differs"))
        if not same and base[(d, t)].startswith("OK"):
            pfam.report(ctx, "spelling:" + name, {"kind": "input", "entry": "parse_statements", "dialect": d, "input": v, "reference": t, "observed": a[:400],
                                                  "oracle": "c03: the %s spelling must fill the same slots as the printed spelling" % name, "how_found": "stream spellings"})
    name_slots(ctx, r.fork("name-slots"))
    for (d, t), (_, a, b) in list(zip(texts, res))[:4]:
        ctx.sample({"dialect": d, "text": t[:240], "impl": a[:160]})
    # every sequence of clause words / statement words up to a length (SELECT clauses in every order, joins, set operations and WITH, INSERT / UPDATE / DELETE, column
    # definitions, CREATE / ALTER TABLE): what the parser does with clause words in the wrong order or twice is decided here, input by input, against the model
    import smallscope
    n_ss = smallscope.run(ctx, ["select-clauses", "joins", "set-ops", "dml", "update-delete", "ddl-column", "ddl-column-2", "ddl-index", "ddl-fk", "ddl-create", "ddl-alter"], dialects=("HIVE",), thorough_dialects=("MYSQL", "HIVE"))
    ctx.cov["rule"] += "; small-scope correspondence: every sequence up to length 3–6 over eight alphabets of clause / statement words (%d requests)" % n_ss
    pfam.conclude(ctx, search)


# where a table is named: (template, number of table slots)
TABLE_SITES = ["SELECT x FROM {T} WHERE x > 1", "SELECT a.x FROM t0 a JOIN {T} b ON a.x = b.x", "SELECT x FROM (SELECT x FROM {T}) q", "WITH w AS (SELECT x FROM {T}) SELECT x FROM w",
               "SELECT 1 AS x UNION ALL SELECT x FROM {T}", "INSERT INTO {T} (x) VALUES (1)", "INSERT INTO t0 SELECT x FROM {T}", "UPDATE {T} SET x = 1 WHERE y = 2",
               "DELETE FROM {T} WHERE x = 1", "CREATE TABLE {T} (x int)", "DROP TABLE IF EXISTS {T}", "TRUNCATE TABLE {T}", "ALTER TABLE {T} ADD COLUMN y int",
               "SELECT x FROM {T} t1 LEFT JOIN {T} t2 ON t1.x = t2.x", "SELECT x FROM t0 WHERE x IN (SELECT x FROM {T})"]


def name_slots(ctx, r):
    """the schema slot and the name slot of a table reference hold what the SPELLING denotes, at every site a table is named — written as text (the printer writes
    schema and name inside ONE pair of back-quotes, so a tree with the dot in the wrong place prints the same text: no printed text can show it)"""
    import canon
    spell = []
    for n in ("t", "T1", "tab_x", "x", "b"):
        spell += [(n, None, n), ("`%s`" % n, None, n), ("`my %s`" % n, None, "my " + n)]
        for s in ("s", "Db_1"):
            spell += [("%s.%s" % (s, n), s, n), ("`%s`.`%s`" % (s, n), s, n), ("`%s`.%s" % (s, n), s, n), ("%s.`%s`" % (s, n), s, n),
                      # a back-quoted name with exactly one dot is split at the dot (finding F-C06-5 / F-C14-1, which the printer relies on): written down as it behaves
                      ("`%s.%s`" % (s, n), s, n)]
    spell += [("`log.2024.01`", None, "log.2024.01"), ("`events.v1.2`", None, "events.v1.2"), ("`a.b.c.d`", None, "a.b.c.d"), ("`..`", None, ".."), ("s.`a.b.c`", "s", "a.b.c"),
              ("`1.5.x`", None, "1.5.x"), ("`x..y`", None, "x..y")]
    cases = []
    for tmpl in TABLE_SITES:
        for text, sch, nm in spell:
            d = r.choice(DIALECTS)
            if d == "HIVE" and tmpl.startswith("INSERT INTO {T} (x)"):
                continue
            cases.append((d, tmpl.replace("{T}", text), text, sch, nm, tmpl.count("{T}")))
    res, _ = ctx.corr([pfam.req_parse(d, t) for d, t, _, _, _, _ in cases], stream="name-slots")
    for (d, t, text, sch, nm, k), (_, a, _) in zip(cases, res):
        if not a.startswith("OK"):
            ctx.count("name-slots:rejected"); continue
        want = 'ASTTableNameExpression{schema_name=%s,table_name="%s"}' % ("None" if sch is None else '"' + canon.q(sch) + '"', canon.q(nm))
        ok_ = a.count(want) >= k
        ctx.count("name-slots:" + ("as-written" if ok_ else "DIFFERENT"))
        if not ok_:
            pfam.report(ctx, "slot:table-name", {"kind": "input", "entry": "parse_statements", "dialect": d, "input": t, "reference": t, "spelling": text, "want": want, "observed": a[:500],
                                                "oracle": "c03: the table reference %s denotes schema %r, table %r: the tree must hold exactly that in the schema / name slots" % (text, sch, nm),
                                                "how_found": "stream name-slots"})


def search(ctx):
    r = ctx.rng.fork("c03-search")
    batches = [(d, 1 + r.below(10 ** 6), 400) for _ in range(6 if ctx.quick else 30) for d in DIALECTS]
    tree_batches(ctx, batches, "search: more trees")


def replay(payload):
    d = payload["dialect"]
    if "want" in payload:
        a = E.run_impl([pfam.req_parse(d, payload["input"])])[0]
        print(repr(payload["input"]), "\n ->", a[:400], "\n wanted:", payload["want"])
        return 0 if payload["want"] in a else 1
    if "reference" in payload:
        a, b = E.run_impl([pfam.req_parse(d, payload["input"]), pfam.req_parse(d, payload["reference"])])
        print("spelling :", repr(payload["input"]), "\n ->", a[:300]); print("reference:", repr(payload["reference"]), "\n ->", b[:300])
        return 0 if a == b else 1
    dd, seed, n = payload["tree_seed"]
    a = E.run_impl(["TREE %s %d %d" % (dd, seed, n)])[0]
    print("TREE %s %d %d ->" % (dd, seed, n), unq(a)[:1500])
    return 0 if a.split(" ")[2] == "0" else 1
