"""C13 — the requested dialect is honoured everywhere and never emitted wrongly."""
import re
import engine as E
import pfam, sqlgen

MOD_OK = {"DEFAULT", "MYSQL", "SQL_SERVER", "HIVE"}
FAMILY_REFUSAL = ("E:NOTSUP", "E:PARSE", "E:LEX")


def nest(rng, d, frag, depth):
    """place an expression fragment at a random nesting position of a query"""
    g = sqlgen.Gen(rng, d, wild=False, maxdepth=1)
    e = frag
    for _ in range(depth):
        k = rng.below(9)
        if k == 0: e = "f(" + g.expr(2) + ", " + e + ")"
        elif k == 1: e = "CASE WHEN " + e + " THEN 1 ELSE 2 END"
        elif k == 2: e = "(SELECT " + g.nm() + " FROM t WHERE " + e + ")"
        elif k == 3: e = g.nm() + " IN (SELECT a FROM u WHERE " + e + ")"
        elif k == 4: e = "(" + e + ")"
        elif k == 5: e = "CASE a WHEN 1 THEN " + e + " END"
        elif k == 6: e = "COALESCE(" + e + ", 0)"
        elif k == 7: e = "EXISTS (SELECT 1 FROM v WHERE " + e + ")"
        else: e = "IF(" + e + ", 1, 2)"
    pos = rng.below(7)
    if pos == 0: return "SELECT " + e + " FROM t"
    if pos == 1: return "SELECT a FROM t WHERE " + e
    if pos == 2: return "SELECT a FROM t x JOIN u y ON " + e
    if pos == 3: return "SELECT a FROM t GROUP BY a HAVING " + e
    if pos == 4: return "SELECT a FROM (SELECT b FROM u WHERE " + e + ") q"
    if pos == 5: return "WITH w AS (SELECT a FROM t WHERE " + e + ") SELECT * FROM w"
    return "UPDATE t SET a = 1 WHERE " + e


def run(ctx):
    n = 1500 if ctx.quick else 40000
    ctx.cov["rule"] = ("(a) dialect constructs (Hive `!` as NOT and `==`; DB2 two-word CURRENT DATE/TIME/TIMESTAMP) placed at nesting depth 0–4 in function arguments, CASE arms, "
                       "scalar / IN / EXISTS sub-queries, derived tables, WITH bodies, ON, HAVING, UPDATE filters: the parse under the dialect must equal the parse of the same "
                       "text with the construct spelled in its plain form (NOT, =, CURRENT_DATE); (b)+(c) all (parse dialect, print dialect) pairs on generated scripts: "
                       "correspondence on printed text / refusal kind, and oracle: a tree containing %, an array index, CREATE TABLE, ANALYZE TABLE, SORT/DISTRIBUTE/CLUSTER BY, "
                       "LATERAL VIEW or INSERT OVERWRITE must be refused with the library's error family by every dialect that lacks the construct. "
                       "distinct_nontrivial = distinct accepted trees / printed texts")
    r = ctx.rng.fork("c13")
    # (a) metamorphic: the dialect governs every nested position
    pairs = []
    for i in range(n):
        depth = r.below(5)
        if r.chance(0.6):
            d = "HIVE"
            inner = sqlgen.Gen(r, d, wild=False, maxdepth=1).pred(2)
            if r.chance(0.5):
                a, b = "! " + inner, "NOT " + inner
            else:
                x, y = sqlgen.Gen(r, d, wild=False, maxdepth=0).expr(3), sqlgen.Gen(r, d, wild=False, maxdepth=0).expr(3)
                a, b = x + " == " + y, x + " = " + y
        else:
            d = "DB2"
            w = r.choice(["DATE", "TIME", "TIMESTAMP"])
            a, b = "CURRENT " + w + " > a", "CURRENT_" + w + " > a"
        seed = r.next()
        ta, tb = nest(E.Rng(seed), d, a, depth), nest(E.Rng(seed), d, b, depth)
        pairs.append((d, ta, tb, depth))
    ra, _ = ctx.corr([pfam.req_parse(d, a) for d, a, _, _ in pairs], stream="dialect-form")
    rb, _ = ctx.corr([pfam.req_parse(d, b) for d, _, b, _ in pairs], stream="plain-form")
    for (d, a, b, depth), (_, xa, _), (_, xb, _) in zip(pairs, ra, rb):
        ok = xa == xb and xa.startswith("OK")
        ctx.count("nested:%s:depth%d:%s" % (d, depth, "equal" if ok else "DIFFERENT" if xa != xb else "both-rejected"))
        if xa != xb:
            pfam.report(ctx, "dialect-not-honoured:" + d, {"kind": "input", "entry": "parse_statements", "dialect": d, "input": a, "plain": b, "observed": [xa[:300], xb[:300]],
                                                          "oracle": "c13: the dialect form must parse like the plain form at every nesting depth", "how_found": "stream nested"})
    # … in every STATEMENT position that hands the dialect on to an expression parser (one host per call site of parser.py that passes `sql_type`), enumerated:
    # a call site that passes another value (a default, a swapped positional argument) parses its operand with another dialect's operator sets
    HOSTS = ["ALTER TABLE t ADD PARTITION (dt = {X})", "ALTER TABLE t ADD IF NOT EXISTS PARTITION (dt = {X})", "ALTER TABLE t DROP PARTITION (dt = {X})",
             "ALTER TABLE t DROP IF EXISTS PARTITION (dt = '1', hr = {X})", "INSERT OVERWRITE TABLE t PARTITION (dt = {X}) SELECT a FROM u", "INSERT INTO t PARTITION (dt = {X}) VALUES (1)",
             "INSERT INTO t VALUES (1, {X}), ({X}, 2)", "INSERT INTO t SELECT {X} FROM u", "WITH w AS (SELECT {X} AS a) INSERT INTO t SELECT a FROM w", "ANALYZE TABLE t PARTITION (dt = {X}) COMPUTE STATISTICS",
             "CREATE TABLE t (a int DEFAULT {X})", "CREATE TABLE t (a int GENERATED ALWAYS AS ({X}) VIRTUAL)", "CREATE TABLE t (a int ON UPDATE {X})", "CREATE TABLE t (a DECIMAL({X}))",
             "CREATE TABLE t AS SELECT {X} FROM u", "CREATE TABLE t (a int) PARTITIONED BY (b int DEFAULT {X})", "ALTER TABLE t ADD c int DEFAULT {X}", "ALTER TABLE t MODIFY c int DEFAULT {X}",
             "ALTER TABLE t CHANGE c d int DEFAULT {X}", "UPDATE t SET a = {X}, b = {X} WHERE {X} > 0 ORDER BY {X} LIMIT 1", "WITH w AS (SELECT {X} AS a) UPDATE t SET a = 1 WHERE b = {X}",
             "DELETE FROM t WHERE {X} > 0 ORDER BY {X} LIMIT 1", "SHOW COLUMNS FROM t WHERE {X} > 0", "SELECT a FROM t LATERAL VIEW explode({X}) v AS x",
             "SELECT CAST({X} AS INT), EXTRACT(YEAR FROM {X}), a[{X}] FROM t", "SELECT SUM(a) OVER (PARTITION BY {X} ORDER BY {X} DESC) FROM t", "SELECT a FROM t GROUP BY {X}, b",
             "SELECT a FROM t GROUP BY a GROUPING SETS (({X}), ({X}, a))", "SELECT a FROM t ORDER BY {X} DESC, b LIMIT 1", "SELECT a FROM t SORT BY {X}", "SELECT a FROM t DISTRIBUTE BY {X}",
             "SELECT a FROM t CLUSTER BY {X}", "SELECT a FROM t JOIN u USING ({X})", "SELECT a FROM t LEFT JOIN u ON {X} > 0 JOIN v ON {X} > 1",
             "SELECT a BETWEEN {X} AND {X}, a IN ({X}, 1), a LIKE {X}, a IS {X}, - {X}, a + {X} * 2 FROM t", "SELECT CASE {X} WHEN {X} THEN {X} ELSE {X} END, CASE WHEN {X} > 0 THEN {X} END FROM t",
             "SELECT a FROM t WHERE a IN (SELECT {X} FROM u) AND EXISTS (SELECT 1 FROM v WHERE {X} > 0)", "SELECT a FROM (SELECT {X} AS a FROM u) q UNION ALL SELECT {X} FROM v",
             "SELECT s.f({X}), g({X}, {X}), COUNT(DISTINCT {X}), IF({X}, {X}, {X}) FROM t", "SELECT a FROM t WHERE {X} > 0 GROUP BY a HAVING {X} > 0"]
    PAIRS = {"HIVE": [("COALESCE(! a, 1)", "COALESCE(NOT a, 1)"), ("COALESCE(a == b, 1)", "COALESCE(a = b, 1)")], "DB2": [("COALESCE(CURRENT DATE, b)", "COALESCE(CURRENT_DATE, b)")]}
    hp = [(d, h.replace("{X}", a), h.replace("{X}", b), h) for d in PAIRS for h in HOSTS for a, b in PAIRS[d]]
    rha, _ = ctx.corr([pfam.req_parse(d, a) for d, a, _, _ in hp], stream="hosts-dialect-form")
    rhb, _ = ctx.corr([pfam.req_parse(d, b) for d, _, b, _ in hp], stream="hosts-plain-form")
    for (d, a, b, h), (_, xa, _), (_, xb, _) in zip(hp, rha, rhb):
        ctx.count("hosts:%s:%s" % (d, "equal" if xa == xb and xa.startswith("OK") else "DIFFERENT" if xa != xb else "both-rejected"))
        if xa != xb:
            pfam.report(ctx, "dialect-not-honoured:" + d, {"kind": "input", "entry": "parse_statements", "dialect": d, "input": a, "plain": b, "observed": [xa[:300], xb[:300]], "host": h,
                                                          "oracle": "c13: the dialect form must parse like the plain form in every statement position", "how_found": "stream hosts"})
    # … at EVERY recursive position of the grammar: tree-first Hive statements (every production) printed with NOT / =, rewritten to the Hive spellings
    from props import c09
    hive_texts = [t for _, t in pfam.tree_texts(ctx.rng.fork("hive-trees"), 500 if ctx.quick else 4000, ["HIVE"])]
    not_re = re.compile(r"(?<!IS )\bNOT (?!(?:IN|LIKE|RLIKE|REGEXP|BETWEEN)\b)")
    hv = []
    for t in hive_texts:
        if t.lstrip().upper().startswith(("CREATE", "ALTER", "DROP", "ANALYZE")):
            continue        # NOT NULL / IF NOT EXISTS of DDL are not the logical operator
        segs = c09.segments(t)
        v1 = "".join(not_re.sub("! ", piece) if code else piece for code, piece in segs)
        v2 = "".join(piece.replace(" = ", " == ") if code else piece for code, piece in segs)
        for v in (v1, v2):
            if v != t:
                hv.append((t, v))
    rh, _ = ctx.corr([pfam.req_parse("HIVE", t) for t, _ in hv], stream="hive-plain")
    rv, _ = ctx.corr([pfam.req_parse("HIVE", v) for _, v in hv], stream="hive-spelled")
    for (t, v), (_, xa, _), (_, xb, _) in zip(hv, rh, rv):
        ok = xa == xb and xa.startswith("OK")
        ctx.count("hive-everywhere:" + ("equal" if ok else "DIFFERENT" if xa != xb else "both-rejected"))
        if xa != xb:
            pfam.report(ctx, "dialect-not-honoured:HIVE", {"kind": "input", "entry": "parse_statements", "dialect": "HIVE", "input": v, "plain": t, "observed": [xb[:300], xa[:300]],
                                                           "oracle": "c13: `!` / `==` must parse like NOT / = at every position of the grammar", "how_found": "stream tree-first hive"})
    # the other dialects must NOT give `!` the Hive meaning: under MYSQL `! a = b` is a unary operator, never a logical NOT node
    others = [(d, "SELECT a FROM t WHERE ! a = b") for d in pfam.DIALECTS if d != "HIVE"]
    ro, _ = ctx.corr([pfam.req_parse(d, t) for d, t in others], stream="non-hive-bang")
    for (d, t), (_, a, _) in zip(others, ro):
        if "ASTLogicalNotExpression" in a or not a.startswith("OK"):
            pfam.report(ctx, "bang-as-not-outside-hive", {"kind": "input", "entry": "parse_statements", "dialect": d, "input": t, "observed": a[:300],
                                                          "oracle": "c13: `!` is NOT only for Hive", "how_found": "fixed"})
    # … also when Hive texts were parsed earlier in the same process (the dialect is a parameter of the call, not a mode of the library)
    seq = []
    for d, t in others:
        seq += [pfam.req_parse("HIVE", "SELECT a FROM t WHERE ! a = b AND IF(! c = 1, 1, 2) > 0"), pfam.req_parse("DB2", "SELECT CURRENT DATE FROM t"), pfam.req_parse(d, t),
                pfam.req_parse(d, "SELECT a FROM t WHERE c IN (SELECT IF(! y = x, 1, 2) FROM u)")]
    sa = E.run_impl(seq, jobs=1)
    ctx.cov["evaluations"] += len(seq)
    for i, (d, t) in enumerate(others):
        for a in sa[4 * i + 2:4 * i + 4]:
            if "ASTLogicalNotExpression" in a or not a.startswith("OK"):
                pfam.report(ctx, "bang-as-not-outside-hive", {"kind": "input", "entry": "parse_statements", "dialect": d, "input": t, "observed": a[:300], "after": "a HIVE parse in the same process",
                                                              "oracle": "c13: `!` is NOT only for Hive, whatever was parsed before", "how_found": "fixed sequence"})
    # (b), (c): all dialect pairs
    cases = pfam.scripts(ctx.rng.fork("pairs"), n, wild=0.05, single=True)
    cases += [(d, t, "tree-first") for d, t in pfam.tree_texts(ctx.rng.fork("trees"), 100 if ctx.quick else 2000)]
    # dialect-only constructs (`%`, Hive subscripts, DB2 CURRENT DATE) inside every bracketed operand position
    for d in ("MYSQL", "HIVE", "DB2"):
        ops = pfam.operator_pairs(d)
        cases += [(d, t, "operator-pairs") for t in (ops if not ctx.quick else [t for t in ops if "%" in t or d != "MYSQL"][::3])]
    reqs, meta = [], []
    for d, t, _ in cases:
        sd = r.choice(pfam.DIALECTS)
        reqs.append(pfam.req_print(d, sd, t)); meta.append((d, sd, t))
    # a construct only Hive (or only some dialects) can print, inside every HOST that prints its parts itself, for EVERY print dialect: a host that prints a
    # part with a dialect of its own choosing (a default, a hard-coded one) lets the part through where the statement as a whole is printable
    hosts = ["SELECT {X} FROM t", "SELECT f(1, {X}) FROM t", "SELECT CASE WHEN {X} > 1 THEN {X} ELSE {X} END FROM t", "SELECT CASE {X} WHEN 1 THEN 2 END FROM t",
             "SELECT MAX(a) OVER (PARTITION BY {X} ORDER BY {X}) FROM t", "SELECT a FROM t WHERE {X} = 1 GROUP BY {X} HAVING {X} > 0 ORDER BY {X}",
             "SELECT a FROM t JOIN u ON t.a = {X}", "SELECT a FROM (SELECT {X} AS a FROM t) q", "WITH w AS (SELECT {X} AS a FROM t) SELECT a FROM w",
             "SELECT a FROM t WHERE a IN ({X}, 2) AND b BETWEEN {X} AND 9", "SELECT a FROM t WHERE EXISTS (SELECT 1 FROM u WHERE {X} = 1) UNION ALL SELECT {X} FROM v",
             "SELECT c FROM t LATERAL VIEW explode({X}) v AS c", "SELECT c FROM t LATERAL VIEW OUTER explode(split({X}, ',')) v AS c, d WHERE c > 1",
             "INSERT INTO r SELECT {X} FROM t", "INSERT INTO r VALUES ({X}, 1)", "UPDATE t SET a = {X} WHERE b = {X}", "DELETE FROM t WHERE {X} = 1", "SELECT CAST({X} AS CHAR), IF({X}, 1, 2) FROM t",
             "SELECT a FROM t LIMIT 3", "SELECT a FROM t SORT BY {X}", "SELECT a FROM t DISTRIBUTE BY {X}", "INSERT OVERWRITE TABLE r PARTITION (dt = {X}) SELECT a FROM t",
             # groupings of exactly ONE element, of two, and the plain GROUP BY list (the printer decides the grouping's brackets per grouping: seeded C13-13 looked at the
             # single element's text under the DEFAULT dialect)
             "SELECT a, COUNT(1) FROM t GROUP BY a, b GROUPING SETS ({X}, (a, b))", "SELECT a FROM t GROUP BY a GROUPING SETS (a, f({X}))", "SELECT a FROM (SELECT a FROM t GROUP BY GROUPING SETS ({X})) s",
             "SELECT a FROM t GROUP BY a GROUPING SETS (({X}, a), b, ())", "SELECT a FROM t GROUP BY {X}, b GROUPING SETS (a, (a, b)) ORDER BY {X} DESC NULLS LAST", "SELECT a FROM t CLUSTER BY {X}",
             "SELECT SUM(a) OVER (ORDER BY {X} ROWS BETWEEN 1 PRECEDING AND CURRENT ROW) FROM t", "SELECT a FROM t WHERE b IN (SELECT {X} FROM u) ORDER BY ({X}) LIMIT 1"]
    for h in hosts:
        for x in ("arr[0]", "m['k']", "a % 2", "b"):
            t = h.replace("{X}", x)
            for sd in pfam.DIALECTS:
                reqs.append(pfam.req_print("HIVE", sd, t)); meta.append(("HIVE", sd, t))
    ctx.count("print:hosts-x-constructs-x-dialects", len(hosts) * 4 * len(pfam.DIALECTS))
    res, _ = ctx.corr(reqs, stream="print-pairs", nontrivial=lambda q, a: a.startswith("OK") and "S:" in a)
    parsed = E.run_impl([pfam.req_parse(d, t) for d, sd, t in meta])
    for (d, sd, t), (_, a, _), tree in zip(meta, res, parsed):
        if not a.startswith("OK") or not tree.startswith("OK"):
            continue
        outs = [x for x in a.split(" ")[1:] if x]
        if len(outs) != 1:
            continue
        o = outs[0]
        must = []
        if "EnumComputeOperator.MOD" in tree and sd not in MOD_OK: must.append("%")
        if "ASTIndexExpression{" in tree and sd != "HIVE": must.append("array index")
        if "ASTCreateTableStatement{" in tree and sd not in ("MYSQL", "HIVE"): must.append("CREATE TABLE")
        if "ASTAnalyzeTableStatement{" in tree and sd not in ("MYSQL", "HIVE"): must.append("ANALYZE TABLE")
        if re.search(r"(sort_by_clause|distribute_by_clause|cluster_by_clause)=AST", tree) and sd != "HIVE": must.append("SORT/DISTRIBUTE/CLUSTER BY")
        if "lateral_view_clauses=T[AST" in tree and sd not in ("HIVE", "DEFAULT"): must.append("LATERAL VIEW")
        if "EnumInsertType.INSERT_OVERWRITE" in tree and sd not in ("HIVE", "DEFAULT"): must.append("INSERT OVERWRITE")
        ctx.count("print:%s" % ("refusal-required" if must else "free"))
        if o.startswith("E:") and not o.startswith(FAMILY_REFUSAL):
            pfam.report(ctx, "print-foreign-exception", {"kind": "input", "entry": "source", "dialect": d, "print_dialect": sd, "input": t, "observed": o[:200],
                                                         "oracle": "c13: the printer may only raise the library's error family", "how_found": "stream print-pairs"})
        elif must and not o.startswith("E:"):
            pfam.report(ctx, "emitted-unsupported:" + must[0], {"kind": "input", "entry": "source", "dialect": d, "print_dialect": sd, "input": t, "observed": o[:300],
                                                                "oracle": "c13: %s is not available in %s: the printer must refuse" % (must, sd), "how_found": "stream print-pairs"})
        elif not must and d == sd == "HIVE" and o.startswith("E:"):
            # "parsing then printing in the same dialect round-trips": a Hive parse printed for Hive has no construct its dialect lacks, so no refusal is due
            pfam.report(ctx, "refused-in-own-dialect", {"kind": "input", "entry": "source", "dialect": d, "print_dialect": sd, "input": t, "observed": o[:300],
                                                        "oracle": "c13: a statement parsed as HIVE must be printable as HIVE (no construct of it is foreign to the dialect)", "how_found": "stream print-pairs"})
    for f in ctx.findings:
        if f.get("status") == "finding" and "plain" in f.get("witness", {}):
            w = f["witness"]
            x = E.run_impl([pfam.req_parse(w["dialect"], w["input"]), pfam.req_parse(w["dialect"], w["plain"])])
            if x[0] != x[1]:
                ctx.report_known(f)
    for (d, a, b, depth) in pairs[:3]:
        ctx.sample({"dialect": d, "dialect_form": a[:200], "plain_form": b[:200], "depth": depth})
    pfam.conclude(ctx)


def replay(payload):
    if "after" in payload:
        a = E.run_impl([pfam.req_parse("HIVE", "SELECT a FROM t WHERE ! a = b"), pfam.req_parse(payload["dialect"], payload["input"])], jobs=1)
        print(a[1][:400])
        return 1 if "ASTLogicalNotExpression" in a[1] or not a[1].startswith("OK") else 0
    if "plain" in payload:
        a = E.run_impl([pfam.req_parse(payload["dialect"], payload["input"]), pfam.req_parse(payload["dialect"], payload["plain"])])
        print(a[0][:300]); print(a[1][:300])
        return 0 if a[0] == a[1] else 1
    a = E.run_impl([pfam.req_print(payload["dialect"], payload.get("print_dialect", payload["dialect"]), payload["input"])])[0]
    print(a[:400])
    if "own dialect" in payload.get("oracle", "") or "printable as HIVE" in payload.get("oracle", ""):
        return 1 if " E:" in a else 0
    return 1
