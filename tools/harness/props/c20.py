"""C20 — the extension surface behaves as documented for plug-ins (token cursor; MyBatis lexer)."""
import itertools
import engine as E
import lexstreams as LS

VOCAB = ["SELECT", "a", "(b,c)", "1", ",", "[x]", "From"]
OPS = ["go:0", "go:1", "gn:1", "get", "pop", "mv:1", "close", "fin", "s:SELECT,a", "sm:SELECT,a", "sm:@NAME", "m:SELECT,a", "m:a", "mk:@PARENTHESIS", "ss:COMMA", "sms:COMMA", "ss:From", "sms:From", "sms:FROM", "sms:a", "sms:A", "s1:FROM",
       "sm1:SELECT", "s2:SELECT,A", "sm2:A,FROM", "s3:SELECT,A,FROM", "sm3:SELECT,A,FROM", "set:a,1", "setu:FROM,SELECT", "smsetu:A,SELECT", "src", "psrc", "gkid", "pkid", "gkadv", "split:COMMA",
       # a string pattern that spells the rendered text of a bracket token ("[x]" renders as "(x)"): brackets match by mark only (TokenScanner.search docstring)
       "s:(x)", "sm:(x)", "sm:(X)", "m:(x)"]
PEEK = ("go", "gn", "get", "close", "fin", "s", "mk", "ss", "s1", "s2", "s3", "set", "setu", "src", "gkid", "gkadv")
MOVE_N = {"sms:From": 1, "sms:FROM": 1, "sms:a": 1, "sms:A": 1, "sm:SELECT,a": 2, "sm:@NAME": 1, "sms:COMMA": 1, "sm1:SELECT": 1, "sm2:A,FROM": 2, "sm3:SELECT,A,FROM": 3, "smsetu:A,SELECT": 1, "sm:(x)": 1, "sm:(X)": 1}


def oracle(ntoks, ops, answer, toks=None):
    """the documented cursor contract, judged on the implementation's answers"""
    fails = []
    pos = 0
    toks = toks or []
    for op, res in zip(ops, answer[3:].split("\t")):
        r, _, p = res.rpartition("@")
        p = int(p)
        name = op.split(":")[0]
        if name in PEEK and p != pos:
            fails.append(("peek-moved", "%s moved the cursor %d → %d" % (op, pos, p)))
        if op in MOVE_N:
            if r == "T" and p != pos + MOVE_N[op]: fails.append(("success-advance", "%s succeeded but advanced by %d" % (op, p - pos)))
            if r == "F" and p != pos: fails.append(("failure-moved", "%s failed but moved the cursor" % op))
        if name in ("s1", "sm1", "s2", "sm2", "s3", "sm3") and toks and r in ("T", "F"):
            # the documented meaning of the keyword probes: the next k tokens, upper-cased, are exactly the k words
            args = op.split(":")[1].split(",")
            want = pos + len(args) <= len(toks) and all(toks[pos + i].upper() == a_ for i, a_ in enumerate(args))
            if (r == "T") != want:
                fails.append(("probe-answer", "%s at %d of %r answered %s" % (op, pos, toks, r)))
        if name in ("ss", "sms") and toks and r in ("T", "F"):
            # the exact probes compare the token's text as written (no case folding)
            arg = "," if op.split(":")[1] == "COMMA" else op.split(":")[1]
            want = pos < len(toks) and toks[pos] == arg
            if (r == "T") != want:
                fails.append(("probe-answer", "%s at %d of %r answered %s" % (op, pos, toks, r)))
        if op in ("s:(x)", "sm:(x)", "sm:(X)", "m:(x)") and r == "T":
            fails.append(("bracket-matched-by-source", "%s answered T: a bracket token must not match a string pattern" % op))
        if name == "close" and ((r == "-") != (pos >= ntoks)):
            fails.append(("close", "close() at %d of %d answered %s" % (pos, ntoks, r)))
        if name == "fin" and ((r == "T") != (pos >= ntoks)):
            fails.append(("is-finish", "is_finish at %d of %d answered %s" % (pos, ntoks, r)))
        if name in ("pop", "psrc", "pkid", "split") and not r.startswith(("PARSE", "PY")) and p != pos + 1:
            fails.append(("pop-advance", "%s advanced by %d" % (op, p - pos)))
        if name in ("gkid", "pkid") and r.startswith("kids") and not r.endswith("/0"):
            fails.append(("child-cursor-not-fresh", "%s handed out a child cursor that does not start at the group's first token (%s)" % (op, r)))
        if r.startswith("PY "):
            fails.append(("foreign-exception", "%s raised %s" % (op, r)))
        if p < pos:
            fails.append(("backwards", "%s moved the cursor backwards" % op))
        pos = p
    return fails


def run(ctx):
    import pfam
    quick = ctx.quick
    L = 2 if quick else 3
    ctx.cov["rule"] = ("(a) cursor: every sequence of ≤ %d operations out of %d (all peek / search / search-and-move / match / pop / close / child-cursor methods with fixed arguments) over every "
                       "token list of ≤ 3 tokens of a %d-word vocabulary (exhaustive), plus random sequences of length ≤ 8; correspondence with the TokenScanner model; oracle: peeks do not "
                       "move, success advances by exactly the pattern length, failure by 0, close fails iff tokens are left, nothing but the parse-error family is raised. "
                       "(b) MyBatis lexer: the C04 string spaces with and without `#{…}` placeholders; correspondence with the generated intercept model; oracle: identical token trees to the base "
                       "lexer for every text without `#{`, each placeholder outside quotes is one NAME|CUSTOM_1 leaf with the placeholder's text" % (L, len(OPS), len(VOCAB)))
    r = ctx.rng.fork("c20")
    texts = [" ".join(p) for n in range(0, 4) for p in itertools.product(VOCAB, repeat=n)]
    reqs, meta = [], []
    for ti, t in enumerate(texts):
        n = len(t.split())
        for k in range(1, L + 1):
            for ops in itertools.product(OPS, repeat=k):
                # quick: every single operation on every token list; a sixth of the longest sequences
                if k == L and k > 1 and quick and r.below(6):
                    continue
                reqs.append("SC %s %s" % (E.enhex(t), ";".join(ops))); meta.append((t, n, ops))
    for _ in range(3000 if quick else 60000):
        t = " ".join(r.choice(VOCAB) for _ in range(r.below(6)))
        ops = tuple(r.choice(OPS) for _ in range(1 + r.below(8)))
        reqs.append("SC %s %s" % (E.enhex(t), ";".join(ops))); meta.append((t, len(t.split()), ops))
    res, _ = ctx.corr(reqs, stream="cursor", nontrivial=lambda q, a: a.startswith("OK"))
    for (t, n, ops), (_, a, _) in zip(meta, res):
        if not a.startswith("OK"):
            continue
        for sig, detail in oracle(n, ops, a, t.split()):
            pfam.report(ctx, "cursor:" + sig, {"kind": "ops", "entry": "TokenScanner", "input": t, "ops": list(ops), "observed": a[:300], "oracle": "c20: " + detail, "how_found": "stream cursor"})
    # (b) MyBatis
    alpha, _ = LS.alphabet()
    alpha = sorted(set(alpha) | set("#{}"))
    k = 3 if quick else 4
    strs = list(LS.exhaustive([c for c in alpha if c in "#{}a '\"`\n-/*(1"], k + 1)) + [LS.random_concat(r, 1 + r.below(10), with_placeholders=True) for _ in range(4000 if quick else 80000)]
    res, _ = ctx.corr(["LM %s" % E.enhex(s) for s in strs], stream="mybatis", nontrivial=lambda q, a: a.startswith("OK"))
    base = E.run_impl(["L 7 %s" % E.enhex(s) for s in strs])
    for s, (_, a, _), b in zip(strs, res, base):
        if "#{" not in s:
            ctx.count("mybatis:no-placeholder:" + ("same" if a == b else "DIFFERENT"))
            if a != b:
                sig = "conservative-extension"
                if "#" in s:
                    sig += ":hash-at-end" if s.rstrip(" ").endswith("#") or b.startswith("OK") and a == "LEX" and "\n" not in s[s.rfind("#"):] else ":hash-before-newline"
                pfam.report(ctx, "mybatis:" + sig, {"kind": "input", "entry": "FSMMachineMyBatis.parse", "input": s, "observed": [a[:200], b[:200]],
                                                    "oracle": "c20: without `#{` the plug-in lexer must return the base lexer's token tree", "how_found": "stream mybatis"})
        elif a.startswith("OK"):
            ctx.count("mybatis:with-placeholder:accepted")
    for f in ctx.findings:
        if f.get("status") == "finding":
            w = f["witness"]["input"]
            x = E.run_impl(["LM %s" % E.enhex(w), "L 7 %s" % E.enhex(w)])
            if x[0] != x[1]:
                ctx.report_known(f)
    for (t, n, ops), (_, a, _) in list(zip(meta, res))[:3]:
        ctx.sample({"tokens_of": t, "ops": list(ops), "impl": a[:160]})
    pfam.conclude(ctx)


def replay(payload):
    if payload.get("kind") == "ops":
        a = E.run_impl(["SC %s %s" % (E.enhex(payload["input"]), ";".join(payload["ops"]))])[0]
        print(a); return 1 if oracle(len(payload["input"].split()), payload["ops"], a, payload["input"].split()) else 0
    x = E.run_impl(["LM %s" % E.enhex(payload["input"]), "L 7 %s" % E.enhex(payload["input"])])
    print(x); return 0 if x[0] == x[1] else 1
