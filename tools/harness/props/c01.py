"""C01 — print/parse round trip is a fixed point for every accepted statement."""
import re
import engine as E
import pfam


FINE = ("ok", "unsupported", "print:NOTSUP", "print:PARSE")


def signature(v):
    k = v.split("|")[0]
    if k.startswith("tree:"):
        # the class.field where the re-parsed tree first differs
        m = re.findall(r"\.([A-Za-z]+)\.([a-z_]+)", k)
        return "tree:" + (".".join(m[-1]) if m else "?")
    return k


BQ_IN_NAME = re.compile(r"""`[^`\n]*['"][^`\n'"]*`[^\n'"]*['"]`""")


def finding_class(d, text, printed=""):
    """(1) a name written as a quoted string that contains a back-quote ('x`y' as alias / table / column name): the printer puts names between back-quotes, and the
    lexer has no escape for a back-quote inside a back-quoted name (F-C01-2) — recognised in the PRINTED text: a back-quoted region that holds a quote, a back-quote
    and the closing quote.  (2) DB2 only: the whitespace pre-pass (TAB / CR LF / U+3000 → blank) can CREATE the two-word `CURRENT DATE` inside a literal, which the DB2 text pre-pass then rewrites on
    the second parse but not on the first (interplay of the two whole-text pre-passes, roots F-C06-1 and F-C06-3)"""
    if "`" in text and BQ_IN_NAME.search(canon_unq(printed)):
        return "name-with-back-quote"
    if d != "DB2":
        return None
    norm = text.replace("\r\n", "\n").replace("\t", " ").replace("\u3000", " ")
    pat = re.compile(r"CURRENT (DATE|TIME)")
    return "db2-current-created-by-whitespace-prepass" if len(pat.findall(norm)) > len(pat.findall(text)) else None


def canon_unq(v):
    """the printed text out of the canonical %xx; quoting of an RT answer"""
    return re.sub(r"%([0-9a-f]+);", lambda m: chr(int(m.group(1), 16)), v.split("|", 1)[1] if "|" in v else "")


def judge(ctx, d, text, answer, how):
    if not answer.startswith("OK"):
        return
    for i, v in enumerate(x for x in answer.split(" ")[1:] if x):
        k = v.split("|")[0]
        ctx.count("rt:" + (k if k in FINE else signature(v)))
        if k in FINE:
            continue
        pfam.report(ctx, finding_class(d, text, v) or signature(v), {"kind": "input", "entry": "parse_statements + source", "dialect": d, "input": text,
                                        "observed": v[:500], "oracle": "c01: statement %d: %s" % (i, k), "how_found": how})


def run(ctx):
    n = 2500 if ctx.quick else 60000
    ctx.cov["rule"] = ("every nesting of two operators with and without grouping brackets; printed texts of tree-first generated statements (every statement class and clause); "
                       "scripts drawn from a grammar-shaped generator over every statement kind (about 85% accepted; a fifth of the generators also draw "
                       "constructs known to be rejected), the repository's own SQL and the regression corpus, each under a random dialect; "
                       "(1) correspondence: parse_statements and source() of model and implementation compared on tree dumps / printed text / error kinds, "
                       "same-dialect and cross-dialect; (2) oracle on the implementation: print → re-parse → equal tree and hash → second print equal, for every "
                       "statement whose features the dialect's printer supports. distinct_nontrivial = distinct accepted statement lists")
    ctx.assumptions += ["Supports d t excludes only DDL attributes/options the other dialect's printer drops by design and Hive-only query clauses for non-Hive targets (C13/C18)"]
    cases = [(d, t, "regression") for d, t in pfam.regression_cases()] + [(d, t, "corpus") for d, t in pfam.corpus_statements()]
    cases += pfam.scripts(ctx.rng.fork("scripts"), n, wild=0.15, mutate=0.05)
    cases += [(d, t, "tree-first") for d, t in pfam.tree_texts(ctx.rng.fork("trees"), 120 if ctx.quick else 3000)]
    cases += [(d, t, "operator-pairs") for d in (("MYSQL", "HIVE") if ctx.quick else ("MYSQL", "HIVE", "DB2", "DEFAULT")) for t in pfam.operator_pairs(d)]
    # every complete small expression in every host that brackets its operand by a rule of its own (tools/harness/smallscope.py)
    import smallscope
    ht = smallscope.host_texts(ctx, 2 if ctx.quick else 3)
    cases += [(d, t, "hosts-x-expressions") for d in (("HIVE",) if ctx.quick else ("HIVE", "MYSQL")) for t in ht]
    # correspondence: parse, print in the same dialect, print in another dialect
    r = ctx.rng.fork("dialects")
    reqs = [pfam.req_parse(d, t) for d, t, _ in cases]
    ctx.corr(reqs, stream="parse")
    reqs = [pfam.req_print(d, d if r.chance(0.6) else r.choice(pfam.DIALECTS), t) for d, t, _ in cases]
    res, bad = ctx.corr(reqs, stream="print", nontrivial=lambda q, a: a.startswith("OK") and "S:" in a)
    for (req, a, b) in res[:3] + res[len(res) // 2:len(res) // 2 + 2]:
        ctx.sample({"request": req.split(" ")[:3], "input": E.unhex(req.split(" ")[3])[:200], "impl": a[:200], "model": b[:200]}, limit=8)
    # oracle on the implementation
    answers = E.run_impl(["RT %s %s" % (d, E.enhex(t)) for d, t, _ in cases])
    for (d, t, kind), a in zip(cases, answers):
        judge(ctx, d, t, a, "stream " + kind)
    for f in ctx.findings:
        if f.get("status") == "finding":
            w = f["witness"]
            a = E.run_impl(["RT %s %s" % (w["dialect"], E.enhex(w["input"]))])[0]
            if a.startswith("OK") and any(v and v.split("|")[0] not in FINE for v in a.split(" ")[1:]):
                ctx.report_known(f)
    # how much of what was explored falls under the hypotheses of the round-trip theorems (a measurement: evidence only)
    rr = ctx.rng.fork("theorem-coverage")
    ctx.cov["theorem_coverage"] = E.theorem_coverage([(d, t) for d, t, _ in rr.shuffle(cases)], 500 if ctx.quick else 6000)
    # a correspondence disagreement: the disagreeing input and its neighbours are the first candidates
    pfam.conclude(ctx, search)


def search(ctx):
    n = 20000 if ctx.quick else 200000
    cases = pfam.scripts(ctx.rng.fork("search"), n, wild=0.05, single=True)
    answers = E.run_impl(["RT %s %s" % (d, E.enhex(t)) for d, t, _ in cases])
    ctx.cov["evaluations"] += len(cases)
    for (d, t, kind), a in zip(cases, answers):
        judge(ctx, d, t, a, "search: directed generation")
        if ctx.violations:
            return


def replay(payload):
    a = E.run_impl(["RT %s %s" % (payload["dialect"], E.enhex(payload["input"]))])[0]
    print("input:", repr(payload["input"]), "dialect:", payload["dialect"])
    print("round trip:", a[:1000])
    bad = [v for v in a.split(" ")[1:] if v and v.split("|")[0] not in FINE] if a.startswith("OK") else []
    return 1 if bad else 0
