"""worker command of C19 (parser half): PC <dialect> <hex> = number of cursor operations of SQLParser.parse_statements(text, sql_type), counted from outside:
every call of a TokenScanner method (nested calls included: search_and_move_one_type_str is itself + search_one_type_str + move), plus one per child that a
comma split (pop_as_children_scanner_list_split_by) walks over.  `OK n` for an accepted text, `REJ n` for a text the parser rejects, the lexer's error kind
for a text without tokens.  PCD: the same with the counts broken down by the calling parser method (for calibrating the cost model)."""
import sys
import canon


def _run(parts, detail):
    from metasequoia_sql import SQLParser, SQLType
    from metasequoia_sql.common import TokenScanner
    from metasequoia_sql.errors import SqlParseError
    text, st = canon.unhex(parts[2]), SQLType[parts[1]]
    try:
        scanner = SQLParser._unify_input_scanner(text, sql_type=st)       # the lexer (and the dialect pre-pass): not cursor work
    except Exception as e:
        return canon.err_kind(e)
    n = [0]
    by = {}
    names = [k for k, v in vars(TokenScanner).items() if callable(v) and not k.startswith("__")]
    saved = {k: getattr(TokenScanner, k) for k in names}

    def mk(name, fn):
        def w(self, *a, **k):
            n[0] += 1
            extra = 0
            if name == "pop_as_children_scanner_list_split_by" and self._pos < self._len:
                extra = len(self._elements[self._pos].children)
                n[0] += extra
            if detail:
                fr = sys._getframe(1)
                while fr is not None and fr.f_code.co_filename.endswith("scanner.py"): fr = fr.f_back
                key = fr.f_code.co_name if fr is not None else "?"
                by[key] = by.get(key, 0) + 1 + extra
            return fn(self, *a, **k)
        return w
    for k in names: setattr(TokenScanner, k, mk(k, saved[k]))
    try:
        try:
            SQLParser.parse_statements(scanner, sql_type=st)
            out = "OK %d" % n[0]
        except SqlParseError:
            out = "REJ %d" % n[0]
        except Exception as e:
            out = canon.err_kind(e)
    finally:
        for k in names: setattr(TokenScanner, k, saved[k])
    if detail: out += " " + ",".join("%s=%d" % kv for kv in sorted(by.items()))
    return out


COMMANDS = {"PC": lambda parts: _run(parts, False), "PCD": lambda parts: _run(parts, True)}
