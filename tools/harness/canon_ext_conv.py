"""Worker command for C18 (implementation side); answer format as in `lean/MsqModel/Driver/CmdConv.lean`.

CONV <hex MySQL DDL> <hex helper calls | ->    parse as MySQL, apply helpers (change_type uses the shipped HASHMAP_MYSQL_TO_HIVE), print for
                                               HIVE and for MYSQL, re-parse each text with its own dialect; views of the original, of the
                                               edited and of the two re-parsed tables, and the printed texts
"""
import canon


def esc(s):
    """keep the view's separators | ; : ~ out of its components"""
    return "".join("~%x~" % ord(c) if c in "|;:~" else c for c in s)


def opt_s(s):
    return "None" if s is None else '"' + canon.q(s) + '"'


def col_view(c):
    return "%s:%s:%s:%s" % (esc(canon.q(c.column_name)), esc(canon.q(c.column_type.name)), esc(canon.dump(c.column_type.params)), esc(opt_s(c.comment)))


def view(t):
    return "%s:%s|%s|%s|%s" % (esc(opt_s(t.table_name.schema_name)), esc(canon.q(t.table_name.table_name)), ";".join(col_view(c) for c in t.columns),
                               ";".join(col_view(c) for c in t.partitioned_by), esc(opt_s(t.comment)))


def err_tok(e):
    return "E:" + canon.err_kind(e).replace(" ", "_")


def print_reparse(t, dn):
    from metasequoia_sql import SQLParser, SQLType
    from metasequoia_sql.core import node as N
    try:
        text = t.source(SQLType[dn])
    except Exception as e:
        return err_tok(e), "-"
    try:
        again = SQLParser.parse_statements(text, sql_type=SQLType[dn])
    except Exception as e:
        return "S:" + canon.q(text), err_tok(e)
    if len(again) != 1:
        return "S:" + canon.q(text), "N:%d" % len(again)
    if type(again[0]) is not N.ASTCreateTableStatement:
        return "S:" + canon.q(text), "NOTABLE"
    return "S:" + canon.q(text), view(again[0])


def cmd_conv(parts):
    from metasequoia_sql import SQLParser, SQLType
    from metasequoia_sql.core import node as N
    from metasequoia_sql.common.static import HASHMAP_MYSQL_TO_HIVE
    try:
        stmts = SQLParser.parse_statements(canon.unhex(parts[1]), sql_type=SQLType.MYSQL)
    except Exception as e:
        return canon.err_kind(e)
    if not stmts or type(stmts[0]) is not N.ASTCreateTableStatement:
        return "NOTABLE"
    t0 = stmts[0]
    cur, sts = t0, []
    for call in ([] if parts[2] == "-" else canon.unhex(parts[2]).split(";")):
        c = call.split(":")
        try:
            if c[0] == "stn" and len(c) == 3:
                arg = N.ASTTableNameExpression(schema_name=None if c[1] == "-" else canon.unhex(c[1]), table_name=canon.unhex(c[2]))
                fn = lambda: cur.set_table_name(arg)
            elif c[0] == "ct" and len(c) == 2:
                fn = lambda: cur.change_type(HASHMAP_MYSQL_TO_HIVE, remove_param=(c[1] == "1"))
            elif c[0] in ("ac", "apc") and len(c) == 2:
                arg = canon.parse_impl("define_column_expression", "MYSQL", canon.unhex(c[1]))[0]
                fn = (lambda: cur.append_column(arg)) if c[0] == "ac" else (lambda: cur.append_partition_by_column(arg))
            else:
                sts.append("BADCALL")
                continue
        except Exception:
            sts.append("BADARG")
            continue
        try:
            cur = fn()
            sts.append("ok")
        except Exception as e:
            sts.append(err_tok(e))
    ht, hv = print_reparse(cur, "HIVE")
    mt, mv = print_reparse(cur, "MYSQL")
    return "OK calls=%s v0=%s v1=%s hive=%s rh=%s mysql=%s rm=%s" % (",".join(sts) or "-", view(t0), view(cur), ht, hv, mt, mv)


COMMANDS = {"CONV": cmd_conv}
