"""Line coverage of the IMPLEMENTATION under the request streams of a check (how far the generators reach into the code the
hand-written models mirror).  Two halves:

* worker side (`start()` / `dump()`): `sys.monitoring` LINE events on every code object of /repo/metasequoia_sql, each location disabled
  after its first hit, so the cost is one callback per line per process; the hit set is written to $MSQ_COVER_DIR/<pid>.json at exit;
* framework side (`collect()`): union of the hit sets of all worker processes of a run, set against the executable lines of each
  module (`co_lines()` of the compiled source, recursively), summarised per module and per function.

Coverage is EVIDENCE about the reach of the correspondence, never a verdict: no check fails because of it.
"""
import json, os, sys

REPO = os.environ.get("MSQ_REPO", "/repo")
PKG = os.path.join(REPO, "metasequoia_sql")
_hits = set()
_branches = {}     # (module, function, source line, instruction offset) -> {destination line * 1e5 + destination offset}
_linetabs = {}


def start():
    mon = getattr(sys, "monitoring", None)
    if mon is None:
        return False
    tool = mon.COVERAGE_ID
    try:
        mon.use_tool_id(tool, "msq-cover")
    except ValueError:
        return False
    prefix = PKG + os.sep

    def on_line(code, line):
        fn = code.co_filename
        if fn.startswith(prefix):
            _hits.add((fn[len(prefix):], line))
        return mon.DISABLE

    def line_at(code, offset):
        tab = _linetabs.get(code)
        if tab is None:
            tab = _linetabs[code] = [p[0] for p in code.co_positions()]
        i = offset // 2
        return tab[i] if 0 <= i < len(tab) and tab[i] is not None else code.co_firstlineno

    def on_branch(code, src, dst):
        fn = code.co_filename
        if not fn.startswith(prefix):
            return mon.DISABLE
        key = (fn[len(prefix):], code.co_qualname, line_at(code, src), src)
        seen = _branches.setdefault(key, set())
        seen.add(line_at(code, dst) * 100000 + dst % 100000)
        return mon.DISABLE if len(seen) >= 2 else None

    mon.register_callback(tool, mon.events.LINE, on_line)
    mon.register_callback(tool, mon.events.BRANCH, on_branch)
    mon.set_events(tool, mon.events.LINE | mon.events.BRANCH)
    import atexit
    atexit.register(dump)
    return True


_wraps = {}


def watch_wrap_sites():
    """the printer's bracket rule: for every call site of `source_with_parenthesis` in core/node.py, how often the child needed brackets and how
    often it did not (a site that never sees a child above its level is a site whose model counterpart was never compared on its one decision)"""
    try:
        from metasequoia_sql.core import node as N
    except Exception:
        return
    orig = N.source_with_parenthesis

    def wrapped(expression, sql_type, max_level):
        res = orig(expression, sql_type, max_level)
        try:
            line = sys._getframe(1).f_lineno
            need = N.expression_level(expression) > max_level
            c = _wraps.setdefault(line, [0, 0])
            c[1 if need else 0] += 1
        except Exception:
            pass
        return res

    N.source_with_parenthesis = wrapped


def dump():
    d = os.environ.get("MSQ_COVER_DIR")
    if not d or not _hits:
        return
    try:
        os.makedirs(d, exist_ok=True)
        by = {}
        for f, l in _hits:
            by.setdefault(f, []).append(l)
        if _wraps:
            by["#wraps"] = {str(k): v for k, v in _wraps.items()}
        if _branches:
            by["#branches"] = [[m, q, l, o, sorted(v)] for (m, q, l, o), v in _branches.items()]
        tmp = os.path.join(d, "%d.tmp" % os.getpid())
        with open(tmp, "w") as f:
            json.dump(by, f)
        os.replace(tmp, os.path.join(d, "%d.json" % os.getpid()))
    except OSError:
        pass


# ---------------------------------------------------------------------------------------------------------
# framework side
# ---------------------------------------------------------------------------------------------------------

def executable_lines(path):
    """{line: qualified function name} for every line that carries code (module-level lines: '<module>')"""
    src = open(path, encoding="utf-8").read()
    top = compile(src, path, "exec")
    out = {}

    def walk(co, qual):
        for _, _, ln in co.co_lines():
            if ln is not None and ln > 0:
                out.setdefault(ln, qual)
        for c in co.co_consts:
            if hasattr(c, "co_lines"):
                name = c.co_name if qual == "<module>" else qual + "." + c.co_name
                walk(c, name)

    walk(top, "<module>")
    return out


def modules():
    res = []
    for root, _, files in os.walk(PKG):
        for f in sorted(files):
            if f.endswith(".py"):
                res.append(os.path.relpath(os.path.join(root, f), PKG))
    return sorted(res)


def collect(cover_dir, remove=True):
    """union of the worker dumps in cover_dir → {module: set(lines)}"""
    hits = {}
    if not os.path.isdir(cover_dir):
        return hits
    for f in os.listdir(cover_dir):
        p = os.path.join(cover_dir, f)
        if f.endswith(".json"):
            try:
                for m, ls in json.load(open(p)).items():
                    if m == "#wraps":
                        w = hits.setdefault("#wraps", {})
                        for k, (a, b) in ls.items():
                            c = w.setdefault(int(k), [0, 0])
                            c[0] += a
                            c[1] += b
                    elif m == "#branches":
                        b = hits.setdefault("#branches", {})
                        for mod, q, l, o, dsts in ls:
                            b.setdefault((mod, q, l, o), set()).update(dsts)
                    else:
                        hits.setdefault(m, set()).update(ls)
            except (OSError, ValueError):
                pass
        if remove:
            try:
                os.unlink(p)
            except OSError:
                pass
    if remove:
        try:
            os.rmdir(cover_dir)
        except OSError:
            pass
    return hits


# the modules the hand-written models mirror (H tie) and the ones the translator regenerates (G tie)
H_MODULES = ("core/parser.py", "core/node.py", "common/scanner.py", "analyzer/", "plugins/")
G_MODULES = ("lexical/", "common/basic.py", "core/static.py", "common/static.py")


def summarise(hits, detail_for=H_MODULES, max_funcs=40):
    """evidence block: per module executable / hit lines (function bodies only: module-level lines run at import), and the functions
    of the modelled modules that were never entered or only partly executed"""
    per, never, partly = {}, [], []
    tot_e = tot_h = 0
    for m in modules():
        if m.startswith("#"):
            continue
        ex = executable_lines(os.path.join(PKG, m))
        body = {l: q for l, q in ex.items() if q != "<module>"}
        h = hits.get(m, set())
        e_n, h_n = len(body), len([l for l in body if l in h])
        if e_n == 0:
            continue
        per[m] = {"executable": e_n, "hit": h_n}
        tot_e += e_n
        tot_h += h_n
        if any(m.startswith(p) for p in detail_for):
            funcs = {}
            for l, q in body.items():
                funcs.setdefault(q, [0, 0, []])
                funcs[q][0] += 1
                if l in h:
                    funcs[q][1] += 1
                else:
                    funcs[q][2].append(l)
            for q, (e, hh, miss) in sorted(funcs.items()):
                if hh == 0:
                    never.append("%s:%s" % (m, q))
                elif hh < e:
                    partly.append("%s:%s %d/%d missing %s" % (m, q, hh, e, _ranges(miss)))
    br = hits.get("#branches", {})
    one_way = sorted((m, l, q, sorted(d // 100000 for d in ds)) for (m, q, l, o), ds in br.items() if len(ds) < 2 and any(m.startswith(p) for p in detail_for))
    brep = {"branch_instructions_executed": len(br), "taken_both_ways": sum(1 for ds in br.values() if len(ds) >= 2),
            "one_way_only_in_modelled_modules": ["%s:%d [%s] only → line %s" % (m, l, q.split(".")[-1], ",".join(map(str, d))) for m, l, q, d in one_way][:max_funcs]
            + (["… %d more" % (len(one_way) - max_funcs)] if len(one_way) > max_funcs else [])}
    wraps = hits.get("#wraps", {})
    wsites = wrap_sites()
    wrep = {"sites": len(wsites), "seen_with_brackets_needed": sum(1 for l in wsites if wraps.get(l, [0, 0])[1] > 0),
            "seen_without": sum(1 for l in wsites if wraps.get(l, [0, 0])[0] > 0),
            "never_needed_brackets": ["core/node.py:%d" % l for l in wsites if wraps.get(l, [0, 0])[1] == 0]}
    return {"printer_bracket_sites": wrep, "branches": brep, "tool": "sys.monitoring LINE events in every worker process of this run (function bodies of /repo/metasequoia_sql)",
            "total": {"executable": tot_e, "hit": tot_h}, "modules": per,
            "functions_never_entered": never[:max_funcs] + (["… %d more" % (len(never) - max_funcs)] if len(never) > max_funcs else []),
            "functions_partly_executed": partly[:max_funcs] + (["… %d more" % (len(partly) - max_funcs)] if len(partly) > max_funcs else [])}


def wrap_sites():
    """line numbers of the call sites of source_with_parenthesis in core/node.py"""
    import ast
    path = os.path.join(PKG, "core", "node.py")
    out = []
    for n in ast.walk(ast.parse(open(path, encoding="utf-8").read())):
        if isinstance(n, ast.Call) and isinstance(n.func, ast.Name) and n.func.id == "source_with_parenthesis":
            out.append(n.lineno)
    return sorted(out)


def _ranges(ls):
    ls = sorted(ls)
    out, i = [], 0
    while i < len(ls):
        j = i
        while j + 1 < len(ls) and ls[j + 1] == ls[j] + 1:
            j += 1
        out.append(str(ls[i]) if i == j else "%d-%d" % (ls[i], ls[j]))
        i = j + 1
    return ",".join(out)
