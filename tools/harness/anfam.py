"""Shared pieces of the analyzer checks (C14-C16)."""
import engine as E


def corr(ctx, requests, stream="", nontrivial=None):
    """ctx.corr, but an implementation answer HANG (the worker's per-request timer, which also fires when all cores are
    saturated by a thorough run) is re-asked once, alone, before it counts as a disagreement.  Returns (results, disagreements)
    with the re-asked answers filled in."""
    n_broken = len(ctx.broken)
    res, bad = ctx.corr(requests, stream=stream, nontrivial=nontrivial)
    hung = [i for i, (q, a, b) in enumerate(res) if a == "HANG" and b != "HANG"]
    if not hung:
        return res, bad
    again = E.run_pairs([res[i][0] for i in hung], jobs=1)
    for i, x in zip(hung, again):
        res[i] = x
        ctx.count(stream + ":re-asked-after-HANG")
    bad = [(q, a, b) for (q, a, b) in res if a != b and not (a.startswith("UNMODELLED") or b.startswith("UNMODELLED"))]
    # replace the record of this stream's disagreements by what is left after re-asking
    del ctx.broken[n_broken:]
    if bad:
        q, a, b = bad[0]
        ctx.note_broken("correspondence", stream or "stream", "%d disagreement(s); first: request=%s impl=%s model=%s" % (len(bad), q[:200], a[:200], b[:200]))
    return res, bad
