"""Shared pieces of the analyzer checks (C14-C16)."""
import engine as E


def corr(ctx, requests, stream="", nontrivial=None):
    """ctx.corr, but an implementation answer HANG (the worker's per-request timer, which also fires when all cores are
    saturated by a thorough run) is re-asked once, alone, before it counts as a disagreement.  Returns (results, disagreements)
    with the re-asked answers filled in."""
    n_broken = len(ctx.broken)
    res, bad = ctx.corr(requests, stream=stream, nontrivial=nontrivial)
    hung = [i for i, (q, a, b) in enumerate(res) if a == "HANG" and b != "HANG"]
    if not hung:
        return res, bad
    again = E.run_pairs([res[i][0] for i in hung], jobs=1)
    for i, x in zip(hung, again):
        res[i] = x
        ctx.count(stream + ":re-asked-after-HANG")
    bad = [(q, a, b) for (q, a, b) in res if a != b and not (a.startswith("UNMODELLED") or b.startswith("UNMODELLED"))]
    # replace the record of this stream's disagreements by what is left after re-asking
    del ctx.broken[n_broken:]
    if bad:
        q, a, b = bad[0]
        ctx.note_broken("correspondence", stream or "stream", "%d disagreement(s); first: request=%s impl=%s model=%s" % (len(bad), q[:200], a[:200], b[:200]))
    return res, bad


KEYWORDS = ["SELECT", "DISTINCT", "FROM", "WHERE", "GROUP", "BY", "HAVING", "ORDER", "LIMIT", "OFFSET", "UNION", "ALL", "EXCEPT", "INTERSECT", "MINUS",
            "JOIN", "INNER", "LEFT", "RIGHT", "FULL", "OUTER", "CROSS", "ON", "USING", "AS", "AND", "OR", "NOT", "IN", "IS", "NULL", "LIKE", "BETWEEN",
            "EXISTS", "CASE", "WHEN", "THEN", "ELSE", "END", "WITH", "DESC", "ASC", "OVER", "PARTITION", "SORT", "DISTRIBUTE", "CLUSTER", "INSERT", "INTO",
            "CAST"]
_KW = None


def recase(rng, text, style=None):
    """rewrite the letter case of every keyword outside quoted text: upper (as generated), lower, Capitalised, or mixed per keyword / per letter.
    Identifiers, function names and literals are left alone."""
    import re
    global _KW
    if _KW is None:
        _KW = re.compile(r"(?<![A-Za-z0-9_.`])(" + "|".join(KEYWORDS) + r")(?![A-Za-z0-9_`])")
    style = style if style is not None else rng.choice(["upper", "upper", "lower", "lower", "capital", "mixed", "letters"])
    if style == "upper":
        return text, style

    def one(m):
        w = m.group(1)
        k = style if style != "mixed" else rng.choice(["upper", "lower", "capital", "letters"])
        if k == "lower": return w.lower()
        if k == "capital": return w.capitalize()
        if k == "letters": return "".join(c.lower() if rng.chance(0.5) else c for c in w)
        return w
    out, quote = [], None
    seg = []
    for c in text:                       # split into quoted / unquoted segments (', ", `)
        if quote:
            seg.append(c)
            if c == quote:
                out.append("".join(seg)); seg = []; quote = None
        elif c in "'\"`":
            out.append(_KW.sub(one, "".join(seg))); seg = [c]; quote = c
        else:
            seg.append(c)
    out.append(_KW.sub(one, "".join(seg)) if not quote else "".join(seg))
    return "".join(out), style
