#!/usr/bin/env python3
"""Generates MsqProofs/Lemmas/ParseNoPy.lean and ParseNoPyStmt.lean: outcome typing of the whole parser model.

For EVERY function of MsqModel/Parse/{Expr,Stmt,Entry}.lean whose result is `R _` / `Except Err _` one lemma

    NAME_nopy : ∀ args x, x.parserKind = false → NAME args ≠ .error x

(`Err.parserKind` = parse | fuel | unmodelled _, see MsqProofs/Lemmas/ParseNoPyPrim.lean, which holds the hand-written
lemmas about the cursor primitives of Prim.lean and the exact statement about `pyInt`).  The 80-function mutual block of
Expr.lean is done like tools/gen_mono.py does fuel monotonicity: one lemma per function under the induction hypothesis for
its callees (`structure NoPyF d f`), then the induction on the fuel.  Functions with a private loop counter or a structural
recursion get an induction on their first pattern argument.  Every entry of `PM.entries` is discharged from the lemma of the
function it wraps.  Development-time tool; the generated files are committed and re-checked by the kernel on every build."""
import re, os, sys
LEAN = os.path.join(os.path.dirname(os.path.dirname(os.path.abspath(__file__))), "lean")
rd = lambda p: open(os.path.join(LEAN, p), encoding="utf-8").read()

# lemmas proved by hand in ParseNoPyPrim.lean (name of the model function -> how it is used)
HAND = {"pop", "matchKw", "matchSeq", "popSrc", "headChildren", "popInt", "asInt", "popAsInt"}
SKIP = {"closed", "eachClosed", "pyInt", "exprEntry", "stmtEntry", "mapEntry"}   # special shapes, see ParseNoPyPrim.lean
KIND = "x.parserKind = false"


def balanced(s, i):
    """s[i] is an opening bracket; returns the index after its partner"""
    op, cl = s[i], {"(": ")", "{": "}", "[": "]"}[s[i]]
    d = 0
    while True:
        if s[i] == op: d += 1
        elif s[i] == cl:
            d -= 1
            if d == 0: return i + 1
        i += 1


def top_split(s, sep):
    out, d, cur, i = [], 0, "", 0
    while i < len(s):
        ch = s[i]
        if ch in "([{": d += 1
        elif ch in ")]}": d -= 1
        if d == 0 and s.startswith(sep, i):
            out.append(cur); cur = ""; i += len(sep); continue
        cur += ch; i += 1
    out.append(cur)
    return out


class Def:
    pass


def parse_defs(src):
    """all top-level `def`s of a model file, in order"""
    src = re.sub(r"/--.*?-/", lambda m: " " * len(m.group(0)), src, flags=re.S)     # doc comments may contain the word def
    starts = [m.start() for m in re.finditer(r"^def ", src, re.M)]
    ends = starts[1:] + [len(src)]
    out = []
    for a, b in zip(starts, ends):
        txt = src[a:b]
        stop = re.search(r"^(mutual|end|theorem|abbrev|namespace|open|/-!)", txt, re.M)
        if stop: txt = txt[:stop.start()]
        m = re.match(r"def (\w+)\s*", txt)
        d = Def(); d.name = m.group(1); d.text = txt
        i = m.end(); d.binders = []          # (bracket, names, type)
        while txt[i] in "({[":
            j = balanced(txt, i)
            inner = txt[i + 1:j - 1]
            names, ty = inner.split(":", 1)
            d.binders.append((txt[i], names.split(), ty.strip()))
            i = j
            while txt[i].isspace(): i += 1
        if txt.startswith(":=", i):           # `def pMsck := pKwTable [...] .msck`
            d.alias = txt[i + 2:].strip(); d.ret = None; d.arrows = []; d.body = d.alias
            out.append(d); continue
        assert txt[i] == ":", (d.name, txt[i:i + 20])
        i += 1
        # the type ends at `:=` (depth 0) or at a line that starts an equation
        depth, j = 0, i
        while True:
            if txt[j] in "([{": depth += 1
            elif txt[j] in ")]}": depth -= 1
            if depth == 0 and txt.startswith(":=", j): body_at = j + 2; break
            if depth == 0 and re.match(r"\n\s*\|", txt[j:]): body_at = j; break
            j += 1
        parts = [p.strip() for p in top_split(" ".join(txt[i:j].split()), "→")]
        d.alias = None; d.arrows = parts[:-1]; d.ret = parts[-1]; d.body = txt[body_at:]
        out.append(d)
    return out


def typed(d):
    return d.ret is not None and (d.ret.startswith("R ") or d.ret.startswith("Except Err"))


def xs(n, p="x"): return " ".join("%s%d" % (p, i) for i in range(n))
def uses(name, body): return re.search(r"(?<![\w.])%s\b" % re.escape(name), body) is not None


def binder_txt(d):
    return " ".join("%s%s : %s%s" % (b, " ".join(ns), ty, {"(": ")", "{": "}", "[": "]"}[b]) for b, ns, ty in d.binders)


def explicit_names(d):
    return [n for b, ns, _ in d.binders if b == "(" for n in ns]


def each_closed_haves(body, known):
    """`eachClosed P segs` needs the lemma of `P` as a premise: instantiate it up front"""
    out = []
    for k, m in enumerate(re.finditer(r"eachClosed\s+(\((?:[^()]|\([^()]*\))*\)|\w+)", body)):
        arg = m.group(1)
        inner = arg[1:-1].split() if arg.startswith("(") else [arg]
        assert inner[0] in known, inner
        out.append("  have hE%d := eachClosed_nopy %s (%s_nopy %s)" % (k, arg, inner[0], " ".join(inner[1:])))
    return out


GRIND = "grind (splits := 60) [%s]"


def lemma_for(d, known, block_names=()):
    """the lemma of a function outside the mutual block; `known` = functions that already have a lemma"""
    a = len(d.arrows)
    en = explicit_names(d)
    assert "x" not in en and not any(re.fullmatch(r"x\d+", n) for n in en), d.name
    app = " ".join([d.name] + en + ([xs(a)] if a else []))
    head = "theorem %s_nopy %s : ∀ %s, %s → %s ≠ .error x := by" % (d.name, binder_txt(d), (xs(a) + " x").strip(), KIND, app)
    if d.alias is not None:
        tgt = d.alias.split()[0]
        assert tgt in known, (d.name, tgt)
        return ["theorem %s_nopy : ∀ ts x, %s → %s ts ≠ .error x := by" % (d.name, KIND, d.name),
                "  intro ts x hx; unfold %s; exact %s_nopy _ _ ts x hx" % (d.name, tgt), ""]
    callees = [c for c in known if c != d.name and uses(c, d.body)]
    lem = ["Err.parserKind", "closed_nopy"] + ["%s_nopy" % c for c in callees]
    out = [head] + each_closed_haves(d.body, known)
    # split the unfolded body into its straight-line paths first, then close every path with `grind`: (1) `grind`'s own case
    # analysis identifies same-shaped matches of a long chain with each other and gets lost; (2) when `grind` meets a `match`
    # with overlapping patterns it adds auxiliary declarations (`….match_1.congr_eq_1._sparseCasesOn_2`) to the module, and two
    # modules that did so independently (ParseMono, ParseFrame*, this one) cannot be imported together.  `split` does not.
    close = "(try dsimp only at h) <;> (repeat' split at h) <;> " + GRIND % ", ".join(lem)
    if uses(d.name, d.body):      # private loop counter / structural recursion: induction on the first pattern argument
        assert a >= 1, d.name
        rest = xs(a)[3:].strip()
        out += ["  intro x0",
                "  induction x0 <;> intro %s x hx h <;> unfold %s at h <;> %s" % (rest, d.name, close)]
    else:
        out += ["  intro %s x hx h" % xs(a) if a else "  intro x hx h",
                "  unfold %s at h" % d.name,
                "  " + close]
    return out + [""]


HEADER = "/-! GENERATED by tools/gen_nopy.py — %s -/"

# ---------------------------------------------------------------- Expr.lean: helpers before the block, then the block
expr_src = rd("MsqModel/Parse/Expr.lean")
mpos = expr_src.index("\nmutual\n"); epos = expr_src.index("\nend\n", mpos)
pre = [d for d in parse_defs(expr_src[:mpos]) if typed(d) or d.alias]
known = sorted(HAND)      # sorted: the output must not depend on the hash seed
out = ["import MsqProofs.Lemmas.ParseNoPyPrim",
       HEADER % "outcome typing of the expression / SELECT parser model: no function returns an error outside `Err.parserKind`",
       "open Lex PM Ast", "namespace PM", ""]
for d in pre:
    if d.name in SKIP or d.name in HAND: continue
    out += lemma_for(d, known); known.append(d.name)

block = expr_src[mpos:epos]
defs = list(re.finditer(r"^def (\w+) \(d : Gen\.D\) : Nat → (.*)$", block, re.M))
funcs = []
for i, m in enumerate(defs):
    sig = m.group(2)
    arrows = len(top_split(sig, "→")) - 1
    body = block[m.end():defs[i + 1].start() if i + 1 < len(defs) else len(block)]
    funcs.append((m.group(1), arrows, body))
names = [f[0] for f in funcs]
arity = dict((f[0], f[1]) for f in funcs)
out.append("/-- no function of the mutual block returns, with fuel `f`, an error outside `Err.parserKind` -/")
out.append("structure NoPyF (d : Gen.D) (f : Nat) : Prop where")
for n, a, _ in funcs:
    out.append(f"  {n} : ∀ {xs(a)} x, {KIND} → {n} d f {xs(a)} ≠ .error x")
out.append("")
for n, a, body in funcs:
    inblock = [c for c in names if uses(c, body)]
    outside = [c for c in known if uses(c, body)]
    out.append(f"theorem noPyF_{n} (d : Gen.D) (f : Nat) (ih : NoPyF d f) : ∀ {xs(a)} x, {KIND} → {n} d (f+1) {xs(a)} ≠ .error x := by")
    out.append(f"  intro {xs(a)} x hx h")
    for c in inblock:
        out.append(f"  have h_{c} := ih.{c}")
    out.append("  clear ih")
    out.append(f"  unfold {n} at h")
    out.append("  (try dsimp only at h) <;> (repeat' split at h) <;> " + GRIND % ", ".join(["Err.parserKind", "closed_nopy"] + ["%s_nopy" % c for c in outside]))
    out.append("")
out.append("theorem fuel_nopy {α : Type} (x : Err) (hx : x.parserKind = false) : (Except.error Err.fuel : Except Err α) ≠ .error x := by")
out.append("  intro h; cases h; cases hx")
out.append("")
out.append("theorem noPyF (d : Gen.D) : ∀ f, NoPyF d f := by")
out.append("  intro f")
out.append("  induction f with")
out.append("  | zero => constructor <;> (intros; simp only [" + ", ".join(names) + "]; exact fuel_nopy _ ‹_›)")
out.append("  | succ f ih => exact ⟨" + ", ".join(f"noPyF_{n} d f ih" for n in names) + "⟩")
out.append("")
for n, a, _ in funcs:
    out.append(f"theorem {n}_nopy (d : Gen.D) (f : Nat) : ∀ {xs(a)} x, {KIND} → {n} d f {xs(a)} ≠ .error x := (noPyF d f).{n}")
out += ["", "end PM"]
open(os.path.join(LEAN, "MsqProofs/Lemmas/ParseNoPy.lean"), "w", encoding="utf-8").write("\n".join(out) + "\n")
known += names
n_expr = len(pre) + len(funcs)

# ---------------------------------------------------------------- Stmt.lean, Entry.lean
out = ["import MsqProofs.Lemmas.ParseNoPy",
       HEADER % "outcome typing of the statement level of the parser model and of every entry of `PM.entries`",
       "open Lex PM Ast", "namespace PM", ""]
stmt_defs = [d for d in parse_defs(rd("MsqModel/Parse/Stmt.lean")) if typed(d) or d.alias]
entry_src = rd("MsqModel/Parse/Entry.lean")
entry_defs = [d for d in parse_defs(entry_src) if typed(d) and d.name not in ("parseText", "parseStatementsText")]
other = []
for d in stmt_defs + entry_defs:
    if d.name in SKIP or d.name in HAND: continue
    out += lemma_for(d, known); known.append(d.name); other.append(d)

# the functions outside the block, collected in one structure (so that "every function" is one statement)
allo = [d for d in pre if d.name not in SKIP and d.name not in HAND] + other
out.append("/-- no function outside the mutual block (helpers of Expr.lean, statement level, entry helpers) returns an error outside")
out.append("`Err.parserKind`; the cursor primitives are in `ParseNoPyPrim.lean` -/")
out.append("structure NoPyS (d : Gen.D) (f : Nat) : Prop where")
proofs = []
for dd in allo:
    qs, args = [], []
    for b, ns, ty in dd.binders:
        assert b == "(", dd.name
        for nme in ns:
            if (nme, ty) in (("d", "Gen.D"), ("f", "Nat")):
                assert not qs, dd.name      # the ambient dialect and fuel come first
                args.append(nme)
            else:
                qs.append("(%s : %s)" % (nme, ty)); args.append(nme)
    a = len(dd.arrows) if dd.alias is None else 1
    var = " ".join(qs + ([xs(a)] if a else []) + ["x"])
    out.append("  %s : ∀ %s, %s → %s ≠ .error x" % (dd.name, var, KIND, " ".join([dd.name] + args + ([xs(a)] if a else []))))
    proofs.append("  %s := %s" % (dd.name, " ".join(["%s_nopy" % dd.name] + [x for x in args if x in ("d", "f")])))
out.append("")
out.append("theorem noPyS (d : Gen.D) (f : Nat) : NoPyS d f where")
out += proofs
out.append("")

# ---------------------------------------------------------------- PM.entries
m = re.search(r"def entries : List \(String × Entry\) := \[\n(.*?)\]\n", entry_src, re.S)
lines = [l.strip() for l in m.group(1).split("\n") if l.strip()]
ent = []
for l in lines:
    mm = re.match(r'\("(\w+)",\s*(.*)\),?$', l)
    ent.append((mm.group(1), mm.group(2)))


def read_arg(s):
    s = s.strip()
    if s.startswith("("):
        j = balanced(s, 0); return s[:j], s[j:]
    mm = re.match(r"[\w.]+", s); return mm.group(0), s[mm.end():]


def lemmas_in(body):
    return ["Err.parserKind", "closed_nopy"] + ["%s_nopy" % c for c in known if uses(c, body)]


def entry_proof(expr):
    mm = re.match(r"(exprEntry|stmtEntry|mapEntry)\s+(.*)$", expr)
    if mm:
        F, rest = read_arg(mm.group(2))
        V = read_arg(rest)[0] if mm.group(1) == "mapEntry" else None
        if F.startswith("("):
            prf = "(by intro d f ts x hx h; (try dsimp only at h); (repeat' split at h) <;> %s)" % (GRIND % ", ".join(lemmas_in(F)))
        else:
            assert F in known, F
            prf = "%s_nopy" % F
        return "exact %s_nopy %s %s%s" % (mm.group(1), F, (V + " ") if V else "", prf)
    return "intro d f ts x hx h; (try dsimp only at h); (repeat' split at h) <;> %s" % (GRIND % ", ".join(lemmas_in(expr)))


out.append("/-- every public entry point of the model (`SQLParser.parse_*` after lexing), on every token list and with every fuel -/")
out.append("theorem entries_nopy : ∀ p ∈ entries, ∀ d f ts x, %s → p.2 d f ts ≠ .error x := by" % KIND)
out.append("  unfold entries")
out.append("  simp only [List.forall_mem_cons]")
out.append("  refine ⟨" + ", ".join("?_" for _ in ent) + ", by simp⟩")
for nme, expr in ent:
    out.append("  · " + entry_proof(expr) + "   -- " + nme)
out += ["", "end PM"]
open(os.path.join(LEAN, "MsqProofs/Lemmas/ParseNoPyStmt.lean"), "w", encoding="utf-8").write("\n".join(out) + "\n")
print(n_expr, "functions of Expr.lean,", len(other), "of Stmt.lean/Entry.lean,", len(ent), "entries")
