#!/usr/bin/env python3
"""Generates the frame lemmas of C10 for the parser model (development-time tool; the generated files are committed and
re-checked by the kernel on every build):

  lean/MsqProofs/Lemmas/ParseFrameDefs.lean   structure FrameF X d n m (one field per function of the mutual block of
                                              MsqModel/Parse/Expr.lean that gets a cursor), the grind patterns, the
                                              fuel-monotonicity wrappers
  lean/MsqProofs/Lemmas/ParseFrameE<i>.lean   one lemma per field: the step n+1 / m+1 under the hypothesis FrameF … n m
  lean/MsqProofs/Lemmas/ParseFrame.lean       the induction on the fuel: frameF_all : n < m → FrameF (semi :: Y) d n m
  lean/MsqProofs/Lemmas/ParseFrameStmt.lean   frame_f for every function of MsqModel/Parse/Stmt.lean

Shape of every lemma (X = semi :: Y, IsSemi semi, Y arbitrary; see MsqProofs/Lemmas/ParseFrame0.lean):

    FrameRel X (f … n ts) (f … m (ts ++ X))        i.e.  f … n ts = ok (v, r) → f … m (ts ++ X) = ok (v, r ++ X)     (n < m)

The fuel of the framed run is LARGER (n < m): `pKwRest` returns at the end of the list without a call but asks `pKwBody`
about the `;` it now sees, and the private loop counters are computed from the (longer) cursor.
Functions that only ever run on the children of a bracket group (their cursor is not the framed one) get no field; they are
used through fuel monotonicity (MsqProofs/Lemmas/ParseMono.lean).  Functions with two cursors (`same` flag: the look-ahead is on
the outer cursor, the parse on the inner one) get one field per mode."""
import re, sys, os
LEAN = os.path.join(os.path.dirname(os.path.dirname(os.path.abspath(__file__))), "lean")
rd = lambda p: open(os.path.join(LEAN, p), encoding="utf-8").read()
def wr(p, lines):
    open(os.path.join(LEAN, p), "w", encoding="utf-8").write("\n".join(lines) + "\n")

# ------------------------------------------------------------------------------------------------ the mutual block
src = rd("MsqModel/Parse/Expr.lean")
m0 = src.index("\nmutual\n"); e0 = src.index("\nend\n", m0)
block = src[m0:e0]
defs = list(re.finditer(r"^def (\w+) \(d : Gen\.D\) : Nat → (.*)$", block, re.M))
FUN = {}      # name -> (arity after fuel, body)
ORDER = []
for i, dm in enumerate(defs):
    sig = dm.group(2); depth = 0; arrows = 0
    for ch in sig:
        if ch in "([": depth += 1
        elif ch in ")]": depth -= 1
        elif ch == "→" and depth == 0: arrows += 1
    body = block[dm.end():defs[i + 1].start() if i + 1 < len(defs) else len(block)]
    FUN[dm.group(1)] = (arrows, body); ORDER.append(dm.group(1))

def xs(n, p="x"): return ["%s%d" % (p, i) for i in range(n)]
def uses(name, body): return re.search(r"(?<![\w.])%s\b" % re.escape(name), body) is not None

# functions whose cursor is never the framed one (children of a bracket group only) or whose result has no cursor
CHILDREN_ONLY = {"pFirstDiscard", "pFirstArg", "pArgs", "pSplit", "pExtractTail", "pWindowBody", "pPartitionBy",
                 "pGroupingElem", "pClosedEach", "pGroupingElems"}
OPTION_RESULT = {"pKwBody", "pBetween", "pInBody"}
SIDE = {"pOptOr": ("x0", 'x0 ≠ ";"'), "pByList": ("x0", 'x0 ≠ ";"')}     # keyword parameter must not be the separator


class Field:
    """one field of FrameF: ∀ vars, [side →] rel (fn d n srcargs) (fn d m tgtargs)"""
    def __init__(s, name, fn, vars_, srcargs, tgtargs, rel, side=None):
        s.name, s.fn, s.vars, s.src, s.tgt, s.rel, s.side = name, fn, vars_, srcargs, tgtargs, rel, side
    def stmt(s, X, n, m):
        rel = {"F": "FrameRel %s" % X, "O": "FrameRelO %s" % X, "M": "MonoRel"}[s.rel]
        app = lambda fuel, args: "(PM.%s d %s %s)" % (s.fn, fuel, " ".join(a.replace("X", X) for a in args))
        side = (s.side + " → ") if s.side else ""
        return "∀ %s, %s%s %s %s" % (" ".join(s.vars), side, rel, app(n, s.src), app(m, s.tgt))
    def pattern(s):
        return "FrameF X d n m, PM.%s d n %s" % (s.fn, " ".join(s.src))


def fields_of(fn):
    a, _ = FUN[fn]
    v = xs(a - 1) + ["ts"]
    if fn in CHILDREN_ONLY: return []
    if fn in ("pNamed", "pQualified"):          # Tok → rest → whole cursor: both lists are the framed cursor
        return [Field(fn, fn, ["x0", "r0", "ts"], ["x0", "r0", "ts"], ["x0", "(r0 ++ X)", "(ts ++ X)"], "F")]
    if fn in ("pJoins", "pLaterals"):            # same outer acc inner
        return [Field(fn + "_A", fn, ["outer", "acc", "inner"], ["true", "outer", "acc", "inner"], ["true", "outer", "acc", "(inner ++ X)"], "F"),
                Field(fn + "_B", fn, ["outer", "acc", "inner"], ["false", "outer", "acc", "inner"], ["false", "(outer ++ X)", "acc", "inner"], "M")]
    if fn == "pSelectBody":                      # withs same outer inner
        return [Field(fn + "_A", fn, ["w", "outer", "inner"], ["w", "true", "outer", "inner"], ["w", "true", "outer", "(inner ++ X)"], "F"),
                Field(fn + "_B", fn, ["w", "outer", "inner"], ["w", "false", "outer", "inner"], ["w", "false", "(outer ++ X)", "inner"], "M")]
    if fn == "pSelectRest":                      # withs dist cols same outer inner
        return [Field(fn + "_A", fn, ["w", "di", "co", "outer", "inner"], ["w", "di", "co", "true", "outer", "inner"], ["w", "di", "co", "true", "outer", "(inner ++ X)"], "F"),
                Field(fn + "_B", fn, ["w", "di", "co", "outer", "inner"], ["w", "di", "co", "false", "outer", "inner"], ["w", "di", "co", "false", "(outer ++ X)", "inner"], "M")]
    if fn == "pSingleParen":                     # withs outer stack inner: the framed cursor is the outer one
        return [Field(fn, fn, ["w", "outer", "st", "inner"], ["w", "outer", "st", "inner"], ["w", "(outer ++ X)", "st", "inner"], "F")]
    side = SIDE.get(fn, (None, None))[1]
    return [Field(fn, fn, v, v, v[:-1] + ["(ts ++ X)"], "O" if fn in OPTION_RESULT else "F", side)]


FIELDS = [f for fn in ORDER for f in fields_of(fn)]

HEAD = "/-! GENERATED by tools/gen_frame.py — %s -/"
OPTS = ["set_option linter.unusedVariables false", "set_option linter.unusedSectionVars false", "set_option maxHeartbeats 1000000"]

# ---------------------------------------------------------------------------------------------------- ParseFrameDefs
out = ["import MsqProofs.Lemmas.ParseFrame0", "import MsqProofs.Lemmas.ParseMono",
       HEAD % "C10: the induction hypothesis of the frame lemmas for the mutual block of MsqModel/Parse/Expr.lean",
       "open Lex PM", "namespace PM", "",
       "/-- every cursor-taking function of the mutual block, at fuel `n`, is framed by the same function at fuel `m` -/",
       "structure FrameF (X : List Tok) (d : Gen.D) (n m : Nat) : Prop where", "  le : n ≤ m"]
for f in FIELDS: out.append("  %s : %s" % (f.name, f.stmt("X", "n", "m")))
out.append("")
for f in FIELDS: out.append("grind_pattern FrameF.%s => %s" % (f.name, f.pattern()))
out.append("")
out.append("/-! fuel monotonicity (MsqProofs/Lemmas/ParseMono.lean) in the form `grind` is given: once per call of the original run -/")
for fn in ORDER:
    a, _ = FUN[fn]; v = " ".join(xs(a))
    out.append("theorem FrameF.m_%s {X d n m} (ih : FrameF X d n m) %s : MonoRel (PM.%s d n %s) (PM.%s d m %s) :=" % (fn, " ".join("(%s)" % x for x in xs(a)), fn, v, fn, v))
    out.append("  fun r h => (monoF d n).%s %s r m h ih.le" % (fn, v))
    out.append("grind_pattern FrameF.m_%s => FrameF X d n m, PM.%s d n %s" % (fn, fn, v))
out += ["", "end PM"]
wr("MsqProofs/Lemmas/ParseFrameDefs.lean", out)

# ---------------------------------------------------------------------------------------------------- step lemmas
CTX = ["  have hX : SemiHead (semi :: Y) := SemiHead.mk' hs Y",
       "  have hN := hs.name; have hP := hs.paren; have hL := hs.literal; have hA := hs.array",
       "  have hS := hs.src; have hU := hs.upSrc; have hC := hs.children"]
TABLES = [("computeOp?", "  have hT1 := computeOp_semi"), ("compareOp?", "  have hT2 := compareOp_semi"),
          ("Gen.notSet", "  have hT3 := notSet_semi d"), ("Gen.unarySet", "  have hT4 := unarySet_semi d"),
          ("Gen.joinTypes", "  have hT5 := joinTypes_noSemi"), ("Gen.unionTypes", "  have hT6 := unionTypes_noSemi")]
EXTRA = {"pKwRest": ["  have hB : ∀ isNot bv r2, pKwBody d (m+1) \";\" isNot bv r2 = .ok none := by",
                     "    intro isNot bv r2; simp [pKwBody]"]}
GRIND = "grind -funext (splits := %d) (gen := 40) (instances := 20000) [closed_ok]"
SPLITS = {}


def step_lemma(f):
    _, body = FUN[f.fn]
    X = "(semi :: Y)"
    needs_lt = f.fn in EXTRA
    out = ["theorem frameF_%s (n m : Nat) (hm : n < m) (ih : FrameF %s d n m) :" % (f.name, X),
           "    %s := by" % f.stmt(X, "(n+1)", "(m+1)")]
    intro = " ".join(f.vars) + (" hk" if f.side else "")
    tail = CTX + [l for k, l in TABLES if k in body]
    if f.fn == "pKwRest":
        tail += ["  obtain ⟨m, rfl⟩ : ∃ k, m = k + 1 := ⟨m - 1, by omega⟩"] + EXTRA["pKwRest"]
    g = GRIND % SPLITS.get(f.name, 60)
    if f.rel == "F":
        out += ["  intro %s v r h" % intro] + tail + ["  unfold %s at h ⊢" % f.fn, "  " + g]
    elif f.rel == "M":
        out += ["  intro %s r h" % intro] + tail + ["  unfold %s at h ⊢" % f.fn, "  " + g]
    else:
        out += ["  intro %s" % intro] + tail + ["  constructor",
                "  · intro v r h", "    unfold %s at h ⊢" % f.fn, "    " + g,
                "  · intro h", "    unfold %s at h ⊢" % f.fn, "    " + g]
    return out + [""]


NFILES = 6
chunks = [[] for _ in range(NFILES)]
for i, f in enumerate(FIELDS): chunks[i % NFILES].append(f)
for i, ch in enumerate(chunks):
    out = ["import MsqProofs.Lemmas.ParseFrameDefs", HEAD % ("C10: frame lemmas, fuel step, part %d of %d" % (i + 1, NFILES))] + OPTS + \
          ["open Lex PM", "namespace PM", "variable {semi : Tok} (hs : IsSemi semi) (Y : List Tok) (d : Gen.D)", "include hs", ""]
    for f in ch: out += step_lemma(f)
    out += ["end PM"]
    wr("MsqProofs/Lemmas/ParseFrameE%d.lean" % (i + 1), out)

# ---------------------------------------------------------------------------------------------------- the induction
out = ["import MsqProofs.Lemmas.ParseFrameE%d" % (i + 1) for i in range(NFILES)] + \
      [HEAD % "C10: frame lemmas for the mutual block of MsqModel/Parse/Expr.lean, induction on the fuel"] + OPTS + \
      ["open Lex PM", "namespace PM", "variable {semi : Tok} (hs : IsSemi semi) (Y : List Tok) (d : Gen.D)", "include hs", "",
       "/-- what every function of the expression / SELECT parser parses does not depend on what follows a separator -/",
       "theorem frameF_all : ∀ n m, n < m → FrameF (semi :: Y) d n m := by",
       "  intro n",
       "  induction n with",
       "  | zero =>",
       "    intro m hm",
       "    constructor <;> first | omega | (intros; simp [FrameRel, FrameRelO, MonoRel, %s])" % ", ".join(sorted(set(f.fn for f in FIELDS))),
       "  | succ n ih =>",
       "    intro m hm",
       "    obtain ⟨k, rfl⟩ : ∃ k, m = k + 1 := ⟨m - 1, by omega⟩",
       "    have hk : n < k := by omega",
       "    have ihk := ih k hk",
       "    exact ⟨by omega, " + ", ".join("frameF_%s hs Y d n k hk ihk" % f.name for f in FIELDS) + "⟩",
       ""]
out.append("/-! ### the same, function by function, in plain form -/")
for f in FIELDS:
    X = "(semi :: Y)"
    app = lambda fuel, args: "PM.%s d %s %s" % (f.fn, fuel, " ".join(a.replace("X", X) for a in args))
    vs = " ".join(f.vars); side = (f.side + " → ") if f.side else ""; hk = " hk" if f.side else ""
    if f.rel == "F":
        out += ["theorem %s_framed (n m : Nat) (hnm : n < m) : ∀ %s v r, %s%s = .ok (v, r) → %s = .ok (v, r ++ semi :: Y) :=" % (f.name, vs, side, app("n", f.src), app("m", f.tgt)),
                "  fun %s v r%s h => (frameF_all hs Y d n m hnm).%s %s%s v r h" % (vs, hk, f.name, vs, hk)]
    elif f.rel == "M":
        out += ["theorem %s_framed (n m : Nat) (hnm : n < m) : ∀ %s x, %s = .ok x → %s = .ok x :=" % (f.name, vs, app("n", f.src), app("m", f.tgt)),
                "  fun %s x h => (frameF_all hs Y d n m hnm).%s %s x h" % (vs, f.name, vs)]
    else:
        out += ["theorem %s_framed (n m : Nat) (hnm : n < m) : ∀ %s," % (f.name, vs),
                "    (∀ v r, %s = .ok (some (v, r)) → %s = .ok (some (v, r ++ semi :: Y))) ∧ (%s = .ok none → %s = .ok none) :=" % (app("n", f.src), app("m", f.tgt), app("n", f.src), app("m", f.tgt)),
                "  fun %s => (frameF_all hs Y d n m hnm).%s %s" % (vs, f.name, vs)]
out += ["", "end PM"]
wr("MsqProofs/Lemmas/ParseFrame.lean", out)

# ------------------------------------------------------------------------------------------------ statement level
# (function, flags, arguments in order; "ts" is the framed cursor)   flags: fuel = takes `d f`; loop = private counter first;
# mono = only fuel monotonicity is needed (runs on the segments of a bracket group only); side = keyword parameters
STMT = [
    ("pTblName", "", ["ts"]), ("pInsertType", "", ["ts"]), ("configStringLoop", "loop", ["acc", "ts"]), ("pConfigString", "", ["ts"]),
    ("pConfigStrExpr", "", ["ts"]), ("pColType", "fuel", ["ts"]), ("pPartitionItem", "fuel mono", ["ts"]),
    ("pPartition", "fuel", ["already", "ts"]), ("pFkAction", "", ["ts"]), ("pOptFkAction", "side:a,b", ["ts", "a", "b"]),
    ("pNameList", "", ["ts"]), ("pForeignKey", "", ["ts"]), ("pIndexCols", "", ["ts"]), ("pOptSrc", "side:k", ["ts", "k"]),
    ("pIndexTail", "", ["kind", "name", "ts"]), ("pPrimaryIndex", "", ["ts"]), ("pNamedIndex", "", ["kind", "kws", "ts"]),
    ("pUniqueIndex", "alias:pNamedIndex", ["ts"]), ("pNormalIndex", "alias:pNamedIndex", ["ts"]), ("pFulltextIndex", "alias:pNamedIndex", ["ts"]),
    ("pGenerated", "fuel", ["ts"]), ("defColLoop", "fuel loop", ["c", "ts"]), ("pDefCol", "fuel", ["ts"]), ("pColOrIdx", "fuel", ["ts"]),
    ("pWhereOrderLimit", "fuel", ["ts"]), ("valuesLoop", "fuel loop", ["acc", "ts"]), ("pOptPartition", "fuel", ["ts"]),
    ("pOptColumns", "", ["ts"]), ("pWithOpt", "fuel", ["w", "ts"]), ("pInsert", "fuel", ["w", "ts"]), ("pSet", "", ["ts"]),
    ("optEqSrc", "", ["ts"]), ("createElems", "fuel mono struct", ["segs", "c"]), ("createOpts", "fuel loop", ["c", "ts"]),
    ("pCreateTable", "fuel swallow", ["ts"]), ("pDropTable", "", ["ts"]), ("pAnalyze", "fuel", ["ts"]), ("pAlterExpr", "fuel", ["ts"]),
    ("alterLoop", "fuel loop", ["acc", "ts"]), ("pAlter", "fuel", ["ts"]), ("pKwTable", "", ["kws", "mk", "ts"]),
    ("pMsck", "alias:pKwTable", ["ts"]), ("pTruncate", "alias:pKwTable", ["ts"]), ("pUse", "", ["ts"]),
    ("pUpdateSetCol", "fuel", ["ts"]), ("updateSetLoop", "fuel loop", ["acc", "ts"]), ("pUpdateSet", "fuel", ["ts"]),
    ("pUpdate", "fuel", ["w", "ts"]), ("pDelete", "fuel", ["ts"]), ("pFromClause", "fuel", ["ts"]), ("pShowColumns", "fuel", ["ts"]),
    ("pStatement", "fuel swallow", ["ts"]),
]
stmt_src = rd("MsqModel/Parse/Stmt.lean")
stmt_defs = set(re.findall(r"^def (\w+)", stmt_src, re.M))
_starts = [(m.group(1), m.start()) for m in re.finditer(r"^def (\w+)", stmt_src, re.M)]
SBODY = {n: stmt_src[a:(_starts[i + 1][1] if i + 1 < len(_starts) else len(stmt_src))] for i, (n, a) in enumerate(_starts)}
SFUEL = {}     # statement-level functions that take the fuel -> (loop?, number of arguments after `d f [g]`)


def kws_haves(body, indent="  "):
    """the keyword sequences a `searchSeq` look-ahead compares with: none of them is the separator (evaluated by the kernel)"""
    out = []
    for i, lit in enumerate(sorted(set(re.findall(r"searchSeq \w+ (\[[^\]]*\])", body)))):
        out.append('%shave hK%d : kwsNoSemi %s = true := by decide' % (indent, i, lit))
    return out


def mono_haves(fn, indent="  "):
    """fuel monotonicity of the callees as plain implications (the form tools/gen_mono.py uses)"""
    body = SBODY[fn]; out = []
    for c in ORDER:
        if uses(c, body):
            a = FUN[c][0]; y = " ".join(xs(a, "y"))
            out.append("%shave m_%s := fun %s r hh => hF.m_%s %s r hh" % (indent, c, y, c, y))
    for c, (lp, a) in SFUEL.items():
        if c != fn and uses(c, body):
            y = " ".join(xs(a + (1 if lp else 0), "y"))
            out.append("%shave m_%s := fun %s r hh => mono_%s hF %s r hh" % (indent, c, y, c, y))
    for c in ("pCompute", "pPartitionItem", "pDefCol"):
        if re.search(r"eachClosed \(%s d f\)" % c, body):
            out.append("%shave me_%s := fun segs r hh => mono_each_%s hF segs r hh" % (indent, c, c))
    return out

covered = {s[0] for s in STMT} | {"eachClosed", "popSplit", "pIndexCol", "pColumnName", "emptyCreate", "statementsLoop"}
assert stmt_defs <= covered, stmt_defs - covered       # a new function of Stmt.lean must be classified here

# the hypothesis about the original run is split completely first: grind then only has to follow the framed run along
# known equations (splitting both runs independently doubles the work at every sequential step)
SG = "(repeat' (split at h)) <;> grind -funext (splits := %d) (gen := 40) (instances := 20000) [closed_ok]"
MG = "(repeat' (split at h)) <;> grind -funext (splits := 60) [closed_ok]"
HX = "{X : List Tok} (hX : SemiHead X)"
HF = "{d : Gen.D} {f f' : Nat} (hF : FrameF X d f f')"
OPEN = ["  have hX' := hX", "  obtain ⟨semi, Y, rfl, hs⟩ := hX"]
CTX2 = ["  have hN := hs.name; have hP := hs.paren; have hL := hs.literal; have hA := hs.array",
        "  have hS := hs.src; have hU := hs.upSrc; have hC := hs.children"]


def call(fn, fuel, f, args, X=None):
    a = " ".join(("(ts ++ %s)" % X) if (x == "ts" and X) else x for x in args)
    return "(PM.%s %s%s)" % (fn, ("d %s " % f) if fuel else "", a)


def stmt_lemmas(fn, flags, args):
    fl = flags.split()
    fuel, loop, mono_only, swallow, struct = "fuel" in fl, "loop" in fl, "mono" in fl, "swallow" in fl, "struct" in fl
    side = [x for x in fl if x.startswith("side:")]
    side = side[0][5:].split(",") if side else []
    alias = [x for x in fl if x.startswith("alias:")]
    out = []
    v = " ".join(args)
    if alias:
        tgt = alias[0][6:]
        out += ["theorem frame_%s %s : ∀ ts, FrameRel X (PM.%s ts) (PM.%s (ts ++ X)) := by" % (fn, HX, fn, fn),
                "  intro ts; unfold %s; exact frame_%s hX %s ts" % (fn, tgt, " ".join("_" for _ in range({"pNamedIndex": 2, "pKwTable": 2}[tgt]))),
                "grind_pattern frame_%s => SemiHead X, PM.%s ts, PM.%s (ts ++ X)" % (fn, fn, fn), ""]
        return out
    # ---- fuel monotonicity (functions that take the fuel)
    if fuel:
        if loop:
            out += ["theorem mono_%s {X : List Tok} %s : ∀ g %s, MonoRel (PM.%s d f g %s) (PM.%s d f' g %s) := by" % (fn, HF, v, fn, v, fn, v),
                    "  intro g", "  induction g with",
                    "  | zero => intro %s r h; simp [%s] at h" % (v, fn),
                    "  | succ g ih =>", "    intro %s r h" % v] + mono_haves(fn, "    ") + ["    clear hF", "    unfold %s at h ⊢" % fn, "    " + MG,
                    "grind_pattern mono_%s => FrameF X d f f', PM.%s d f g %s" % (fn, fn, v), ""]
        elif struct:
            out += ["theorem mono_%s {X : List Tok} %s : ∀ %s, MonoRel (PM.%s d f %s) (PM.%s d f' %s) := by" % (fn, HF, v, fn, v, fn, v),
                    "  intro %s" % args[0], "  induction %s with" % args[0],
                    "  | nil => intro %s r h; simpa [%s] using h" % (" ".join(args[1:]), fn),
                    "  | cons sg rest ih =>", "    intro %s r h" % " ".join(args[1:])] + mono_haves(fn, "    ") + ["    clear hF", "    unfold %s at h ⊢" % fn, "    " + MG,
                    "grind_pattern mono_%s => FrameF X d f f', PM.%s d f %s" % (fn, fn, v), ""]
        else:
            out += ["theorem mono_%s {X : List Tok} %s : ∀ %s, MonoRel (PM.%s d f %s) (PM.%s d f' %s) := by" % (fn, HF, v, fn, v, fn, v),
                    "  intro %s r h" % v] + mono_haves(fn) + ["  clear hF", "  unfold %s at h ⊢" % fn, "  " + MG,
                    "grind_pattern mono_%s => FrameF X d f f', PM.%s d f %s" % (fn, fn, v), ""]
        SFUEL[fn] = (loop, len(args))
    if fn in EACH:
        out += each_lemma(fn)
    if mono_only: return out
    # ---- the frame lemma
    hyps = HX + ((" " + HF) if fuel else "")
    sidetxt = "".join('%s ≠ ";" → ' % k for k in side)
    sideintro = "".join(" h%s" % k for k in side)
    trig = "FrameF X d f f'" if fuel else "SemiHead X"
    if loop:
        src = call(fn, fuel, "f", ["g"] + args); tgt = call(fn, fuel, "f'", ["g'"] + args, "X")
        out += ["theorem frame_%s %s : ∀ g %s g', g ≤ g' → FrameRel X %s %s := by" % (fn, hyps, v, src, tgt)] + OPEN + \
               ["  intro g", "  induction g with",
                "  | zero => intro %s g' _ v r h; simp [%s] at h" % (v, fn),
                "  | succ g ih =>", "    intro %s g' hg v r h" % v,
                "    obtain ⟨k, rfl⟩ : ∃ k, g' = k + 1 := ⟨g' - 1, by omega⟩",
                "    have ih' := fun %s => ih %s k (by omega)" % (v, v),
                "    clear ih"] + ["  " + l for l in CTX2] + kws_haves(SBODY[fn], "    ") + \
               ["    unfold %s at h ⊢" % fn, "    " + SG % 60,
                "grind_pattern frame_%s => %s, %s, %s" % (fn, trig, src, tgt), ""]
        return out
    src = call(fn, fuel, "f", args); tgt = call(fn, fuel, "f'", args, "X")
    if swallow:
        out += ["theorem frame_%s %s : ∀ ts, SwallowRel X %s %s := by" % (fn, hyps, src, tgt)] + OPEN + \
               ["  intro ts v r h"] + CTX2 + kws_haves(SBODY[fn]) + ["  unfold %s at h ⊢" % fn, "  " + SG % 80,
                "grind_pattern frame_%s => %s, %s" % (fn, trig, src), ""]
        return out
    out += ["theorem frame_%s %s : ∀ %s, %sFrameRel X %s %s := by" % (fn, hyps, v, sidetxt, src, tgt)] + OPEN + \
           ["  intro %s%s v r h" % (v, sideintro)] + CTX2 + kws_haves(SBODY[fn]) + ["  unfold %s at h ⊢" % fn, "  " + SG % 60,
            "grind_pattern frame_%s => %s, %s%s" % (fn, trig, src, "" if fuel else ", " + tgt), ""]
    return out


EACH = {"pPartitionItem", "pDefCol"}
def each_lemma(fn):
    return ["theorem mono_each_%s {X : List Tok} %s (segs : List (List Tok)) : MonoRel (eachClosed (PM.%s d f) segs) (eachClosed (PM.%s d f') segs) :=" % (fn, HF, fn, fn),
            "  eachClosed_mono _ _ (mono_%s hF) segs" % fn,
            "grind_pattern mono_each_%s => FrameF X d f f', eachClosed (PM.%s d f) segs" % (fn, fn), ""]


out = ["import MsqProofs.Lemmas.ParseFrame",
       HEAD % "C10: frame lemmas and fuel monotonicity for every function of MsqModel/Parse/Stmt.lean"] + OPTS + \
      ["open Lex PM", "namespace PM", "",
       "/-! ### running a parser on every segment of a bracket group: only the fuel changes -/",
       "theorem eachClosed_mono {α : Type} (p q : List Tok → R α) (hpq : ∀ sg, MonoRel (p sg) (q sg)) :",
       "    ∀ segs, MonoRel (eachClosed p segs) (eachClosed q segs) := by",
       "  intro segs",
       "  induction segs with",
       "  | nil => intro r h; simpa [eachClosed] using h",
       "  | cons sg rest ih =>",
       "    intro r h",
       "    have h1 := hpq sg",
       "    unfold eachClosed at h ⊢",
       "    " + SG % 60,
       "theorem mono_each_pCompute {X : List Tok} %s (segs : List (List Tok)) : MonoRel (eachClosed (PM.pCompute d f) segs) (eachClosed (PM.pCompute d f') segs) :=" % HF,
       "  eachClosed_mono _ _ (fun sg => hF.m_pCompute sg) segs",
       "grind_pattern mono_each_pCompute => FrameF X d f f', eachClosed (PM.pCompute d f) segs", "",
       "/-- `FrameRel`, except that a CREATE TABLE statement that is not followed by anything consumes the separator itself",
       "(`parser.py:2017`): the framed run then returns the tokens AFTER the separator -/",
       "def SwallowRel (X : List Tok) (a b : R Ast.Stmt) : Prop :=",
       "  ∀ v r, a = .ok (v, r) → b = .ok (v, r ++ X) ∨ (r = [] ∧ (∃ c, v = .createTable c) ∧ b = .ok (v, X.drop 1))",
       "@[grind =] theorem swallowRel_ok (X : List Tok) (v : Ast.Stmt) (r : List Tok) (b : R Ast.Stmt) :",
       "    SwallowRel X (.ok (v, r)) b = (b = .ok (v, r ++ X) ∨ (r = [] ∧ (∃ c, v = .createTable c) ∧ b = .ok (v, X.drop 1))) := by",
       "  simp [SwallowRel]",
       "@[grind =] theorem swallowRel_error (X : List Tok) (e : Err) (b : R Ast.Stmt) : SwallowRel X (.error e) b = True := by simp [SwallowRel]",
       ""]
for fn, flags, args in STMT: out += stmt_lemmas(fn, flags, args)
out += ["/-! ### the same in plain form (X = semi :: Y, f < f') -/", "section",
        "variable {semi : Tok} (hs : IsSemi semi) (Y : List Tok) (d : Gen.D) {f f' : Nat} (hlt : f < f')", "include hs", ""]
for fn, flags, args in STMT:
    fl = flags.split()
    if "mono" in fl: continue
    fuel, loop, swallow = "fuel" in fl, "loop" in fl, "swallow" in fl
    side = [x for x in fl if x.startswith("side:")]; side = side[0][5:].split(",") if side else []
    alias = any(x.startswith("alias:") for x in fl)
    v = " ".join(args)
    hyp = "(SemiHead.mk' hs Y)" + (" (frameF_all hs Y d f f' hlt)" if fuel else "")
    inc = "include hlt in\n" if fuel else ""
    sidetxt = "".join('%s ≠ ";" → ' % k for k in side); hk = "".join(" h%s" % k for k in side)
    if loop:
        src = call(fn, fuel, "f", ["g"] + args); tgt = call(fn, fuel, "f'", ["g'"] + args, "(semi :: Y)")
        out += [inc + "theorem %s_framed : ∀ g %s g' v r, g ≤ g' → %s = .ok (v, r) → %s = .ok (v, r ++ semi :: Y) :=" % (fn, v, src, tgt),
                "  fun g %s g' v r hg h => frame_%s %s g %s g' hg v r h" % (v, fn, hyp, v)]
    elif swallow:
        src = call(fn, fuel, "f", args); tgt = call(fn, fuel, "f'", args, "(semi :: Y)")
        out += [inc + "theorem %s_framed : ∀ ts v r, %s = .ok (v, r) →" % (fn, src),
                "    %s = .ok (v, r ++ semi :: Y) ∨ (r = [] ∧ (∃ c, v = .createTable c) ∧ %s = .ok (v, Y)) :=" % (tgt, tgt),
                "  fun ts v r h => by simpa using frame_%s %s ts v r h" % (fn, hyp)]
    else:
        src = call(fn, fuel, "f", args); tgt = call(fn, fuel, "f'", args, "(semi :: Y)")
        out += [inc + "theorem %s_framed : ∀ %s, %s∀ v r, %s = .ok (v, r) → %s = .ok (v, r ++ semi :: Y) :=" % (fn, v, sidetxt, src, tgt),
                "  fun %s%s v r h => frame_%s %s %s%s v r h" % (v, hk, fn, hyp, v, hk)]
out += ["", "end", "end PM"]
wr("MsqProofs/Lemmas/ParseFrameStmt.lean", out)

print(len(FIELDS), "fields for", len(ORDER), "functions;", NFILES, "step files")
