#!/usr/bin/env python3
"""C02W (every accepted token list derives by the documented grammar): coverage check of the hand-written development against the
parser model (development-time tool in the family of tools/gen_account.py; nothing is generated — the proofs of
lean/MsqProofs/Lemmas/ParseWN*.lean are written by hand because every step has to exhibit a derivation, which `grind` does not find).

    python3 tools/gen_wn.py            exit 0 iff
      * every function of the mutual block of MsqModel/Parse/Expr.lean is a field of `WF` (expression block: ParseWNDefs.lean)
        or of `CV` (SELECT part: ParseWNCovDefs.lean), or is listed in UNUSED below,
      * every function of MsqModel/Parse/Stmt.lean has a `cv_` / `nil_` lemma in ParseWNCovStmt*.lean or is listed in NO_EXPR below,
      * every constructor of `Derives` is handled by `derives_shape`, `derives_nonempty`, `skelL_of`, `skelC_of`, `skelK_of`.
A new function of the model (or a new production of the relation) must be classified here before the check passes again."""
import os, re, sys
LEAN = os.path.join(os.path.dirname(os.path.dirname(os.path.abspath(__file__))), "lean")
rd = lambda p: open(os.path.join(LEAN, p), encoding="utf-8").read()

UNUSED = {"pFirstDiscard"}                      # defined in the model, called by nothing
NO_EXPR = {                                     # statement-level functions whose results contain no expression
    "eachClosed", "popSplit", "pTblName", "pInsertType", "configStringLoop", "pConfigString", "pConfigStrExpr", "pFkAction", "pOptFkAction",
    "pNameList", "pForeignKey", "pIndexCol", "pIndexCols", "pOptSrc", "pIndexTail", "pPrimaryIndex", "pNamedIndex", "pUniqueIndex",
    "pNormalIndex", "pFulltextIndex", "pColumnName", "pOptColumns", "pWithOpt", "optEqSrc", "emptyCreate", "pKwTable",
    "pFromClause"}                              # pFromClause: handled inside cv_pShowColumns, pWithOpt inside cv_pInsert

def fields(path, struct):
    s = rd(path); i = s.index("structure %s " % struct)
    return set(re.findall(r"^  (\w+) :", s[i:], re.M))

problems = []
src = rd("MsqModel/Parse/Expr.lean")
m0 = src.index("\nmutual\n"); e0 = src.index("\nend\n", m0)
block = set(re.findall(r"^def (\w+) \(d : Gen\.D\)", src[m0:e0], re.M))
wf, cv = fields("MsqProofs/Lemmas/ParseWNDefs.lean", "WF"), fields("MsqProofs/Lemmas/ParseWNCovDefs.lean", "CV")
for f in sorted(block - wf - cv - UNUSED): problems.append("Expr.lean: %s is neither a field of WF nor of CV" % f)
for f in sorted((wf | cv) - block): problems.append("field %s is no function of the mutual block" % f)

stmt = set(re.findall(r"^def (\w+)", rd("MsqModel/Parse/Stmt.lean"), re.M))
lem = rd("MsqProofs/Lemmas/ParseWNCovStmt.lean") + rd("MsqProofs/Lemmas/ParseWNCovStmt2.lean")
have = set(re.findall(r"^theorem (?:cv|nil)_(\w+)", lem, re.M))
for f in sorted(stmt - have - NO_EXPR): problems.append("Stmt.lean: %s has no cv_/nil_ lemma and is not classified expression-free" % f)

spec = rd("MsqProofs/Lemmas/ParseWN0.lean")
i = spec.index("inductive Derives"); j = spec.index("inductive CommaTail")
ctors = set(re.findall(r"^  \| (\w+)", spec[i:j], re.M))
for path, thm in [("MsqProofs/Lemmas/ParseWNShape.lean", "derives_shape"), ("MsqProofs/Lemmas/ParseWNShape.lean", "derives_nonempty"),
                  ("MsqProofs/Lemmas/ParseWNSkel.lean", "skelL_of"), ("MsqProofs/Lemmas/ParseWNSkel.lean", "skelC_of"),
                  ("MsqProofs/Lemmas/ParseWNSkelK.lean", "skelK_of")]:
    s = rd(path); a = s.index("theorem %s " % thm); b = s.find("\ntheorem ", a + 1)
    seen = set(re.findall(r"\.(\w+)", " ".join(re.findall(r"^  \| _, _, _, (?:h@\()?(\.\w+)", s[a:b if b > 0 else len(s)], re.M))))
    for c in sorted(ctors - seen): problems.append("%s: constructor Derives.%s not handled" % (thm, c))

print("gen_wn: %d functions of the mutual block (%d WF + %d CV), %d statement-level functions, %d productions of Derives" %
      (len(block), len(wf), len(cv), len(stmt), len(ctors)))
for p in problems: print("PROBLEM", p)
sys.exit(1 if problems else 0)
