#!/usr/bin/env python3
"""Generates MsqProofs/Lemmas/ParseAdq{Helpers,Defs,E1..E4,,Stmt}.lean: FUEL ADEQUACY of the parser model — no function answers
`.error .fuel` when it is given `rank + weight of its cursor` units of fuel; with the shipped budget `fuelFor` the recursion of
the parser terminates on every token list (C07 "terminates", C19 recursion bound).

The measure (hand-written part: MsqProofs/Lemmas/ParseAdq0.lean): `adqWL ts` — a word weighs 19, a bracket group 19 + number of
children + weight of the children.  For every function `f` of the 80-function mutual block of Parse/Expr.lean

    adqF_f : rank_f + μ_f(args) ≤ fuel → f d fuel args ≠ .error .fuel          (μ_f = adqWL of the cursor argument, see MEASURE)

by induction on the fuel.  `rank_f` orders the calls that do NOT consume a token: if `f` calls `g` on a cursor that may be the one
`f` was given then `rank_g < rank_f`; a call after consumption gains ≥ 19 units, which pays for any rank (max rank ≤ 19).  The ranks
are computed here from the call graph: a call is classified as CONSUMING by a syntactic data-flow analysis of the model source (the
cursor argument is a `.drop`, the children of a token, the tail of a cons pattern, or the rest returned by a strictly consuming
primitive / by a call on a consuming cursor); everything else counts as non-consuming.  The classification is only used to find
ranks — Lean re-proves every inequality — so a wrong "consuming" makes the build fail at that function, and a CYCLE of
non-consuming calls makes this script fail loudly: that is a candidate for non-termination of the real parser.

Statement level (Parse/Stmt.lean, Parse/Entry.lean): these functions pass their fuel on unchanged, so `BOUND + adqWL ts ≤ f`
suffices for all of them; their private loop counters (`ts.length + 1`) are adequate because every iteration loses a token."""
import re, os, sys
LEAN = os.path.join(os.path.dirname(os.path.dirname(os.path.abspath(__file__))), "lean")
rd = lambda p: open(os.path.join(LEAN, p), encoding="utf-8").read()
GRIND = "grind -funext (gen := 40) (instances := 20000) [%s]"
K = 19
BOUND = 20          # statement level: BOUND + adqWL ts ≤ f   (≥ every rank of the block)
FUEL = ".error .fuel"

# ------------------------------------------------------------------------------------------------ small source parser (as gen_nopy.py)
def balanced(s, i):
    op, cl = s[i], {"(": ")", "{": "}", "[": "]"}[s[i]]
    d = 0
    while True:
        if s[i] == op: d += 1
        elif s[i] == cl:
            d -= 1
            if d == 0: return i + 1
        i += 1


def top_split(s, sep):
    out, d, cur, i = [], 0, "", 0
    while i < len(s):
        ch = s[i]
        if ch in "([{": d += 1
        elif ch in ")]}": d -= 1
        if d == 0 and s.startswith(sep, i):
            out.append(cur); cur = ""; i += len(sep); continue
        cur += ch; i += 1
    out.append(cur)
    return out


class Def: pass


def parse_defs(src):
    src = re.sub(r"/--.*?-/", lambda m: " " * len(m.group(0)), src, flags=re.S)
    starts = [m.start() for m in re.finditer(r"^def ", src, re.M)]
    out = []
    for a, b in zip(starts, starts[1:] + [len(src)]):
        txt = src[a:b]
        stop = re.search(r"^(mutual|end|theorem|abbrev|namespace|open|/-!)", txt, re.M)
        if stop: txt = txt[:stop.start()]
        m = re.match(r"def ([\w.?']+)\s*", txt)
        d = Def(); d.name = m.group(1); d.text = txt
        i = m.end(); d.binders = []
        while txt[i] in "({[":
            j = balanced(txt, i)
            names, ty = txt[i + 1:j - 1].split(":", 1)
            d.binders.append((txt[i], names.split(), ty.strip()))
            i = j
            while txt[i].isspace(): i += 1
        if txt.startswith(":=", i):
            d.alias = txt[i + 2:].strip(); d.ret = None; d.arrows = []; d.body = d.alias
            out.append(d); continue
        assert txt[i] == ":", (d.name, txt[i:i + 20])
        i += 1
        depth, j = 0, i
        while True:
            if txt[j] in "([{": depth += 1
            elif txt[j] in ")]}": depth -= 1
            if depth == 0 and txt.startswith(":=", j): body_at = j + 2; break
            if depth == 0 and (re.match(r"\n\s*\|", txt[j:]) or txt[j] == "|"): body_at = j; break
            j += 1
        parts = [p.strip() for p in top_split(" ".join(txt[i:j].split()), "→")]
        d.alias = None; d.arrows = parts[:-1]; d.ret = parts[-1]; d.body = txt[body_at:]
        out.append(d)
    return out


def typed(d): return d.ret is not None and (d.ret.startswith("R ") or d.ret.startswith("Except Err"))
def xs(n, p="x"): return " ".join("%s%d" % (p, i) for i in range(n))
def uses(name, body): return re.search(r"(?<![\w.])%s\b" % re.escape(name), body) is not None
def binder_txt(d): return " ".join("%s%s : %s%s" % (b, " ".join(ns), ty, {"(": ")", "{": "}", "[": "]"}[b]) for b, ns, ty in d.binders)
def explicit(d): return [(n, ty) for b, ns, ty in d.binders if b == "(" for n in ns]


def read_args(s, n=None):
    """the arguments of an application, as source strings"""
    out, i = [], 0
    while i < len(s) and (n is None or len(out) < n):
        while i < len(s) and s[i] == " ": i += 1
        if i >= len(s): break
        if s[i] in "([":
            j = balanced(s, i)
            while j < len(s) and (s[j] == "." or s[j].isalnum()): j += 1
            out.append(s[i:j]); i = j
        elif s[i] == '"':
            j = s.index('"', i + 1) + 1; out.append(s[i:j]); i = j
        else:
            m = re.match(r"[\w.'?]+", s[i:])
            if not m: break
            out.append(m.group(0)); i += m.end()
    return out


# ------------------------------------------------------------------------------------------------ the mutual block
expr_src = rd("MsqModel/Parse/Expr.lean")
mpos = expr_src.index("\nmutual\n"); epos = expr_src.index("\nend\n", mpos)
block = expr_src[mpos:epos]
bdefs = list(re.finditer(r"^def (\w+) \(d : Gen\.D\) : Nat → (.*)$", block, re.M))
funcs = {}      # name -> (argument types, body)
order = []
for i, m in enumerate(bdefs):
    parts = [p.strip() for p in top_split(m.group(2), "→")]
    body = block[m.end():bdefs[i + 1].start() if i + 1 < len(bdefs) else len(block)]
    body = re.sub(r"/--.*?-/", "", body, flags=re.S)
    funcs[m.group(1)] = (parts[:-1], body); order.append(m.group(1))

# μ_f: the weight the fuel has to pay for.  Default: the last `List Tok` argument.
MEASURE = {
    "pParen": "adqW x0 + adqWL x1",                       # the token and what follows it = the cursor of the caller
    "pSplit": "adqWL x1 + adqWL x2 + x2.length",          # segment collected so far, what is left, one call per token left
    "pSingleParen": "adqWL x1 + adqWL x3",                # the outer cursor (popped by the bracket loop) and the inner one (parsed)
    "pClosedEach": "adqWLL x1", "pGroupingElems": "adqWLL x1",
}
# `pNamed n0 r0 ts` / `pQualified n0 r1 ts` get the cursor twice (`ts` and a rest of it); as in C08 the relation is a hypothesis
SFX_HYP = {"pNamed": ("x1", "x2"), "pQualified": ("x1", "x2")}


def cursor_pos(name):
    tys = funcs[name][0]
    ps = [i for i, t in enumerate(tys) if t == "List Tok"]
    return ps[-1] if ps else None


def measure(name, args=None):
    tys = funcs[name][0]
    args = args or ["x%d" % i for i in range(len(tys))]
    if name in MEASURE:
        return re.sub(r"x(\d+)", lambda m: args[int(m.group(1))], MEASURE[name])
    return "adqWL %s" % args[cursor_pos(name)]


# ---- which calls consume?  (only to FIND ranks; Lean checks every inequality)
STRICT_PRIMS = {"matchKw", "matchSeq", "pop", "popSrc", "popInt", "popAsInt", "pFuncName", "getAliasName", "firstEnum"}
STRICT_FUNCS = {"pJoin", "pLateral"}                      # proved in ParseAdq0/ParseAdqStrict: a successful run loses a token
EDGE_OVERRIDE = {("pSplit", "pSplit"): True, ("pSingleParen", "pSingleParen"): True, ("pClosedEach", "pClosedEach"): True,
                 ("pGroupingElems", "pGroupingElems"): True}
NONSTRICT_CALLEES = {"pParen"}                            # `pParen n0 r0` is called with the head and tail of the caller's cursor


def is_strict(e, env):
    e = e.strip()
    if ".drop" in e or ".children" in e or "callPrep" in e: return True
    m = re.match(r"\((?:moveStrUp|moveStr|moveTwoUp|skipNot d) (\S+).*\)\.2$", e)
    if m: return is_strict(m.group(1), env)
    if e.startswith("(") and e.endswith(")"): return is_strict(e[1:-1], env)
    return env.get(e, False)


EVENT = re.compile(r"(?P<head>\bmatch\s+(?:closed\s*\()?(?P<callee>\w+)(?P<hargs>[^\n]*?)\s+with\b)"
                   r"|(?P<arm>\|\s*(?:\.ok|some)\b[^=\n]*?,\s*(?P<rest>[A-Za-z_][\w']*)\s*\)+\s*=>)"
                   r"|(?P<hc>\|\s*\.ok\s+(?P<hcv>cs)\s*=>)"
                   r"|(?P<cons>::\s*(?P<tail>[A-Za-z_][\w']*)\s*=>)"
                   r"|(?P<let>let\s*\(\w+,\s*(?P<lv>\w+)\)\s*:=\s*move)"
                   r"|(?P<call>\b(?P<g>p[A-Z]\w*) d f(?P<cargs>[^\n]*))")


def edges_of(name):
    tys, body = funcs[name]
    env, out, head_strict = {}, [], False
    pos = 0
    for m in EVENT.finditer(body):
        if m.group("head"):
            callee, hargs = m.group("callee"), m.group("hargs")
            if callee in STRICT_PRIMS: head_strict = True
            elif callee in funcs:
                a = read_args(hargs.replace(" d f", "", 1), len(funcs[callee][0]))
                cp = cursor_pos(callee)
                head_strict = callee in STRICT_FUNCS or (cp is not None and cp < len(a) and is_strict(a[cp], env))
                # the call in the head is itself an edge
                out.append((callee, a, dict(env)))
            else:
                a = read_args(hargs)
                head_strict = any(is_strict(x, env) for x in a)
        elif m.group("arm"): env[m.group("rest")] = head_strict
        elif m.group("hc"): env[m.group("hcv")] = True
        elif m.group("cons"): env[m.group("tail")] = True
        elif m.group("let"): env[m.group("lv")] = True
        elif m.group("call"):
            g = m.group("g")
            if g in funcs and not body[:m.start()].rstrip().endswith("match") and not re.search(r"match\s+(closed\s*\()?$", body[:m.start()]):
                out.append((g, read_args(m.group("cargs"), len(funcs[g][0])), dict(env)))
    res = []
    for g, a, env in out:
        if (name, g) in EDGE_OVERRIDE: strict = EDGE_OVERRIDE[(name, g)]
        elif g in NONSTRICT_CALLEES: strict = False
        else:
            cp = cursor_pos(g)
            if g in MEASURE: strict = any(is_strict(x, env) for x in a)
            else: strict = cp is not None and cp < len(a) and is_strict(a[cp], env)
        res.append((g, strict))
    return res


nonstrict = {f: sorted({g for g, s in edges_of(f) if not s}) for f in order}
rank, state = {}, {}


def visit(f, path):
    if state.get(f) == 2: return rank[f]
    if state.get(f) == 1:
        cyc = path[path.index(f):] + [f]
        raise SystemExit("CYCLE of calls that are not known to consume a token (non-termination candidate): " + " → ".join(cyc))
    state[f] = 1
    rank[f] = 1 + max([visit(g, path + [f]) for g in nonstrict[f]] + [0])
    state[f] = 2
    return rank[f]


for f in order: visit(f, [])
maxrank = max(rank.values())
if maxrank > K:
    raise SystemExit("longest chain of non-consuming calls is %d > %d: sharpen the measure or raise the constants of fuelFor" % (maxrank, K))
if "--ranks" in sys.argv:
    for f in sorted(order, key=lambda f: -rank[f]): print("%2d %-16s non-consuming: %s" % (rank[f], f, " ".join(nonstrict[f])))

# ------------------------------------------------------------------------------------------------ helpers outside the block (never .fuel)
HAND_NOFUEL = {"matchSeq", "closed", "eachClosed"}            # ParseAdq0b (hand): recursion on two lists / higher order
LOOPS = {"multiAliasLoop", "castParamsLoop", "configStringLoop"}   # private counter: `ts.length < g →`
known = ["matchSeq"]     # functions with an unconditional lemma  X_nofuel : X args ≠ .error .fuel


def nofuel_lemma(d, known):
    a = len(d.arrows)
    en = [n for n, _ in explicit(d)]
    app = " ".join([d.name] + en + ([xs(a)] if a else []))
    if d.alias is not None:
        tgt = d.alias.split()[0]
        return ["theorem %s_nofuel : ∀ ts, %s ts ≠ %s := by" % (d.name, d.name, FUEL),
                "  intro ts; unfold %s; exact %s_nofuel _ _ ts" % (d.name, tgt), ""]
    lem = ["closed_nofuel"] + ["%s_nofuel" % c for c in known if c != d.name and uses(c, d.body)]
    close = "split_run <;> " + GRIND % ", ".join(lem)
    if d.name in LOOPS:
        rest = xs(a)[3:].strip()
        cur = "x%d" % (a - 1)
        return ["theorem %s_nofuel %s : ∀ %s, %s.length < x0 → %s ≠ %s := by" % (d.name, binder_txt(d), xs(a), cur, app, FUEL),
                "  intro x0", "  induction x0 <;> intro %s hlen h <;> unfold %s at h <;> %s" % (rest, d.name, close), ""]
    assert not uses(d.name, d.body), d.name
    q = ("∀ %s, " % xs(a)) if a else ""
    return ["theorem %s_nofuel %s : %s%s ≠ %s := by" % (d.name, binder_txt(d), q, app, FUEL),
            "  intro %s h" % xs(a) if a else "  intro h", "  unfold %s at h" % d.name, "  " + close, ""]


HEADER = "/-! GENERATED by tools/gen_adequate.py — C07/C19 fuel adequacy: %s -/"
OPTS = ["set_option linter.unusedVariables false", "set_option linter.unusedSectionVars false", "set_option linter.unusedSimpArgs false",
        "set_option maxHeartbeats 1000000", "open Lex PM Ast", "namespace PM", ""]
prim = [d for d in parse_defs(rd("MsqModel/Parse/Prim.lean")) if typed(d) and d.name not in HAND_NOFUEL]
pre = [d for d in parse_defs(expr_src[:mpos]) if typed(d) and d.name not in HAND_NOFUEL]
out = ["import MsqProofs.Lemmas.ParseAdq0b", HEADER % "the cursor primitives and the helpers outside the mutual block never answer `.fuel`"] + OPTS
for d in prim + pre:
    out += nofuel_lemma(d, known); known.append(d.name)
out += ["end PM"]
open(os.path.join(LEAN, "MsqProofs/Lemmas/ParseAdqHelpers.lean"), "w", encoding="utf-8").write("\n".join(out) + "\n")

# ------------------------------------------------------------------------------------------------ the block: structure, steps, induction


def field(n, fuel):
    tys = funcs[n][0]
    a = len(tys)
    hyp = ("Sfx %s %s → " % SFX_HYP[n]) if n in SFX_HYP else ""
    return "∀ %s, %s%d + (%s) ≤ %s → %s d %s %s ≠ %s" % (xs(a), hyp, rank[n], measure(n), fuel[0], n, fuel[1], xs(a), FUEL)


out = ["import MsqProofs.Lemmas.ParseAdqHelpers", HEADER % "the induction hypothesis for the mutual block of MsqModel/Parse/Expr.lean"] + OPTS
out.append("/-- every function of the mutual block, with fuel `n`: `rank + weight of the cursor ≤ n` is enough (ranks: tools/gen_adequate.py --ranks) -/")
out.append("structure AdqF (d : Gen.D) (n : Nat) : Prop where")
for n in order: out.append("  %s : %s" % (n, field(n, ("n", "n"))))
out += ["", "end PM"]
open(os.path.join(LEAN, "MsqProofs/Lemmas/ParseAdqDefs.lean"), "w", encoding="utf-8").write("\n".join(out) + "\n")

NPARTS = 4
parts = [[] for _ in range(NPARTS)]
for i, n in enumerate(order): parts[i % NPARTS].append(n)
for k, names in enumerate(parts):
    out = ["import MsqProofs.Lemmas.ParseAdqDefs", HEADER % ("fuel step for the mutual block, part %d of %d" % (k + 1, NPARTS))] + OPTS
    out.append("variable (d : Gen.D)")
    out.append("")
    for n in names:
        tys, body = funcs[n]
        a = len(tys)
        out.append("theorem adqF_%s (n : Nat) (ih : AdqF d n) :" % n)
        out.append("    %s := by" % field(n, ("n + 1", "(n+1)")))
        out.append("  intro %s %shle h" % (xs(a), "hsfx " if n in SFX_HYP else ""))
        out.append("  have hC := consF_all d n")
        for c in order:
            if uses(c, body): out.append("  have h_%s := ih.%s" % (c, c))
        out.append("  clear ih")
        out.append("  unfold %s at h" % n)
        lem = ["adqWL_append", "closed_nofuel"] + ["%s_nofuel" % c for c in known if uses(c, body)]
        out.append("  split_run <;> " + GRIND % ", ".join(lem))
        out.append("")
    out += ["end PM"]
    open(os.path.join(LEAN, "MsqProofs/Lemmas/ParseAdqE%d.lean" % (k + 1)), "w", encoding="utf-8").write("\n".join(out) + "\n")

out = ["import MsqProofs.Lemmas.ParseAdqE%d" % (k + 1) for k in range(NPARTS)]
out += [HEADER % "the mutual block, induction on the fuel; plain forms"] + OPTS
out.append("variable (d : Gen.D)")
out.append("")
out.append("/-- **Fuel adequacy of the expression / SELECT parser**: `rank_f + weight of the cursor` units of fuel are enough for `f` -/")
out.append("theorem adqF_all : ∀ n, AdqF d n := by")
out.append("  intro n")
out.append("  induction n with")
out.append("  | zero => constructor <;> (intros; omega)")
out.append("  | succ n ih => exact ⟨" + ", ".join("adqF_%s d n ih" % n for n in order) + "⟩")
out.append("")
for n in order:
    a = len(funcs[n][0])
    out.append("theorem %s_adq (n : Nat) : %s := (adqF_all d n).%s" % (n, field(n, ("n", "n")), n))
out += ["", "end PM"]
open(os.path.join(LEAN, "MsqProofs/Lemmas/ParseAdq.lean"), "w", encoding="utf-8").write("\n".join(out) + "\n")

# ------------------------------------------------------------------------------------------------ statement level, entry points
stmt_defs = [d for d in parse_defs(rd("MsqModel/Parse/Stmt.lean")) if (typed(d) or d.alias) and d.name not in HAND_NOFUEL]
entry_src = rd("MsqModel/Parse/Entry.lean")
entry_defs = [d for d in parse_defs(entry_src) if typed(d) and d.name in ("pStatements", "pSubValue")]
STMT_LOOPS = {"defColLoop", "valuesLoop", "createOpts", "alterLoop", "updateSetLoop", "statementsLoop"}   # counter first, cursor last
STRICT_STMT = ["pInsertType", "pSet", "pDelete", "pDropTable", "pCreateTable", "pAnalyze", "pAlter", "pMsck", "pTruncate", "pUse",
               "pShowColumns", "pInsert", "pUpdate", "pStatement"]
fueled = set()      # functions of the statement level that pass a fuel on: lemma X_adq under `BOUND + weight ≤ f`


def has_fuel(d): return ("f", "Nat") in explicit(d)


def lemma_name(c):
    if c in funcs or c in fueled: return "%s_adq" % c
    return "%s_nofuel" % c


def each_closed_haves(body):
    out = []
    for k, m in enumerate(re.finditer(r"eachClosed\s+(\((?:[^()]|\([^()]*\))*\)|\w+)", body)):
        arg = m.group(1)
        inner = arg[1:-1].split() if arg.startswith("(") else [arg]
        p = inner[0]
        if p in funcs: out.append("  have hE%d := eachClosed_adq %s %d f (%s_adq d f)" % (k, arg, rank[p], p))
        elif p in fueled: out.append("  have hE%d := eachClosed_adq %s %d f (%s_adq d f)" % (k, arg, BOUND, p))
        else: out.append("  have hE%d := eachClosed_nofuel %s %s_nofuel" % (k, arg, p))
    return out


out = ["import MsqProofs.Lemmas.ParseAdq", HEADER % "the statement level (MsqModel/Parse/Stmt.lean) and the entry points (MsqModel/Parse/Entry.lean)"] + OPTS
out.append("/-! ### strict consumption of the statements (for the loop of `parse_statements`) and of `GENERATED ALWAYS AS` (for the attribute loop) -/")
out += ["theorem pGenerated_some (d : Gen.D) (f : Nat) (ts : List Tok) (gc : GenCol) (r : List Tok) (h : pGenerated d f ts = .ok (some gc, r)) : Lost r ts := by",
        "  have hC := consF_all d f", "  unfold pGenerated at h", "  split_run <;> " + GRIND % "Lost",
        "grind_pattern pGenerated_some => pGenerated d f ts, (some gc, r)", ""]
sdefs = dict((d.name, d) for d in stmt_defs)
strict_done = []
for nme in STRICT_STMT:
    d = sdefs[nme]
    if d.alias is not None:
        tgt = d.alias.split()[0]
        # `pMsck := pKwTable [...] .msck`: strict because its word list is not empty
        out += ["theorem %s_strict : ∀ ts, StrictRel ts (%s ts) := by" % (nme, nme), "  intro ts v r h", "  unfold %s %s at h" % (nme, tgt),
                "  split_run <;> " + GRIND % "Lost", ""]
    else:
        en = [n for n, _ in explicit(d)]
        lem = ["Lost"] + ["%s_strict" % c for c in strict_done if uses(c, d.body)]
        out += ["theorem %s_strict %s : StrictRel ts (%s) := by" % (nme, binder_txt(d), " ".join([nme] + en)),
                "  intro v r h"] + (["  have hC := consF_all d f"] if has_fuel(d) else []) + \
               ["  unfold %s at h" % nme, "  split_run <;> " + GRIND % ", ".join(lem), ""]
    strict_done.append(nme)

out.append("/-! ### never `.fuel` -/")
for d in stmt_defs + entry_defs:
    a = len(d.arrows)
    en = [n for n, _ in explicit(d)]
    callees = [c for c in known + list(funcs) + sorted(fueled) if c != d.name and uses(c, d.body)]
    lem = ["adqWL_append", "closed_nofuel"] + [lemma_name(c) for c in callees] + ["%s_strict" % c for c in strict_done if uses(c, d.body)] + \
          []
    close = "split_run <;> " + GRIND % ", ".join(lem)
    app = " ".join([d.name] + en + ([xs(a)] if a else []))
    if not has_fuel(d):
        if d.alias is not None:
            tgt = d.alias.split()[0]
            out += ["theorem %s_nofuel : ∀ ts, %s ts ≠ %s := by" % (d.name, d.name, FUEL), "  intro ts; unfold %s; exact %s_nofuel _ _ ts" % (d.name, tgt), ""]
        elif d.name in LOOPS:
            out += ["theorem %s_nofuel %s : ∀ %s, x%d.length < x0 → %s ≠ %s := by" % (d.name, binder_txt(d), xs(a), a - 1, app, FUEL),
                    "  intro x0", "  induction x0 <;> intro %s hlen h <;> unfold %s at h <;> %s" % (xs(a)[3:].strip(), d.name, close), ""]
        else:
            q = ("∀ %s, " % xs(a)) if a else ""
            out += ["theorem %s_nofuel %s : %s%s ≠ %s := by" % (d.name, binder_txt(d), q, app, FUEL),
                    "  intro %s h" % xs(a) if a else "  intro h"] + each_closed_haves(d.body) + ["  unfold %s at h" % d.name, "  " + close, ""]
        known.append(d.name)
        continue
    # passes the fuel on
    pre_h = ["  have hC := consF_all d f"] + each_closed_haves(d.body)
    if d.name in STMT_LOOPS:
        cur = "x%d" % (a - 1)
        out += ["theorem %s_adq %s : ∀ %s, %s.length < x0 → %d + adqWL %s ≤ f → %s ≠ %s := by" % (d.name, binder_txt(d), xs(a), cur, BOUND, cur, app, FUEL)] + pre_h + \
               ["  intro x0", "  induction x0 <;> intro %s hlen hle h <;> unfold %s at h <;> %s" % (xs(a)[3:].strip(), d.name, close), ""]
    elif d.name == "createElems":
        out += ["theorem %s_adq %s : ∀ %s, %d + adqWLL x0 ≤ f → %s ≠ %s := by" % (d.name, binder_txt(d), xs(a), BOUND, app, FUEL)] + pre_h + \
               ["  intro x0", "  induction x0 <;> intro %s hle h <;> unfold %s at h <;> %s" % (xs(a)[3:].strip(), d.name, close), ""]
    else:
        assert a == 0 and "ts" in en, d.name
        out += ["theorem %s_adq %s : %d + adqWL ts ≤ f → %s ≠ %s := by" % (d.name, binder_txt(d), BOUND, app, FUEL), "  intro hle h"] + pre_h + \
               ["  unfold %s at h" % d.name, "  " + close, ""]
    fueled.add(d.name)

# ---- PM.entries
m = re.search(r"def entries : List \(String × Entry\) := \[\n(.*?)\]\n", entry_src, re.S)
ent = [re.match(r'\("(\w+)",\s*(.*)\),?$', l.strip()).groups() for l in m.group(1).split("\n") if l.strip()]


def read_arg(s):
    s = s.strip()
    if s.startswith("("):
        j = balanced(s, 0); return s[:j], s[j:]
    mm = re.match(r"[\w.]+", s); return mm.group(0), s[mm.end():]


def adq_term(name, extra):
    ex = (" ".join(extra) + " ") if extra else ""
    if name in funcs: return "(fun d f ts hle => %s_adq d f %sts (by omega))" % (name, ex)
    if name in fueled: return "(fun d f ts hle => %s_adq d f %sts hle)" % (name, ex)
    raise SystemExit("entry on " + name)


def entry_proof(nme, expr):
    mm = re.match(r"(exprEntry|stmtEntry|mapEntry)\s+(.*)$", expr)
    if mm:
        F, rest = read_arg(mm.group(2))
        V = read_arg(rest)[0] if mm.group(1) == "mapEntry" else None
        if F.startswith("(fun d f ts => match"):
            prf = "singleSelect_adq"
        elif F.startswith("("):
            b = re.match(r"\(fun d f ts => (\w+) d f (.*) ts\)$", F); assert b, F
            prf = adq_term(b.group(1), b.group(2).split())
        else:
            prf = adq_term(F, [])
        return "exact %s_adq %s %s%s" % (mm.group(1), F, (V + " ") if V else "", prf)
    lem = ["closed_nofuel"] + [lemma_name(c) for c in known + sorted(fueled) if uses(c, expr)]
    return "intro d f ts hle h; (try dsimp only at h); split_run <;> " + GRIND % ", ".join(lem)


WRAP = """/-! ### the entry points -/
theorem exprEntry_adq (p : Gen.D → Nat → List Tok → R Expr) (hp : ∀ d f ts, BB + adqWL ts ≤ f → p d f ts ≠ .error .fuel) :
    ∀ d f ts, BB + adqWL ts ≤ f → exprEntry p d f ts ≠ .error .fuel := by
  intro d f ts hle h; have := hp d f ts hle; unfold exprEntry at h; split at h <;> simp_all
theorem stmtEntry_adq (p : Gen.D → Nat → List Tok → R Stmt) (hp : ∀ d f ts, BB + adqWL ts ≤ f → p d f ts ≠ .error .fuel) :
    ∀ d f ts, BB + adqWL ts ≤ f → stmtEntry p d f ts ≠ .error .fuel := by
  intro d f ts hle h; have := hp d f ts hle; unfold stmtEntry at h; split at h <;> simp_all
theorem mapEntry_adq {α : Type} (p : Gen.D → Nat → List Tok → R α) (v : α → Val) (hp : ∀ d f ts, BB + adqWL ts ≤ f → p d f ts ≠ .error .fuel) :
    ∀ d f ts, BB + adqWL ts ≤ f → mapEntry p v d f ts ≠ .error .fuel := by
  intro d f ts hle h; have := hp d f ts hle; unfold mapEntry at h; split at h <;> simp_all
theorem singleSelect_adq : ∀ d f ts, BB + adqWL ts ≤ f →
    (match pWith d f ts with | .ok (w, r) => pSingle d f w r | .error e => .error e) ≠ .error .fuel := by
  intro d f ts hle h
  have hC := consF_all d f
  split_run <;> GG
"""
out += [WRAP.replace("BB", str(BOUND)).replace("GG", GRIND % "pWith_adq, pSingle_adq")]
out.append("/-- every public entry point of the model, on every token list: `%d + weight of the token list` units of fuel are enough -/" % BOUND)
out.append("theorem entries_adq : ∀ p ∈ entries, ∀ d f ts, %d + adqWL ts ≤ f → p.2 d f ts ≠ .error .fuel := by" % BOUND)
out.append("  unfold entries")
out.append("  simp only [List.forall_mem_cons]")
out.append("  refine ⟨" + ", ".join("?_" for _ in ent) + ", by simp⟩")
for nme, expr in ent:
    out.append("  · " + entry_proof(nme, expr) + "   -- " + nme)
out += ["", "end PM"]
open(os.path.join(LEAN, "MsqProofs/Lemmas/ParseAdqStmt.lean"), "w", encoding="utf-8").write("\n".join(out) + "\n")
print(len(order), "functions of the block, max rank", maxrank, "; helpers:", len(prim) + len(pre))
