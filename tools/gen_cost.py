#!/usr/bin/env python3
"""Generates the COST MODEL of the parser model and its proofs (C19, parser half).

    lean/MsqModel/Parse/Cost.lean          cost companions of Parse/Expr.lean (helpers + the 80-function mutual block)
    lean/MsqModel/Parse/CostStmt.lean      cost companions of Parse/Stmt.lean and `pStatements`
    lean/MsqProofs/Lemmas/ParseCostProj*.lean   projection: `pX_k … k = (k', res) → pX … = res`  (the cost model is a model OF the parser model)
    lean/MsqProofs/Lemmas/ParseCost*.lean       the linear bound (potential argument)

Every `def pX … : R α` (or `Except Err α`) of the model becomes `def pX_k … (k : Nat) : Nat × R α`: the SAME term (same matches, same
conditions, same order) with an accumulator `k` threaded through it; `k` grows by the cost of every cursor primitive the term evaluates
(`MsqModel/Parse/CostPrim.lean` says what a primitive costs = how many `TokenScanner` method calls the Python method it stands for makes).
The transformation is purely syntactic (a small parser for the `match` / `if` / `let` skeleton of the model's terms; everything else is
opaque text).  Sites where the model inlines a cursor operation as a pattern match (`match ts with | t :: r => …`) get their cost from
the table SITES below (Python line given there).
"""
import re, os, sys
ROOT = os.path.dirname(os.path.dirname(os.path.abspath(__file__)))
LEAN = os.path.join(ROOT, "lean")
rd = lambda p: open(os.path.join(LEAN, p), encoding="utf-8").read()


def wr(p, s):
    p = os.path.join(LEAN, p)
    old = open(p, encoding="utf-8").read() if os.path.exists(p) else None
    if old != s: open(p, "w", encoding="utf-8").write(s)


# ================================================================================================ mini parser of model terms
OPEN, CLOSE = "([{⟨", ")]}⟩"


def balanced(s, i):
    d = 0
    while True:
        if s[i] in OPEN: d += 1
        elif s[i] in CLOSE:
            d -= 1
            if d == 0: return i + 1
        elif s[i] == '"':
            i = s.index('"', i + 1)
        i += 1


class Node: pass


class P:
    """recursive descent over one definition body; columns matter for `|` (an alternative belongs to the innermost `match` whose first
    alternative is not to the right of it — Lean's `many1Indent`/`checkColGe`)"""
    def __init__(self, s): self.s = s

    def col(self, i): return i - (self.s.rfind("\n", 0, i) + 1)

    def ws(self, i):
        while i < len(self.s) and self.s[i].isspace(): i += 1
        return i

    def kw(self, i, w): return self.s.startswith(w, i) and (i + len(w) >= len(self.s) or not (self.s[i + len(w)].isalnum() or self.s[i + len(w)] in "_'"))

    def scan_to(self, i, stops):
        """scan opaque text at depth 0 until one of the stop words / a `|` (not `||`) / an unbalanced closer / EOF"""
        s = self.s
        while i < len(s):
            c = s[i]
            if c in OPEN: i = balanced(s, i); continue
            if c in CLOSE: return i
            if c == '"': i = s.index('"', i + 1) + 1; continue
            if c == "|" and "|" in stops:
                if s.startswith("||", i): i += 2; continue
                return i
            for w in stops:
                if w != "|" and self.kw(i, w) and (i == 0 or not (s[i - 1].isalnum() or s[i - 1] in "_'.")): return i
            i += 1
        return i

    def term(self, i):
        s = self.s
        i = self.ws(i)
        n = Node()
        if self.kw(i, "match"):
            j = self.scan_to(i + 5, ["with"])
            n.kind, n.scrut, n.arms = "match", s[i + 5:j].strip(), []
            i = self.ws(j + 4)
            C = None
            while i < len(s) and s[i] == "|" and not s.startswith("||", i) and (C is None or self.col(i) >= C):
                if C is None: C = self.col(i)
                j = i + 1
                while not s.startswith("=>", j):
                    j = balanced(s, j) if s[j] in OPEN else j + 1
                pat = s[i + 1:j].strip()
                body, i = self.term(j + 2)
                n.arms.append((pat, body))
                i = self.ws(i)
            return n, i
        if self.kw(i, "if"):
            j = self.scan_to(i + 2, ["then"])
            n.kind, n.cond = "if", " ".join(s[i + 2:j].split())
            n.a, i = self.term(j + 4)
            i = self.ws(i)
            assert self.kw(i, "else"), (s[i:i + 40], s[:200])
            n.b, i = self.term(i + 4)
            return n, i
        if self.kw(i, "let"):
            j = s.index("\n", i)
            n.kind, n.bind = "let", s[i:j].strip()
            n.body, i = self.term(j)
            return n, i
        if s[i] == "(":
            j = balanced(s, i)
            inner = s[i + 1:j - 1]
            k = self.ws(j)
            st = inner.lstrip()
            if (st.startswith("match ") or st.startswith("if ") or st.startswith("let ")) and (k >= len(s) or s[k] in "|)" or self.kw(k, "else")):
                sub, e = P(inner).term(0)
                assert P(inner).ws(e) == len(inner), (inner, e)
                return sub, j
        j = self.scan_to(i, ["|", "else"])
        n.kind, n.text = "leaf", " ".join(s[i:j].split())
        assert n.text, (s[max(0, i - 80):i + 40])
        return n, j


def parse_body(txt):
    p = P(txt)
    n, i = p.term(0)
    assert p.ws(i) == len(txt), ("unparsed rest", txt[i:i + 80])
    return n


# ================================================================================================ definitions of a source file
class Def: pass


def read_defs(src, in_block=False):
    """top-level `def`s: name, binder text, arrow types, result type, and either one body (`:=`) or pattern arms"""
    src = re.sub(r"/--.*?-/", lambda m: re.sub(r"[^\n]", " ", m.group(0)), src, flags=re.S)
    src = re.sub(r"--[^\n]*", lambda m: " " * len(m.group(0)), src)
    starts = [m.start() for m in re.finditer(r"^def ", src, re.M)]
    out = []
    for a, b in zip(starts, starts[1:] + [len(src)]):
        txt = src[a:b]
        stop = re.search(r"^(mutual|end|theorem|abbrev|namespace|open|/-!|structure)", txt, re.M)
        if stop: txt = txt[:stop.start()]
        txt = txt.rstrip() + "\n"
        m = re.match(r"def ([\w.?']+)\s*", txt)
        d = Def(); d.name = m.group(1); d.src = txt
        i = m.end(); d.binders = ""
        while txt[i] in "({[":
            j = balanced(txt, i); d.binders += txt[i:j] + " "; i = j
            while txt[i].isspace(): i += 1
        d.binders = d.binders.strip()
        if txt.startswith(":=", i):
            d.alias = txt[i + 2:].strip(); d.ret = None; out.append(d); continue
        d.alias = None
        assert txt[i] == ":", (d.name, txt[i:i + 30])
        i += 1
        depth, j = 0, i
        while True:
            if txt[j] in OPEN: depth += 1
            elif txt[j] in CLOSE: depth -= 1
            if depth == 0 and txt.startswith(":=", j): mode, body_at = "body", j + 2; break
            if depth == 0 and txt[j] == "|": mode, body_at = "arms", j; break
            j += 1
        sig = " ".join(txt[i:j].split())
        parts = [p.strip() for p in top_split(sig, "→")]
        d.arrows, d.ret = parts[:-1], parts[-1]
        if mode == "body":
            d.arms = None; d.body = txt[body_at:]
        else:
            # pattern arms of the definition itself: `| pats => body` at the column of the first `|`
            d.arms = []
            p = P(txt)
            k = body_at
            C = p.col(k)
            while k < len(txt) and txt[k] == "|":
                e = txt.index("=>", k)
                pats = txt[k + 1:e].strip()
                # the body runs to the next `|` at column ≤ C at line start (or on the same line for one-liners)
                body, k2 = p.term(e + 2)
                d.arms.append((pats, body))
                k = p.ws(k2)
            assert p.ws(k) == len(txt), (d.name, txt[k:k + 60])
        out.append(d)
    return out


def top_split(s, sep):
    out, d, cur, i = [], 0, "", 0
    while i < len(s):
        ch = s[i]
        if ch in OPEN: d += 1
        elif ch in CLOSE: d -= 1
        if d == 0 and s.startswith(sep, i):
            out.append(cur); cur = ""; i += len(sep); continue
        cur += ch; i += 1
    out.append(cur)
    return out


def read_args(s, n=None):
    out, i = [], 0
    while i < len(s) and (n is None or len(out) < n):
        while i < len(s) and s[i] == " ": i += 1
        if i >= len(s): break
        if s[i] in "([":
            j = balanced(s, i)
            while j < len(s) and (s[j] == "." or s[j].isalnum() or s[j] in "_?"): j += 1
            out.append(s[i:j]); i = j
        elif s[i] == '"':
            j = s.index('"', i + 1) + 1; out.append(s[i:j]); i = j
        else:
            m = re.match(r"[\w.'?]+", s[i:])
            if not m: break
            out.append(m.group(0)); i += m.end()
    return out, i


# ================================================================================================ what things cost
# primitives: name -> (arity, cost expression with {call} = the call text, {a0}.. = its arguments)
SEARCH = {"searchStr": 2, "searchStrUp": 2, "searchMark": 2, "searchSet": 2, "searchSetUp": 2, "searchTwoUp": 3, "searchThreeUp": 4, "searchSeq": 2}
PRIMS = {
    "moveStr": (2, "cMove ({call}).1"), "moveStrUp": (2, "cMove ({call}).1"), "moveSetUp": (2, "cMove ({call}).1"), "moveTwoUp": (3, "cMove ({call}).1"),
    "moveThreeUp": (4, "cMove ({call}).1"), "moveSeq": (2, "cMove ({call}).1"), "skipNot": (2, "cMove ({call}).1"),
    "matchKw": (2, "2"), "matchSeq": (2, "cMatchSeq {a0} {a1}"), "pop": (1, "1"), "popSrc": (1, "2"), "popInt": (1, "2"), "popAsInt": (1, "2"),
    "firstEnum": (2, "cFirstEnum {a0} {a1}"), "headChildren": (1, "2"), "startsSelect": (1, "1"), "headIsOver": (1, "1"), "chainsOn": (1, "1"),
    "setOpHead": (1, "1"), "joinHead": (1, "1"), "onUsingHead": (1, "1"), "popSplit": (1, "cSplit {a0}"), "getAliasName": (1, "cAlias {a0}"),
}
for _n, _a in SEARCH.items(): PRIMS[_n] = (_a, "1")
PRIM_RE = re.compile(r"(?<![\w.'])(%s)(?![\w'])" % "|".join(sorted(PRIMS, key=len, reverse=True)))

# SITES: (function, kind, substring of the site's own text) -> cost expression that REPLACES the default of that site
#   kind: "cond" (condition of an `if`), "scrut" (scrutinee of a `match`), "leaf", "let", "arm" (added on entering the arm; key = pattern)
SITES = {}
NOTE = {}


def site(fn, kind, key, cost, why=""):
    SITES[(fn, kind, key)] = cost
    NOTE[(fn, kind, key)] = why


# ---- Parse/Expr.lean, helpers
site("pAlias", "cond", 'searchStrUp ts "AS"', 'cMove (searchStrUp ts "AS")', "parser.py:445 search_and_move")
site("pAlias", "scrut", "ts.drop 1", "cAlias (ts.drop 1)", "parser.py:446 _get_alias_name: search_one_type_mark, pop_as_source→pop")
site("pAlias", "scrut", "ts", "1", "parser.py:447 search_one_type_mark(NAME)")
site("pAlias", "cond", "t.has NAME &&", '(if t.has NAME then (if ["CROSS", "USING", "SORT", "DISTRIBUTE", "CLUSTER"].contains (up t.src) then 1 else 3) else 0)', "parser.py:448-449 search_one_type_set_use_upper only after a NAME, then pop_as_source→pop")
site("pTableName", "scrut", "ts", "1", "parser.py:301 pop")
site("pTableName", "cond", 'searchStr r0 "."', 'cMove (searchStr r0 ".")', "parser.py:305 search_and_move")
site("pTableName", "scrut", "r0.drop 1", "1", "parser.py:307 pop")
site("pRowItem", "cond", 'searchTwoUp ts "CURRENT" "ROW"', 'cMove (searchTwoUp ts "CURRENT" "ROW")', "parser.py:376")
site("pRowItem", "cond", 'searchStrUp ts "UNBOUNDED"', 'cMove (searchStrUp ts "UNBOUNDED")', "parser.py:378")
site("pRowItem", "cond", 'searchStrUp (ts.drop 1) "PRECEDING"', 'cMove (searchStrUp (ts.drop 1) "PRECEDING")', "parser.py:379")
site("pRowItem", "cond", 'searchStrUp (ts.drop 1) "FOLLOWING"', 'cMove (searchStrUp (ts.drop 1) "FOLLOWING")', "parser.py:381")
site("pRowItem", "cond", 'searchStrUp r "PRECEDING"', 'cMove (searchStrUp r "PRECEDING")', "parser.py:385")
site("pRowItem", "cond", 'searchStrUp r "FOLLOWING"', 'cMove (searchStrUp r "FOLLOWING")', "parser.py:387")
site("orderTail", "let", "let d :=", 'cMove (searchStrUp ts "DESC") + (if searchStrUp ts "DESC" then 0 else cMove (searchStrUp ts "ASC"))', "parser.py:184-186 two search_and_move, the second only after the first failed")
site("castParamsLoop", "cond", 'searchStr ts ","', 'cMove (searchStr ts ",")', "parser.py:510 search_and_move")
site("castParamsLoop", "cond", "ts.isEmpty", "1", "parser.py:512 close()")
site("castParams", "scrut", "g.children", "0", "parser.py:508 is_finish (a property, not a method call)")
site("castParams", "arm", "[]", "3", "parser.py:510-512 search_and_move(',') fails, close()")
site("castTail", "scrut", "sg.2", "cCastType sg.2", "parser.py:241-243 one search_and_move(…) per EnumCastDataType member tried")
site("castTail", "scrut", "r", "1", "parser.py:505 search_one_type_mark(PARENTHESIS)")
site("castTail", "cond", "g.has PAREN", "(if g.has PAREN then 2 else 1)", "parser.py:506 pop_as_children_scanner→pop; otherwise parser.py:516 close() of the inner cursor (which fails)")
site("castTail", "cond", "r'.isEmpty", "1", "parser.py:516 close()")
site("castTail", "leaf", ".ok (.cast e sg.1 ty none)", "1", "parser.py:516 close()")
site("pLimit", "cond", '!searchStrUp ts "LIMIT"', 'cMove (searchStrUp ts "LIMIT")', "parser.py:1382")
site("pLimit", "cond", 'searchStr r ","', 'cMove (searchStr r ",")', "parser.py:1385")
site("pLimit", "cond", 'searchStrUp r "OFFSET"', 'cMove (searchStrUp r "OFFSET")', "parser.py:1388")
site("multiAliasLoop", "cond", 'searchStr ts ","', 'cMove (searchStr ts ",")', "parser.py:463")
site("pFunc", "scrut", "pFuncName ts", "cFuncName ts", "parser.py:336-345 search(NAME, '.', NAME); pop_as_source, move, pop_as_source | search_one_type_mark, pop_as_source")
# ---- the mutual block
site("pElement", "scrut", "ts", "1", "parser.py:778 get_offset")
site("pElement", "leaf", ".ok (.literal n0.src, r0)", "2", "parser.py:365 pop_as_source→pop")
site("pElement", "leaf", ".ok (.wildcard none, r0)", "1", "parser.py:433 move")
site("pParen", "cond", "startsSelect n0.children", "3", "parser.py:733 get_as_children_scanner→get_or_null, search_one_type_set_use_upper")
site("pParen", "scrut", "pOr d f n0.children", "2", "parser.py:736 pop_as_children_scanner→pop")
site("pParen", "arm", ".ok (e, [])", "1", "parser.py:738 close()")
site("pParen", "arm", ".ok (_, _ :: _)", "1", "parser.py:738 close()")
site("pNamed", "scrut", "r0", "1", "parser.py:788 get_offset_or_null(1)")
site("pNamed", "cond", "n1.has PAREN", "(if n1.has PAREN then 1 else 0)", "parser.py:790 get_offset_or_null(2) (the model's headIsOver)")
site("pNamed", "cond", "headIsOver r1", "0", "counted at the enclosing condition")
site("pNamed", "leaf", "pIndex d f (.column none (unifyName n0.src)) r0", "2", "parser.py:287 pop_as_source→pop")
site("pQualified", "scrut", "r1", "1", "parser.py:795 get_offset(2)")
site("pQualified", "cond", "n2.has NAME", "(if n2.has NAME then 1 else 0)", "parser.py:797 get_offset_or_null(3) (the model's searchMark r2 PAREN)")
site("pQualified", "cond", "searchMark r2 PAREN", "0", "counted at the enclosing condition")
site("pQualified", "leaf", "pIndex d f (.column (some", "6", "parser.py:276-278 pop_as_source→pop, match→pop, pop_as_source→pop")
site("pQualified", "leaf", ".ok (.wildcard (some", "3", "parser.py:426-427 pop_as_source→pop, move(2)")
site("pIndex", "scrut", "ts", "1", "parser.py:753 search_one_type_mark(ARRAY_INDEX)")
site("pIndex", "scrut", "pCompute d f t.children", "2", "parser.py:756 pop_as_children_scanner→pop")
site("pIndex", "arm", ".ok (i, [])", "1", "parser.py:758 close()")
site("pIndex", "arm", ".ok (_, _ :: _)", "1", "parser.py:758 close()")
site("pIfCall", "scrut", "r", "2", "parser.py:534 pop_as_children_scanner→pop")
site("pCall", "scrut", "r", "2", "parser.py:566 pop_as_children_scanner→pop")
site("pCall", "scrut", "pFirstArg d f (callPrep name g).2.2", "(if (callPrep name g).1 then cMove (callPrep name g).2.1 else 0)", "parser.py:574-575 search_and_move only for an aggregation name")
site("pCase", "cond", 'searchStrUp r "WHEN"', "1", "parser.py:663 search (no move)")
site("pElseEnd", "cond", 'searchStrUp r2 "ELSE"', 'cMove (searchStrUp r2 "ELSE")', "parser.py:672/689")
site("pUnary", "scrut", "ts", "1", "parser.py:818 search_one_type_set")
site("pUnary", "scrut", "computeOp? (up t.src)", "2", "parser.py:227 pop_as_source→pop")
site("pComputeLoop", "scrut", "ts", "1", "parser.py:837 get_as_source_or_null")
site("pComputeLoop", "arm", "some (o, k)", "1", "parser.py:847 move")
site("pKeyword", "cond", 'before.isNone && searchStrUp ts "EXISTS"', '(if before.isNone then cMove (searchStrUp ts "EXISTS") else 0)', "parser.py:892 `and` short-circuits")
site("pKeyword", "cond", "chainsOn r", "1", "parser.py:969 get_as_source_or_null")
site("pKeyword", "leaf", "pKwRest d f bv (skipNot d r0).1 (skipNot d r0).2", "cMove (skipNot d r0).1", "parser.py:902 search_and_move_one_type_set_use_upper")
site("pKwRest", "scrut", "r1", "0", "parser.py:904 is_finish (property)")
site("pKwRest", "scrut", "pKwBody d f (up t.src) isNot bv r2", "1", "parser.py:909 get_as_source_or_null")
site("pKwRest", "cond", "chainsOn r", "1", "parser.py:969 get_as_source_or_null")
site("pKwBody", "cond", 'k == "BETWEEN"', '(if k == "BETWEEN" || k == "IS" || k == "IN" || k == "LIKE" || k == "RLIKE" || k == "REGEXP" then 1 else 0)', "parser.py:911… move() in every keyword branch")
site("pKwBody", "scrut", "pCompute d f (if isNot then r2 else (moveStrUp r2", '(if isNot then 0 else cMove (moveStrUp r2 "NOT").1)', "parser.py:923 `or` short-circuits")
site("pKwBody", "leaf", '.ok (some (.kw .is', "0", "counted at the scrutinee")
site("pInBody", "scrut", "r2", "2", "parser.py:614 get_as_children_scanner→get_or_null")
site("pInBody", "cond", "startsSelect g.children", "1", "parser.py:614 search_one_type_set_use_upper")
site("pInBody", "scrut", "pSplit d f [] [] g.children", "2 + g.children.length", "parser.py:724 pop_as_children_scanner_list_split_by→pop and its walk over the children")
site("pCompareLoop", "scrut", "ts", "1", "parser.py:986 search_one_type_set")
site("pCompareLoop", "arm", "some o", "2", "parser.py:213 pop_as_source→pop")
site("pNot", "scrut", "ts", "cMove (searchSetUp ts (Gen.notSet d))", "parser.py:1005 search_and_move_one_type_set_use_upper")
site("pAndLoop", "scrut", "ts", 'cMove (searchSetUp ts ["AND", "&&"])', "parser.py:1021")
site("pOrLoop", "scrut", "ts", 'cMove (searchSetUp ts ["OR", "||"])', "parser.py:1057")
site("pXorLoop", "cond", 'searchStrUp ts "XOR"', 'cMove (searchStrUp ts "XOR")', "parser.py:1039")
site("pSubQuery", "scrut", "ts", "2", "parser.py:707 pop_as_children_scanner→pop")
site("pCast", "scrut", "ts", "2", "parser.py:500 pop_as_children_scanner→pop")
site("pExtract", "scrut", "ts", "2", "parser.py:480 pop_as_children_scanner→pop")
site("pWindow", "scrut", "r1", "2", "parser.py:633 pop_as_children_scanner→pop")
site("pWindowBody", "cond", 'searchTwoUp r2 "ROWS" "BETWEEN"', "1", "parser.py:642 search (no move)")
site("pWindowBody", "cond", "r2.isEmpty", "1", "parser.py:644 close()")
site("pPartitionBy", "cond", 'searchTwoUp cs "PARTITION" "BY"', 'cMove (searchTwoUp cs "PARTITION" "BY")', "parser.py:634")
for _f in ["pComputeList", "pOrderList", "pSelectCols", "pFromTables", "pWithTables"]:
    site(_f, "cond", 'searchStr ts ","', 'cMove (searchStr ts ",")', "the `while search_and_move(',')` loops")
site("pOrderByOpt", "cond", 'searchTwoUp ts "ORDER" "BY"', 'cMove (searchTwoUp ts "ORDER" "BY")', "parser.py:1317")
site("pTableExpr", "cond", "startsSelect cs", "1", "parser.py:1112 search_one_type_set_use_upper")
site("pTableExpr", "cond", "searchMark ts PAREN", "(if searchMark ts PAREN then 3 else 1)", "parser.py:1114-1115 search_one_type_mark; pop_as_children_scanner→pop")
site("pJoinRule", "cond", "!onUsingHead r1", "1", "parser.py:1205 search_one_type_set_use_upper")
site("pJoinRule", "cond", 'searchStrUp r1 "ON"', '(if searchStrUp r1 "ON" then 3 else 2)', "parser.py:1097-1099 search ON (then match→pop), search USING")
site("pOptOr", "cond", "searchStrUp ts kwd", "cMove (searchStrUp ts kwd)", "parser.py:1220/1288")
site("pGroupingElem", "scrut", "seg", "1", "parser.py:1236 search_one_type_mark")
site("pGroupingElem", "cond", "g.has PAREN", "(if g.has PAREN then 2 + g.children.length else 0)", "parser.py:1237 pop_as_children_scanner_list_split_by→pop and its walk")
site("pGroupingElem", "cond", "r.isEmpty", "1", "parser.py:1246 close()")
site("pGroupingSets", "scrut", "r", "(match r with | [] => 2 | g :: _ => 2 + g.children.length)", "parser.py:1235 pop_as_children_scanner_list_split_by→pop and its walk")
site("pGroupBy", "cond", '!searchTwoUp ts "GROUP" "BY"', 'cMove (searchTwoUp ts "GROUP" "BY")', "parser.py:1258")
site("pWithTable", "scrut", "ts", "2", "parser.py:1405 pop_as_source→pop")
site("pWithBody", "scrut", "r1", "2", "parser.py:1407 pop_as_children_scanner→pop")
site("pWith", "cond", 'searchStrUp ts "WITH"', 'cMove (searchStrUp ts "WITH")', "parser.py:1422")
site("pFromOpt", "cond", 'searchStrUp ts "FROM"', '(if searchStrUp ts "FROM" then 3 else 1)', "parser.py:1467 search, then parser.py:1172 match→pop")
site("pSortBy", "cond", 'searchTwoUp ts "SORT" "BY"', 'cMove (searchTwoUp ts "SORT" "BY")', "parser.py:1333")
site("pByList", "cond", 'searchTwoUp ts kwd "BY"', 'cMove (searchTwoUp ts kwd "BY")', "parser.py:1350/1366")
site("pSingle", "cond", "!searchMark ts PAREN", "1", "parser.py:1461 search_one_type_mark")
site("pSingle", "scrut", "ts", "2", "parser.py:1462 pop_as_children_scanner→pop")
site("pSingleParen", "cond", "searchMark inner PAREN", "1", "parser.py:1461")
site("pSingleParen", "scrut", "outer", "2", "parser.py:1462 pop_as_children_scanner→pop")
site("pSingleParen", "cond", "!rest.isEmpty", "cCloseStack rest stack", "parser.py:1483-1484 close() of the opened cursors, innermost first, until one fails")
site("pUnions", "cond", "!setOpHead ts", "1", "parser.py:1518")

# ---- Parse/Stmt.lean
site("pIndexCol", "scrut", "r", "2", "parser.py pop_as_children_scanner→pop (_parse_index_column)")
site("pGenerated", "scrut", "ts.drop 3", "2", "parser.py pop_as_children_scanner→pop (_parse_generated_column)")
site("defColLoop", "cond", 'ts.isEmpty || searchStr ts ";"', '(if ts.isEmpty then 0 else 1 + (if searchStr ts ";" then 0 else 1))', "`while not is_finish and not search(';') and not search(',')` short-circuits; is_finish is a property")
site("createOpts", "cond", 'ts.isEmpty || searchStr ts ";"', "(if ts.isEmpty then 0 else 1)", "`while not is_finish and not search(';')`")
site("valuesLoop", "scrut", "ts", "1", "search_one_type_mark(PARENTHESIS) of the VALUES loop")
site("valuesLoop", "cond", "t.has PAREN", "(if t.has PAREN then 2 + t.children.length else 0)", "parser.py:724 pop_as_children_scanner_list_split_by→pop and its walk")
site("pColumnName", "scrut", "ts", "1", "parser.py:257 search_one_type_mark(NAME)")
site("pColumnName", "cond", "!a.has NAME", "(if a.has NAME then 2 else 0)", "parser.py:259 pop_as_source→pop")
site("pColumnName", "scrut", "r.drop 1", "1", "parser.py:261 search_one_type_mark(NAME)")
site("pColumnName", "cond", "b.has NAME", "(if b.has NAME then 2 else 0)", "parser.py:264 pop_as_source→pop")
site("statementsLoop", "leaf", ".ok acc", "1", "the final close() of parse_statements")


def prims_in(fn, text, seen):
    """cost expressions of the primitive calls occurring in `text` (a call text already seen on this path costs nothing: the model
    mentions `(moveStrUp r "X").1` and `.2` of ONE Python call)"""
    out = []
    for m in PRIM_RE.finditer(text):
        name = m.group(1)
        if text[:m.start()].endswith("eachClosed "): continue      # passed as the segment parser, not called here
        ar, cost = PRIMS[name]
        args, e = read_args(text[m.end():], ar)
        if len(args) < ar: continue          # a partial application / a mention
        call = name + " " + " ".join(args)
        if call in seen: continue
        seen.add(call)
        out.append(cost.format(call=call, **{"a%d" % i: a for i, a in enumerate(args)}))
    return out


def lookup(fn, kind, text):
    best = None
    for (f, k, key), c in SITES.items():
        if f == fn and k == kind and (text == key if kind == "scrut" and re.fullmatch(r"[\w']+", key) else key in text):
            if best is None or len(key) > len(best[0]): best = (key, c)
    if best: USED.add((fn, kind, best[0]))
    return None if best is None else best[1]


USED = set()


def plus(k, costs):
    costs = [c for c in costs if c not in ("0", "")]
    if not costs: return k
    lit = sum(int(c) for c in costs if c.isdigit())
    rest = [c if re.fullmatch(r"[\w.]+", c) else "(%s)" % c if not c.startswith("(") or balanced(c, 0) != len(c) else c for c in costs if not c.isdigit()]
    return " + ".join([k] + rest + ([str(lit)] if lit else []))


# ================================================================================================ emission
KF = set()        # names of functions that have a `_k` companion


def kargs(g, args):
    if g == "eachClosed": return re.sub(r"^(\(?)([\w']+)", lambda m: m.group(1) + m.group(2) + "_k", args)
    return args


def head_fn(text):
    m = re.match(r"([\w']+)", text)
    return m.group(1) if m and m.group(1) in KF else None


def site_cost(fn, kind, text, seen):
    c = lookup(fn, kind, text)
    if c is not None:
        # the primitives mentioned at an overridden site are accounted for by the override
        prims_in(fn, text, seen)
        return [c]
    return prims_in(fn, text, seen)


def flat(n):
    if n.kind == "leaf": return n.text
    if n.kind == "if": return n.cond + " " + flat(n.a) + " " + flat(n.b)
    if n.kind == "let": return n.bind + " " + flat(n.body)
    return n.scrut + " " + " ".join(p + " " + flat(b) for p, b in n.arms)


def cond_cost(fn, n, seen):
    """default for `if search… X … then … X.drop n …`: the Python method is `search_and_move…` (2 calls, 3 when it moves)"""
    c = lookup(fn, "cond", n.cond)
    if c is not None:
        prims_in(fn, n.cond, seen)
        return [c]
    m = re.fullmatch(r"(!?)((?:%s) .*)" % "|".join(SEARCH), n.cond)
    if m and PRIM_RE.findall(n.cond) == [m.group(2).split()[0]]:
        args, _ = read_args(m.group(2)[len(m.group(2).split()[0]):], 1)
        branch = n.b if m.group(1) else n.a
        if args and re.search(r"(?<![\w.])%s\.drop\b" % re.escape(args[0]), flat(branch)) or (args and args[0].startswith("(") and (args[0] + ".drop") in flat(branch)):
            seen.add(m.group(2))
            return ["cMove (%s)" % m.group(2)]
    return prims_in(fn, n.cond, seen)


def emit(fn, n, ind, seen):
    """Lean text of the cost companion of node `n` (accumulator `k` in scope), as a list of lines"""
    pad = " " * ind
    if n.kind == "leaf":
        t = n.text
        g = head_fn(t)
        costs = site_cost(fn, "leaf", t, seen)
        if g:
            return [pad + "%s_k %s (%s)" % (g, t[len(g):].strip().replace("eachClosed (", "eachClosed ("), plus("κ", costs))]
        return [pad + "(%s, %s)" % (plus("κ", costs), t)]
    if n.kind == "if":
        costs = cond_cost(fn, n, seen)
        out = []
        if plus("κ", costs) != "κ": out.append(pad + "let κ := %s" % plus("κ", costs))
        out.append(pad + "if %s then" % n.cond)
        out += emit(fn, n.a, ind + 2, set(seen))
        out.append(pad + "else")
        out += emit(fn, n.b, ind + 2, set(seen))
        return out
    if n.kind == "let":
        costs = site_cost(fn, "let", n.bind, seen)
        out = []
        if plus("κ", costs) != "κ": out.append(pad + "let κ := %s" % plus("κ", costs))
        out.append(pad + n.bind)
        return out + emit(fn, n.body, ind, seen)
    assert n.kind == "match"
    sc = n.scrut
    out = []
    g = head_fn(sc)
    mclosed = re.match(r"closed \((.*)\)$", sc)
    gc = head_fn(mclosed.group(1)) if mclosed else None
    nested = sc.startswith("(") and balanced(sc, 0) == len(sc) and re.match(r"\((match|if) ", sc)
    costs = [] if nested else site_cost(fn, "scrut", sc, seen)
    if g or gc or nested:
        if g: head = "%s_k %s (%s)" % (g, kargs(g, sc[len(g):].strip()), plus("κ", costs))
        elif gc:
            inner = mclosed.group(1)
            head = "closed_k (%s_k %s (%s))" % (gc, inner[len(gc):].strip(), plus("κ", costs))
        else:
            sub = parse_body(sc[1:-1])
            if plus("κ", costs) != "κ": out.append(pad + "let κ := %s" % plus("κ", costs))
            head = None
            out.append(pad + "let ρ := (")
            out += emit(fn, sub, ind + 4, seen)
            out.append(pad + "  )")
        if head: out.append(pad + "let ρ := %s" % head)
        out.append(pad + "let κ := ρ.1")
        out.append(pad + "match ρ.2 with")
        for pat, body in n.arms:
            ac = lookup(fn, "arm", pat)
            out.append(pad + "| %s =>" % pat)
            s2 = set(seen)
            if ac:
                out.append(pad + "  let κ := %s" % plus("κ", [ac]))
            out += emit(fn, body, ind + 2, s2)
        return out
    if mclosed:       # `closed` of a primitive run: close() is called only when the run succeeded
        costs = costs + ["cClosed (%s)" % mclosed.group(1)]
    if plus("κ", costs) != "κ": out.append(pad + "let κ := %s" % plus("κ", costs))
    out.append(pad + "match %s with" % sc)
    for pat, body in n.arms:
        ac = lookup(fn, "arm", pat)
        out.append(pad + "| %s =>" % pat)
        if ac: out.append(pad + "  let κ := %s" % plus("κ", [ac]))
        out += emit(fn, body, ind + 2, set(seen))
    return out


def ret_k(ret): return "Nat × " + ret


def emit_def(d, handwritten):
    if d.name in handwritten: return handwritten[d.name].rstrip("\n").split("\n")
    if d.alias is not None:
        tgt = d.alias.split()[0]
        return ["def %s_k := %s_k %s" % (d.name, tgt, d.alias[len(tgt):].strip())]
    sig = " → ".join(d.arrows + ["Nat", ret_k(d.ret)])
    if d.arms is None:
        out = ["def %s_k %s (κ : Nat) : %s :=" % (d.name, d.binders, ret_k(d.ret))]
        return out + emit(d.name, parse_body(d.body), 2, set())
    out = ["def %s_k %s : %s" % (d.name, d.binders, sig)]
    for pats, body in d.arms:
        out.append("  | %s, κ =>" % pats)
        out += emit(d.name, body, 4, set())
    if d.arrows and d.arrows[0] == "Nat": out.append("termination_by structural x => x")
    return out


HAND = {}
HAND["pSplit"] = """def pSplit_k (d : Gen.D) : Nat → List Expr → List Tok → List Tok → Nat → Nat × Except Err (List Expr)
  | 0, _, _, _, κ => (κ, .error .fuel)
  | f+1, acc, cur, ts, κ =>
    -- the walk over the children is paid where the group is popped (`pInBody_k`); here: one compute expression and one close() per segment
    let flush : Nat × Except Err (List Expr) :=
      if cur.isEmpty then (κ, .ok acc) else
        let ρ := pCompute_k d f cur κ
        match ρ.2 with
        | .ok (e, []) => (ρ.1 + 1, .ok (acc ++ [e])) | .ok (_, _ :: _) => (ρ.1 + 1, .error .parse) | .error e => (ρ.1, .error e)
    match ts with
    | [] => flush
    | t :: r => if t.equalsStr "," then (match flush.2 with | .ok acc' => pSplit_k d f acc' [] r flush.1 | .error e => (flush.1, .error e))
                else pSplit_k d f acc (cur ++ [t]) r κ
termination_by structural x => x
"""

if __name__ == "__main__":
    expr_src = rd("MsqModel/Parse/Expr.lean")
    mpos = expr_src.index("\nmutual\n"); epos = expr_src.index("\nend\n", mpos)
    pre = [d for d in read_defs(expr_src[:mpos]) if d.ret and (d.ret.startswith("R ") or d.ret.startswith("Except Err")) and d.name not in ("splitName",)]
    pre = [d for d in pre if d.name not in ("getAliasName", "pFuncName")]       # primitives with a cost function of their own (CostPrim.lean)
    block = read_defs(expr_src[mpos + 8:epos])
    for d in pre + block: KF.add(d.name)
    out = ["import MsqModel.Parse.CostPrim",
           "/-! GENERATED by tools/gen_cost.py — C19: cost companions of MsqModel/Parse/Expr.lean.  `pX_k … k` runs `pX …` and returns, with the",
           "same result, `k` + the number of cursor operations (`TokenScanner` method calls, plus one per child walked by a comma split) of the run. -/",
           "set_option maxHeartbeats 4000000", "open Lex", "namespace PM", "open Ast", ""]
    for d in pre: out += emit_def(d, HAND) + [""]
    out.append("mutual")
    for d in block: out += emit_def(d, HAND)
    out += ["end", "", "end PM"]
    wr("MsqModel/Parse/Cost.lean", "\n".join(out) + "\n")

    # ---------------------------------------------------------------------------- statement level
    stmt_src = rd("MsqModel/Parse/Stmt.lean")
    sdefs = [d for d in read_defs(stmt_src) if d.name not in ("eachClosed", "popSplit") and (d.alias is not None or d.ret.startswith("R ") or d.ret.startswith("Except Err"))]
    edefs = [d for d in read_defs(rd("MsqModel/Parse/Entry.lean")) if d.name == "pStatements"]
    KF.add("eachClosed")
    for d in sdefs + edefs: KF.add(d.name)
    out = ["import MsqModel.Parse.Cost", "import MsqModel.Parse.Entry",
           "/-! GENERATED by tools/gen_cost.py — C19: cost companions of MsqModel/Parse/Stmt.lean and of `pStatements` (MsqModel/Parse/Entry.lean) -/",
           "set_option maxHeartbeats 4000000", "open Lex", "namespace PM", "open Ast", ""]
    for d in sdefs + edefs: out += emit_def(d, HAND) + [""]
    out += ["end PM"]
    wr("MsqModel/Parse/CostStmt.lean", "\n".join(out) + "\n")
    STMT = sdefs + edefs

    # ============================================================================ projection proofs
    def uses(name, text): return re.search(r"(?<![\w.'])%s(?![\w'])" % re.escape(name), text) is not None
    def bnames(d): return [n for b in re.findall(r"\(([^()]*?):", d.binders) for n in b.split()]
    def xs(n): return " ".join("x%d" % i for i in range(n))
    POPTS = ["set_option linter.unusedVariables false", "set_option linter.unusedSimpArgs false", "set_option maxHeartbeats 1000000", "open Lex PM Ast", "namespace PM", ""]
    bnames_block = [d.name for d in block]

    def ec_haves(d, proj_of):
        out = []
        for i, m in enumerate(re.finditer(r"eachClosed\s+(\((?:[^()]|\([^()]*\))*\)|[\w']+)", d.src)):
            arg = m.group(1)
            ak = re.sub(r"^(\(?)([\w']+)", lambda mm: mm.group(1) + mm.group(2) + "_k", arg)
            nm = re.match(r"\(?([\w']+)", arg).group(1)
            out.append("  have hE%d := eachClosed_k_snd %s %s %s" % (i, ak, arg, proj_of(nm)))
        return out

    def proj_lemma(d, known, stmt_level):
        """known: names with a lemma X_proj; block functions are available as `pX_proj d f` at the statement level"""
        nm = d.name
        if d.alias is not None:
            tgt = d.alias.split()[0]
            return ["theorem %s_proj : ∀ ts κ, (%s_k ts κ).2 = %s ts := fun ts κ => %s_proj %s ts κ" % (nm, nm, nm, tgt, " ".join("_" for _ in d.alias.split()[1:] if False) or " ".join(["_"] * len(read_args(d.alias[len(tgt):])[0])))]
        bn = bnames(d)
        def proj_of(c):
            if c in bnames_block: return "(%s_proj d f)" % c
            return "%s_proj" % c if c not in fueled else "(%s_proj d f)" % c
        haves = ["  have h_%s := %s" % (c, proj_of(c)) for c in known if c != nm and uses(c, d.src)] + ec_haves(d, proj_of)
        impl = "{α : Type} " if "{α : Type}" in d.binders else ""
        bind = d.binders.replace("{α : Type}", "").strip()
        if d.arms is None:
            pre_t = "  cases already <;> unfold %s_k %s <;> simp only [Bool.false_eq_true, ↓reduceIte, if_true, if_false] <;> proj_run" % (nm, nm) if nm == "pPartition" else None     # an `if` in discriminant position: decide it first
            return ["theorem %s_proj %s (κ : Nat) : (%s_k %s κ).2 = %s %s := by" % (nm, d.binders, nm, " ".join(bn), nm, " ".join(bn))] + haves + \
                   ([pre_t, ""] if pre_t else ["  unfold %s_k %s" % (nm, nm), "  proj_run", ""])
        a = len(d.arrows)
        st = "theorem %s_proj %s : ∀ %s κ, (%s_k %s %s κ).2 = %s %s %s := by" % (nm, d.binders, xs(a), nm, " ".join(bn), xs(a), nm, " ".join(bn), xs(a))
        rec = uses(nm, " ".join(flat(b) for _, b in d.arms))
        if not rec:
            return [st, "  intro %s κ" % xs(a)] + haves + ["  unfold %s_k %s" % (nm, nm), "  proj_run", ""]
        rest = " ".join("x%d" % i for i in range(1, a))
        if d.arrows[0] == "Nat":
            return [st] + haves + ["  intro x0", "  induction x0 with", "  | zero => intros; rfl", "  | succ n ih =>", "    intro %s κ" % rest, "    unfold %s_k %s" % (nm, nm), "    proj_run", ""]
        return [st] + haves + ["  intro x0", "  induction x0 with", "  | nil => intros; rfl", "  | cons sg rest ih =>", "    intro %s κ" % rest, "    unfold %s_k %s" % (nm, nm), "    proj_run", ""]

    fueled = set()
    out = ["import MsqProofs.Lemmas.ParseCostProj0", "/-! GENERATED by tools/gen_cost.py — C19: the cost companions compute the results of the functions they count (helpers of Parse/Expr.lean, induction hypothesis of the block) -/"] + POPTS
    known = []
    for d in pre:
        out += proj_lemma(d, known, False); known.append(d.name)
    out.append("/-- the induction hypothesis for the mutual block -/")
    out.append("structure ProjF (d : Gen.D) (n : Nat) : Prop where")
    for d in block:
        a = len(d.arrows) - 1
        out.append("  %s : ∀ %s κ, (%s_k d n %s κ).2 = %s d n %s" % (d.name, xs(a), d.name, xs(a), d.name, xs(a)))
    out += ["", "end PM"]
    wr("MsqProofs/Lemmas/ParseCostProjDefs.lean", "\n".join(out) + "\n")
    NP = 4
    for k in range(NP):
        out = ["import MsqProofs.Lemmas.ParseCostProjDefs", "/-! GENERATED by tools/gen_cost.py — C19 projection: fuel step for the mutual block, part %d of %d -/" % (k + 1, NP)] + POPTS + ["variable (d : Gen.D)", ""]
        for d in block[k::NP]:
            a = len(d.arrows) - 1
            body = " ".join(flat(b) for _, b in d.arms)
            out.append("theorem projF_%s (n : Nat) (ih : ProjF d n) : ∀ %s κ, (%s_k d (n+1) %s κ).2 = %s d (n+1) %s := by" % (d.name, xs(a), d.name, xs(a), d.name, xs(a)))
            out.append("  intro %s κ" % xs(a))
            for c in known:
                if uses(c, body): out.append("  have h_%s := %s_proj" % (c, c))
            for c in bnames_block:
                if uses(c, body) or d.name == "pSplit" and c == "pCompute": out.append("  have h_%s := ih.%s" % (c, c))
            if d.name == "pSplit":      # the shared `let flush` is no scrutinee of the lockstep walk: by hand
                out += ["  clear ih", "  unfold pSplit_k pSplit", "  by_cases hcur : x1.isEmpty = true", "  · simp only [hcur, if_true]; proj_run",
                        "  · simp only [hcur, if_false, h_pCompute, h_pSplit, Bool.false_eq_true]",
                        "    rcases hp : pCompute d n x1 with e | ⟨v, _ | ⟨t, r⟩⟩ <;> simp only [hp] <;> proj_run", ""]
                continue
            if d.name == "pSelectStmt":     # a `match` in discriminant position: decide it first
                out += ["  clear ih", "  cases x0 <;> unfold pSelectStmt_k pSelectStmt <;> proj_run", ""]
                continue
            out += ["  clear ih", "  unfold %s_k %s" % (d.name, d.name), "  proj_run", ""]
        out += ["end PM"]
        wr("MsqProofs/Lemmas/ParseCostProjE%d.lean" % (k + 1), "\n".join(out) + "\n")
    out = ["import MsqProofs.Lemmas.ParseCostProjE%d" % (k + 1) for k in range(NP)] + ["/-! GENERATED by tools/gen_cost.py — C19 projection: the mutual block (induction on the fuel) and the statement level -/"] + POPTS + ["variable (d : Gen.D)", ""]
    out += ["theorem projF_all : ∀ n, ProjF d n := by", "  intro n", "  induction n with",
            "  | zero => constructor <;> (intros; rfl)",
            "  | succ n ih => exact ⟨" + ", ".join("projF_%s d n ih" % d.name for d in block) + "⟩", ""]
    for d in block:
        a = len(d.arrows) - 1
        out.append("theorem %s_proj (f : Nat) : ∀ %s κ, (%s_k d f %s κ).2 = %s d f %s := (projF_all d f).%s" % (d.name, xs(a), d.name, xs(a), d.name, xs(a), d.name))
    out += ["", "end PM"]
    wr("MsqProofs/Lemmas/ParseCostProj.lean", "\n".join(out) + "\n")
    out = ["import MsqProofs.Lemmas.ParseCostProj", "/-! GENERATED by tools/gen_cost.py — C19 projection: the statement level (Parse/Stmt.lean) and `pStatements` -/"] + POPTS
    known2 = list(known) + ["popSrc"]
    for d in STMT:
        if d.alias is None and "(d : Gen.D) (f : Nat)" in d.binders: fueled.add(d.name)
    for d in STMT:
        out += proj_lemma(d, known2 + bnames_block, True); known2.append(d.name)
    out += ["", "end PM"]
    wr("MsqProofs/Lemmas/ParseCostProjStmt.lean", "\n".join(out) + "\n")

    # ============================================================================ the linear bound
    adq = rd("MsqProofs/Lemmas/ParseAdqDefs.lean")
    RANK, MEAS, SFXH = {}, {}, {}
    for m in re.finditer(r"^  (\w+) : ∀ [^,]*, (?:Sfx (\w+) (\w+) → )?(\d+) \+ \((.*?)\) ≤ n → ", adq, re.M):
        RANK[m.group(1)] = int(m.group(4)); MEAS[m.group(1)] = m.group(5)
        if m.group(2): SFXH[m.group(1)] = (m.group(2), m.group(3))
    MEAS["pSplit"] = "adqWL x1 + adqWL x2"        # the walk is paid where the group is popped (pInBody); a flush is paid by its comma
    BD = dict((d.name, d) for d in block)
    PD = dict((d.name, d) for d in pre)

    def kind(d):
        if d.ret.startswith("R ") or d.name == "pFirstArg": return "R"
        if "Option (Expr × List Tok)" in d.ret: return "O"
        return "E"

    def split_plus(e):
        return [x.strip() for x in top_split(e, " + ")]

    def cmax(e):
        e = e.strip()
        while e.startswith("(") and balanced(e, 0) == len(e): e = e[1:-1].strip()
        if e.startswith("match r with"): return 2
        parts = split_plus(e)
        if len(parts) > 1 and not e.startswith("if "): return sum(cmax(x) for x in parts)
        if e.startswith("if "):
            pp = P(e); n, _ = pp.term(0)
            return max(cmax(n.a.text if n.a.kind == "leaf" else flat_if(n.a)), cmax(n.b.text if n.b.kind == "leaf" else flat_if(n.b)))
        if e.isdigit(): return int(e)
        if e.startswith("cMove") or e.startswith("cAlias"): return 3
        if e.startswith("cFuncName"): return 6
        if e.startswith("cCastType"): return 63
        if e.startswith("cClosed") or e.startswith("cCloseStack"): return 1
        if e.startswith("cSplit"): return 2
        if e.startswith("cFirstEnum Gen.joinTypes"): return 23
        if e.startswith("cFirstEnum Gen.unionTypes"): return 11
        if e.startswith("cMatchSeq"):
            m = re.search(r"\[(.*)\]", e)
            if m: return 1 + len(re.findall(r'"[^"]*"', m.group(1)))
            return 1          # a word list passed as a parameter (`pNamedIndex`, `pKwTable`): `+ kws.length` on the right-hand side
        if e.endswith(".children.length"): return 0
        raise SystemExit("cmax: " + e)

    def flat_if(n):
        return "if %s then %s else %s" % (n.cond, n.a.text if n.a.kind == "leaf" else flat_if(n.a), n.b.text if n.b.kind == "leaf" else flat_if(n.b))

    CF = {}
    # `pKwRest` calls `pKwBody` on the tail of its cursor, but hands its own cursor back when `pKwBody` finds no keyword: that call is paid by the constant
    FORCED = {("pKwRest", "pKwBody")}
    SLACK = {"pJoin": 30, "pLateral": 30}

    def getc(g):
        if g not in CF:
            CF[g] = -1
            CF[g] = (getc("pCompute") + 2) if g == "pSplit" else const_of(BD[g])
        assert CF[g] >= 0, "cycle of non-consuming calls at " + g
        return CF[g]

    def callee_c(fn, g, allc):
        """what a call of `g` adds to the constant of `fn`: its own constant when it may run on the unconsumed cursor (lower rank)"""
        if g == "eachClosed": return 0
        if g in BD:
            if allc: return CF.get(g, 0)
            if (fn, g) in FORCED: return getc(g)
            return getc(g) if fn in BD and RANK[g] < RANK[fn] else (getc(g) if fn not in BD else 0)
        return CF.get(g, 0)

    def pathmax(fn, n, seen, allc):
        if n.kind == "leaf":
            g = head_fn(n.text)
            return sum(cmax(c) for c in site_cost(fn, "leaf", n.text, seen)) + (callee_c(fn, g, allc) if g else 0)
        if n.kind == "if":
            c = sum(cmax(c) for c in cond_cost(fn, n, seen))
            return c + max(pathmax(fn, n.a, set(seen), allc), pathmax(fn, n.b, set(seen), allc))
        if n.kind == "let":
            c = sum(cmax(c) for c in site_cost(fn, "let", n.bind, seen))
            return c + pathmax(fn, n.body, seen, allc)
        sc = n.scrut
        g = head_fn(sc); mc = re.match(r"closed \((.*)\)$", sc); gc = head_fn(mc.group(1)) if mc else None
        nested = sc.startswith("(") and balanced(sc, 0) == len(sc) and re.match(r"\((match|if) ", sc)
        c = 0 if nested else sum(cmax(x) for x in site_cost(fn, "scrut", sc, seen))
        if nested: c += pathmax(fn, parse_body(sc[1:-1]), seen, allc)
        if g: c += callee_c(fn, g, allc)
        if gc: c += callee_c(fn, gc, allc) + 1
        if mc and not gc: c += 1
        best = 0
        for pat, body in n.arms:
            ac = lookup(fn, "arm", pat)
            best = max(best, (cmax(ac) if ac else 0) + pathmax(fn, body, set(seen), allc))
        return c + best

    def const_of(d, allc=False):
        if d.name in HAND: return None
        if d.arms is None: return pathmax(d.name, parse_body(d.body), set(), allc)
        return max(pathmax(d.name, b, set(), allc) for _, b in d.arms)

    for d in pre: CF[d.name] = const_of(d)
    for d in block: getc(d.name)       # pSplit: one compute expression and one close() per flush; the last flush is not paid by a comma
    TMAX = max([const_of(d, True) or 0 for d in pre + block])
    SEGP = ["pCompute", "pGroupingElem"]          # parsers run on every segment of a split: the unit per segment (`adqWLL`) has to pay their constant and the close()
    CM = max(2 * ((TMAX + 40) // 38 + 1), 2 * ((max(CF[g] for g in SEGP) + 4) // 2 + 1))
    if "--consts" in sys.argv:
        for d in pre + block: print("%-16s rank %2d  c = %d" % (d.name, RANK.get(d.name, 0), CF[d.name]))
        print("largest path sum", TMAX, " CM =", CM)
    EXTRA_RHS = {"pSingleParen": " + x2.length"}

    def field(d, fuel):
        a = len(d.arrows) - 1
        nm = d.name
        app = "%s_k d %s %s κ" % (nm, fuel, xs(a))
        mu = "%d * (%s)" % (CM, MEAS[nm])
        hyp = ("Sfx %s %s → " % SFXH[nm]) if nm in SFXH else ""
        k = kind(d)
        lhs = "(%s).1 + rem (%s).2" % (app, app) if k == "R" else "(%s).1 + remO (%s) (%s).2" % (app, mu, app) if k == "O" else "(%s).1" % app
        if nm in SLACK: lhs = "(%s).1 + remS %d (%s).2" % (app, SLACK[nm], app)
        return "∀ %s κ, %s%s ≤ κ + %s + %d%s" % (xs(a), hyp, lhs, mu, CF[nm], EXTRA_RHS.get(nm, ""))

    BGRIND = "grind -funext (gen := 40) (instances := 20000) [adqWL_append, Lost]"
    hand0 = open(os.path.join(ROOT, "tools", "dev", "ParseCostBnd0.lean.in"), encoding="utf-8").read().replace("CMV", str(CM)).replace("`CM ", "`%d " % CM).replace("CM *", "%d *" % CM)
    wr("MsqProofs/Lemmas/ParseCostBnd0.lean", hand0)
    out = ["import MsqProofs.Lemmas.ParseCostBnd0", "/-! GENERATED by tools/gen_cost.py — C19: the linear bound, helpers of Parse/Expr.lean and the induction hypothesis of the block (constants: tools/gen_cost.py --consts) -/"] + POPTS
    bknown = []

    def helper_bnd(d, known_b):
        nm = d.name
        bn = bnames(d)
        k = kind(d)
        haves = ["  have h_%s := %s_bnd" % (c, c) for c in known_b if c != nm and uses(c, d.src)]
        if d.arms is None:
            app = "%s_k %s κ" % (nm, " ".join(bn))
            cur = "ts" if "ts" in bn else None
            mu = "%d * adqWL %s" % (CM, cur) if cur else "%d * adqWL g.children" % CM
            lhs = "(%s).1 + rem (%s).2" % (app, app) if k == "R" else "(%s).1" % app
            return ["theorem %s_bnd %s (κ : Nat) : %s ≤ κ + %s + %d := by" % (nm, d.binders, lhs, mu, CF[nm])] + haves + \
                   ["  generalize h : %s = out" % app, "  unfold %s_k at h" % nm, "  split_run <;> " + BGRIND, ""]
        a = len(d.arrows)
        app = "%s_k %s κ" % (nm, xs(a))
        lhs = "(%s).1 + rem (%s).2" % (app, app) if k == "R" else "(%s).1" % app
        rest = " ".join("x%d" % i for i in range(1, a))
        return ["theorem %s_bnd : ∀ %s κ, %s ≤ κ + %d * adqWL x%d + %d := by" % (nm, xs(a), lhs, CM, a - 1, CF[nm])] + haves + \
               ["  intro x0", "  induction x0 with", "  | zero => intro %s κ; simp only [%s_k, rem_error, remO_error]; omega" % (rest, nm), "  | succ n ih =>", "    intro %s κ" % rest,
                "    generalize h : %s_k (n+1) %s κ = out" % (nm, rest), "    unfold %s_k at h" % nm, "    split_run <;> " + BGRIND, ""]

    for d in pre:
        out += helper_bnd(d, bknown); bknown.append(d.name)
    out.append("/-- the induction hypothesis for the mutual block -/")
    out.append("structure BndF (d : Gen.D) (n : Nat) : Prop where")
    for d in block: out.append("  %s : %s" % (d.name, field(d, "n")))
    out += ["", "end PM"]
    wr("MsqProofs/Lemmas/ParseCostBndDefs.lean", "\n".join(out) + "\n")
    NB = 8
    for k in range(NB):
        out = ["import MsqProofs.Lemmas.ParseCostBndDefs", "/-! GENERATED by tools/gen_cost.py — C19 linear bound: fuel step for the mutual block, part %d of %d -/" % (k + 1, NB)] + POPTS + ["variable (d : Gen.D)", ""]
        for d in block[k::NB]:
            a = len(d.arrows) - 1
            body = " ".join(flat(b) for _, b in d.arms) if d.name not in HAND else HAND[d.name]
            out.append("theorem bndF_%s (n : Nat) (ih : BndF d n) :" % d.name)
            out.append("    %s := by" % field(d, "(n+1)"))
            out.append("  intro %s κ%s" % (xs(a), " hsfx" if d.name in SFXH else ""))
            out.append("  have hC := consF_all d n")
            out.append("  have hP := projF_all d n")
            for c in bknown:
                if uses(c, body): out += ["  have h_%s := %s_bnd" % (c, c), "  have p_%s := %s_proj" % (c, c)]
            for c in bnames_block:
                if uses(c, body) or uses(c + "_k", body): out += ["  have h_%s := ih.%s" % (c, c), "  have p_%s := hP.%s" % (c, c)]
            out += ["  clear ih hP", "  generalize h : %s_k d (n+1) %s κ = out" % (d.name, xs(a)), "  unfold %s_k at h" % d.name, "  split_run <;> " + BGRIND, ""]
        out += ["end PM"]
        wr("MsqProofs/Lemmas/ParseCostBndE%d.lean" % (k + 1), "\n".join(out) + "\n")
    out = ["import MsqProofs.Lemmas.ParseCostBndE%d" % (k + 1) for k in range(NB)] + ["/-! GENERATED by tools/gen_cost.py — C19 linear bound: the mutual block, induction on the fuel -/"] + POPTS + ["variable (d : Gen.D)", ""]
    out += ["theorem bndF_all : ∀ n, BndF d n := by", "  intro n", "  induction n with",
            "  | zero => constructor <;> (intros; simp only [" + ", ".join(d.name + "_k" for d in block) + ", rem_error, remO_error, remS_error]; omega)",
            "  | succ n ih => exact ⟨" + ", ".join("bndF_%s d n ih" % d.name for d in block) + "⟩", ""]
    for d in block:
        out.append("theorem %s_bnd (n : Nat) : %s := (bndF_all d n).%s" % (d.name, field(d, "n"), d.name))
    out += ["", "end PM"]
    wr("MsqProofs/Lemmas/ParseCostBnd.lean", "\n".join(out) + "\n")
    # ============================================================================ the linear bound, statement level
    # potential CM2 * adqWL: the unit per segment (`adqWLL`) must pay the constants of the statement level's segment parsers (`pDefCol` …)
    CM2 = 250
    SLK = 600           # slack left by a statement that succeeds (it has consumed a token): pays the look-ahead of the loop of `parse_statements`
    SLACKF = set("pInsertType pSet pDelete pDropTable pCreateTable pAnalyze pAlter pMsck pTruncate pUse pShowColumns pInsert pUpdate pStatement".split())
    LIFTED = {"pCompute": True, "pOr": True, "pSelectStmt": True, "pWith": True, "pOptOr": True, "pOrderByOpt": True, "pFromTable": True, "pFromTables": True,
              "pLimit": False, "pTableName": False, "popSrc": False}          # lemmas `X_bnd2` of ParseCostBndS0.lean (True: takes `d f`)
    CF["popSrc"] = 2
    PARAMW = {"pNamedIndex": "kws", "pKwTable": "kws"}
    STRICT = {}
    PROJ = {}
    GROUP = {}
    for _i, _names in enumerate([
            "pTblName pInsertType configStringLoop pConfigString pConfigStrExpr pColType pPartitionItem pPartition pFkAction pOptFkAction pNameList pForeignKey pIndexCol pIndexCols pOptSrc pIndexTail pPrimaryIndex pNamedIndex pUniqueIndex pNormalIndex pFulltextIndex pGenerated optEqSrc pKwTable pMsck pTruncate pUse pSet pDropTable pColumnName pOptColumns",
            "defColLoop pDefCol pColOrIdx createElems createOpts pCreateTable",
            "pWhereOrderLimit valuesLoop pOptPartition pWithOpt pInsert pUpdateSetCol updateSetLoop pUpdateSet pUpdate pDelete pFromClause pShowColumns pAnalyze",
            "pAlterExpr alterLoop pAlter",
            "pStatement statementsLoop pStatements"]):
        for _n in _names.split(): GROUP[_n] = _i
    GIMPORTS = {0: ["ParseCostBndS0"], 1: ["ParseCostBndS1"], 2: ["ParseCostBndS1"], 3: ["ParseCostBndS2"], 4: ["ParseCostBndS3", "ParseCostBndS4"]}
    sfueled = set(d.name for d in STMT if d.alias is None and "(d : Gen.D) (f : Nat)" in d.binders)

    def skind(d):
        if d.alias is not None: return "R"
        return "R" if d.ret.startswith("R ") else "E"

    def sconst(d):
        if d.alias is not None:
            tgt = d.alias.split()[0]
            return CF[tgt] + len(re.findall(r'"[^"]*"', d.alias))
        if d.name == "createElems": return 0
        return const_of(d, True)

    def bnd2_of(c):
        if c in LIFTED: return ("%s_bnd2 d f" if LIFTED[c] else "%s_bnd2") % (c + "_k" if c == "popSrc" else c)
        return ("%s_bnd2 d f" if c in sfueled else "%s_bnd2") % c

    def proj2_of(c): return ("%s_proj d f" if (c in sfueled or c in bnames_block) else "%s_proj") % c

    def remf(nm, app):
        if nm in SLACKF: return "remS2 %d (%s).2" % (SLK, app)
        if nm == "pGenerated": return "remG %d (%s).2" % (SLK, app)
        return "rem2 (%s).2" % app

    def stmt_bnd(d, known_s):
        nm = d.name
        C = CF[nm]
        if d.alias is not None and nm in SLACKF:
            tgt = d.alias.split()[0]
            return ["theorem %s_bnd2 : ∀ ts κ, (%s_k ts κ).1 + %s ≤ κ + %d * adqWL ts + %d := by" % (nm, nm, remf(nm, nm + "_k ts κ"), CM2, C),
                    "  intro ts κ", "  have h_pTblName := pTblName_bnd2", "  generalize h : %s_k ts κ = out" % nm, "  unfold %s_k %s_k at h" % (nm, tgt), "  split_run2 <;> " + BGRIND, ""]
        if d.alias is not None:
            tgt = d.alias.split()[0]
            return ["theorem %s_bnd2 : ∀ ts κ, (%s_k ts κ).1 + rem2 (%s_k ts κ).2 ≤ κ + %d * adqWL ts + %d := fun ts κ => %s_bnd2 %s ts κ" %
                    (nm, nm, nm, CM2, C, tgt, " ".join(["_"] * len(read_args(d.alias[len(tgt):])[0]))), ""]
        k = skind(d)
        haves = []
        for c in list(LIFTED) + known_s:
            if c != nm and uses(c, d.src): haves.append("  have h_%s := %s" % (c, bnd2_of(c)))
        for c in PROJ.get(nm, []): haves.append("  have p_%s := %s" % (c, proj2_of(c)))
        haves += STRICT.get(nm, [])
        for i, m in enumerate(re.finditer(r"eachClosed\s+(\((?:[^()]|\([^()]*\))*\)|[\w']+)", d.src)):
            arg = m.group(1)
            ak = re.sub(r"^(\(?)([\w']+)", lambda mm: mm.group(1) + mm.group(2) + "_k", arg)
            g = re.match(r"\(?([\w']+)", arg).group(1)
            assert CF[g] + 1 <= CM2, ("segment parser too expensive for CM2", g, CF[g])
            haves.append("  have hE%d := eachClosed_k_rem2 %s %d (by omega) (%s)" % (i, ak, CF[g], bnd2_of(g)))
        extra = (" + %s.length" % PARAMW[nm]) if nm in PARAMW else ""
        if d.arms is None:
            bn = bnames(d)
            app = "%s_k %s κ" % (nm, " ".join(bn))
            lhs = "(%s).1 + %s" % (app, remf(nm, app)) if k == "R" else "(%s).1" % app
            return ["theorem %s_bnd2 %s (κ : Nat) : %s ≤ κ + %d * adqWL ts + %d%s := by" % (nm, d.binders, lhs, CM2, C, extra)] + haves + \
                   ["  generalize h : %s = out" % app, "  unfold %s_k at h" % nm, "  split_run2 <;> " + BGRIND, ""]
        a = len(d.arrows)
        bn = bnames(d)
        app = "%s_k %s %s κ" % (nm, " ".join(bn), xs(a))
        lhs = "(%s).1 + rem2 (%s).2" % (app, app) if k == "R" else "(%s).1" % app
        rest = " ".join("x%d" % i for i in range(1, a))
        if d.arrows[0] == "Nat":
            cur = max(i for i, t in enumerate(d.arrows) if t == "List Tok")
            return ["theorem %s_bnd2 %s : ∀ %s κ, %s ≤ κ + %d * adqWL x%d + %d := by" % (nm, d.binders, xs(a), lhs, CM2, cur, C)] + haves + \
                   ["  intro x0", "  induction x0 with", "  | zero => intro %s κ; simp only [%s_k, rem2_error]; omega" % (rest, nm), "  | succ n ih =>", "    intro %s κ" % rest,
                    "    generalize h : %s_k %s (n+1) %s κ = out" % (nm, " ".join(bn), rest), "    unfold %s_k at h" % nm, "    split_run2 <;> " + BGRIND, ""]
        assert d.arrows[0] == "List (List Tok)"
        return ["theorem %s_bnd2 %s : ∀ %s κ, %s ≤ κ + %d * adqWLL x0 + %d := by" % (nm, d.binders, xs(a), lhs, CM2, C)] + haves + \
               ["  intro x0", "  induction x0 with", "  | nil => intro %s κ; simp [%s_k]" % (rest, nm), "  | cons sg rest ih =>", "    intro %s κ" % rest,
                "    generalize h : %s_k %s (sg :: rest) %s κ = out" % (nm, " ".join(bn), rest), "    unfold %s_k at h" % nm, "    split_run2 <;> " + BGRIND, ""]

    known_s = []
    SOUT = {}
    for d in STMT:
        CF[d.name] = sconst(d)
        SOUT.setdefault(GROUP[d.name], []).extend(stmt_bnd(d, known_s))
        known_s.append(d.name)
    if "--consts" in sys.argv:
        for d in STMT: print("%-18s c = %d" % (d.name, CF[d.name]))
        print("CM2 =", CM2)
    wr("MsqProofs/Lemmas/ParseCostBndS0.lean", open(os.path.join(ROOT, "tools", "dev", "ParseCostBndS0.lean.in"), encoding="utf-8").read().replace("CM2", str(CM2)).replace("SLK", str(SLK)))
    for gi in sorted(SOUT):
        out = ["import MsqProofs.Lemmas.%s" % m for m in GIMPORTS[gi]] + \
              ["/-! GENERATED by tools/gen_cost.py — C19 linear bound, statement level (Parse/Stmt.lean, `pStatements`), part %d of %d: potential %d * adqWL -/" % (gi + 1, len(SOUT), CM2)] + POPTS
        out += SOUT[gi] + ["end PM"]
        wr("MsqProofs/Lemmas/ParseCostBndS%d.lean" % (gi + 1), "\n".join(out) + "\n")
    unused = [k for k in SITES if k not in USED]
    if unused: print("UNUSED SITES:", unused)
    print(len(pre), "helpers,", len(block), "block functions,", len(STMT), "statement-level functions")
