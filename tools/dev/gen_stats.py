import sys, collections
sys.path.insert(0,'/verif/tools/harness')
import engine as E, sqlgen
rng=E.Rng(5)
reqs=[];texts=[]
for i in range(1500):
    d=rng.choice(["MYSQL","HIVE","DEFAULT"])
    g=sqlgen.Gen(rng,d)
    t=g.stmt()
    reqs.append("P statements %s %s"%(d,E.enhex(t))); texts.append(t)
ans=E.run_impl(reqs)
c=collections.Counter(a.split(' ')[0] for a in ans)
print(c)
k=0
for t,a in zip(texts,ans):
    if a.startswith('LEX') and k<12: print('LEX',repr(t[:150])); k+=1
k=0
for t,a in zip(texts,ans):
    if a.startswith('PARSE') and k<25: print('PARSE',repr(t[:200])); k+=1
