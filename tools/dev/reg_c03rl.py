"""register the theorems of Props/C03RL.lean under C03, C01 and C10 by TEXT insertion (keeps the file's formatting; idempotent);
usage: reg_c03rl.py <props.json in> <out>"""
import json, sys
M = "MsqProofs.Props.C03RL"
FR = "union fragment FragAny (queries FragQ2 | DELETE/UPDATE/INSERT/WITH over FragQ2 | CREATE TABLE | ALTER TABLE, DROP/TRUNCATE/MSCK, USE, SET, ANALYZE, SHOW DATABASES/TABLES/COLUMNS, CREATE TABLE AS)"
C03 = [
 ("C03.lex_prAny", "TEXT level for the WHOLE " + FR + ": FragAny d s -> printableAny d s (Bool: INSERT OVERWRITE for HIVE/DEFAULT, CREATE TABLE for MYSQL/HIVE, ANALYZE for HIVE/MYSQL - the printer raises otherwise) -> LeafAny d s (payload hypotheses, none assumes the link) -> exists str, PR.prStmt d s = ok str, str.toList = anyL d s, lex str = toksAny d s"),
 ("C03.lex_prAny_in_context", "the same link inside any text, between tokens, before a delimiter, under any bracket nesting"),
 ("C03.lex_prStmt2", "text level for DELETE / UPDATE / INSERT VALUES / INSERT query / [WITH ...] query over the LARGER query fragment (TDM2.FragStmt over FragQ2 / FragE4; Lemmas/LexLinkAnyD0-2 derived from LexLinkDml0-2 by tools/dev/gen_lexlink_any.py): the printer prints stmtL d s and the lexer gives TDM2.toksStmt d s"),
 ("C03.lex_prRest", "text level for the classes of FragRest: ALTER TABLE with every clause (column definitions of every dialect, keys, foreign keys, partitions, RENAME / DROP COLUMN), DROP / TRUNCATE / MSCK REPAIR TABLE, USE, SHOW DATABASES / TABLES / COLUMNS, SET (configuration strings of cfgLex: words joined by . and -, or one raw-source token; decimals and strings like x-1.5 - where the token printer's split differs from the lexer's - excluded, stated), ANALYZE TABLE (Hive / MySQL renderings), CREATE TABLE [IF NOT EXISTS] AS [WITH ...] query"),
 ("C03.fragAny_of_fragRest", "FragRest is contained in FragAny with the same rendering"),
 ("C03.tstatement_any_text", "T-parse of EVERY statement class at TEXT level: print -> dialect pre-pass -> lexer -> pStatement with the entry point's fuel gives (s, []), and the model of parse_statements(text, dialect) returns [s] (pre-pass hypothesis as in the other text theorems: pre_any_id for every dialect but HIVE / DB2, hive_pre_of_occ / hive_pre_stmt2 for HIVE)"),
 ("C03.tscript_any_text", "ONE script theorem on texts: the printed texts of ANY list of statements of the union fragment, each followed by a separator text of C10T (blanks / line breaks around one ';', the last one possibly without), parse through parse_statements to exactly that list (every dialect but DB2; CREATE TABLE swallowing its own ';' is handled inside C10.script_concat)"),
 ("C03.tscript_any_text_prep", "the same for every dialect incl. DB2 with the commutation of the pre-passes as a hypothesis"),
 ("C03.printed_any_not_open", "the printed text of a union-fragment statement never ends inside a line comment"),
 ("C03.any_text_plain", "the printed text contains no character the lexer's pre-pass rewrites"),
 ("C03.hive_pre_stmt2", "for HIVE the dialect pre-pass leaves the printed text of a statement over FragQ2 alone when no payload contains '=='"),
 ("C03.hive_pre_of_occ", "for HIVE the pre-pass hypothesis is 'the text contains no ==' (decidable on the concrete text)"),
 ("C03.pre_any_id", "for every dialect but DB2 and HIVE the dialect pre-pass is the identity on the printed text"),
]
C01 = [
 ("C01.statement_round_trip_text_any", "print -> text pipeline (dialect pre-pass, lexer, parser) gives the statement back and printing what was parsed gives the SAME TEXT (fixed point), for every statement class of the " + FR + " under printableAny / LeafAny; kernel-checked instances + #guards in MYSQL, HIVE, ORACLE, POSTGRE_SQL"),
 ("C03.lex_prAny", "the printer's text lexes to the token rendering toksAny for every statement class (see C03)"),
 ("C03.tstatement_any_text", "the parse half of the text-level round trip for every statement class (see C03)"),
]
C10 = [
 ("C10.script_of_printed_statements", "C10 o C03 o C01 on the printer's own output: print every statement of ANY list of union-fragment statements (all classes, mixed), write the texts one after the other each followed by a separator text (blanks / line breaks around one ';'): parse_statements returns exactly that list (CREATE TABLE swallows its ';' itself; every dialect but DB2)"),
 ("C03.tscript_any_text", "the same stated on the mirror texts anyL (see C03)"),
]
def entry(n, w):
    return '   {\n    "module": %s,\n    "name": %s,\n    "what": %s\n   }' % (json.dumps(M), json.dumps(n), json.dumps(w, ensure_ascii=False))
def apply(txt):
    for pid, items in (("C03", C03), ("C01", C01), ("C10", C10)):
        i = txt.index('"%s": {' % pid)
        j = txt.index('\n  ],\n  "theorems"', i)
        if json.dumps(M) not in txt[i:j]:
            txt = txt[:j] + ',\n   ' + json.dumps(M) + txt[j:]
        i = txt.index('"%s": {' % pid)
        k = txt.index('\n  ],\n  "validated_only"', i)
        sec = txt[i:k]
        add = [entry(n, w) for n, w in items if ('"module": %s,\n    "name": %s' % (json.dumps(M), json.dumps(n))) not in sec]
        if add:
            txt = txt[:k] + ',\n' + ',\n'.join(add) + txt[k:]
    json.loads(txt)
    return txt
if __name__ == "__main__":
    out = apply(open(sys.argv[1]).read())   # read BEFORE opening the output (in == out is allowed)
    open(sys.argv[2], "w").write(out)
