#!/venv/bin/python
"""Why do generated statements fall outside the fragments of the round-trip theorems?

Usage (cwd /verif/tools/harness):  /venv/bin/python ../dev/frag_why.py [--tool FragWhy] [--seeds 1 2 3] [--n 1200] [--trees 150] [--out file.json]

Generates statements with the harness's grammar-shaped generator (`sqlgen.Gen(...).stmt()`, dialects MYSQL and HIVE, wild = 0.1) and the tree-first
texts (`pfam.tree_texts`), runs lean/MsqProofs/Tools/<tool>.lean on them and ranks the reasons.  A measurement, never a verdict."""
import sys, os, json, subprocess, argparse, collections
sys.path.insert(0, os.path.join(os.path.dirname(os.path.abspath(__file__)), "..", "harness"))
import engine as E, pfam, sqlgen

LEAN = os.path.join(os.path.dirname(os.path.abspath(__file__)), "..", "..", "lean")


def run_tool(tool, cases):
    data = "".join("%s %s\n" % (d, E.enhex(t)) for d, t in cases)
    p = subprocess.run(["lake", "env", "lean", "--run", "MsqProofs/Tools/%s.lean" % tool], input=data, capture_output=True, text=True, cwd=LEAN, timeout=3600)
    lines = [l for l in p.stdout.split("\n") if l.startswith(("OK", "REJ", "BADREQ"))]
    if len(lines) != len(cases):
        raise SystemExit("tool answered %d lines for %d texts: %s" % (len(lines), len(cases), (p.stdout + p.stderr)[-2000:]))
    return lines


def generalise(r):
    """drop payload details for ranking: `leaf.column=abc` -> `leaf.column`, but keep operator / shape details"""
    k, _, v = r.partition("=")
    if k.startswith("leaf.") and not k.startswith("leaf.literal"):
        return k
    return r


def analyse(name, cases, lines, nex=3):
    tot = collections.Counter()
    kinds = {}
    first = collections.Counter()
    anyr = collections.Counter()
    only = collections.Counter()
    ex = {}
    rej = 0
    raw = []
    for (d, t), a in zip(cases, lines):
        if not a.startswith("OK"):
            rej += 1
            continue
        js = a.split(" ")[1:]
        for j in js:
            k, v, rs = j.split(":", 2)
            tot[v] += 1
            kinds.setdefault(k, collections.Counter())[v] += 1
            if v == "X":
                continue
            rs = [generalise(r) for r in rs.split("|") if r]
            rs = list(dict.fromkeys(rs))
            raw.append([d, t if len(js) == 1 else "(one of %d statements) " % len(js) + t, k, v, rs])
            lvl = "token" if v in ("-", "U", "M") else "text"
            if rs:
                first[(lvl, rs[0])] += 1
                if len(rs) == 1:
                    only[(lvl, rs[0])] += 1
            for r in rs:
                anyr[(lvl, r)] += 1
                e = ex.setdefault((lvl, r), [])
                if len(e) < nex and len(js) == 1 and len(t) < 160:
                    e.append([d, t])
    n = sum(tot.values())
    rows = [{"level": l, "reason": r, "statements_with_it": c, "first_reason_of": first[(l, r)], "only_reason_of": only[(l, r)], "examples": ex.get((l, r), [])}
            for (l, r), c in anyr.most_common()]
    return {"stream": name, "texts": len(cases), "rejected_by_the_model": rej, "statements": n, "X": tot["X"], "T": tot["T"] + tot["Y"], "Y_text_level_by_leafAnyB2_only": tot["Y"], "outside": tot["-"] + tot["U"],
            "U_third_fragment_only": tot["U"], "outside_after": tot["-"], "M_inclusion_violations": tot["M"], "remaining": remaining(raw),
            "by_statement_class": {k: dict(v) for k, v in kinds.items()}, "reasons": rows,
            "what_if": what_if(raw), "raw": raw}


GROUPS = [
    ("alias", lambda r: "alias-not-bare" in r),
    ("literal", lambda r: r.startswith("literal.no-LITERAL-mark=") and r.split("=")[1] in ("decimal", "hex", "bit")),
    ("with-inside", lambda r: "WITH-inside" in r),
    ("special-fn", lambda r: "name-is-special" in r),
    ("index-base", lambda r: r.startswith("index.base-is")),
    ("exists-left", lambda r: "left-is-EXISTS" in r),
    ("in>20", lambda r: r.startswith("in.value>20")),
]


def remaining(raw):
    """the reasons of the statements that are outside the third fragment too (alias / literal reasons that the third fragment removes are dropped)"""
    c = collections.Counter()
    ex = {}
    for d, t, k, v, rs in raw:
        if v != "-":
            continue
        rs = [r for r in rs if not GROUPS[0][1](r) and not GROUPS[1][1](r)] or rs
        for r in rs:
            c[r] += 1
            if len(t) < 170 and not t.startswith("(one of"):
                ex.setdefault(r, [d, t])
    return [{"reason": r, "statements_with_it": n, "example": ex.get(r)} for r, n in c.most_common()]


def what_if(raw):
    """how many statements outside the token-level fragment would fall inside if the reasons of the first k groups were removed (cumulative), and of each group alone"""
    out = []
    outside = [x for x in raw if x[3] in ("-", "U")]
    for k in range(1, len(GROUPS) + 1):
        fs = [f for _, f in GROUPS[:k]]
        cum = sum(1 for x in outside if all(any(f(r) for f in fs) for r in x[4]))
        alone = sum(1 for x in outside if all(GROUPS[k - 1][1](r) for r in x[4]))
        out.append({"group": GROUPS[k - 1][0], "alone": alone, "cumulative_with_the_groups_above": cum, "of_outside": len(outside)})
    return out


def gen_cases(seed, n):
    rng = E.Rng(seed)
    out = []
    for i in range(n):
        d = ("MYSQL", "HIVE")[i % 2]
        g = sqlgen.Gen(rng, d, wild=rng.chance(0.1))
        out.append((d, g.stmt()))
    return out


def main():
    ap = argparse.ArgumentParser()
    ap.add_argument("--tool", default="FragWhy")
    ap.add_argument("--seeds", type=int, nargs="*", default=[1, 2, 3])
    ap.add_argument("--n", type=int, default=1200)
    ap.add_argument("--trees", type=int, default=150)
    ap.add_argument("--out", default=None)
    ap.add_argument("--top", type=int, default=40)
    a = ap.parse_args()
    gen = []
    for s in a.seeds:
        gen += gen_cases(s, a.n)
    res = [analyse("generated statements (sqlgen.Gen.stmt, MYSQL / HIVE, wild 0.1, seeds %s)" % a.seeds, gen, run_tool(a.tool, gen))]
    if a.trees:
        tr = pfam.tree_texts(E.Rng(a.seeds[0]).fork("trees"), a.trees, dialects=["MYSQL", "HIVE"])
        res.append(analyse("tree-first texts (pfam.tree_texts, MYSQL / HIVE)", tr, run_tool(a.tool, tr)))
        # the harness's own mixture of dialects, for comparison with the evidence of C01
        sc = [(d, t) for d, t, _ in pfam.scripts(E.Rng(a.seeds[0]), a.n, wild=0.1, single=True)]
        res.append(analyse("pfam.scripts(single=True), all dialects of the harness", sc, run_tool(a.tool, sc)))
    for r in res:
        print("== %s: %d texts, %d rejected, %d statements: X %d (%.1f %%)  T %d (%.1f %%)  outside %d (%.1f %%)" % (
            r["stream"], r["texts"], r["rejected_by_the_model"], r["statements"], r["X"], 100.0 * r["X"] / max(1, r["statements"]),
            r["T"], 100.0 * r["T"] / max(1, r["statements"]), r["outside"], 100.0 * r["outside"] / max(1, r["statements"])))
        print("   by class:", json.dumps(r["by_statement_class"], sort_keys=True))
        print("   AFTER (weaker payload condition leafAnyB2): X %d + Y %d = %.1f %%, T %d" % (r["X"], r["Y_text_level_by_leafAnyB2_only"],
              100.0 * (r["X"] + r["Y_text_level_by_leafAnyB2_only"]) / max(1, r["statements"]), r["T"] - r["Y_text_level_by_leafAnyB2_only"]))
        print("   AFTER (third fragment): U %d -> outside %d (%.1f %%); inclusion violations %d" % (r["U_third_fragment_only"], r["outside_after"],
              100.0 * r["outside_after"] / max(1, r["statements"]), r["M_inclusion_violations"]))
        print("   remaining reasons:", json.dumps([[x["reason"], x["statements_with_it"]] for x in r["remaining"][:25]]))
        print("   what if:", json.dumps(r["what_if"]))
        print("   %-6s %6s %6s %6s  %s" % ("level", "any", "first", "only", "reason"))
        for row in r["reasons"][:a.top]:
            print("   %-6s %6d %6d %6d  %s" % (row["level"], row["statements_with_it"], row["first_reason_of"], row["only_reason_of"], row["reason"]))
            for d, t in row["examples"][:1]:
                print("          e.g. %s: %s" % (d, t.replace("\n", " ")[:150]))
    if a.out:
        with open(a.out, "w") as f:
            json.dump(res, f, indent=1, ensure_ascii=False)


if __name__ == "__main__":
    main()
