#!/bin/bash
# usage: new_wave.sh <wave dir under /tmp> <ids…>  — scratch worktrees of /repo HEAD + property text + prompt per property (nothing from /verif but the property text)
W=$1; shift
mkdir -p $W
for P in "$@"; do
  [ -d $W/$P ] || git -C /repo worktree add --detach $W/$P HEAD >/dev/null 2>&1
  /venv/bin/python - "$W" "$P" <<'PY'
import json, sys, glob, os
W, P = sys.argv[1], sys.argv[2]
prop = [json.loads(l) for l in open('/verif/properties.jsonl') if json.loads(l)['id'] == P][0]
open(f"{W}/{P}.property.txt", "w").write("Property %s — %s\n\n%s\n\nQuantifier: %s\n\nCode it is anchored in: %s\n" % (P, prop['title'], prop['statement'], prop['quantifier'], json.dumps(prop['anchors'], ensure_ascii=False)))
earlier = []
for d in sorted(glob.glob(f"/verif/seeded/{P}*/meta.json")):
    try: earlier.append(json.load(open(d)).get("summary", ""))
    except Exception: pass
T = open('/verif/tools/dev/mutant_prompt.txt').read()
open(f"{W}/prompt_{P}.txt", "w").write(T.replace("{W}", W).replace("{P}", P).replace("{EARLIER}", "\n".join("    - " + e for e in earlier if e)))
PY
done
ls $W
