#!/bin/bash
# evaluate every /verif/seeded/<id> in an isolated copy (scratch worktree of /repo HEAD + patch, copy of /verif, MSQ_REPO) and write seeded/<id>/result.json
# usage: eval_all_seeded.sh [ids...]     (4 at a time)
cd /verif
IDS=${@:-$(ls seeded)}
run_one() {
  id=$1; S=/verif/seeded/$id
  P=$(python3 -c "import json;print(json.load(open('$S/meta.json'))['property'])")
  L=/tmp/evalall_$id.log
  timeout 3000 /verif/tools/dev/eval_mutant.sh $S $P > $L 2>&1
  python3 - "$S" "$P" "$L" <<'PY'
import json, sys, re
S, P, L = sys.argv[1:4]
t = open(L, errors="replace").read()
def sect(name):
    m = re.search(r"== " + re.escape(name) + r"\n(.*?)(?=\n== |\Z)", t, re.S)
    return m.group(1) if m else ""
def ex(s):
    m = re.search(r"exit=(\d+)", s); return int(m.group(1)) if m else None
chk = sect("check %s quick" % P)
rp = None
m = re.search(r"--- replay (\S+)\n(\{.*?\n\})", chk, re.S)
if m:
    try:
        rp = json.loads(m.group(2))
        for k in list(rp):
            if isinstance(rp[k], str) and len(rp[k]) > 500: rp[k] = rp[k][:500] + "…"
    except Exception:
        rp = {"raw": m.group(2)[:800]}
res = {"property": P, "how": "scratch worktree of /repo HEAD + patch.diff, isolated copy of /verif, MSQ_REPO pointing at the worktree (tools/dev/eval_mutant.sh)",
       "demo_exit_unchanged": ex(sect("demo on unchanged tree")), "tests_with_change": (sect("tests with change").strip().splitlines() or [""])[-1],
       "demo_exit_with_change": ex(sect("demo with change")), "check": "./check %s --tier quick" % P, "check_exit": ex(chk), "detected": ex(chk) == 1,
       "violation_lines": [l for l in chk.splitlines() if l.startswith("VIOLATION")][:4], "first_replay": rp}
json.dump(res, open(S + "/result.json", "w"), indent=1, ensure_ascii=False)
print(S.split("/")[-1], "detected" if res["detected"] else "MISSED(exit %s)" % res["check_exit"], "| demo", res["demo_exit_unchanged"], "->", res["demo_exit_with_change"], "|", res["tests_with_change"])
PY
  rm -f $L
}
export -f run_one
echo $IDS | tr ' ' '\n' | xargs -P ${EVAL_JOBS:-4} -I{} bash -c 'run_one {}'
