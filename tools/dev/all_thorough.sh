#!/bin/bash
# all 20 thorough checks on /repo itself (sequential); one line per check
cd "$(dirname "$0")/../.." || exit 2
bad=0
for i in ${*:-$(seq -w 1 20)}; do
  t0=$(date +%s)
  out=$(./check C$i --tier thorough 2>&1); rc=$?
  echo "C$i rc=$rc $(( $(date +%s) - t0 ))s | $(echo "$out" | grep -v WARNING | tail -1 | cut -c1-200)"
  if [ $rc -ne 0 ]; then bad=1; echo "$out" | grep -E "VIOLATION|Traceback|Error|INFRA|TIMEOUT" | head -5; fi
done
exit $bad
