"""hand patches of tools/dev/gen_tquery3.py: file name -> [(old, new)] applied after the renaming"""
LEAVES = r'''namespace TQ3

/-! ### the leaves that differ from `TQ2` (everything below is the text of Lemmas/TQuery2_0.lean; these names shadow the opened `TP.litTok`,
`TP.litOK`, `TS.aliasToks`, `TS.optAliasOK`) -/
def hexDigit (c : Char) : Bool := c.isDigit || (decide ('a' ≤ c) && decide (c ≤ 'f')) || (decide ('A' ≤ c) && decide (c ≤ 'F'))
def bitDigit (c : Char) : Bool := c == '0' || c == '1'
/-- `digits . digits`: one dot, digits around it (the first character is a digit) -/
def isDec (v : List Char) : Bool := v.all (fun c => c.isDigit || c == '.') && (v.filter (· == '.')).length == 1
/-- the body of `x'…'` / `b'…'` -/
def quotedBody (v : List Char) (p : Char → Bool) : Bool := (v.drop 2).getLast? == some '\'' && (v.drop 2).dropLast.all p
/-- the extra mark the lexer gives a number that is no integer (`2.5`: LITERAL_FLOAT), a hexadecimal literal (`0x1F`, `x'1F'`, `X'1F'`:
LITERAL_HEX) or a bit literal (`0b01`, `b'01'`, `B'01'`: LITERAL_BIT) -/
def numMark (v : List Char) : Option Nat :=
  if v.head?.any Char.isDigit then
    (if v.take 2 == ['0', 'x'] && !(v.drop 2).isEmpty && (v.drop 2).all hexDigit then some Gen.mark_LITERAL_HEX
     else if v.take 2 == ['0', 'b'] && !(v.drop 2).isEmpty && (v.drop 2).all bitDigit then some Gen.mark_LITERAL_BIT
     else if isDec v then some Gen.mark_LITERAL_FLOAT else none)
  else if (v.drop 1).head? == some '\'' then
    (if (v.head? == some 'x' || v.head? == some 'X') && quotedBody v hexDigit then some Gen.mark_LITERAL_HEX
     else if (v.head? == some 'b' || v.head? == some 'B') && quotedBody v bitDigit then some Gen.mark_LITERAL_BIT else none)
  else none
/-- literal leaf: as `TP.litMark` (integer, quoted string, literal word), and decimal / hexadecimal / bit literals -/
def litMark (v : String) : Nat :=
  if isDigits v then LITERAL ||| Gen.mark_LITERAL_INT
  else if v.toList.head? == some '\'' || v.toList.head? == some '"' then LITERAL ||| NAME
  else match numMark v.toList with
    | some m => LITERAL ||| m
    | none => wordMark v
def litTok (v : String) : Tok := .single v.toList (litMark v)
theorem src_litTok (v : String) : (litTok v).src = v := src_single v _
/-- the token of a literal carries the LITERAL mark and is no operator word -/
def litOK (d : Gen.D) (v : String) : Bool := (litTok v).has LITERAL && elemTok d (litTok v)
/-- an alias as the printer writes it: `AS` and the name through `quoteName` (bare, or back-quoted) -/
def aliasToks : Option String → List Tok
  | none => []
  | some a => [opTok "AS", qTok a]
/-- the (bare or back-quoted) token of an alias is a name and reads back as the alias -/
def aliasOK (a : String) : Bool := (qTok a).has NAME && unifyName (qTok a).src == a
def optAliasOK : Option String → Bool
  | none => true
  | some a => aliasOK a
theorem numMark_shape (v : List Char) (m : Nat) (h : numMark v = some m) : v.head?.any Char.isDigit = true ∨ (v.drop 1).head? = some '\'' := by
  unfold numMark at h
  by_cases h1 : v.head?.any Char.isDigit = true
  · exact Or.inl h1
  · simp only [h1, Bool.false_eq_true, if_false] at h
    by_cases h2 : ((v.drop 1).head? == some '\'') = true
    · exact Or.inr (by simpa using h2)
    · simp only [h2, Bool.false_eq_true, if_false] at h; cases h
theorem full2_literal (d : Gen.D) (v : String) (hv : litOK d v = true) : Full d (P2 d) 2 0 [litTok v] (.literal v) := by
  intro rest hr f hf
  simp only [sizeL, Tok.size, litTok] at hf
  obtain ⟨g, rfl⟩ : ∃ g, f = g + 2 := ⟨f - 2, by omega⟩
  simp only [litOK, elemTok, Bool.and_eq_true, Bool.not_eq_true'] at hv
  show pUnary d (g + 2) (litTok v :: rest) = _
  unfold pUnary
  simp only [List.cons_append, List.nil_append, hv.2.2, Bool.false_eq_true, if_false]
  unfold pElement
  simp [hv.1, src_litTok]
theorem alias_some (a : String) (h : aliasOK a = true) (fol : List Tok) : pAlias (opTok "AS" :: qTok a :: fol) = .ok (some a, fol) := by
  simp only [aliasOK, Bool.and_eq_true, beq_iff_eq] at h
  have h1 : searchStrUp (opTok "AS" :: qTok a :: fol) "AS" = true := by
    have : (opTok "AS").srcEqUp "AS" = true := by decide
    simpa [searchStrUp] using this
  unfold pAlias
  simp [h1, h.1, h.2]
'''
LIT_UP_OLD = '''    · simp only [hq, Bool.false_eq_true, if_false, wordMark, he, hw1] at hl
      split at hl <;> exact absurd hl (by decide)'''
LIT_UP_NEW = '''    · simp only [hq, Bool.false_eq_true, if_false] at hl
      cases hn : numMark v.toList with
      | some m =>
        rcases numMark_shape _ _ hn with hdg | hq2
        · cases hc : v.toList with
          | nil => rw [hc] at hdg; simp at hdg
          | cons c r =>
            rw [hc] at hdg
            obtain ⟨a1, a2, a3⟩ := digit_ascii c (by simpa using hdg)
            have := up_head v c r hc a1
            rw [he, a2] at this
            rw [this] at hw2
            simp [a3] at hw2
        · have hm : '\\'' ∈ v.toList := by
            cases hc : v.toList with
            | nil => rw [hc] at hq2; simp at hq2
            | cons c r =>
              rw [hc] at hq2
              cases r with
              | nil => simp at hq2
              | cons c2 r2 => simp only [List.drop_succ_cons, List.drop_zero, List.head?_cons, Option.some.injEq] at hq2; subst hq2; simp
          have := up_quote v hm
          rw [he] at this
          simp only [List.contains_eq_mem, decide_eq_false_iff_not] at hw3
          exact hw3 this
      | none =>
        simp only [hn, wordMark, he, hw1] at hl
        split at hl <;> exact absurd hl (by decide)'''
PATCH = {
 "Lemmas/TQuery3_0.lean": [("namespace TQ3\n", LEAVES)],
 "Lemmas/TQuery3E3.lean": [
   ("/-- a literal token is none of the words a LITERAL-free word token can be -/\n",
    '''theorem up_quote (v : String) (h : '\\'' ∈ v.toList) : '\\'' ∈ (up v).toList := by
  simp only [up, Gen.pyUpperS, String.toList_ofList, Gen.pyUpper, Py.upperWith, List.mem_flatMap]
  exact ⟨'\\'', h, by decide⟩
/-- a literal token is none of the words a LITERAL-free word token can be -/\n'''),
   ('''(hw2 : w.toList.head?.all (fun c => !c.isDigit && c != '\\'' && c != '"') = true) : up v ≠ w := by''',
    '''(hw2 : w.toList.head?.all (fun c => !c.isDigit && c != '\\'' && c != '"') = true) (hw3 : w.toList.contains '\\'' = false) : up v ≠ w := by'''),
   (LIT_UP_OLD, LIT_UP_NEW),
   ('lit_up_ne v "WHEN" hv (by decide) (by decide)', 'lit_up_ne v "WHEN" hv (by decide) (by decide) (by decide)'),
   ('lit_up_ne v "DISTINCT" hv (by decide) (by decide)', 'lit_up_ne v "DISTINCT" hv (by decide) (by decide) (by decide)'),
   ('lit_up_ne v "," hv (by decide) (by decide)', 'lit_up_ne v "," hv (by decide) (by decide) (by decide)'),
 ],
 "Lemmas/TQuery3M1.lean": [("TP.full2_literal v hf", "full2_literal d v hf")],
 "Lemmas/TQuery3S.lean": [("TS.alias_some a h fol", "alias_some a h fol")],
}
