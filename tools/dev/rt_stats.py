import sys, collections, re
sys.path.insert(0,'/verif/tools/harness')
import engine as E, sqlgen
rng=E.Rng(int(sys.argv[1])); n=int(sys.argv[2])
reqs=[];texts=[]
for i in range(n):
    d=rng.choice(["MYSQL","HIVE","DEFAULT","MYSQL"])
    g=sqlgen.Gen(rng,d,wild=False)
    t=g.stmt()
    reqs.append("RT %s %s"%(d,E.enhex(t))); texts.append((d,t))
ans=E.run_impl(reqs)
c=collections.Counter(); ex={}
for (d,t),a in zip(texts,ans):
    if not a.startswith('OK'): c[a.split(' ')[0]]+=1; continue
    for v in a.split(' ')[1:]:
        k=v.split('|')[0]
        k=re.sub(r'\[\d+\]','[]',k)
        c[k]+=1
        if k not in ex or len(t)<len(ex[k][1]): ex[k]=(d,t,v[:300])
for k,v in c.most_common(60):
    print(v,k); 
    if k in ex and k!='ok': print('      ',ex[k][0],repr(ex[k][1][:250]))
