import sys, collections
sys.path.insert(0,'/verif/tools/harness')
import engine as E, sqlgen
rng=E.Rng(int(sys.argv[1])); n=int(sys.argv[2])
reqs=[];texts=[]
for i in range(n):
    d=rng.choice(["MYSQL","HIVE","DEFAULT","MYSQL"])
    g=sqlgen.Gen(rng,d,wild=False)
    t=g.stmt()
    reqs.append("P statements %s %s"%(d,E.enhex(t))); texts.append((d,t))
ans=E.run_impl(reqs)
f=[(len(t),d,t,a) for (d,t),a in zip(texts,ans) if not a.startswith('OK')]
print(len(f),'of',n,'fail')
for l,d,t,a in sorted(f)[:60]: print(a[:12],d,repr(t))
