#!/usr/bin/env python3
"""calibration of the parser cost model on the generated streams of the checks (seeded): prints disagreements model/implementation of `PC`"""
import sys, os
sys.path.insert(0, os.path.join(os.path.dirname(os.path.abspath(__file__)), "..", "harness"))
import engine as E, pfam, smallscope
r = E.Rng(int(sys.argv[1]) if len(sys.argv) > 1 else 1)
n = int(sys.argv[2]) if len(sys.argv) > 2 else 2000
pc = [(d, t) for d, t, _ in pfam.scripts(r.fork("pc"), n, wild=0.2, mutate=0.35)] + pfam.tree_texts(r.fork("t"), n // 20)
for nm in ("select-clauses", "joins", "set-ops", "dml", "update-delete", "ddl-create", "ddl-alter"):
    entry, alpha, _, _ = smallscope.ALPHABETS[nm]
    pc += [("MYSQL", t) for t in r.fork(nm).shuffle(list(smallscope.sequences(alpha, 4)))[:n // 4]]
reqs = ["PC %s %s" % (d, E.enhex(t)) for d, t in pc]
a = E.run_model(reqs); b = E.run_impl(reqs)
bad = [(d, t, x, y) for (d, t), x, y in zip(pc, a, b) if x != y]
print("%d texts, %d disagree" % (len(pc), len(bad)))
bad.sort(key=lambda x: len(x[1]))
det = E.run_impl(["PCD %s %s" % (d, E.enhex(t)) for d, t, _, _ in bad[:15]])
for (d, t, x, y), z in zip(bad[:15], det):
    print("---", d, repr(t)); print("   model:", x, " impl:", y); print("   ", z)
