#!/bin/bash
# all 20 quick checks on /repo itself for the given seeds (default 1 2 3); prints one line per run; exit 1 if any run is not exit 0
cd "$(dirname "$0")/../.." || exit 2
seeds=${*:-1 2 3}
bad=0
./check --setup >/dev/null 2>&1 || { echo "setup failed"; exit 2; }
for s in $seeds; do
  for i in $(seq -w 1 20); do
    out=$(VERIF_SEED=$s ./check C$i --tier quick 2>&1); rc=$?
    echo "seed=$s C$i rc=$rc $(echo "$out" | grep -c '^VIOLATION') violation line(s) | $(echo "$out" | tail -1 | cut -c1-160)"
    [ $rc -ne 0 ] && { bad=1; echo "$out" | grep -E "VIOLATION|Traceback|Error" | head -5; }
  done
done
exit $bad
