#!/bin/bash
# usage: collect_mut.sh <wave dir> <pid> <suffix>   — store /tmp/<wave>/<pid>/_seeded as /verif/seeded/<pid>-<suffix>, remove the worktree, evaluate
W=$1; P=$2; S=$3
D=/verif/seeded/$P-$S
[ -f $W/$P/_seeded/patch.diff ] || { echo "no patch for $P"; exit 1; }
mkdir -p $D && cp $W/$P/_seeded/patch.diff $W/$P/_seeded/demo.py $W/$P/_seeded/meta.json $D/
git -C /repo worktree remove --force $W/$P 2>/dev/null
cd /tmp && /verif/tools/dev/eval_all_seeded.sh $P-$S 2>&1 | grep -v WARNING | tail -2
