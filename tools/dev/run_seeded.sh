#!/bin/bash
# usage: run_seeded.sh [ids...]   — for each /verif/seeded/<id>: confirm (tests pass with the change, demo fails with / passes without), then
# git -C /repo apply patch.diff ; ./check <prop> --tier quick ; git -C /repo checkout -- .     and record seeded/<id>/result.json
# /repo must be clean; it is restored after every run (also on failure).
set -u
cd /verif
IDS=${@:-$(ls seeded)}
for id in $IDS; do
  S=/verif/seeded/$id
  P=$(python3 -c "import json;print(json.load(open('$S/meta.json'))['property'])")
  [ -n "$(git -C /repo status --porcelain)" ] && { echo "/repo not clean"; exit 9; }
  ( cd /repo && timeout 300 /venv/bin/python $S/demo.py /repo >/dev/null 2>&1 ); CLEAN=$?
  git -C /repo apply $S/patch.diff || { echo "$id: patch does not apply"; continue; }
  TESTS=$(cd /repo && timeout 900 /venv/bin/python -m pytest -q -p no:cacheprovider --timeout=900 2>&1 | tail -1)
  ( cd /repo && timeout 300 /venv/bin/python $S/demo.py /repo >/dev/null 2>&1 ); MUT=$?
  OUT=$(VERIF_SEED=${VERIF_SEED:-1} timeout 3000 ./check $P --tier ${TIER:-quick} 2>&1); RC=$?
  git -C /repo checkout -- . ; git -C /repo clean -fdq -e _seeded 2>/dev/null
  REPLAY=$(echo "$OUT" | grep -o "replay=[^ ]*" | head -1 | cut -d= -f2)
  python3 - "$S" "$P" "$CLEAN" "$MUT" "$TESTS" "$RC" "$REPLAY" <<'PY' "$OUT"
import json, sys, os
S, P, clean, mut, tests, rc, replay = sys.argv[1:8]
out = sys.argv[8] if len(sys.argv) > 8 else ""
rp = None
if replay and os.path.exists(os.path.join("/verif", replay)):
    rp = json.load(open(os.path.join("/verif", replay)))
    for k in list(rp):
        if isinstance(rp[k], str) and len(rp[k]) > 600: rp[k] = rp[k][:600] + "…"
res = {"property": P, "demo_exit_unchanged": int(clean), "demo_exit_with_change": int(mut), "tests_with_change": tests.strip(), "check": "./check %s --tier %s" % (P, os.environ.get("TIER", "quick")),
       "check_exit": int(rc), "detected": int(rc) == 1, "violation_lines": [l for l in out.splitlines() if l.startswith("VIOLATION")][:4], "replay": rp}
json.dump(res, open(os.path.join(S, "result.json"), "w"), indent=1, ensure_ascii=False)
print(os.path.basename(S), "detected" if res["detected"] else "MISSED", "exit", rc, tests.strip())
PY
done
git -C /repo status --porcelain | head -3
