#!/usr/bin/env python3
"""consistency of MANIFEST.json with lean/props.json and the evidence files: a property with registered theorems is claimed (and reported) at level
proof, one without at translation_validation; every property is either a check or not_applicable; schemas validate (run with python3-vt for jsonschema)."""
import json, os, sys
V = "/verif"
m = json.load(open(V + "/MANIFEST.json"))
props = json.load(open(V + "/lean/props.json"))
ids = [json.loads(l)["id"] for l in open(V + "/properties.jsonl")]
bad = 0
claimed = {c["property_id"]: c for c in m["checks"]}
na = {x["property_id"] for x in m.get("not_applicable", [])}
for i in ids:
    if (i in claimed) == (i in na):
        print(i, "must be exactly one of check / not_applicable"); bad += 1
    if i not in claimed:
        continue
    n = len(props.get(i, {}).get("theorems", []))
    want = "proof" if n else "translation_validation"
    cat = claimed[i]["level_claimed"]["category"]
    if cat != want:
        print(i, "MANIFEST category", cat, "but", n, "theorems registered →", want); bad += 1
    ev = os.path.join(V, "evidence", i + ".json")
    if os.path.exists(ev):
        lv = json.load(open(ev))["level"]
        if lv != cat:
            print(i, "evidence level", lv, "≠ MANIFEST", cat, "(re-run the check)"); bad += 1
    else:
        print(i, "no evidence file"); bad += 1
try:
    import jsonschema
    jsonschema.validate(m, json.load(open("/root/.vp/MANIFEST.schema.json")))
    es = json.load(open("/root/.vp/EVIDENCE.schema.json"))
    for i in claimed:
        ev = os.path.join(V, "evidence", i + ".json")
        if os.path.exists(ev):
            jsonschema.validate(json.load(open(ev)), es)
    print("schemas ok")
except ImportError:
    print("(jsonschema not available: run with python3-vt)")
print("problems:", bad)
sys.exit(1 if bad else 0)
