#!/usr/bin/env python3
"""Union of the implementation line coverage of the last run of every check (build/cover/Cxx.json): which lines of the modelled
modules no request stream of any check reaches, with their source text.  usage: cov_report.py [module substring …]"""
import json, os, sys, glob
sys.path.insert(0, os.path.join(os.path.dirname(os.path.abspath(__file__)), "..", "harness"))
import cover
V = os.path.join(os.path.dirname(os.path.abspath(__file__)), "..", "..")
hits, wraps, per, branches = {}, {}, {}, {}
for p in sorted(glob.glob(os.path.join(V, "build", "cover", "C*.json"))):
    d = json.load(open(p))
    per[os.path.basename(p)[:-5]] = sum(len(v) for k, v in d.items() if not k.startswith("#"))
    for m, ls in d.items():
        if m == "#wraps":
            for k, (a, b) in ls.items():
                c = wraps.setdefault(int(k), [0, 0]); c[0] += a; c[1] += b
        elif m == "#branches":
            for mod, q, l, o, dsts in ls:
                branches.setdefault((mod, q, l, o), set()).update(dsts)
        else:
            hits.setdefault(m, set()).update(ls)
print("checks with coverage data:", per)
want = sys.argv[1:] or ["core/parser.py", "core/node.py", "common/scanner.py", "analyzer/", "plugins/", "lexical/", "common/basic.py"]
tot_e = tot_h = 0
for m in cover.modules():
    if not any(w in m for w in want):
        continue
    ex = {l: q for l, q in cover.executable_lines(os.path.join(cover.PKG, m)).items() if q != "<module>"}
    h = hits.get(m, set())
    miss = sorted(l for l in ex if l not in h)
    tot_e += len(ex); tot_h += len(ex) - len(miss)
    print("== %s: %d/%d lines of function bodies reached" % (m, len(ex) - len(miss), len(ex)))
    src = open(os.path.join(cover.PKG, m), encoding="utf-8").read().split("\n")
    for l in miss:
        print("   %5d  [%s]  %s" % (l, ex[l].split(".")[-1], src[l - 1].strip()[:130]))
print("TOTAL %d/%d" % (tot_h, tot_e))
ws = cover.wrap_sites()
print("printer bracket sites: %d; never saw a child that needs brackets: %s" % (len(ws), [l for l in ws if wraps.get(l, [0, 0])[1] == 0]))
print("                       never saw a child that needs none: %s" % [l for l in ws if wraps.get(l, [0, 0])[0] == 0])

ow = sorted((m, l, q, sorted(d // 100000 for d in ds)) for (m, q, l, o), ds in branches.items() if len(ds) < 2 and any(w in m for w in want))
print("branch instructions executed: %d, taken both ways: %d; one way only (in the modules listed above): %d" % (len(branches), sum(1 for d in branches.values() if len(d) >= 2), len(ow)))
for m, l, q, d in ow:
    src = open(os.path.join(cover.PKG, m), encoding="utf-8").read().split("\n")
    print("   %s:%d [%s] only -> line %s   | %s" % (m, l, q.split(".")[-1], d, src[l - 1].strip()[:110]))
