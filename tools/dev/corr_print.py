import sys, collections
sys.path.insert(0,'/verif/tools/harness')
import engine as E, sqlgen
seed=int(sys.argv[1]); n=int(sys.argv[2])
rng=E.Rng(seed)
DIALECTS=["MYSQL","HIVE","ORACLE","DB2","POSTGRE_SQL","SQL_SERVER","DEFAULT"]
reqs=[]; texts=[]
for i in range(n):
    d=rng.choice(["MYSQL","HIVE","DEFAULT","DB2","HIVE","MYSQL","ORACLE"])
    g=sqlgen.Gen(rng,d,wild=(i%7==0))
    t=g.script()
    sd=d if rng.chance(0.5) else rng.choice(DIALECTS)
    reqs.append("PR %s %s %s"%(d,sd,E.enhex(t))); texts.append(t)
res=E.run_pairs(reqs)
kinds=collections.Counter(); bad=0
for (req,a,b),t in zip(res,texts):
    for w in a.split(' ')[:1]+[x[:2]+(x[2:] if x.startswith('E:') else '') for x in a.split(' ')[1:]]: kinds[w]+=1
    if b.startswith('UNMODELLED') or a.startswith('UNMODELLED'): continue
    if a!=b:
        bad+=1
        if bad<=(int(sys.argv[3]) if len(sys.argv)>3 else 5):
            k=next((i for i,(x,y) in enumerate(zip(a,b)) if x!=y), min(len(a),len(b)))
            print(repr(t), req.split()[1:3], '\n  impl :', a[max(0,k-100):k+100], '\n  model:', b[max(0,k-100):k+100])
print(n,'cases; mismatches',bad,dict(kinds))
