import sys, re, subprocess
sys.path.insert(0, "/verif/tools/harness")
def unq(s):
    return re.sub(r"%([0-9a-f]+);", lambda m: chr(int(m.group(1), 16)), s)
d, seed, n = sys.argv[1], sys.argv[2], sys.argv[3]
out = subprocess.run(["/venv/bin/python", "/verif/tools/harness/impl_worker.py"], input="TREE %s %s %s 3000\n" % (d, seed, n), capture_output=True, text=True, cwd="/repo", timeout=600).stdout
parts = out.strip().split(" ")
print(parts[0:3])
for f in parts[4:]:
    k, cls, text = f.split("|", 2)
    t = unq(text)
    print("----", unq(k), cls, len(t)); print(t[:int(sys.argv[4]) if len(sys.argv) > 4 else 400])
