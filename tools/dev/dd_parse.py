import sys, collections, re, signal
sys.path.insert(0,'/verif/tools/harness')
import sqlgen, engine as E
from metasequoia_sql import SQLParser, SQLType
class Hang(BaseException): pass
def onal(a,b): raise Hang()
signal.signal(signal.SIGALRM,onal)
rng=E.Rng(7)
bad=collections.Counter(); tot=0; ok=0
def fails(t,d):
    signal.setitimer(signal.ITIMER_REAL,1.0)
    try: SQLParser.parse_statements(t, sql_type=SQLType[d]); return None
    except Hang: return 'Hang'
    except Exception as e: return type(e).__name__
    finally: signal.setitimer(signal.ITIMER_REAL,0)
for i in range(int(sys.argv[1])):
    d=rng.choice(["MYSQL","HIVE","DEFAULT"])
    g=sqlgen.Gen(rng,d,wild=False)
    t=g.stmt(); tot+=1
    k=fails(t,d)
    if k is None: ok+=1; continue
    toks=t.split(' ')
    changed=True
    while changed:
        changed=False
        for j in range(len(toks)):
            c=toks[:j]+toks[j+1:]
            if fails(' '.join(c),d)==k: toks=c; changed=True; break
    s=' '.join(toks)
    bad[(k,s)]+=1
print(ok,tot)
for (k,s),v in bad.most_common(40): print(v,k,repr(s[:100]))
