"""register the theorems of Props/C03R.lean under C03 and C01 (idempotent); usage: reg_c03r.py <props.json in> <out>"""
import json, sys
M = "MsqProofs.Props.C03R"
C03 = [
 ("C03.tstatement_any", "T-parse over the UNION of all statement fragments (FragAny = queries FragQ2 | DELETE/UPDATE/INSERT/WITH over FragQ2 (TDM2.FragStmt ⊇ TDM.FragStmt) | CREATE TABLE FragCreate | the remaining classes FragRest), every dialect: FragAny d s -> stopsAny d rest (end or ';') -> 20*sizeL(toksAny d s)+16 <= fuel -> pStatement d fuel (toksAny d s ++ rest) = ok (s, restAfter s rest) (CREATE TABLE swallows one ';' itself)"),
 ("C03.tscript_any", "scripts mixing every statement class: the renderings of ANY list of FragAny statements joined by ';' (with / without a final one) parse through parse_statements' loop with the entry point's own fuel to exactly that list (via C10.script_concat_entry)"),
 ("C03.tscript_any_loop", "the same with explicit parser fuel and loop fuel"),
 ("C03.tstatement_any_entry_fuel", "the fuel the public entry points compute dominates the bound of tstatement_any"),
 ("C03.rendering_determines_statement_any", "two statements of the union fragment with the same token rendering are equal (across classes)"),
 ("C03.tstatement_rest", "T-parse for the classes that had none: ALTER TABLE (every AlterOp of the model), DROP TABLE [IF EXISTS], TRUNCATE TABLE, MSCK REPAIR TABLE, USE, SET k=v (dotted / dashed configuration strings), ANALYZE TABLE (Hive: PARTITION + 3 flags; MySQL: bare), SHOW DATABASES / TABLES / COLUMNS FROM … [WHERE], CREATE TABLE … AS query: FragRest d s -> pStatement d fuel (toksRest d s ++ rest) = ok (s, rest)"),
 ("C03.talter", "ALTER TABLE t clause, …: ADD / DROP [IF [NOT] EXISTS] PARTITION, ADD / MODIFY / CHANGE with a column definition (all MySQL attributes), key or foreign key, RENAME COLUMN, DROP COLUMN"),
 ("C03.alter_slots", "ALTER TABLE: the parsed statement has exactly the printed clauses in order, each with its kind and arguments, and the target table"),
 ("C03.alter_clause", "_parse_alter_expression on one printed clause followed by ',' or the end of the statement returns that clause"),
 ("C03.alter_column_or_index", "_parse_column_or_index on a printed column definition / key / foreign key followed by a continuation (the DDL lemmas of TDdl* with a continuation instead of the end of a bracket segment)"),
 ("C03.tdrop_table", "DROP TABLE [IF EXISTS] t"), ("C03.ttruncate", "TRUNCATE TABLE t"), ("C03.tmsck", "MSCK REPAIR TABLE t"),
 ("C03.tuse", "USE s: any stored string, any continuation, any fuel"),
 ("C03.tset", "SET k=v with configuration strings (pieces joined by '.' / '-')"), ("C03.set_slots", "SET: key and value are the concatenations of the pieces on either side of '='"),
 ("C03.tanalyze", "ANALYZE TABLE: Hive rendering with PARTITION and every combination of FOR COLUMNS / CACHE METADATA / NOSCAN; bare MySQL rendering"),
 ("C03.analyze_slots", "ANALYZE TABLE (Hive): partition list and each flag from its own words"),
 ("C03.tshow_columns", "SHOW COLUMNS FROM t, … [WHERE e] over the tables / expressions of the larger query fragment"), ("C03.show_columns_slots", "SHOW COLUMNS: tables in order, filter in its slot"),
 ("C03.tcreate_table_as", "CREATE TABLE t AS [WITH …] <query of FragQ2>"),
 ("C03.tstatement2", "C03.tstatement LIFTED to the larger fragment (Lemmas/TDmlQ0-4, generated from TDml0-4 by tools/dev/gen_tdml2.py, namespace TDM2): DELETE / UPDATE / INSERT … VALUES / INSERT … query / [WITH …] query over FragQ2 and FragE4 (window functions, CAST, EXTRACT, IF, array index, USING, GROUPING SETS, LATERAL VIEW, SORT / DISTRIBUTE / CLUSTER BY inside data-change statements and WITH bodies)"),
 ("C03.tstatement2_ch", "the same with redundant brackets and the optional word TABLE written or not"),
 ("C03.fragStmt_sub_fragStmt2", "TDM.FragStmt ⊆ TDM2.FragStmt with equal renderings (Lemmas/TDmlQI): C03.tstatement is an instance of C03.tstatement2"),
 ("C03.fragAny_of_fragStmt", "the union fragment contains the data-change fragment of Props/C03D with the same rendering"),
 ("C03.fragAny_of_fragQ2", "the union fragment contains the queries of FragQ2 with the rendering toksQ2"),
]
C01 = [
 ("C01.statement_round_trip_tokens_any", "print / parse round trip at token level for EVERY statement class (union fragment FragAny): pStatement d fuel (toksAny d s) = ok (s, []), and whatever is parsed prints to the same tokens (#guards: the lexer on PR.prStmt's text gives toksAny for every class in MYSQL and HIVE)"),
 ("C03.tstatement_any", "T-parse over the union of all statement fragments (see C03): the parse half of the token-level round trip"),
 ("C03.tscript_any", "scripts mixing every statement class parse to exactly the list of statements (see C03)"),
]
def apply(d):
    for pid, items in (("C03", C03), ("C01", C01)):
        e = d[pid]
        if M not in e["modules"]:
            e["modules"].append(M)
        have = {(t["module"], t["name"]) for t in e["theorems"]}
        for n, w in items:
            if (M, n) not in have:
                e["theorems"].append({"module": M, "name": n, "what": w})
    return d
if __name__ == "__main__":
    src, dst = sys.argv[1], sys.argv[2]
    txt = open(src).read()
    d = apply(json.loads(txt))
    # keep the file's own formatting convention
    indent = 1
    open(dst, "w").write(json.dumps(d, indent=indent, ensure_ascii=False) + ("\n" if txt.endswith("\n") else ""))
