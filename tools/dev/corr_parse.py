import sys, collections
sys.path.insert(0,'/verif/tools/harness')
import engine as E, sqlgen
seed=int(sys.argv[1]); n=int(sys.argv[2])
rng=E.Rng(seed)
DIALECTS=["MYSQL","HIVE","ORACLE","DB2","POSTGRE_SQL","SQL_SERVER","DEFAULT"]
reqs=[]; texts=[]
for i in range(n):
    d=rng.choice(["MYSQL","HIVE","DEFAULT","DB2","HIVE","MYSQL","ORACLE"])
    g=sqlgen.Gen(rng,d)
    t=g.script()
    if i%4==0: t=sqlgen.mutate(rng,t)
    if i%9==0: t=sqlgen.mutate(rng,sqlgen.mutate(rng,t))
    if i%11==0: t=sqlgen.relayout(rng,t)
    if i%13==0: t=t.lower()
    reqs.append("P statements %s %s"%(d,E.enhex(t))); texts.append(t)
res=E.run_pairs(reqs)
kinds=collections.Counter(); bad=0
for (req,a,b),t in zip(res,texts):
    kinds[a.split(' ')[0]+(' '+a.split(' ')[1] if a.startswith('PY') or a.startswith('UNMOD') else '')]+=1
    kb=b.split(' ')[0]+(' '+b.split(' ')[1] if b.startswith('UNMOD') else '')
    if b.startswith('UNMODELLED') or a.startswith('UNMODELLED'): kinds['skip:'+kb]+=1; continue
    if a!=b:
        bad+=1
        if bad<=int(sys.argv[3]) if len(sys.argv)>3 else 5:
            # first difference
            k=next((i for i,(x,y) in enumerate(zip(a,b)) if x!=y), min(len(a),len(b)))
            print(repr(t), req.split()[2], '\n  impl :', a[max(0,k-80):k+120], '\n  model:', b[max(0,k-80):k+120])
print(n,'cases; mismatches',bad,dict(kinds))
