PATCH = {
 0: [],
 1: [
  ("""  have b6 := bd3_limit lm rest hr
  have b5 := bd3_order (ch := ch) ob _ b6
  have b2 := bd3_where (ch := ch) wh _ (bd3_mono b5 (by omega))
  simpa [toksTail, List.append_assoc] using b2""",
   """  have b6 := bd3_limit lm rest hr
  have b5 := bd3_order (ch := ch) ob _ (bd3_mono b6 (by omega))
  have b2 := bd3_where (ch := ch) wh _ (bd3_mono b5 (by omega))
  simpa [toksTail, List.append_assoc] using b2"""),
  ("""  have b6 := bd3_limit lm rest hr
  have b5 := bd3_order (ch := ch) ob _ b6
  have rW : rank "WHERE" = 3 := by decide
  intro f hf'
  simp only [toksTail, sizeL_append] at hf'
  have h1 := optOr "WHERE" (by decide) 3 (by omega) wh hwh _ (bd3_mono b5 (by omega)) f (by omega)
  have h2 := orderBy ob hob _ b6 f (by omega)
  have h3 := TS.limit lm hlm rest (b3 hr)""",
   """  have b6 := bd3_limit lm rest hr
  have b5 := bd3_order (ch := ch) ob _ (bd3_mono b6 (by omega))
  intro f hf'
  simp only [toksTail, sizeL_append] at hf'
  have h1 := optOr "WHERE" (by decide) 4 (by decide) wh hwh _ (bd3_mono b5 (by omega)) f (by omega)
  have h2 := orderBy ob hob _ (OFol.ofBd b6) (bd_comma b6) (bd_search2 b6 "ORDER" "BY" (by decide)) f (by omega)
  have h3 := limit4 lm hlm rest hr"""),
 ],
 3: [
  ("obtain ⟨dist, c, cs, fr, js, wh, gb, hv, ob, lm, rfl, _⟩ := hs", "obtain ⟨dist, c, cs, fr, lats, js, wh, gb, hv, ob, sb, db, cb, lm, rfl, _⟩ := hs"),
  ("obtain ⟨hfe, t, ws', hw, _, _, _⟩ := unionTy_parts hty", "obtain ⟨hfe, t, ws', hw, _, _⟩ := unionTy_parts hty"),
 ],
}
