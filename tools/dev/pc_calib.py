#!/usr/bin/env python3
"""calibration of the parser cost model (C19): model `PC` vs implementation `PC` on a corpus; prints the disagreements with the per-method breakdown"""
import sys, os
sys.path.insert(0, os.path.join(os.path.dirname(os.path.abspath(__file__)), "..", "harness"))
import engine as E
texts = [l.rstrip("\n") for l in open(sys.argv[1], encoding="utf-8") if l.strip()] if len(sys.argv) > 1 else []
d = sys.argv[2] if len(sys.argv) > 2 else "MYSQL"
reqs = ["PC %s %s" % (d, E.enhex(t)) for t in texts]
a = E.run_model(reqs); b = E.run_impl(reqs)
bad = [(t, x, y) for t, x, y in zip(texts, a, b) if x != y]
print("%d texts, %d disagree" % (len(texts), len(bad)))
det = E.run_impl(["PCD %s %s" % (d, E.enhex(t)) for t, _, _ in bad[:40]])
for (t, x, y), z in zip(bad[:40], det):
    print("---", t); print("   model:", x, " impl:", y); print("   ", z)
