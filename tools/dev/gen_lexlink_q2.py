#!/usr/bin/env python3
"""Derive the lexer-link node lemmas of the larger nested fragment (TQ2.FragQ2) from the finished development of TQ.FragQ.

Sources (unchanged): lean/MsqProofs/Lemmas/LexLinkQueryExpr.lean, LexLinkQueryExpr2.lean, LexLinkQuerySelect.lean, LexLinkQueryMain.lean.
Output: lean/MsqProofs/Lemmas/LexLinkQ2E1.lean, LexLinkQ2E2.lean, LexLinkQ2S.lean, LexLinkQ2M.lean (namespace LL2, which opens LexLink).

A chunk (theorem / def / structure with its doc comment) is re-derived iff it mentions a re-derived identifier (the mirror, the token
printers, the fragment, the sizes, the leaves, the records) — transitively; everything else is reused from `LexLink` through `open`.
Chunks listed in SKIP are written by hand elsewhere (LexLinkQ2N.lean / the `.in` fragments spliced below).
"""
import re, sys, os

LEM = os.path.join(os.path.dirname(__file__), "..", "..", "lean", "MsqProofs", "Lemmas")

IDMAP = {
    # mirror
    "prE3L": "prE4L", "prListLL": "prList4LL", "prList8LL": "prList84LL", "prArmsLL": "prArms4LL", "prElseLL": "prElse4LL",
    "prQL": "prQ2L", "prUnLL": "prUn2LL", "prS3L": "prS4L", "prColsLL": "prCols4LL", "refL": "ref4L", "tableL3": "table4L",
    "tablesLL": "tables4LL", "fromLL": "from4LL", "ruleL3": "rule4L", "joinL3": "join4L", "joinsLL": "joins4LL", "optLL": "opt4LL",
    "groupLL": "group4LL", "ordItemL3": "ordItem4L", "ordLL": "ord4LL", "orderLL": "order4LL",
    # token printers
    "toksE3": "toksE4", "toksArgs3": "toksArgs4", "toksArgsTail3": "toksArgsTail4", "toksArms3": "toksArms4", "toksElse3": "toksElse4",
    "toksQ": "toksQ2", "toksUn": "toksUn2", "toksS3": "toksS4", "toksCols3": "toksCols4", "toksColsTail3": "toksColsTail4",
    "toksRef3": "toksRef4", "toksTable3": "toksTable4", "toksTablesTail3": "toksTablesTail4", "toksFrom3": "toksFrom4",
    "toksRule3": "toksRule4", "toksJoin3": "toksJoin4", "toksJoins3": "toksJoins4", "toksOptE3": "toksOptE4", "toksGroup3": "toksGroup4",
    "toksOrdItem3": "toksOrdItem4", "toksOrdTail3": "toksOrdTail4", "toksOrder3": "toksOrder4",
    # fragment
    "FragE3": "FragE4", "FragL3": "FragL4", "FragA3": "FragA4", "FragO3": "FragO4", "inRhs3": "inRhs4", "isSubQ": "isSubQ4",
    "FragQ": "FragQ2", "FragUn": "FragUn2", "FragS3": "FragS4", "colsOK3": "colsOK4", "refOK3": "refOK4", "tableOK3": "tableOK4",
    "tablesOK3": "tablesOK4", "fromOK3": "fromOK4", "ruleOK3": "ruleOK4", "joinOK3": "joinOK4", "joinsOK3": "joinsOK4",
    "ordItemOK3": "ordItemOK4", "ordTailOK3": "ordTailOK4", "orderOK3": "orderOK4", "groupOK3": "groupOK4", "unionTyOK": "unionTyOK4",
    # sizes
    "szE3": "szE4", "szL3": "szL4", "szA3": "szA4", "szO3": "szO4", "szQ": "szQ2", "szUn": "szUn2", "szS3": "szS4", "szE3_pos": "szE4_pos",
    # leaves
    "leavesE": "leavesE4", "leavesL": "leavesL4", "leavesA": "leavesA4", "leavesO": "leavesO4", "leavesQ": "leavesQ2", "leavesUn": "leavesUn2",
    "leavesS": "leavesS4", "leavesCols": "leavesCols4", "leavesRef": "leavesRef4", "leavesTable": "leavesTable4",
    "leavesTables": "leavesTables4", "leavesFrom": "leavesFrom4", "leavesRule": "leavesRule4", "leavesJoin": "leavesJoin4",
    "leavesJoins": "leavesJoins4", "leavesGroup": "leavesGroup4", "leavesOrdItem": "leavesOrdItem4", "leavesOrdL": "leavesOrdL4",
    "leavesOrder": "leavesOrder4", "leavesAlias": "leavesAlias2",
    "Lv": "Lv2", "lv_nil": "lv2_nil", "lv_cons": "lv2_cons_old, lv2_cons", "lv_append": "lv2_append",
    # records
    "GE": "GE4", "GQ": "GQ4", "GS": "GS4", "GT": "GT4", "GJ": "GJ4", "GO": "GO4",
}
# names that are dirty but get no renaming (same spelling in TQ2 / re-derived under the same name)
EXTRA_DIRTY = ["joinTyOK", "szCols", "szRef", "szTable", "szTables", "szFrom", "szRule", "szJoin", "szJoins", "szGroup", "szOrdItem",
               "szOrdL", "szOrder"]

START = re.compile(r"^(@\[simp\] )?(theorem|def|structure|abbrev) ([\w.']+)")

def chunks(path):
    """[(name, text)] of the top-level declarations of a file, doc comments attached"""
    lines = open(path).read().split("\n")
    out, cur, name, doc = [], None, None, []
    def flush():
        nonlocal cur, name
        if cur is not None:
            while cur and cur[-1].strip() == "":
                cur.pop()
            out.append((name, "\n".join(cur)))
        cur, name = None, None
    i = 0
    while i < len(lines):
        l = lines[i]
        m = START.match(l)
        if m:
            flush()
            cur, name = doc + [l], m.group(3)
            doc = []
        elif l.startswith("/--"):
            flush()
            doc = [l]
            while "-/" not in lines[i]:
                i += 1
                doc.append(lines[i])
        elif re.match(r"^(section|end|variable|include|namespace|open|set_option|import|/-!)", l):
            flush()
            doc = []
            if l.startswith("/-!"):
                while "-/" not in lines[i]:
                    i += 1
        elif cur is not None:
            cur.append(l)
        i += 1
    flush()
    return out

def mentions(text, names):
    for n in names:
        if re.search(r"(?<![\w.'])" + re.escape(n) + r"(?![\w'])", text):
            return True
    return False

def rename(text):
    def sub(m):
        return IDMAP[m.group(0)]
    pat = r"(?<![\w.'])(" + "|".join(sorted(map(re.escape, IDMAP), key=len, reverse=True)) + r")(?![\w'])"
    return re.sub(pat, sub, text)

HEADER = '''import MsqProofs.Lemmas.{imp}
/-!
# {title}

GENERATED by `tools/dev/gen_lexlink_q2.py` from `{src}` (identifier map; chunks that mention no re-derived identifier are reused from
`LexLink`).  Do not edit; edit the generator or the `.in` fragments.
-/
set_option linter.unusedVariables false
set_option linter.unusedSimpArgs false
namespace LL2
open Lex Spec C05 C06 C09 Ast TP TS LexLink TQ2
open TQ (tblTok unionWords isExists)

'''

def derive(src, skip, dirty):
    """the dirty chunks of `src`, renamed; `dirty` is extended by the names of the chunks emitted (and of the skipped ones)"""
    cs = chunks(os.path.join(LEM, src))
    changed = True
    sel = set()
    while changed:
        changed = False
        for idx, (n, t) in enumerate(cs):
            if idx in sel:
                continue
            if n in skip or mentions(t, dirty):
                sel.add(idx)
                base = n
                if base not in dirty:
                    dirty.add(base)
                    changed = True
    out = []
    for idx, (n, t) in enumerate(cs):
        if idx in sel and n not in skip:
            out.append(rename(t))
    return out

def main():
    dirty = set(IDMAP) | set(EXTRA_DIRTY)
    # ---- expressions 1
    e1 = derive("LexLinkQueryExpr.lean", set(), dirty)
    with open(os.path.join(LEM, "LexLinkQ2E1.lean"), "w") as f:
        f.write(HEADER.format(imp="LexLinkQ2Defs", title="The lexer link for the larger fragment: expression nodes (operators, atoms)",
                              src="LexLinkQueryExpr.lean"))
        f.write("section\nvariable {d : Gen.D} {K : QKit}\n\n" + "\n\n".join(e1) + "\n\nend\nend LL2\n")
    # ---- expressions 2
    e2 = derive("LexLinkQueryExpr2.lean", set(), dirty)
    with open(os.path.join(LEM, "LexLinkQ2E2.lean"), "w") as f:
        f.write(HEADER.format(imp="LexLinkQ2E1", title="The lexer link for the larger fragment: calls, aggregates, CASE, value lists, sub-queries",
                              src="LexLinkQueryExpr2.lean"))
        # the record of a query precedes the section in the source
        f.write("section\nvariable {d : Gen.D} {K : QKit}\n\n" + "\n\n".join(e2) + "\n\nend\nend LL2\n")
    # ---- select: the clause lemmas that keep their shape; the others are hand-written in LexLinkQ2N.lean
    skipS = {"lv_alias", "gj_join", "cl_group", "go_item", "cl_order", "gs_select", "GO", "GJ", "joinsLL_eq", "toksJoins3_eq", "pr_joinList",
             "cl_joins", "ordLL_eq", "pr_ordList"}
    s = derive("LexLinkQuerySelect.lean", skipS, dirty)
    with open(os.path.join(LEM, "LexLinkQ2S.lean"), "w") as f:
        f.write(HEADER.format(imp="LexLinkQ2N", title="The lexer link for the larger fragment: select items, FROM items, WHERE / HAVING, set operations",
                              src="LexLinkQuerySelect.lean"))
        f.write("section\nvariable {d : Gen.D} {K : QKit}\n\n" + "\n\n".join(s) + "\n\nend\nend LL2\n")
    # ---- main: the recursion lemmas; good_S / join_rec / ords_rec / good_E are spliced from the .in file
    skipM = {"good_S", "good_all", "good_expr", "good_query", "join_rec", "joins_rec", "ords_rec", "un_rec", "good_Q", "lv_nil", "lv_cons",
             "lv_append"}
    m = derive("LexLinkQueryMain.lean", skipM, dirty)
    if not os.path.exists(os.path.join(LEM, "LexLinkQ2M.lean.in")):
        return
    frag = open(os.path.join(LEM, "LexLinkQ2M.lean.in")).read()
    pre = [c for c in m if c.startswith("theorem isSubQ_frag")]
    goodE = [c for c in m if "theorem good_E" in c]
    rest = [c for c in m if not c.startswith("theorem isSubQ_frag") and "theorem good_E" not in c]
    frag, cases = frag.split("--8<-- good_E cases\n")
    cases, tail = cases.split("--8<-- after the section\n")
    with open(os.path.join(LEM, "LexLinkQ2M.lean"), "w") as f:
        f.write(HEADER.format(imp="LexLinkQ2G", title="The lexer link for the larger fragment: the mutual induction", src="LexLinkQueryMain.lean"))
        f.write("\n\n".join(pre) + "\n\n")
        f.write("section\nvariable {d : Gen.D} {K : QKit} {n : Nat} (hK : QW2 K)\n"
                "  (ihE : ∀ e, szE4 e ≤ n → FragE4 d e = true → Lv2 d K (leavesE4 e) → GE4 d K e)\n"
                "  (ihQ : ∀ q, szQ2 q ≤ n → FragQ2 d q = true → Lv2 d K (leavesQ2 q) → GQ4 d K q)\ninclude hK ihE ihQ\n\n")
        # the derived recursion lemmas call each other with `ihE ihQ`: add hK
        body = "\n\n".join(rest)
        body = re.sub(r"\b(\w+_rec|good_S) ihE ihQ", r"\1 hK ihE ihQ", body)
        f.write(body + "\n\n" + frag + "\n" + re.sub(r"\b(\w+_rec|good_S) ihE ihQ", r"\1 hK ihE ihQ", goodE[0]).rstrip("\n") + "\n" + cases + "\nend\n\n" + tail + "\nend LL2\n")

if __name__ == "__main__":
    main()
