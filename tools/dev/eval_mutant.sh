#!/bin/bash
# usage: eval_mutant.sh <dir with patch.diff demo.py> <prop> [more props...]
# Applies the patch to a scratch worktree of /repo's HEAD, confirms (tests pass, demo fails with / passes without), then runs the given
# checks from an isolated copy of /verif against that tree (MSQ_REPO), and prints a summary.  Nothing touches /repo or /verif.
set -u
SRC=$1; shift
W=/tmp/mutrepo_$$; V=/tmp/verif_mut_$$
git -C /repo worktree add --detach -q $W HEAD || exit 9
trap 'git -C /repo worktree remove --force $W; rm -rf $V' EXIT
echo "== demo on unchanged tree"; (cd $W && PYTHONPATH=$W timeout 300 /venv/bin/python $SRC/demo.py $W >/tmp/demo_clean_$$.txt 2>&1; echo "exit=$?"; tail -2 /tmp/demo_clean_$$.txt)
git -C $W apply $SRC/patch.diff || { echo "PATCH DOES NOT APPLY to HEAD"; exit 8; }
echo "== tests with change"; (cd $W && PYTHONPATH=$W timeout 900 /venv/bin/python -m pytest -q -p no:cacheprovider --timeout=900 2>&1 | tail -1)
echo "== demo with change"; (cd $W && PYTHONPATH=$W timeout 300 /venv/bin/python $SRC/demo.py $W >/tmp/demo_mut_$$.txt 2>&1; echo "exit=$?"; tail -3 /tmp/demo_mut_$$.txt)
mkdir -p $V && rsync -a --exclude .git --exclude replays /verif/ $V/
for P in "$@"; do
  for T in ${TIERS:-quick}; do
    echo "== check $P $T"
    (cd $V && MSQ_REPO=$W VERIF_SEED=${VERIF_SEED:-1} timeout 3000 ./check $P --tier $T 2>&1 | tail -4; echo "exit=${PIPESTATUS[0]}")
    for f in $(ls $V/replays 2>/dev/null | head -3); do echo "--- replay $f"; head -c 6000 $V/replays/$f; echo; done
    rm -rf $V/replays
  done
done
rm -f /tmp/demo_clean_$$.txt /tmp/demo_mut_$$.txt
