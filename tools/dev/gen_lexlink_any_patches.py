"""hand patches for tools/dev/gen_lexlink_any.py, applied AFTER renaming (file index -> [(old, new)])"""
PATCH = {
  1: [("simp [pc, ord4LL_eq]", "simp [pc, ord4LL_eq, byL]")],
  2: [("have := hl (.col c.1 c.2) (by", "have := hl (.old (.col c.1 c.2)) (by")],
}
