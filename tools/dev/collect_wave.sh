#!/bin/bash
# usage: collect_wave.sh <wave dir> <suffix> <ids…> — store the finished changes of a wave, remove their worktrees, evaluate them together
W=$1; S=$2; shift 2
ids=""
for P in "$@"; do
  D=/verif/seeded/$P-$S
  [ -f $W/$P/_seeded/patch.diff ] || { echo "no patch for $P"; continue; }
  mkdir -p $D && cp $W/$P/_seeded/patch.diff $W/$P/_seeded/demo.py $W/$P/_seeded/meta.json $D/
  git -C /repo worktree remove --force $W/$P 2>/dev/null
  ids="$ids $P-$S"
done
cd /tmp && /verif/tools/dev/eval_all_seeded.sh $ids 2>&1 | grep -v WARNING | tail -$(echo $ids | wc -w)
