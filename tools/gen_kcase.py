#!/usr/bin/env python3
"""Generates MsqProofs/Lemmas/ParseKCase{3,3b,4,Helpers,Defs,5,E1..E6,7,,6,Stmt,Stmt2,8}.lean: the parser half of C09 in its SHARP form for
the lexer's RESERVED WORDS — token lists related by `KEL` (equal, except that a reserved word without NAME / LITERAL mark may be written in
another letter case) give results that fail alike or are EQUAL up to `kmAll` (a stored text that IS a reserved word, or the rendering of a
bracket group, may differ in letter case: that happens only where the parser stores a token it has not checked) with `KEL` rests.

The family is DERIVED from the `≈` family (`tools/gen_case.py`, ParseCase*.lean, relation `CEL` / `CER (ceq upAll)`) by identifier
substitution: `CE`→`KE`, `CEL`→`KEL`, `CER`→`KER`, …, `upE`→`kmE`, …, and `up`→`km` WHERE IT MAPS A STORED TEXT (never where the parser
TESTS a text).  Hand-written: `ParseKCase0.lean` (`km`, `kmAll` — itself derived from ParseCase0), `ParseKCase1.lean` (`KE`, token facts).
The few statements that change shape (a NAME-checked result is literally equal; a config string is a concatenation, so only `up`) are
patched below.  Run `python3 tools/gen_case.py` first if the model changed, then this script."""
import re, os, sys
LEAN = os.path.join(os.path.dirname(os.path.dirname(os.path.abspath(__file__))), "lean", "MsqProofs", "Lemmas")
rd = lambda p: open(os.path.join(LEAN, p), encoding="utf-8").read()

EXACT = {"CE": "KE", "CEL": "KEL", "CELL": "KELL", "CER": "KER", "CEX": "KEX", "ceOpt": "keOpt", "CaseF": "KCaseF", "srcRel": "ksrcRel"}
PREFIX = [("ce_", "ke_"), ("cel_", "kel_"), ("cell_", "kell_"), ("cer_", "ker_"), ("cex_", "kex_"), ("ceOpt_", "keOpt_"), ("g_", "gk_"),
          ("caseF_", "kcaseF_"), ("srcRel_", "ksrcRel_")]
EXTRA = {}          # declared names that the rules leave unchanged: suffix K (filled by the first pass)


def rn_seg(s):
    if s in EXTRA: return EXTRA[s]
    if s in EXACT: return EXACT[s]
    m = re.match(r"up([A-Z]\w*)$", s)
    if m: return "km" + m.group(1)
    for a, b in PREFIX:
        if s.startswith(a): s = b + s[len(a):]; break
    s = re.sub(r"_ce('?)$", r"_ke\1", s)
    s = re.sub(r"_ce2$", "_ke2", s)
    s = re.sub(r"_ce_eq$", "_ke_eq", s)
    return s


IDENT = re.compile(r"(?<![\w'«])[A-Za-z_][\w']*")


def subst(text, km):
    def f(m):
        s = m.group(0)
        if s == "up": return "km" if km else "up"
        return rn_seg(s)
    return IDENT.sub(f, text)


START = re.compile(r"^(theorem|def|abbrev|structure|grind_pattern|attribute|macro|elab|mutual|end\b|section|variable|include|namespace|open|import|set_option|/-|@\[)")


def pending(b):
    """the block so far consists of prefixes only (doc comment, `… in`, attribute line): the declaration is still to come"""
    for ln in b.split("\n"):
        if START.match(ln) and not (ln.startswith("/--") or ln.rstrip().endswith(" in") or re.fullmatch(r"@\[[^\]]*\]\s*", ln)):
            return False
    return True


def nodoc(b): return re.sub(r"/--.*?-/", "", b, flags=re.S)


def blocks(src):
    out, cur = [], []
    for ln in src.split("\n"):
        if START.match(ln) and cur:
            out.append("\n".join(cur)); cur = []
        cur.append(ln)
    out.append("\n".join(cur))
    merged, i = [], 0
    while i < len(out):
        b = out[i]
        while i + 1 < len(out) and pending(b):
            i += 1; b = b + "\n" + out[i]
        merged.append(b); i += 1
    return merged


def decl(b):
    m = re.search(r"^(?:@\[[^\]]*\]\s*)?(theorem|def|abbrev|structure)\s+([\w.']+)", b, re.M)
    if m: return m.group(1), m.group(2)
    m = re.search(r"^grind_pattern\s+([\w.']+)", b, re.M)
    if m: return "gp", m.group(1)
    m = re.search(r"^(?:macro|elab)\s+\"([\w']+)\"", b, re.M)
    if m: return "macro", m.group(1)
    return None, None


IMPORT = {"ParseCase2": "ParseKCase1"}


def fix_import(b):
    def f(m):
        n = m.group(1)
        return "import MsqProofs.Lemmas." + IMPORT.get(n, n.replace("ParseCase", "ParseKCase"))
    return re.sub(r"import MsqProofs\.Lemmas\.(ParseCase\w*)", f, b)


# ---------------------------------------------------------------------------------------------------------------- per-file policies
ALL = object()
# (source, imported-by-the-new-family?, blocks in which `up` maps a STORED text, replaced blocks)
G_NEW = '''/-! ### what is new for reserved-word variation: a checked token is the same; an unchecked stored source is the same up to `km` -/
theorem gk_eq_of_name {t t' : Tok} (h : KE t t') (hn : t.has NAME = true) : t = t' := ke_eq_of_name h hn
grind_pattern gk_eq_of_name => KE t t', Tok.has t NAME
theorem gk_eq_of_lit {t t' : Tok} (h : KE t t') (hn : t.has LITERAL = true) : t = t' := ke_eq_of_lit h hn
grind_pattern gk_eq_of_lit => KE t t', Tok.has t LITERAL
theorem gk_km_src {t t' : Tok} (h : KE t t') : km t.src = km t'.src := ke_km_src h
grind_pattern gk_km_src => KE t t', Tok.src t
theorem gk_up_unifyName {t t' : Tok} (h : KE t t') : up (unifyName t.src) = up (unifyName t'.src) := ke_up_unifyName h
grind_pattern gk_up_unifyName => KE t t', unifyName (Tok.src t)'''
SRCREL = '''/-- what two popped sources have in common -/
def ksrcRel (s s' : String) : Prop :=
  km s = km s' ∧ up s = up s' ∧ km (unifyName s) = km (unifyName s') ∧ up (unifyName s) = up (unifyName s') ∧ compareOp? s = compareOp? s'
@[simp, grind =] theorem ksrcRel_def (s s' : String) :
    ksrcRel s s' = (km s = km s' ∧ up s = up s' ∧ km (unifyName s) = km (unifyName s') ∧ up (unifyName s) = up (unifyName s') ∧ compareOp? s = compareOp? s') := rfl
theorem popSrc_ke2 : ∀ x0 y0, KEL x0 y0 → KER ksrcRel (popSrc x0) (popSrc y0) := by
  intro x0 y0 h
  cases x0 <;> cases y0 <;> simp_all [popSrc]
  exact ⟨ke_km_src h.1, ke_up_src h.1, ke_unifyName h.1, ke_up_unifyName h.1, ke_compareOp h.1⟩'''
POLICY = {
    "ParseCase3.lean": dict(imported=True, km={"g_unifyName", "callNode_ce", "reduceWhile_ce", "collapse_ce", "upSt_cons", "upSt_nil", "setWiths_ce"},
                            replace={"g_splitName": G_NEW, "gp:g_splitName": ""}),
    "ParseCase3b.lean": dict(imported=True, km=ALL, replace={}),
    "ParseCase4.lean": dict(imported=False, km=ALL, replace={
        "upCS": "/-- a config string is a CONCATENATION of popped sources (`a.b-c`): only the `≈` form holds for it -/\ndef kmCS : ConfigStr → ConfigStr | ⟨n, v⟩ => ⟨up n, up v⟩"}),
    "ParseCaseHelpers.lean": dict(imported=False, km=ALL, replace={}),
    "ParseCaseDefs.lean": dict(imported=False, km=ALL, replace={}),
    "ParseCase5.lean": dict(imported=False, km=ALL, replace={}),
    "ParseCase7.lean": dict(imported=False, km=ALL, replace={}),
    "ParseCase.lean": dict(imported=False, km=ALL, replace={}),
    "ParseCase6.lean": dict(imported=False, km=set(), replace={      # `genModes_find` TESTS `up m`
        "srcRel": SRCREL, "srcRel_def": "", "popSrc_ce2": "",
        "attr:up_append": "@[grind =] theorem up_appendK (a b : String) : up (a ++ b) = up a ++ up b := up_append a b"}),
    "ParseCaseStmt.lean": dict(imported=False, km=ALL, replace={}),
    "ParseCaseStmt2.lean": dict(imported=False, km=ALL, replace={}),
    "ParseCase8.lean": dict(imported=False, km=ALL, replace={}),
}
for k in range(1, 7): POLICY["ParseCaseE%d.lean" % k] = dict(imported=False, km=ALL, replace={})
ORDER = ["ParseCase3.lean", "ParseCase3b.lean", "ParseCase4.lean", "ParseCaseHelpers.lean", "ParseCaseDefs.lean", "ParseCase5.lean"] + \
        ["ParseCaseE%d.lean" % k for k in range(1, 7)] + ["ParseCase7.lean", "ParseCase.lean", "ParseCase6.lean", "ParseCaseStmt.lean",
                                                            "ParseCaseStmt2.lean", "ParseCase8.lean"]

# statements that change shape (applied to the substituted text of one block; key = new declared name)
CONFIG = {"configStringLoop_ke", "pConfigString_ke"}


def patch(name, b):
    if name == "pFuncName_ke":          # every stored part of a function name is NAME-checked: literally equal
        b = b.replace("KER (ceq (Prod.map (Option.map km) km))", "KER Eq")
    if name in ("pCall_ke", "kcaseF_pCall"):
        b = b.replace("ceq (Option.map km) x0 y0 → ceq km x1 y1 →", "x0 = y0 → x1 = y1 →")
    if name == "KCaseF":
        b = b.replace("pCall : ∀ x0 x1 x2 y0 y1 y2, ceq (Option.map km) x0 y0 → ceq km x1 y1 →", "pCall : ∀ x0 x1 x2 y0 y1 y2, x0 = y0 → x1 = y1 →")
    if name in CONFIG:
        b = b.replace("ceq km", "ceq up")
    return b


def keyof(kind, name):
    if kind == "gp": return "gp:" + name
    return name


def process(fn, final):
    pol = POLICY[fn]
    out = []
    for b in blocks(rd(fn)):
        kind, name = decl(b)
        if b.startswith("attribute [grind =] up_append"): kind, name = "attr", "up_append"
        key = ("attr:" + name) if kind == "attr" else keyof(kind, name) if name else None
        if key in pol["replace"]:
            if pol["replace"][key]: out.append(pol["replace"][key])
            continue
        km = pol["km"] is ALL or (name in pol["km"])
        nb = fix_import(subst(b, km)) if not b.startswith("import") else fix_import(b)
        if name and kind in ("theorem", "def", "abbrev", "structure", "macro"):
            nn = rn_seg(name)
            unchanged_body = (nodoc(nb) == nodoc(b))
            if pol["imported"] and unchanged_body: continue                 # reused from the old file
            if nn == name and not final: EXTRA[name] = name + "K"
            nb = patch(nn, nb)
        elif kind == "gp":
            if pol["imported"] and nodoc(nb) == nodoc(b): continue
        out.append(nb)
    return "\n".join(out)


HEADNOTE = "/-! DERIVED by tools/gen_kcase.py from %s (identifier substitution `CE`→`KE`, `CER`→`KER`, `upAll`→`kmAll`) — C09, parser half, sharp form for reserved words -/\n"
for final in (False, True):
    res = {}
    for fn in ORDER: res[fn] = process(fn, final)
for fn in ORDER:
    txt = res[fn]
    # the note goes after the imports
    lines = txt.split("\n")
    k = 0
    while k < len(lines) and (lines[k].startswith("import") or not lines[k].strip()): k += 1
    lines.insert(k, HEADNOTE % fn)
    dst = fn.replace("ParseCase", "ParseKCase")
    open(os.path.join(LEAN, dst), "w", encoding="utf-8").write("\n".join(lines).rstrip("\n") + "\n")
print("renamed with suffix K:", sorted(EXTRA))
