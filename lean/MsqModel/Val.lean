import MsqModel.Ast
import MsqModel.Gen.Static
/-!
# Generic values: the runtime objects of the Python library as data

`Val` mirrors what the reflective analyzers and the canonical dump see: class name and fields in
dataclass order, tuple vs list kept apart (C11), enums by member name.  `toVal` maps the typed trees
to it.
-/

inductive Val where
  | none
  | bool (b : Bool)
  | int (n : Int)
  | str (s : String)
  | enum (cls name : String)
  | tuple (xs : List Val)
  | list (xs : List Val)
  | node (cls : String) (fields : List (String × Val))
  deriving Repr, Inhabited

namespace Val

def ofOpt {α : Type} (f : α → Val) : Option α → Val
  | .none => .none
  | .some a => f a

def optStr : Option String → Val := ofOpt .str
def optInt : Option Int → Val := ofOpt .int
def strs (xs : List String) : Val := .tuple (xs.map .str)

end Val

namespace Ast
open Val

def RowItem.toVal : RowItem → Val
  | .current => .node "ASTWindowRowItem" [("row_type", .enum "EnumWindowRowType" "CURRENT_ROW"), ("is_unbounded", .bool false), ("row_num", .none)]
  | .unbounded p => .node "ASTWindowRowItem" [("row_type", .enum "EnumWindowRowType" (if p then "PRECEDING" else "FOLLOWING")), ("is_unbounded", .bool true), ("row_num", .none)]
  | .num n p => .node "ASTWindowRowItem" [("row_type", .enum "EnumWindowRowType" (if p then "PRECEDING" else "FOLLOWING")), ("is_unbounded", .bool false), ("row_num", .int n)]

def KwKind.cls : KwKind → String
  | .is => "ASTIsExpression" | .in_ => "ASTInExpression" | .like => "ASTLikeExpression"
  | .rlike => "ASTRlikeExpression" | .regexp => "ASTRegexpExpression"

def fnName (schema : Option String) (name : String) : Val :=
  .node "ASTFunctionNameExpression" [("schema_name", optStr schema), ("function_name", .str name)]
def alias (a : Option String) : Val := ofOpt (fun n => .node "ASTAlisaExpression" [("name", .str n)]) a
def limitVal (l : Option (Int × Option Int)) : Val :=
  ofOpt (fun (p : Int × Option Int) => .node "ASTLimitClause" [("limit", .int p.1), ("offset", optInt p.2)]) l
def tableNameVal (schema : Option String) (name : String) : Val :=
  .node "ASTTableNameExpression" [("schema_name", optStr schema), ("table_name", .str name)]

mutual
def Expr.toVal : Expr → Val
  | .column t n => .node "ASTColumnNameExpression" [("table_name", optStr t), ("column_name", .str n)]
  | .literal v => .node "ASTLiteralExpression" [("value", .str v)]
  | .wildcard t => .node "ASTWildcardExpression" [("table_name", optStr t)]
  | .func s n ps => .node "ASTNormalFunctionExpression" [("name", fnName s n), ("params", .tuple (exprs ps))]
  | .agg n ps d => .node "ASTAggregationFunction" [("name", fnName .none n), ("params", .tuple (exprs ps)), ("is_distinct", .bool d)]
  | .cast e sg ty ps => .node "ASTCastFunctionExpression" [("name", fnName .none "CAST"), ("column_expression", e.toVal),
      ("cast_type", .node "ASTCastDataType" [("signed", .bool sg), ("type", .enum "EnumCastDataType" ty),
        ("params", match ps with | .none => .none | .some l => .tuple (l.map .int))])]
  | .extract n e => .node "ASTExtractFunctionExpression" [("name", fnName .none "EXTRACT"), ("extract_name", n.toVal), ("column_expression", e.toVal)]
  | .window fn part ord rows => .node "ASTWindowExpression" [("window_function", fn.toVal), ("partition_by_columns", .tuple (exprs part)),
      ("order_by_columns", .tuple (orders ord)),
      ("row_expression", match rows with
        | .none => .none
        | .some (a, b) => .node "ASTWindowRow" [("from_row", a.toVal), ("to_row", b.toVal)])]
  | .caseCond cs e => .node "ASTCaseConditionExpression" [("cases", .tuple (arms "ASTCaseConditionItem" cs)), ("else_value", optExpr e)]
  | .caseVal v cs e => .node "ASTCaseValueExpression" [("case_value", v.toVal), ("cases", .tuple (arms "ASTCaseValueItem" cs)), ("else_value", optExpr e)]
  | .subValue vs => .node "ASTSubValueExpression" [("values", .tuple (exprs vs))]
  | .subQuery q => .node "ASTSubQueryExpression" [("statement", q.toVal)]
  | .exists_ v => .node "ASTExistsExpression" [("value", v.toVal)]
  | .index a i => .node "ASTIndexExpression" [("array", a.toVal), ("idx", i.toVal)]
  | .unary o e => .node "ASTUnaryExpression" [("operator", .node "ASTComputeOperator" [("enum", .enum "EnumComputeOperator" o)]), ("expression", e.toVal)]
  | .compute l o r => .node "ASTComputeExpression" [("before_value", l.toVal), ("after_value", r.toVal),
      ("operator", .node "ASTComputeOperator" [("enum", .enum "EnumComputeOperator" o)])]
  | .kw k n l r => .node k.cls [("is_not", .bool n), ("before_value", l.toVal), ("after_value", r.toVal)]
  | .between n b f t => .node "ASTBetweenExpression" [("is_not", .bool n), ("before_value", b.toVal), ("from_value", f.toVal), ("to_value", t.toVal)]
  | .compare o l r => .node "ASTOperatorConditionExpression" [("before_value", l.toVal), ("after_value", r.toVal),
      ("operator", .node "ASTCompareOperator" [("enum", .enum "EnumCompareOperator" o)])]
  | .not_ e => .node "ASTLogicalNotExpression" [("expression", e.toVal)]
  | .and_ l r => .node "ASTLogicalAndExpression" [("before_value", l.toVal), ("after_value", r.toVal)]
  | .xor l r => .node "ASTLogicalXorExpression" [("before_value", l.toVal), ("after_value", r.toVal)]
  | .or_ l r => .node "ASTLogicalOrExpression" [("before_value", l.toVal), ("after_value", r.toVal)]
  | .mybatis s => .node "SQLMyBatisExpression" [("mybatis_source", .str s)]
def exprs : List Expr → List Val
  | [] => []
  | e :: r => e.toVal :: exprs r
def optExpr : Option Expr → Val
  | .none => .none
  | .some e => e.toVal
def arms (cls : String) : List (Expr × Expr) → List Val
  | [] => []
  | (w, t) :: r => .node cls [("when", w.toVal), ("then", t.toVal)] :: arms cls r
def OrderItem.toVal : OrderItem → Val
  | .mk e d nf nl => .node "ASTOrderByColumn" [("column", e.toVal),
      ("order", .node "ASTOrderType" [("enum", .enum "EnumOrderType" (if d then "DESC" else "ASC"))]),
      ("nulls_first", .bool nf), ("nulls_last", .bool nl)]
def orders : List OrderItem → List Val
  | [] => []
  | o :: r => o.toVal :: orders r
def TableRef.toVal : TableRef → Val
  | .table s n => tableNameVal s n
  | .sub q => .node "ASTSubQueryExpression" [("statement", q.toVal)]
def FromTable.toVal : FromTable → Val
  | .mk t a => .node "ASTFromTable" [("name", t.toVal), ("alias", alias a)]
def fromTables : List FromTable → List Val
  | [] => []
  | t :: r => t.toVal :: fromTables r
def JoinRule.toVal : JoinRule → Val
  | .on e => .node "ASTJoinOnExpression" [("condition", e.toVal)]
  | .using f => .node "ASTJoinUsingExpression" [("using_function", f.toVal)]
def Join.toVal : Join → Val
  | .mk ty t rule => .node "ASTJoinClause" [("type", .node "ASTJoinType" [("enum", .enum "EnumJoinType" ty)]), ("table", t.toVal),
      ("rule", match rule with | .none => .none | .some r => r.toVal)]
def joins : List Join → List Val
  | [] => []
  | j :: r => j.toVal :: joins r
def exprLists : List (List Expr) → List Val
  | [] => []
  | g :: r => .tuple (exprs g) :: exprLists r
def GroupBy.toVal : GroupBy → Val
  | .mk cols sets cube rollup => .node "ASTGroupByClause" [("columns", .tuple (exprs cols)),
      ("grouping_sets", match sets with
        | .none => .none
        | .some l => .node "ASTGroupingSets" [("grouping_list", .tuple (exprLists l))]),
      ("with_cube", .bool cube), ("with_rollup", .bool rollup)]
def Lateral.toVal : Lateral → Val
  | .mk o fn v as => .node "ASTLateralViewClause" [("outer", .bool o), ("function", fn.toVal), ("view_name", .str v),
      ("alias", .node "ASTMultiAlisaExpression" [("names", strs as)])]
def laterals : List Lateral → List Val
  | [] => []
  | l :: r => l.toVal :: laterals r
def WithTable.toVal : WithTable → Val
  | .mk n q => .node "ASTWithTable" [("name", .str n), ("statement", q.toVal)]
def withTables : List WithTable → List Val
  | [] => []
  | w :: r => w.toVal :: withTables r
def withsVal : Option (List WithTable) → Val
  | .none => .none
  | .some ws => .node "ASTWithClause" [("tables", .tuple (withTables ws))]
def selectCols : List (Expr × Option String) → List Val
  | [] => []
  | (e, a) :: r => .node "ASTSelectColumn" [("value", e.toVal), ("alias", alias a)] :: selectCols r
/- the optional clauses of a SELECT are named functions (not inline `match`es) so that `Select.toVal` has a
   small defining equation: with eight inline matches Lean cannot generate its equation lemma -/
def fromClauseVal : Option (List FromTable) → Val
  | .none => .none
  | .some l => .node "ASTFromClause" [("tables", .tuple (fromTables l))]
def whereClauseVal : Option Expr → Val
  | .none => .none
  | .some e => .node "ASTWhereClause" [("condition", e.toVal)]
def groupByClauseVal : Option GroupBy → Val
  | .none => .none
  | .some g => g.toVal
def havingClauseVal : Option Expr → Val
  | .none => .none
  | .some e => .node "ASTHavingClause" [("condition", e.toVal)]
def orderByClauseVal : Option (List OrderItem) → Val
  | .none => .none
  | .some l => .node "ASTOrderByClause" [("columns", .tuple (orders l))]
def sortByClauseVal : Option (List OrderItem) → Val
  | .none => .none
  | .some l => .node "ASTSortByClause" [("columns", .tuple (orders l))]
def distributeByClauseVal : Option (List Expr) → Val
  | .none => .none
  | .some l => .node "ASTDistributeByClause" [("columns", .tuple (exprs l))]
def clusterByClauseVal : Option (List Expr) → Val
  | .none => .none
  | .some l => .node "ASTClusterByClause" [("columns", .tuple (exprs l))]
def Select.toVal : Select → Val
  | .mk ws dist cols fr lats js wh gb hv ob sb db cb lm =>
    .node "ASTSingleSelectStatement" [("with_clause", withsVal ws),
      ("select_clause", .node "ASTSelectClause" [("distinct", .bool dist), ("columns", .tuple (selectCols cols))]),
      ("from_clause", fromClauseVal fr),
      ("lateral_view_clauses", .tuple (laterals lats)),
      ("join_clauses", .tuple (joins js)),
      ("where_clause", whereClauseVal wh),
      ("group_by_clause", groupByClauseVal gb),
      ("having_clause", havingClauseVal hv),
      ("order_by_clause", orderByClauseVal ob),
      ("sort_by_clause", sortByClauseVal sb),
      ("distribute_by_clause", distributeByClauseVal db),
      ("cluster_by_clause", clusterByClauseVal cb),
      ("limit_clause", limitVal lm)]
def unionElems : List (String × Select) → List Val
  | [] => []
  | (t, s) :: r => .node "ASTUnionType" [("enum", .enum "EnumUnionType" t)] :: s.toVal :: unionElems r
def Query.toVal : Query → Val
  | .single s => s.toVal
  | .union ws s us => .node "ASTUnionSelectStatement" [("with_clause", withsVal ws), ("elements", .tuple (s.toVal :: unionElems us))]
end

end Ast

namespace Ast
open Val

def TableName.toVal (t : TableName) : Val := tableNameVal t.schema t.name

def partitionVal (p : List Expr) : Val := .node "ASTPartitionExpression" [("partitions", .tuple (exprs p))]

def ColType.toVal (t : ColType) : Val :=
  .node "ASTColumnTypeExpression" [("name", .str t.name), ("params", match t.params with | .none => .none | .some l => .tuple (exprs l))]

def GenCol.toVal (g : GenCol) : Val :=
  .node "ASTGeneratedColumn" [("expression", g.e.toVal), ("save_mode", ofOpt (.enum "EnumGenerateColumnSaveMode") g.mode)]

def DefCol.toVal (c : DefCol) : Val :=
  .node "ASTDefineColumnExpression" [("column_name", .str c.name), ("column_type", c.type.toVal), ("is_unsigned", .bool c.unsigned),
    ("is_zerofill", .bool c.zerofill), ("character_set", optStr c.charset), ("collate", optStr c.collate),
    ("generated_always_as", ofOpt GenCol.toVal c.generated), ("is_allow_null", .bool c.allowNull), ("is_not_null", .bool c.notNull),
    ("is_auto_increment", .bool c.autoInc), ("default", optExpr c.default), ("on_update", optExpr c.onUpdate), ("comment", optStr c.comment)]

def IndexCol.toVal (c : IndexCol) : Val := .node "ASTIndexColumn" [("name", .str c.name), ("max_length", optInt c.maxLen)]

def IndexKind.cls : IndexKind → String
  | .primary => "ASTPrimaryIndexExpression" | .unique => "ASTUniqueIndexExpression"
  | .normal => "ASTNormalIndexExpression" | .fulltext => "ASTFulltextIndexExpression"

def Index.toVal (i : Index) : Val :=
  .node i.kind.cls [("name", optStr i.name), ("columns", .tuple (i.cols.map IndexCol.toVal)), ("using", optStr i.usingMethod),
    ("comment", optStr i.comment), ("key_block_size", optInt i.keyBlockSize)]

def ForeignKey.toVal (f : ForeignKey) : Val :=
  .node "ASTForeignKeyExpression" [("constraint_name", .str f.constraint), ("slave_columns", strs f.slave),
    ("master_table_name", .str f.master), ("master_columns", strs f.masterCols), ("on_delete", optStr f.onDelete), ("on_update", optStr f.onUpdate)]

def ColOrIdx.toVal : ColOrIdx → Val
  | .col c => c.toVal | .idx i => i.toVal | .fk f => f.toVal

def AlterOp.toVal : AlterOp → Val
  | .addPartition b p => .node "ASTAlterAddPartitionExpression" [("if_not_exists", .bool b), ("partition", partitionVal p)]
  | .add x => .node "ASTAlterAddExpression" [("expression", x.toVal)]
  | .modify x => .node "ASTAlterModifyExpression" [("expression", x.toVal)]
  | .change f t => .node "ASTAlterChangeExpression" [("from_column_name", .str f), ("to_expression", t.toVal)]
  | .renameColumn f t => .node "ASTAlterRenameColumnExpression" [("from_column_name", .str f), ("to_column_name", .str t)]
  | .dropColumn c => .node "ASTAlterDropColumnExpression" [("column_name", .str c)]
  | .dropPartition b p => .node "ASTAlterDropPartitionExpression" [("if_exists", .bool b), ("partition", partitionVal p)]

def ConfigStr.toVal (c : ConfigStr) : Val := .node "ASTConfigStringExpression" [("name", .str c.name), ("value", .str c.value)]

def CreateTable.toVal (c : CreateTable) : Val :=
  .node "ASTCreateTableStatement" [("table_name", c.table.toVal), ("if_not_exists", .bool c.ifNotExists),
    ("columns", .tuple (c.columns.map DefCol.toVal)), ("primary_key", ofOpt Index.toVal c.primaryKey),
    ("unique_key", .tuple (c.uniqueKey.map Index.toVal)), ("key", .tuple (c.key.map Index.toVal)),
    ("fulltext_key", .tuple (c.fulltextKey.map Index.toVal)), ("foreign_key", .tuple (c.foreignKey.map ForeignKey.toVal)),
    ("partitioned_by", .tuple (c.partitionedBy.map DefCol.toVal)), ("comment", optStr c.comment), ("engine", optStr c.engine),
    ("auto_increment", optInt c.autoIncrement), ("default_charset", optStr c.defaultCharset), ("collate", optStr c.collate),
    ("row_format", optStr c.rowFormat), ("states_persistent", optStr c.statesPersistent), ("row_format_serde", optStr c.rowFormatSerde),
    ("row_format_delimited_fields_terminated_by", optStr c.rowFormatDelimited), ("stored_as_inputformat", optStr c.storedAsInputformat),
    ("stored_as_textfile", .bool c.storedAsTextfile), ("outputformat", optStr c.outputformat), ("location", optStr c.location),
    ("tblproperties", .tuple (c.tblproperties.map ConfigStr.toVal))]

def InsertHead.fields (h : InsertHead) : List (String × Val) :=
  [("with_clause", withsVal h.withs), ("insert_type", .node "ASTInsertType" [("enum", .enum "EnumInsertType" h.type)]),
   ("table_name", h.table.toVal), ("partition", ofOpt partitionVal h.partition),
   ("columns", match h.columns with
     | .none => .none
     | .some cs => .tuple (cs.map fun (t, n) => (Expr.column t n).toVal))]

def whereVal (e : Option Expr) : Val := ofOpt (fun e => .node "ASTWhereClause" [("condition", Expr.toVal e)]) e
def orderVal (l : Option (List OrderItem)) : Val := ofOpt (fun l => .node "ASTOrderByClause" [("columns", .tuple (orders l))]) l

def Stmt.toVal : Stmt → Val
  | .select q => q.toVal
  | .insertValues h vs => .node "ASTInsertValuesStatement" (h.fields ++ [("values", .tuple (vs.map fun r => (Expr.subValue r).toVal))])
  | .insertSelect h q => .node "ASTInsertSelectStatement" (h.fields ++ [("select_statement", q.toVal)])
  | .update ws t sets wh ob lm => .node "ASTUpdateStatement" [("with_clause", withsVal ws), ("table_name", t.toVal),
      ("set_clause", .node "ASTUpdateSetClause" [("columns", .tuple (sets.map fun (c, v) =>
        .node "ASTUpdateSetColumn" [("column_name", .str c), ("column_value", v.toVal)]))]),
      ("where_clause", whereVal wh), ("order_by_clause", orderVal ob), ("limit_clause", limitVal lm)]
  | .delete t wh ob lm => .node "ASTDeleteStatement" [("table_name", t.toVal), ("where_clause", whereVal wh),
      ("order_by_clause", orderVal ob), ("limit_clause", limitVal lm)]
  | .createTable c => c.toVal
  | .createTableAs t ine q => .node "ASTCreateTableAsStatement" [("table_name", t.toVal), ("if_not_exists", .bool ine), ("select_statement", q.toVal)]
  | .dropTable b t => .node "ASTDropTableStatement" [("if_exists", .bool b), ("table_name", t.toVal)]
  | .set c => .node "ASTSetStatement" [("config", c.toVal)]
  | .analyze t p fc cm ns => .node "ASTAnalyzeTableStatement" [("table_name", t.toVal), ("partition", ofOpt partitionVal p),
      ("for_columns", .bool fc), ("cache_metadata", .bool cm), ("noscan", .bool ns)]
  | .alter t ops => .node "ASTAlterTableStatement" [("table_name", t.toVal), ("expressions", .tuple (ops.map AlterOp.toVal))]
  | .msck t => .node "ASTMsckRepairTableStatement" [("table_name", t.toVal)]
  | .use s => .node "ASTUseStatement" [("schema_name", .str s)]
  | .truncate t => .node "ASTTruncateTable" [("table_name", t.toVal)]
  | .showDatabases => .node "ASTShowDatabasesStatement" []
  | .showTables => .node "ASTShowTablesStatement" []
  | .showColumns fr wh => .node "ASTShowColumnsStatement" [("from_clause", .node "ASTFromClause" [("tables", .tuple (fromTables fr))]),
      ("where_clause", whereVal wh)]

end Ast

/-! ## shape check against the generated schema, and the canonical dump -/
namespace Val

mutual
/-- every node's field names are exactly the dataclass fields of its class, in order -/
def wellShaped (fieldsOf : String → Option (List String)) : Val → Bool
  | .node cls fs => (fieldsOf cls == some (fieldNames fs)) && wellShapedF fieldsOf fs
  | .tuple xs => wellShapedL fieldsOf xs
  | .list xs => wellShapedL fieldsOf xs
  | _ => true
def wellShapedL (fieldsOf : String → Option (List String)) : List Val → Bool
  | [] => true
  | x :: r => wellShaped fieldsOf x && wellShapedL fieldsOf r
def wellShapedF (fieldsOf : String → Option (List String)) : List (String × Val) → Bool
  | [] => true
  | (_, x) :: r => wellShaped fieldsOf x && wellShapedF fieldsOf r
def fieldNames : List (String × Val) → List String
  | [] => []
  | (n, _) :: r => n :: fieldNames r
end

mutual
/-- C11(b): no mutable container anywhere -/
def immutable : Val → Bool
  | .list _ => false
  | .tuple xs => immutableL xs
  | .node _ fs => immutableF fs
  | _ => true
def immutableL : List Val → Bool
  | [] => true
  | x :: r => immutable x && immutableL r
def immutableF : List (String × Val) → Bool
  | [] => true
  | (_, x) :: r => immutable x && immutableF r
end

end Val
