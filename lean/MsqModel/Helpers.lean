import MsqModel.Val
import MsqModel.Gen.PyTables
/-!
# The five copy-and-modify helpers of `core/node.py`, at the level of generic values

`set_with_clauses` (`node.py:1300-1303, 1317-1320`), `set_table_name`, `change_type`, `append_column`,
`append_partition_by_column` (`node.py:1635-1664`).  All five start from `get_params_dict()` (`node.py:250-252`): a new
dict `field name ↦ the receiver's own field object`, change one entry and call the class with the dict.

They are modelled on `Val` and not on the typed trees because they can build objects the parser never builds (until /repo 0d6c89d
`change_type` stored a Python *list* in a field; the container is still a parameter of the model, `changeTypeWith`).  A `Val` has no identity, so the one place where identity matters is made
explicit: `params["columns"] += (column,)` rebuilds a tuple but extends a list IN PLACE, and that list is the receiver's own
field object; `appendTo` therefore returns the receiver as it is after the call next to the result.
-/
namespace Help

abbrev Fields := List (String × Val)

/-- `params[k]` -/
def dictGet : Fields → String → Option Val
  | [], _ => none
  | (n, v) :: r, k => if n == k then some v else dictGet r k

/-- `params[k] = v`: an existing key keeps its position, a new key goes to the end -/
def dictSet : Fields → String → Val → Fields
  | [], k, v => [(k, v)]
  | (n, x) :: r, k, v => if n == k then (k, v) :: r else (n, x) :: dictSet r k v

/-- `ASTSingleSelectStatement.set_with_clauses` / `ASTUnionSelectStatement.set_with_clauses` -/
def setWithClauses (self w : Val) : Except Err Val :=
  match self with
  | .node cls fs =>
    if cls == "ASTSingleSelectStatement" || cls == "ASTUnionSelectStatement" then .ok (.node cls (dictSet fs "with_clause" w))
    else .error (.py .AttributeError)
  | _ => .error (.py .AttributeError)

/-- `ASTCreateTableStatement.set_table_name` -/
def setTableName (self t : Val) : Except Err Val :=
  match self with
  | .node cls fs =>
    if cls == "ASTCreateTableStatement" then .ok (.node cls (dictSet fs "table_name" t)) else .error (.py .AttributeError)
  | _ => .error (.py .AttributeError)

/-- one iteration of the loop of `change_type` (`node.py:1645-1650`) -/
def changeColumn (hashmap : List (String × String)) (removeParam : Bool) (old : Val) : Except Err Val :=
  match old with
  | .node _ cfs =>
    match dictGet cfs "column_type" with
    | some (.node _ tfs) =>
      match dictGet tfs "name" with
      | some (.str nm) =>
        match hashmap.find? (·.1 == Gen.pyUpperS nm) with
        | none => .error (.py .KeyError)
        | some h =>
          let params := if removeParam then Val.none else (dictGet tfs "params").getD Val.none
          .ok (.node "ASTDefineColumnExpression"
                (dictSet cfs "column_type" (.node "ASTColumnTypeExpression" [("name", .str h.2), ("params", params)])))
      | _ => .error (.py .AttributeError)
    | _ => .error (.py .AttributeError)
  | _ => .error (.py .AttributeError)

def changeColumns (hashmap : List (String × String)) (removeParam : Bool) : List Val → Except Err (List Val)
  | [] => .ok []
  | c :: r =>
    match changeColumn hashmap removeParam c with
    | .error e => .error e
    | .ok c' => match changeColumns hashmap removeParam r with
      | .error e => .error e
      | .ok r' => .ok (c' :: r')

/-- `change_type` with the container the new columns are stored in as a parameter -/
def changeTypeWith (mk : List Val → Val) (self : Val) (hashmap : List (String × String)) (removeParam : Bool) : Except Err Val :=
  match self with
  | .node cls fs =>
    if cls == "ASTCreateTableStatement" then
      match dictGet fs "columns" with
      | some (.tuple cols) | some (.list cols) =>
        match changeColumns hashmap removeParam cols with
        | .error e => .error e
        | .ok cols' => .ok (.node cls (dictSet fs "columns" (mk cols')))
      | _ => .error (.py .TypeError)
    else .error (.py .AttributeError)
  | _ => .error (.py .AttributeError)

/-- `ASTCreateTableStatement.change_type`: `new_columns = []` … `params["columns"] = tuple(new_columns)`
(since /repo 0d6c89d; before, the list itself was stored — `changeTypeWith Val.list`) -/
def changeType := changeTypeWith Val.tuple

/-- `params[field] += (column,)` then the constructor call (`append_column`: `field = "columns"`,
`append_partition_by_column`: `field = "partitioned_by"`): `(result, the receiver after the call)` -/
def appendTo (field : String) (self col : Val) : Except Err (Val × Val) :=
  match self with
  | .node cls fs =>
    if cls == "ASTCreateTableStatement" then
      match dictGet fs field with
      | some (.tuple xs) => .ok (.node cls (dictSet fs field (.tuple (xs ++ [col]))), self)
      | some (.list xs) =>
        let after := Val.node cls (dictSet fs field (.list (xs ++ [col])))      -- `list.__iadd__`: the shared list grows
        .ok (after, after)
      | _ => .error (.py .TypeError)
    else .error (.py .AttributeError)
  | _ => .error (.py .AttributeError)

def appendColumn := appendTo "columns"
def appendPartitionByColumn := appendTo "partitioned_by"

/-- the class name of a node -/
def clsOf : Val → Option String
  | .node c _ => some c
  | _ => none

mutual
/-- where `hash()` fails: the field path to the first list (depth first, field order) -/
def firstList : Val → Option String
  | .list _ => some ""
  | .tuple xs => firstListL xs
  | .node _ fs => firstListF fs
  | _ => none
def firstListL : List Val → Option String
  | [] => none
  | x :: r => match firstList x with | some p => some p | none => firstListL r
def firstListF : List (String × Val) → Option String
  | [] => none
  | (n, x) :: r => match firstList x with | some p => some (if p.isEmpty then n else n ++ "." ++ p) | none => firstListF r
end

end Help
