import MsqModel.Analyze.Lineage
import MsqModel.Analyze.ColumnsSpec
/-!
# Specification of column lineage (C16): the data flow of a query, on the typed tree

`Flow` is denotational: a relation is its list of columns, each with the base columns that flow into it.

* a base table of the catalogue denotes its columns in order, each flowing from itself — `(schema, table, column)`, the
  schema being absent (`none`) when the table has none;
* a SELECT denotes, for each select item in order, the union of what flows into the column references the item's
  expression reads (`Spec.colsE`, level-local), a reference `q.c` being looked up in the relation in scope under
  the name `q`; the output name is the alias, else the column name.

`flowSelect` below is this semantics for the fragment for which `MsqProofs/Props/C16.lean` proves `lineage = Flow`:
one SELECT over base tables, every reference qualified, no wildcard.  The oracle of `tools/harness/props/c16.py`
implements the full semantics (derived tables, UNION, wildcards, unqualified-unique references, INSERT pairing).
-/
namespace Spec
open Ast LN
open AN (QCol SCol)

/-- a relation: its columns in order, each with the base columns flowing into it -/
abbrev Rel := List (String × List SrcCol)

/-- the relation a catalogue entry denotes: an absent schema stays absent -/
def baseRel (c : CreateTable) : Rel :=
  c.columns.map fun d => (d.name, [⟨c.table.schema, c.table.name, some d.name⟩])

/-- the catalogue entry a table reference denotes (the test getter strips back-quotes from the requested name) -/
def catLookup (cat : Cat) (t : StdTable) : Option CreateTable :=
  (cat.find? (·.1 == PM.unifyName (StdTable.source t))).map (·.2)

/-- the relation in scope under the name `t`: the base table that the FROM / JOIN clauses bind to `t` -/
def scopeRel (cat : Cat) (tn : List (String × StdTable)) (t : String) : Option Rel :=
  (AN.dictGet? tn t).bind fun std => (catLookup cat std).map baseRel

/-- what flows into a qualified reference `t.n` -/
def flowRef (scope : String → Option Rel) (r : QCol) : Option (List SrcCol) :=
  match r.table, r.name with
  | some t, some n => (scope t).bind fun rel => AN.dictGet? rel n
  | _, _ => none

def flowRefs (scope : String → Option Rel) : List QCol → Option (List SrcCol)
  | [] => some []
  | r :: rest => do
    let a ← flowRef scope r
    let b ← flowRefs scope rest
    pure (a ++ b)

/-- output name of a select item: alias, else column name (other unaliased expressions are outside this fragment) -/
def itemName : Expr × Option String → Option String
  | (_, some a) => some a
  | (.column _ n, none) => some n
  | _ => none

/-- **Flow of one SELECT over a scope**: output columns in order, each with the base columns that reach it -/
def flowItems (scope : String → Option Rel) : List (Expr × Option String) → Option (List (String × List SrcCol))
  | [] => some []
  | it :: rest => do
    let n ← itemName it
    let s ← flowRefs scope (colsE it.1)
    let r ← flowItems scope rest
    pure ((n, s) :: r)

/-- a catalogue table for examples and witnesses -/
def mkTable (schema : Option String) (name : String) (cols : List String) : CreateTable :=
  { table := ⟨schema, name⟩, ifNotExists := false, columns := cols.map (fun c => { name := c, type := ⟨"int", none⟩ }),
    primaryKey := none, uniqueKey := [], key := [], fulltextKey := [], foreignKey := [], partitionedBy := [], comment := none,
    engine := none, autoIncrement := none, defaultCharset := none, collate := none, rowFormat := none, statesPersistent := none,
    rowFormatSerde := none, rowFormatDelimited := none, storedAsInputformat := none, storedAsTextfile := false,
    outputformat := none, location := none, tblproperties := [] }

end Spec
