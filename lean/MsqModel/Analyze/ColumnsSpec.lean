import MsqModel.Ast
import MsqModel.Analyze.Columns
/-!
# Specification of per-clause column usage (C15), on the typed tree

* `colsE e` — the column references written in an expression *at the current query level*, in textual order with
  their qualifier: a column name (unless it is one of the dialect variables `CURRENT_DATE`, `CURRENT_TIME`,
  `CURRENT_TIMESTAMP` written without qualifier), a wildcard `*` / `t.*`, and for an aggregate whose arguments
  contain no reference one anonymous reference.  A sub-query contributes nothing (level-locality).
* `colsOf c s` — the references written in clause `c` of the SELECT `s`; an item of GROUP BY / ORDER BY that is an
  integer literal is a *position* (`⟨none, none, some k⟩`).
* `resolve items refs` — a reference that is an unqualified name equal to a select-list alias, or a position
  `1 ≤ k ≤ #items`, is replaced by the references of that select item (if an alias is given twice, the last item
  carrying it is meant); everything else is kept.
* `spec c s` — what the analysis of clause `c` must return: `colsOf c s` for the select list, JOIN and WHERE, and
  `resolve (items s) (colsOf c s)` for GROUP BY, HAVING and ORDER BY; the union is the concatenation of the six.
-/
namespace Spec
open Ast
open AN (QCol Clause)

def anon : QCol := ⟨none, none, none⟩

/-- the dialect variables (in any letter case, without qualifier): not columns -/
def isGlobal (t : Option String) (n : String) : Bool :=
  t.isNone && ["CURRENT_DATE", "CURRENT_TIME", "CURRENT_TIMESTAMP", "CURRENT DATE", "CURRENT TIME", "CURRENT TIMESTAMP"].contains (Gen.pyUpperS n)

mutual
def colsE : Expr → List QCol
  | .column t n => if isGlobal t n then [] else [⟨t, some n, none⟩]
  | .literal _ => []
  | .wildcard t => [⟨t, some "*", none⟩]
  | .func _ _ ps => colsEs ps
  | .agg _ ps _ => if (colsEs ps).length > 0 then colsEs ps else [anon]
  | .cast e _ _ _ => colsE e
  | .extract n e => colsE n ++ colsE e
  | .window fn part ord _ => colsE fn ++ colsEs part ++ colsOs ord
  | .caseCond cs els => colsArms cs ++ colsOE els
  | .caseVal v cs els => colsE v ++ colsArms cs ++ colsOE els
  | .subValue vs => colsEs vs
  | .subQuery _ => []                       -- never the columns of a nested query
  | .exists_ v => colsE v
  | .index a i => colsE a ++ colsE i
  | .unary _ e => colsE e
  | .compute l _ r => colsE l ++ colsE r
  | .kw _ _ l r => colsE l ++ colsE r
  | .between _ b f t => colsE b ++ colsE f ++ colsE t
  | .compare _ l r => colsE l ++ colsE r
  | .not_ e => colsE e
  | .and_ l r => colsE l ++ colsE r
  | .xor l r => colsE l ++ colsE r
  | .or_ l r => colsE l ++ colsE r
  | .mybatis _ => []
def colsEs : List Expr → List QCol
  | [] => []
  | e :: r => colsE e ++ colsEs r
def colsOE : Option Expr → List QCol
  | none => []
  | some e => colsE e
def colsArms : List (Expr × Expr) → List QCol
  | [] => []
  | (w, t) :: r => colsE w ++ colsE t ++ colsArms r
def colsO : OrderItem → List QCol
  | .mk e _ _ _ => colsE e
def colsOs : List OrderItem → List QCol
  | [] => []
  | o :: r => colsO o ++ colsOs r
end

def colsEss : List (List Expr) → List QCol
  | [] => []
  | g :: r => colsEs g ++ colsEss r

/-- a GROUP BY / ORDER BY item written as an integer literal is a select-list position -/
def ordinalOfExpr : Expr → Option Int
  | .literal v => (match AN.ordinalOfSource v with | .ok k => k | .error _ => none)
  | _ => none

def itemRefs (e : Expr) : List QCol :=
  match ordinalOfExpr e with
  | some k => [⟨none, none, some k⟩]
  | none => colsE e

def colsSelectItems : List (Expr × Option String) → List QCol
  | [] => []
  | (e, _) :: r => colsE e ++ colsSelectItems r

/-- a JOIN clause: the references of its ON / USING expression (a joined derived table is a nested query) -/
def colsJoin : Join → List QCol
  | .mk _ _ none => []
  | .mk _ _ (some (.on e)) => colsE e
  | .mk _ _ (some (.using f)) => colsE f
def colsJoins : List Join → List QCol
  | [] => []
  | j :: r => colsJoin j ++ colsJoins r

def colsGroupItems : List Expr → List QCol
  | [] => []
  | e :: r => itemRefs e ++ colsGroupItems r
def colsGroup : Option GroupBy → List QCol
  | none => []
  | some (.mk cols sets _ _) => colsGroupItems cols ++ (match sets with | none => [] | some l => colsEss l)
def colsOrderItems : List OrderItem → List QCol
  | [] => []
  | .mk e _ _ _ :: r => itemRefs e ++ colsOrderItems r
def colsOrder : Option (List OrderItem) → List QCol
  | none => []
  | some l => colsOrderItems l

/-- **the references written in one clause of the current level** (the union is handled by `spec`) -/
def colsOf (c : Clause) (s : Select) : List QCol :=
  match c, s with
  | .select, .mk _ _ cols _ _ _ _ _ _ _ _ _ _ _ => colsSelectItems cols
  | .join, .mk _ _ _ _ _ js _ _ _ _ _ _ _ _ => colsJoins js
  | .where_, .mk _ _ _ _ _ _ wh _ _ _ _ _ _ _ => colsOE wh
  | .group, .mk _ _ _ _ _ _ _ gb _ _ _ _ _ _ => colsGroup gb
  | .having, .mk _ _ _ _ _ _ _ _ hv _ _ _ _ _ => colsOE hv
  | .order, .mk _ _ _ _ _ _ _ _ _ ob _ _ _ _ => colsOrder ob
  | .all, s => colsOf' s
where
  colsOf' : Select → List QCol
    | .mk _ _ cols _ _ js wh gb hv ob _ _ _ _ =>
      colsSelectItems cols ++ colsJoins js ++ colsOE wh ++ colsGroup gb ++ colsOE hv ++ colsOrder ob

/-- the references of the last select item carrying alias `a` -/
def aliasRefs (items : List (Expr × Option String)) (a : String) : Option (List QCol) :=
  items.foldl (fun acc it => if it.2 == some a then some (colsE it.1) else acc) none

/-- the references of the select item at position `k` (1-based) -/
def ordinalRefs (items : List (Expr × Option String)) (k : Int) : Option (List QCol) :=
  if 1 ≤ k then (items[(k - 1).toNat]?).map (fun it => colsE it.1) else none

def resolve1 (items : List (Expr × Option String)) (r : QCol) : List QCol :=
  match r with
  | ⟨none, some n, none⟩ => (aliasRefs items n).getD [r]
  | ⟨none, none, some k⟩ => (ordinalRefs items k).getD [r]
  | _ => [r]

def resolve (items : List (Expr × Option String)) (refs : List QCol) : List QCol := refs.flatMap (resolve1 items)

/-- **what the analysis of clause `c` of the SELECT `s` must return** -/
def spec (c : Clause) (s : Select) : List QCol :=
  match c with
  | .select | .join | .where_ => colsOf c s
  | .group | .having | .order => resolve (AN.Select.cols s) (colsOf c s)
  | .all => colsOf .select s ++ colsOf .join s ++ colsOf .where_ s
      ++ resolve (AN.Select.cols s) (colsOf .group s) ++ resolve (AN.Select.cols s) (colsOf .having s)
      ++ resolve (AN.Select.cols s) (colsOf .order s)

/-- on a query: the branches of a UNION are analysed one by one -/
def specQuery (c : Clause) : Query → List QCol
  | .single s => spec c s
  | .union _ s us => spec c s ++ us.flatMap (fun p => spec c p.2)

end Spec
