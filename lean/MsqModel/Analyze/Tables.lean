import MsqModel.Val
import MsqModel.Py
import MsqModel.Gen.Schema
/-!
# Table-usage analyzers (`analyzer/base.py`, `analyzer/toolkit/all_level_standard_table.py`)

The analyzers are *reflective*: `default_handle_node` (`base.py:42-65`) visits `dataclasses.fields(obj)` of every
`ASTBase` instance in declaration order and the items of every list / tuple, and concatenates what the
overridden `handle` returns for each.  The model therefore works on the generic `Val` (class name + fields in
dataclass order, exactly what `toVal` produces), not on the typed tree: a new, renamed or re-ordered field
changes what the walk sees without any change here.

Python's class tests are modelled by comparing class names.  That is the same thing as `isinstance` as long as
(a) every dataclass of `core/node.py` is an `ASTBase`, (b) the classes that are tested for have no subclasses,
and (c) `ASTSelectStatement` has exactly its two concrete subclasses; `schemaOK` states this about the
*generated* class table and is discharged by `decide` in `MsqProofs/Props/C14.lean`.

One mutual block per analyzer class: `default_handle_node` calls back into the subclass's `handle`, so each
subclass is its own recursion.
-/
namespace AN

/-- `getattr(obj, name)` on a dataclass instance -/
def getattr : List (String × Val) → String → Except Err Val
  | [], _ => .error (.py .AttributeError)
  | (k, v) :: r, n => if k == n then .ok v else getattr r n

/-- `analyzer/node.py`: `StandardTable(schema_name=…, table_name=…)` (a frozen dataclass, dumped like any other) -/
def standardTable (schema table : Val) : Val := .node "StandardTable" [("schema_name", schema), ("table_name", table)]

/-- the class facts the name comparisons below rely on, as a predicate over the generated class table -/
def schemaOK (schema : List Gen.ClassInfo) : Bool :=
  schema.all (fun c => c.name == "ASTBase" || c.bases.contains "ASTBase")
  && schema.all (fun c => !c.bases.contains "ASTTableNameExpression")
  && schema.all (fun c => !c.bases.contains "ASTSingleSelectStatement" && !c.bases.contains "ASTUnionSelectStatement")
  && schema.all (fun c => !c.bases.contains "ASTSelectStatement" || c.name == "ASTSingleSelectStatement" || c.name == "ASTUnionSelectStatement")
  && (schema.find? (·.name == "ASTSelectStatement")).any (·.abstract)

mutual
/-- `AllUsedQuoteTables.handle` (`all_level_standard_table.py:19-25`) with the inherited
`AnalyzerRecursionASTToListBase.default_handle_node` (`base.py:50-65`) -/
def allUsedTables : Val → Except Err (List Val)
  | .node cls fs =>
    if cls == "ASTTableNameExpression" then do
      let s ← getattr fs "schema_name"
      let t ← getattr fs "table_name"
      pure [standardTable s t]
    else allUsedTablesF fs          -- `isinstance(obj, ASTBase)`: every field, in order
  | .tuple xs => allUsedTablesL xs    -- `isinstance(obj, (list, set, tuple))`
  | .list xs => allUsedTablesL xs
  | _ => pure []                      -- `None`, and anything else (`str`, `int`, `bool`, enum members)
def allUsedTablesL : List Val → Except Err (List Val)
  | [] => pure []
  | x :: r => do
    let a ← allUsedTables x
    let b ← allUsedTablesL r
    pure (a ++ b)
def allUsedTablesF : List (String × Val) → Except Err (List Val)
  | [] => pure []
  | (_, x) :: r => do
    let a ← allUsedTables x
    let b ← allUsedTablesF r
    pure (a ++ b)
end

/-- `AnalyzerSelectASTToListBase.handle_union_select_statement` (`base.py:113-121`): the loop over `node.elements` -/
def unionLoop (single : List (String × Val) → Except Err (List Val)) : List Val → Except Err (List Val)
  | [] => pure []
  | .node cls fs :: r =>
    if cls == "ASTSingleSelectStatement" then do
      let a ← single fs
      let b ← unionLoop single r
      pure (a ++ b)
    else unionLoop single r
  | _ :: r => unionLoop single r

/-- `AnalyzerSelectASTToListBase.handle` (`base.py:96-105`): `check_param_type(ASTSelectStatement)` raises `KeyError`
(`common/basic.py:43`); the final `raise AnalyzerError` is unreachable for the two concrete subclasses -/
def selectToList (single : List (String × Val) → Except Err (List Val)) : Val → Except Err (List Val)
  | .node cls fs =>
    if cls == "ASTSingleSelectStatement" then single fs
    else if cls == "ASTUnionSelectStatement" then do
      match ← getattr fs "elements" with
      | .tuple xs => unionLoop single xs
      | .list xs => unionLoop single xs
      | _ => .error (.py .TypeError)
    else .error (.py .KeyError)
  | _ => .error (.py .KeyError)

/-- `AllFromClauseUsedQuoteColumn` (`all_level_standard_table.py:28-39`) -/
def fromClauseTables : Val → Except Err (List Val) :=
  selectToList fun fs => do allUsedTables (← getattr fs "from_clause")

/-- `AllJoinClauseUsedQuoteColumn` (`all_level_standard_table.py:42-52`) -/
def joinClauseTables : Val → Except Err (List Val) :=
  selectToList fun fs => do allUsedTables (← getattr fs "join_clauses")

end AN
