import MsqModel.Ast
import MsqModel.Val
import MsqModel.Analyze.Tables
/-!
# Specification of table usage (C14), on the typed tree

`tablesOf q` lists the tables a query names in a FROM or JOIN at any nesting depth, once per occurrence and in
the order in which they are written: WITH tables first (they are written first), then the sub-queries of the
select list, the FROM items, the LATERAL VIEW arguments, the JOIN items (joined table, then its ON / USING
expression), and the sub-queries of WHERE, GROUP BY, HAVING, ORDER BY, SORT BY, DISTRIBUTE BY, CLUSTER BY;
then the UNION branches, left to right.  Schema and name are the two components of the table reference.

Nothing here looks at `Val`, class names or field names: the recursion names every place where a query can
occur.  `MsqProofs/Props/C14.lean` proves that the reflective walk over `toVal q` computes exactly this.
-/
namespace Spec
open Ast

structure Tbl where
  schema : Option String
  name : String
  deriving Repr, DecidableEq, Inhabited

/-- the `StandardTable` object for a table -/
def Tbl.toVal (t : Tbl) : Val := AN.standardTable (Val.optStr t.schema) (.str t.name)

mutual
/-- an expression names tables only inside its sub-queries -/
def tablesE : Expr → List Tbl
  | .column _ _ => []
  | .literal _ => []
  | .wildcard _ => []
  | .func _ _ ps => tablesEs ps
  | .agg _ ps _ => tablesEs ps
  | .cast e _ _ _ => tablesE e
  | .extract n e => tablesE n ++ tablesE e
  | .window fn part ord _ => tablesE fn ++ tablesEs part ++ tablesOs ord
  | .caseCond cs els => tablesArms cs ++ tablesOE els
  | .caseVal v cs els => tablesE v ++ tablesArms cs ++ tablesOE els
  | .subValue vs => tablesEs vs
  | .subQuery q => tablesQ q
  | .exists_ v => tablesE v
  | .index a i => tablesE a ++ tablesE i
  | .unary _ e => tablesE e
  | .compute l _ r => tablesE l ++ tablesE r
  | .kw _ _ l r => tablesE l ++ tablesE r
  | .between _ b f t => tablesE b ++ tablesE f ++ tablesE t
  | .compare _ l r => tablesE l ++ tablesE r
  | .not_ e => tablesE e
  | .and_ l r => tablesE l ++ tablesE r
  | .xor l r => tablesE l ++ tablesE r
  | .or_ l r => tablesE l ++ tablesE r
  | .mybatis _ => []
def tablesEs : List Expr → List Tbl
  | [] => []
  | e :: r => tablesE e ++ tablesEs r
def tablesOE : Option Expr → List Tbl
  | none => []
  | some e => tablesE e
def tablesArms : List (Expr × Expr) → List Tbl
  | [] => []
  | (w, t) :: r => tablesE w ++ tablesE t ++ tablesArms r
def tablesO : OrderItem → List Tbl
  | .mk e _ _ _ => tablesE e
def tablesOs : List OrderItem → List Tbl
  | [] => []
  | o :: r => tablesO o ++ tablesOs r
/-- a table reference: the table itself, or the tables of the derived table's query -/
def tablesRef : TableRef → List Tbl
  | .table s n => [⟨s, n⟩]
  | .sub q => tablesQ q
def tablesFT : FromTable → List Tbl
  | .mk t _ => tablesRef t
def tablesFTs : List FromTable → List Tbl
  | [] => []
  | t :: r => tablesFT t ++ tablesFTs r
def tablesRule : JoinRule → List Tbl
  | .on e => tablesE e
  | .using f => tablesE f
def tablesJ : Join → List Tbl
  | .mk _ t rule => tablesFT t ++ (match rule with | none => [] | some r => tablesRule r)
def tablesJs : List Join → List Tbl
  | [] => []
  | j :: r => tablesJ j ++ tablesJs r
def tablesEss : List (List Expr) → List Tbl
  | [] => []
  | g :: r => tablesEs g ++ tablesEss r
def tablesG : GroupBy → List Tbl
  | .mk cols sets _ _ => tablesEs cols ++ (match sets with | none => [] | some l => tablesEss l)
def tablesLat : Lateral → List Tbl
  | .mk _ fn _ _ => tablesE fn
def tablesLats : List Lateral → List Tbl
  | [] => []
  | l :: r => tablesLat l ++ tablesLats r
def tablesW : WithTable → List Tbl
  | .mk _ q => tablesQ q
def tablesWs : List WithTable → List Tbl
  | [] => []
  | w :: r => tablesW w ++ tablesWs r
def tablesWiths : Option (List WithTable) → List Tbl
  | none => []
  | some ws => tablesWs ws
def tablesCols : List (Expr × Option String) → List Tbl
  | [] => []
  | (e, _) :: r => tablesE e ++ tablesCols r
def tablesOFTs : Option (List FromTable) → List Tbl
  | none => []
  | some l => tablesFTs l
def tablesOG : Option GroupBy → List Tbl
  | none => []
  | some g => tablesG g
def tablesOOs : Option (List OrderItem) → List Tbl
  | none => []
  | some l => tablesOs l
def tablesOEs : Option (List Expr) → List Tbl
  | none => []
  | some l => tablesEs l
/-- one SELECT: the clauses in the order in which they are written -/
def tablesS : Select → List Tbl
  | .mk ws _ cols fr lats js wh gb hv ob sb db cb _ =>
    tablesWiths ws ++ tablesCols cols ++ tablesOFTs fr ++ tablesLats lats ++ tablesJs js
      ++ tablesOE wh ++ tablesOG gb ++ tablesOE hv ++ tablesOOs ob ++ tablesOOs sb ++ tablesOEs db ++ tablesOEs cb
def tablesU : List (String × Select) → List Tbl
  | [] => []
  | (_, s) :: r => tablesS s ++ tablesU r
def tablesQ : Query → List Tbl
  | .single s => tablesS s
  | .union ws s us => tablesWiths ws ++ tablesS s ++ tablesU us
end

/-- **all-levels table usage** of a query -/
def tablesOf (q : Query) : List Tbl := tablesQ q

/-- the tables reachable through the FROM clause of one SELECT branch -/
def fromOfSelect : Select → List Tbl
  | .mk _ _ _ fr _ _ _ _ _ _ _ _ _ _ => tablesOFTs fr
/-- the tables reachable through the JOIN clauses of one SELECT branch -/
def joinOfSelect : Select → List Tbl
  | .mk _ _ _ _ _ js _ _ _ _ _ _ _ _ => tablesJs js

/-- the top-level SELECT branches of a query, left to right -/
def branches : Query → List Select
  | .single s => [s]
  | .union _ s us => s :: us.map (·.2)

/-- **FROM-only variant**: for each top-level branch, the tables reachable through its FROM clause -/
def fromTablesOf (q : Query) : List Tbl := (branches q).flatMap fromOfSelect
/-- **JOIN-only variant** -/
def joinTablesOf (q : Query) : List Tbl := (branches q).flatMap joinOfSelect

end Spec
