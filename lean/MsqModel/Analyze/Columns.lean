import MsqModel.Val
import MsqModel.Py
import MsqModel.Print
import MsqModel.Parse.Prim
import MsqModel.Analyze.Tables
/-!
# Per-clause column usage (`analyzer/toolkit/current_level_used_quote_columns.py`,
# `analyzer/toolkit/current_level_column_analyzer.py`)

`CurrentNodeUsedQuoteColumn.handle` is again the reflective walk of `analyzer/base.py` with special cases by
class.  Everything below the clause level is modelled on the generic `Val` (`nodeColsV`): aggregates, wildcards,
column names, the stop at sub-queries, and the default recursion over the fields in dataclass order.

Two of the special cases (`ASTGroupByClause`, `ASTOrderByClause`) test whether an item is an integer literal and read its
text, which is simplest on the typed tree.  These two, and the statement skeleton above them
(`ASTSingleSelectStatement`, whose fields are walked in dataclass order), are therefore transcribed on the typed tree
(`nodeColsSelect` …).  Inside expression values
neither clause class can occur outside a sub-query (where the walk stops), so `nodeColsV` reports them as
outside its fragment rather than guessing.
-/
namespace AN
open Ast

/-- `analyzer/node.py`: `QuoteColumn(table_name, column_name, column_idx)` -/
structure QCol where
  table : Option String
  name : Option String
  idx : Option Int
  deriving Repr, DecidableEq, Inhabited

def QCol.toVal (c : QCol) : Val :=
  .node "QuoteColumn" [("table_name", Val.optStr c.table), ("column_name", Val.optStr c.name), ("column_idx", Val.optInt c.idx)]

/-- `analyzer/node.py`: `StandardColumn(column_idx, column_name)` -/
structure SCol where
  idx : Int
  name : String
  deriving Repr, DecidableEq, Inhabited

def SCol.toVal (c : SCol) : Val := .node "StandardColumn" [("column_idx", .int c.idx), ("column_name", .str c.name)]

/-- a field that must be `None` or a `str` -/
def optStrOf : Val → Except Err (Option String)
  | .none => .ok none
  | .str s => .ok (some s)
  | _ => .error (.unmodelled "name field that is neither None nor str")

/-- `node.table_name is None and node.column_name.upper() in name_set.GLOBAL_VARIABLE_NAME_SET` (`:35-36`) -/
def isGlobalVariable (t : Option String) (c : String) : Bool := t.isNone && Gen.globalVarNames.contains (Gen.pyUpperS c)

mutual
/-- `CurrentNodeUsedQuoteColumn.handle` (`current_level_used_quote_columns.py:21-65`) on values below the clause level -/
def nodeColsV : Val → Except Err (List QCol)
  | .node cls fs =>
    if cls == "ASTAggregationFunction" then do
      -- COUNT(1): an aggregate whose arguments use no column gives one reference without a name
      let l ← nodeColsF fs
      if l.length > 0 then pure l else pure [⟨none, none, none⟩]
    else if cls == "ASTWildcardExpression" then do
      let t ← optStrOf (← getattr fs "table_name")
      pure [⟨t, some "*", none⟩]
    else if cls == "ASTColumnNameExpression" then do
      let t ← optStrOf (← getattr fs "table_name")
      match ← getattr fs "column_name" with
      | .str c => if isGlobalVariable t c then nodeColsF fs else pure [⟨t, some c, none⟩]
      | _ => .error (.unmodelled "column_name that is not a str")
    else if cls == "ASTGroupByClause" || cls == "ASTOrderByClause" then
      .error (.unmodelled "GROUP BY / ORDER BY clause inside an expression value")
    else if cls == "ASTSubQueryExpression" || cls == "ASTWithClause" then pure []     -- sub-queries and WITH tables are not entered
    else nodeColsF fs
  | .tuple xs => nodeColsL xs
  | .list xs => nodeColsL xs
  | _ => pure []
def nodeColsL : List Val → Except Err (List QCol)
  | [] => pure []
  | x :: r => do
    let a ← nodeColsV x
    let b ← nodeColsL r
    pure (a ++ b)
def nodeColsF : List (String × Val) → Except Err (List QCol)
  | [] => pure []
  | (_, x) :: r => do
    let a ← nodeColsV x
    let b ← nodeColsF r
    pure (a ++ b)
end

/-- `is_int_literal(s)` (`^[+-]?\d+$`) followed by `int(s)`: `some n` for an ordinal.  On texts that pass the test
`int()` is the value of the digits with the sign.  Python's `\d` also accepts non-ASCII decimal digits; such texts are
outside the modelled fragment. -/
def ordinalOfSource (s : String) : Except Err (Option Int) :=
  let cs := s.toList
  let b := PM.intBody cs
  if PM.isIntLiteral s then
    .ok (some (if cs.head? == some '-' then -(Int.ofNat (PM.digitsVal b)) else Int.ofNat (PM.digitsVal b)))
  else if !b.isEmpty && b.all (fun c => c.isDigit || c.toNat ≥ 128) then .error (.unmodelled "non-ASCII digits in an ordinal")
  else .ok none

/-- one item of GROUP BY (`:41-47`) / ORDER BY (`:52-58`): a position only if the item is an integer *literal* -/
def ordinalOrCols (e : Expr) (v : Val) : Except Err (List QCol) :=
  match e with
  | .literal s => do
    match ← ordinalOfSource s with
    | some n => pure [⟨none, none, some n⟩]
    | none => nodeColsV v
  | _ => nodeColsV v

def groupItems : List Expr → Except Err (List QCol)
  | [] => pure []
  | e :: r => do
    let a ← ordinalOrCols e e.toVal
    let b ← groupItems r
    pure (a ++ b)

/-- the `ASTGroupByClause` case (`:38-47`) -/
def nodeColsGroup : Option GroupBy → Except Err (List QCol)
  | none => pure []
  | some (.mk cols sets _ _) => do
    let a ← groupItems cols
    let b ← nodeColsV (match sets with | none => Val.none | some l => .node "ASTGroupingSets" [("grouping_list", .tuple (exprLists l))])
    pure (a ++ b)

def orderItems : List OrderItem → Except Err (List QCol)
  | [] => pure []
  | .mk e d nf nl :: r => do
    let a ← ordinalOrCols e (OrderItem.mk e d nf nl).toVal
    let b ← orderItems r
    pure (a ++ b)

/-- the `ASTOrderByClause` case (`:50-58`) -/
def nodeColsOrder : Option (List OrderItem) → Except Err (List QCol)
  | none => pure []
  | some l => orderItems l

def selectClauseVal (dist : Bool) (cols : List (Expr × Option String)) : Val :=
  .node "ASTSelectClause" [("distinct", .bool dist), ("columns", .tuple (selectCols cols))]

/-- `handle(ASTSingleSelectStatement)`: no special case applies, so the fields are walked in dataclass order; the
`with_clause` field is an `ASTWithClause` (or `None`) and contributes nothing -/
def nodeColsSelect : Select → Except Err (List QCol)
  | .mk _ dist cols fr lats js wh gb hv ob sb db cb lm => do
    let a1 ← nodeColsV (selectClauseVal dist cols)
    let a2 ← nodeColsV (fromClauseVal fr)
    let a3 ← nodeColsV (.tuple (laterals lats))
    let a4 ← nodeColsV (.tuple (joins js))
    let a5 ← nodeColsV (whereClauseVal wh)
    let a6 ← nodeColsGroup gb
    let a7 ← nodeColsV (havingClauseVal hv)
    let a8 ← nodeColsOrder ob
    let a9 ← nodeColsV (sortByClauseVal sb)
    let a10 ← nodeColsV (distributeByClauseVal db)
    let a11 ← nodeColsV (clusterByClauseVal cb)
    let a12 ← nodeColsV (limitVal lm)
    pure (a1 ++ a2 ++ a3 ++ a4 ++ a5 ++ a6 ++ a7 ++ a8 ++ a9 ++ a10 ++ a11 ++ a12)

/-! ## `current_level_column_analyzer.py` -/

/-- Python `dict` as an association list in insertion order: `d[k] = v` -/
def dictSet {κ ν : Type} [BEq κ] : List (κ × ν) → κ → ν → List (κ × ν)
  | [], k, v => [(k, v)]
  | (k', v') :: r, k, v => if k' == k then (k', v) :: r else (k', v') :: dictSet r k v
def dictGet? {κ ν : Type} [BEq κ] (d : List (κ × ν)) (k : κ) : Option ν := (d.find? (·.1 == k)).map (·.2)

/-- `CurrentLevelColumnAliasToQuoteHash.handle_single_select_statement` (`:37-46`) -/
def aliasHash : List (Expr × Option String) → List (QCol × List QCol) → Except Err (List (QCol × List QCol))
  | [], acc => pure acc
  | (e, some a) :: r, acc => do
    let v ← nodeColsV e.toVal
    aliasHash r (dictSet acc ⟨none, some a, none⟩ v)
  | (_, none) :: r, acc => aliasHash r acc

/-- `CurrentLevelColumnIndexToQuoteHash.handle_single_select_statement` (`:58-66`): keys are 1-based -/
def indexHash : List (Expr × Option String) → Nat → List (QCol × List QCol) → Except Err (List (QCol × List QCol))
  | [], _, acc => pure acc
  | (e, _) :: r, i, acc => do
    let v ← nodeColsV e.toVal
    indexHash r (i + 1) (dictSet acc ⟨none, none, some (Int.ofNat (i + 1))⟩ v)

def Select.cols : Select → List (Expr × Option String)
  | .mk _ _ cols _ _ _ _ _ _ _ _ _ _ _ => cols

/-- one step of the loop of `_format_quote_columns` (`:84-89`): alias first, then ordinal, else unchanged -/
def formatOne (ah ih : List (QCol × List QCol)) (c : QCol) : List QCol :=
  match dictGet? ah c with
  | some l => l
  | none => match dictGet? ih c with
    | some l => l
    | none => [c]

/-- the loop of `_format_quote_columns` (`:83-89`) -/
def formatLoop (ah ih : List (QCol × List QCol)) : List QCol → List QCol
  | [] => []
  | c :: r => formatOne ah ih c ++ formatLoop ah ih r

/-- `CurrentQuoteColumnAnalyzerBase._format_quote_columns` (`:75-89`) -/
def formatQuoteColumns (quote : List QCol) (s : Select) : Except Err (List QCol) := do
  let ah ← aliasHash (Select.cols s) []
  let ih ← indexHash (Select.cols s) 0 []
  pure (formatLoop ah ih quote)

inductive Clause | all | select | join | where_ | group | having | order
  deriving Repr, DecidableEq

def Clause.ofName? : String → Option Clause
  | "all" => some .all | "select" => some .select | "join" => some .join | "where" => some .where_
  | "group" => some .group | "having" => some .having | "order" => some .order | _ => none

/-- the argument of `_format_quote_columns` in the seven `handle_single_select_statement`s (`:97-152`):
`CurrentNodeUsedQuoteColumn.handle(node)` resp. `handle(node.<clause>)` -/
def clauseCols (c : Clause) (s : Select) : Except Err (List QCol) :=
  match c, s with
  | .all, s => nodeColsSelect s
  | .select, .mk _ dist cols _ _ _ _ _ _ _ _ _ _ _ => nodeColsV (selectClauseVal dist cols)
  | .join, .mk _ _ _ _ _ js _ _ _ _ _ _ _ _ => nodeColsV (.tuple (joins js))
  | .where_, .mk _ _ _ _ _ _ wh _ _ _ _ _ _ _ => nodeColsV (whereClauseVal wh)
  | .group, .mk _ _ _ _ _ _ _ gb _ _ _ _ _ _ => nodeColsGroup gb
  | .having, .mk _ _ _ _ _ _ _ _ hv _ _ _ _ _ => nodeColsV (havingClauseVal hv)
  | .order, .mk _ _ _ _ _ _ _ _ _ ob _ _ _ _ => nodeColsOrder ob

def currentColsSelect (c : Clause) (s : Select) : Except Err (List QCol) := do
  let q ← clauseCols c s
  formatQuoteColumns q s

def currentColsUnion (c : Clause) : List (String × Select) → Except Err (List QCol)
  | [] => pure []
  | (_, s) :: r => do
    let a ← currentColsSelect c s
    let b ← currentColsUnion c r
    pure (a ++ b)

/-- `Current*UsedQuoteColumn.handle(select statement)` via `AnalyzerSelectASTToListBase.handle` (`base.py:96-121`) -/
def currentCols (c : Clause) : Query → Except Err (List QCol)
  | .single s => currentColsSelect c s
  | .union _ s us => do
    let a ← currentColsSelect c s
    let b ← currentColsUnion c us
    pure (a ++ b)

/-- on a statement: `check_param_type(ASTSelectStatement)` raises `KeyError` for anything else -/
def currentColsStmt (c : Clause) : Stmt → Except Err (List QCol)
  | .select q => currentCols c q
  | _ => .error (.py .KeyError)

/-- `CurrentColumnSelectToDirectQuoteHash.handle_single_select_statement` (`:164-177`): output column → references;
the index is 0-based here -/
def selectHashLoop : List (Expr × Option String) → Nat → List (SCol × List QCol) → Except Err (List (SCol × List QCol))
  | [], _, acc => pure acc
  | (e, a) :: r, i, acc => do
    let name ← (match a, e with
      | some a, _ => pure a
      | none, .column _ n => pure n
      | none, e => PR.prE .DEFAULT e)
    let v ← nodeColsV e.toVal
    selectHashLoop r (i + 1) (dictSet acc ⟨Int.ofNat i, name⟩ v)

def selectHashSelect (s : Select) : Except Err (List (SCol × List QCol)) := selectHashLoop (Select.cols s) 0 []

/-- `collector.update(d)` -/
def dictUpdate {κ ν : Type} [BEq κ] (d : List (κ × ν)) : List (κ × ν) → List (κ × ν)
  | [] => d
  | (k, v) :: r => dictUpdate (dictSet d k v) r

def selectHashUnion : List (String × Select) → List (SCol × List QCol) → Except Err (List (SCol × List QCol))
  | [], acc => pure acc
  | (_, s) :: r, acc => do
    let d ← selectHashSelect s
    selectHashUnion r (dictUpdate acc d)

/-- `CurrentColumnSelectToDirectQuoteHash.handle` via `AnalyzerSelectASTToDictBase.handle` (`base.py:68-93`) -/
def selectHash : Stmt → Except Err (List (SCol × List QCol))
  | .select (.single s) => selectHashSelect s
  | .select (.union _ s us) => do
    let d ← selectHashSelect s
    selectHashUnion us (dictUpdate [] d)
  | _ => .error (.py .KeyError)

end AN
